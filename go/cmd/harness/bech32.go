package main

import (
	"errors"
	"strconv"
	"strings"

	"github.com/wollac/iota-crypto-demo/pkg/bech32"
)

const b32charset = "qpzry9x8gf2tvdw0s3jn54khce6mua7l"

func bech32Err(err error) string {
	off := "-"
	var se *bech32.SyntaxError
	if errors.As(err, &se) {
		off = itoa(se.Offset)
	}
	k := "other"
	switch {
	case errors.Is(err, bech32.ErrInvalidLength):
		k = "length"
	case errors.Is(err, bech32.ErrMissingSeparator):
		k = "missing-sep"
	case errors.Is(err, bech32.ErrInvalidSeparator):
		k = "sep"
	case errors.Is(err, bech32.ErrInvalidCharacter):
		k = "char"
	case errors.Is(err, bech32.ErrMixedCase):
		k = "case"
	case errors.Is(err, bech32.ErrInvalidChecksum):
		k = "checksum"
	case err.Error() == "invalid length": // base32.ErrInvalidLength (internal package, distinct value)
		k = "b32length"
	case err.Error() == "non-zero padding":
		k = "padding"
	}
	return "err " + k + " " + off
}

func init() {
	execs["bech32.enc"] = func(a []string) string {
		s, err := bech32.Encode(string(unhx(a[0])), unhx(a[1]))
		if err != nil {
			if s != "" {
				return "err-with-string"
			}
			return bech32Err(err)
		}
		return "ok " + hx([]byte(s))
	}
	execs["bech32.dec"] = func(a []string) string {
		hrp, data, err := bech32.Decode(string(unhx(a[0])))
		if err != nil {
			if hrp != "" || data != nil {
				return "err-with-data"
			}
			return bech32Err(err)
		}
		return "ok " + hx([]byte(hrp)) + " " + hx(data)
	}
	execs["utf8.starts"] = func(a []string) string {
		var idx []string
		for i := range string(unhx(a[0])) {
			idx = append(idx, strconv.Itoa(i))
		}
		return "ok " + strings.Join(idx, ",")
	}
	gens["C04"] = genC04
	gens["C05"] = genC05
	gens["C16"] = genC16
}

// ---- reference helpers (harness-side generators only; never used as an oracle)

func polymodRef(values []byte) uint32 {
	gen := []uint32{0x3b6a57b2, 0x26508e6d, 0x1ea119fa, 0x3d4233dd, 0x2a1462b3}
	chk := uint32(1)
	for _, v := range values {
		b := chk >> 25
		chk = (chk&0x1ffffff)<<5 ^ uint32(v)
		for i := 0; i < 5; i++ {
			if (b>>uint(i))&1 == 1 {
				chk ^= gen[i]
			}
		}
	}
	return chk
}

// withChecksum renders hrp + "1" + chars(syms ++ checksum) for ARBITRARY 5-bit symbols.
func withChecksum(hrp string, syms []byte) string {
	low := strings.ToLower(hrp)
	var v []byte
	for i := 0; i < len(low); i++ {
		v = append(v, low[i]>>5)
	}
	v = append(v, 0)
	for i := 0; i < len(low); i++ {
		v = append(v, low[i]&31)
	}
	v = append(v, syms...)
	pm := polymodRef(append(v, 0, 0, 0, 0, 0, 0)) ^ 1
	out := []byte(hrp + "1")
	for _, s := range syms {
		out = append(out, b32charset[s])
	}
	for i := 0; i < 6; i++ {
		out = append(out, b32charset[(pm>>uint(5*(5-i)))&31])
	}
	return string(out)
}

func (g *G) hrp(n int) string {
	b := make([]byte, n)
	mode := g.r.intn(3) // lower, upper, no letters
	for i := range b {
		for {
			c := byte(33 + g.r.intn(94))
			if mode == 0 && c >= 'A' && c <= 'Z' {
				continue
			}
			if mode == 1 && c >= 'a' && c <= 'z' {
				continue
			}
			if mode == 2 && ((c >= 'a' && c <= 'z') || (c >= 'A' && c <= 'Z')) {
				continue
			}
			b[i] = c
			break
		}
	}
	return string(b)
}

func genC05(g *G) {
	genStates(g, func(string) {}, func(hrp string, syms []byte) {
		if len(syms)%8 == 0 {
			g.emit("bech32.enc", hx([]byte(hrp)), hx(symsToBytes(syms)))
		}
	})
	// all data lengths 0..51 x hrp lengths straddling the 90 limit
	for dl := 0; dl <= 52; dl++ {
		syms := (dl*8 + 4) / 5
		limit := 90 - 7 - syms // largest hrp length that fits
		for _, hl := range []int{0, 1, 2, limit - 1, limit, limit + 1, limit + 2, 83, 84} {
			if hl < 0 {
				continue
			}
			for k := 0; k < 2; k++ {
				g.emit("bech32.enc", hx([]byte(g.hrp(hl))), hx(g.r.bytes(dl)))
			}
		}
	}
	// boundary bytes in every position class
	for dl := 0; dl <= 11; dl++ {
		for _, fill := range []byte{0x00, 0xff, 0x80, 0x01, 0xaa, 0x55} {
			d := make([]byte, dl)
			for i := range d {
				d[i] = fill
			}
			g.emit("bech32.enc", hx([]byte("a")), hx(d))
		}
	}
	// invalid hrps: empty, mixed, non printable, non-ASCII, with separator inside
	for _, h := range []string{"", "aB", "Ab1", "a b", "a\x7f", "a\x1f", "\x80", "é", "a\xffb", "K", "1", "a1b", "A1B", "11", "~", "!"} {
		g.emit("bech32.enc", hx([]byte(h)), hx(g.r.bytes(g.r.intn(8))))
	}
	n := 1500
	if g.thorough {
		n = 60000
	}
	for i := 0; i < n; i++ {
		hl := 1 + g.r.intn(12)
		if g.r.intn(8) == 0 {
			hl = 1 + g.r.intn(84)
		}
		h := []byte(g.hrp(hl))
		if g.r.intn(12) == 0 && len(h) > 0 { // sprinkle an invalid byte / a case clash
			h[g.r.intn(len(h))] = []byte{0x20, 0x7f, 0x80, 0xc3, 'a', 'Z', 0x00}[g.r.intn(7)]
		}
		g.emit("bech32.enc", hx(h), hx(g.r.bytes(g.r.intn(52))))
	}
}

// genUTF8 exercises the model of `for i := range s` (Go.runeStarts) that the translated encoding.decode uses: strings
// made of ASCII, well-formed 2/3/4-byte sequences, every boundary of the second-byte ranges, truncated sequences,
// stray continuation bytes and bytes that never start a sequence.
func genUTF8(g *G) {
	pieces := [][]byte{
		{0x41}, {0x7f}, {0x00}, {0xc2, 0x80}, {0xdf, 0xbf}, {0xe0, 0xa0, 0x80}, {0xe1, 0x80, 0x80}, {0xec, 0xbf, 0xbf},
		{0xed, 0x9f, 0xbf}, {0xee, 0x80, 0x80}, {0xef, 0xbf, 0xbf}, {0xf0, 0x90, 0x80, 0x80}, {0xf1, 0x80, 0x80, 0x80},
		{0xf3, 0xbf, 0xbf, 0xbf}, {0xf4, 0x8f, 0xbf, 0xbf}, {0xe2, 0x84, 0xaa},
		// ill-formed: out-of-range second bytes, overlong forms, surrogates, too large, bad lead bytes
		{0xe0, 0x9f, 0x80}, {0xed, 0xa0, 0x80}, {0xf0, 0x8f, 0x80, 0x80}, {0xf4, 0x90, 0x80, 0x80}, {0xc0, 0x80}, {0xc1, 0xbf},
		{0xf5, 0x80, 0x80, 0x80}, {0xff}, {0xfe}, {0x80}, {0xbf}, {0xc2}, {0xc2, 0x7f}, {0xc2, 0xc0}, {0xe1, 0x80}, {0xe1, 0x80, 0x7f},
		{0xe1, 0x80, 0xc0}, {0xf1, 0x80, 0x80}, {0xf1, 0x80, 0x80, 0x7f}, {0xf1, 0x80, 0x80, 0xc0}, {0xf1, 0x7f}, {0xe1, 0xc0},
	}
	for _, p := range pieces {
		g.emit("utf8.starts", hx(p))
	}
	g.emit("utf8.starts", hx(nil))
	n := 400
	if g.thorough {
		n = 6000
	}
	for k := 0; k < n; k++ {
		var s []byte
		for c := g.r.intn(6); c >= 0; c-- {
			switch g.r.intn(4) {
			case 0:
				s = append(s, g.r.bytes(1+g.r.intn(3))...)
			case 1:
				p := pieces[g.r.intn(len(pieces))]
				s = append(s, p[:1+g.r.intn(len(p))]...) // possibly truncated
			default:
				s = append(s, pieces[g.r.intn(len(pieces))]...)
			}
		}
		g.emit("utf8.starts", hx(s))
	}
	// every two-byte string whose first byte is not ASCII (thorough), sampled otherwise
	for a := 0x80; a < 0x100; a++ {
		for b := 0; b < 0x100; b++ {
			if g.thorough || g.r.intn(16) == 0 {
				g.emit("utf8.starts", hx([]byte{byte(a), byte(b), 0x41}))
			}
		}
	}
}

func genC04(g *G) {
	genUTF8(g)
	if genGenBech32 != nil {
		genGenBech32(g)
	}
	emit := func(s string) { g.emit("bech32.dec", hx([]byte(s))) }
	// every 5-bit symbol sequence length 0..84 with a correct checksum: all padding patterns of the last symbol
	for n := 0; n <= 84; n++ {
		for rep := 0; rep < 2; rep++ {
			syms := make([]byte, n)
			for i := range syms {
				syms[i] = byte(g.r.intn(32))
			}
			hrp := g.hrp(1 + g.r.intn(3))
			if n+len(hrp)+7 > 90 && rep == 0 {
				hrp = hrp[:1]
			}
			if n == 0 {
				emit(withChecksum(hrp, syms))
				continue
			}
			for last := 0; last < 32; last++ {
				if !g.thorough && rep == 1 && last%5 != 0 {
					continue
				}
				syms[n-1] = byte(last)
				emit(withChecksum(hrp, syms))
			}
		}
	}
	rounds := 1500
	if g.thorough {
		rounds = 60000
	}
	for i := 0; i < rounds; i++ {
		hrp := g.hrp(1 + g.r.intn(10))
		data := g.r.bytes(g.r.intn(40))
		s, err := bech32.Encode(hrp, data)
		if err != nil {
			continue
		}
		b := []byte(s)
		kind := g.r.intn(12)
		if kind == 1 || kind == 2 || kind == 3 || kind == 9 {
			// the variant is presented IMMEDIATELY AFTER a successful decode of the string it was made from (seeded change
			// C04-h: a one-entry memo of the last successful decode, looked up by a case-folding comparison): Decode must be a
			// function of its argument alone
			emit(s)
		}
		switch kind {
		case 0: // untouched
		case 1: // upper / lower the whole string
			if g.r.bool() {
				b = []byte(strings.ToUpper(s))
			} else {
				b = []byte(strings.ToLower(s))
			}
		case 2: // flip the case of one letter
			p := g.r.intn(len(b))
			if b[p] >= 'a' && b[p] <= 'z' {
				b[p] -= 32
			} else if b[p] >= 'A' && b[p] <= 'Z' {
				b[p] += 32
			}
		case 3: // substitute 1-2 characters by charset characters
			for k := 0; k <= g.r.intn(2); k++ {
				b[g.r.intn(len(b))] = b32charset[g.r.intn(32)]
			}
		case 4: // substitute by an arbitrary byte
			b[g.r.intn(len(b))] = byte(g.r.next())
		case 5: // insert
			p := g.r.intn(len(b) + 1)
			b = append(b[:p:p], append([]byte{b32charset[g.r.intn(32)]}, b[p:]...)...)
		case 6: // delete
			p := g.r.intn(len(b))
			b = append(b[:p:p], b[p+1:]...)
		case 7: // truncate
			b = b[:g.r.intn(len(b)+1)]
		case 8: // extra separators / separator games
			p := g.r.intn(len(b))
			b[p] = '1'
		case 9: // non-ASCII look-alikes whose Go case mapping lands in ASCII, at a data position
			rep := []string{"K", "İ", "ſ", "ı", "\xff", "\xc3\x28", "é", "ẞ"}[g.r.intn(8)]
			p := g.r.intn(len(b))
			b = append(b[:p:p], append([]byte(rep), b[p+1:]...)...)
		case 10: // over-long
			for len(b) <= 90+g.r.intn(5) {
				b = append(b, 'q')
			}
		case 11: // random bytes
			b = g.r.bytes(g.r.intn(20))
		}
		emit(string(b))
	}
	// U+212A (-> k), U+0130 (-> i... not in charset), U+017F (-> S upper) at EVERY data position of a valid string
	for _, base := range []string{"A1QQQQTK27V5", "a1qqqqtk27v5", "A12UEL5L", "an83characterlonghumanreadablepartthatcontainsthenumber1andtheexcludedcharactersbio1tt5tgs"} {
		for p := 0; p < len(base); p++ {
			for _, rep := range []string{"K", "İ", "ſ", "ß", "\x80", "\xfe"} {
				emit(base[:p] + rep + base[p+1:])
			}
		}
	}
	for _, s := range []string{"", "1", "a1", "11", "1qqqqqq", "a1qqqqq", "a1qqqqqq", "\x801qqqqqq", " 1nwldj5", "\x7f1axkwrx", "pzry9x0s0muk", "1pzry9x0s0muk", "x1b4n0q5v", "li1dgmt3", "de1lg7wt\xff", "A1G7SGD8", "10a06t8", "1qzzfhee"} {
		emit(s)
	}
}

// polymodLinear is the linear part of the Bech32 checksum: the polymod of a symbol vector started from 0 instead of 1,
// so that polymod(x xor e) = polymod(x) xor polymodLinear(e) for equal-length x, e.
func polymodLinear(v []byte) uint32 {
	gen := [5]uint32{0x3b6a57b2, 0x26508e6d, 0x1ea119fa, 0x3d4233dd, 0x2a1462b3}
	var chk uint32
	for _, x := range v {
		b := chk >> 25
		chk = (chk&0x1ffffff)<<5 ^ uint32(x)
		for i := 0; i < 5; i++ {
			if (b>>uint(i))&1 == 1 {
				chk ^= gen[i]
			}
		}
	}
	return chk
}

// syndromePatterns finds error patterns of weight <= 4 on the last `window` symbols of a code word whose syndrome is one
// of the wanted values (meet in the middle over pairs). Such a pattern turns a valid string into one that an
// implementation comparing the checksum modulo that value — a masked comparison, a second accepted constant — accepts.
func syndromePatterns(window int, wanted []uint32) map[uint32][][2][2]int {
	contrib := make([][32]uint32, window) // contrib[p][v]: value v at distance p from the end
	for p := 0; p < window; p++ {
		for v := 1; v < 32; v++ {
			e := make([]byte, p+1)
			e[0] = byte(v)
			contrib[p][v] = polymodLinear(e)
		}
	}
	type pair struct{ p, v, q, w int }
	pairs := map[uint32]pair{}
	for p := 0; p < window; p++ {
		for q := p + 1; q < window; q++ {
			for v := 1; v < 32; v++ {
				for w := 1; w < 32; w++ {
					pairs[contrib[p][v]^contrib[q][w]] = pair{p, v, q, w}
				}
			}
		}
	}
	out := map[uint32][][2][2]int{}
	for _, d := range wanted {
		n := 0
		for s1, a := range pairs {
			b, ok := pairs[s1^d]
			if !ok || a.p == b.p || a.p == b.q || a.q == b.p || a.q == b.q {
				continue
			}
			out[d] = append(out[d], [2][2]int{{a.p, a.v}, {a.q, a.w}}, [2][2]int{{b.p, b.v}, {b.q, b.w}})
			if n++; n >= 2 {
				break
			}
		}
	}
	return out
}

// solve6 returns the six 5-bit symbols s with polymodLinear(s) == want (the map is a linear bijection on 30 bits).
func solve6(want uint32) [6]byte {
	// basis: bit b of symbol p
	var cols [30]uint32
	for p := 0; p < 6; p++ {
		for b := 0; b < 5; b++ {
			var v [6]byte
			v[p] = 1 << uint(b)
			cols[p*5+b] = polymodLinear(v[:])
		}
	}
	// Gaussian elimination over GF(2): find x with XOR of cols[i] (x_i = 1) == want
	type row struct {
		val  uint32
		comb uint32 // which columns were combined
	}
	var piv [30]*row
	for i := 0; i < 30; i++ {
		r := row{cols[i], 1 << uint(i)}
		for bit := 29; bit >= 0; bit-- {
			if r.val>>uint(bit)&1 == 0 {
				continue
			}
			if piv[bit] == nil {
				rr := r
				piv[bit] = &rr
				break
			}
			r.val ^= piv[bit].val
			r.comb ^= piv[bit].comb
		}
	}
	var comb uint32
	for bit := 29; bit >= 0; bit-- {
		if want>>uint(bit)&1 == 1 {
			if piv[bit] == nil {
				panic("solve6: not a bijection")
			}
			want ^= piv[bit].val
			comb ^= piv[bit].comb
		}
	}
	var out [6]byte
	for i := 0; i < 30; i++ {
		if comb>>uint(i)&1 == 1 {
			out[i/5] |= 1 << uint(i%5)
		}
	}
	return out
}

// hrpExpandRef is the checksum input for the (lower-case) human-readable part.
func hrpExpandRef(low string) []byte {
	var v []byte
	for i := 0; i < len(low); i++ {
		v = append(v, low[i]>>5)
	}
	v = append(v, 0)
	for i := 0; i < len(low); i++ {
		v = append(v, low[i]&31)
	}
	return v
}

// statePrefixes returns human-readable parts (length n >= 7, characters 0x60..0x7e) after whose expansion the checksum
// accumulator has the value `target` — 0, 1, all ones: values an implementation that carries the accumulator from part
// to part could confuse with "not started" or mishandle.
func statePrefixes(g *G, n int, target uint32, count int) []string {
	var out []string
	for tries := 0; len(out) < count && tries < 200; tries++ {
		b := make([]byte, n)
		for i := range b {
			b[i] = byte('a' + g.r.intn(26))
		}
		for i := n - 6; i < n; i++ {
			b[i] = 0x60 // low five bits zero
		}
		base := polymodRef(hrpExpandRef(string(b)))
		s := solve6(base ^ target)
		ok := true
		for i := 0; i < 6; i++ {
			if s[i] == 31 {
				ok = false // 0x7f is not a valid character of the human-readable part
			}
			b[n-6+i] = 0x60 | s[i]
		}
		if ok && polymodRef(hrpExpandRef(string(b))) == target {
			out = append(out, string(b))
		}
	}
	return out
}

// stateData returns data symbols (length n >= 6) after which the accumulator for the given prefix has the value target.
func stateData(g *G, hrp string, n int, target uint32) []byte {
	syms := make([]byte, n)
	for i := 0; i < n-6; i++ {
		syms[i] = byte(g.r.intn(32))
	}
	base := polymodRef(append(hrpExpandRef(strings.ToLower(hrp)), syms...))
	s := solve6(base ^ target)
	copy(syms[n-6:], s[:])
	return syms
}

// genStates: code words whose checksum computation passes through a distinguished accumulator value at a part boundary
// (after the human-readable part, after the data symbols), and the neighbouring strings obtained by the substitution
// that moves the accumulator between 0 and 1 there.
func genStates(g *G, emitDec func(string), emitEnc func(hrp string, syms []byte)) {
	per := 2
	if g.thorough {
		per = 6
	}
	for _, target := range []uint32{0, 1, 0x3fffffff, 2, 1 << 29, 0x2bc830a3} {
		for _, hl := range []int{7, 8, 12, 30} {
			for _, hrp := range statePrefixes(g, hl, target, per) {
				for _, dn := range []int{0, 1, 8, 20} {
					if len(hrp)+7+dn > 90 {
						continue
					}
					syms := make([]byte, dn)
					for i := range syms {
						syms[i] = byte(g.r.intn(32))
					}
					w := withChecksum(hrp, syms)
					emitDec(w)
					emitEnc(hrp, syms)
					// the same data part under the neighbouring prefix (last character, lowest bit)
					nb := []byte(w)
					nb[len(hrp)-1] ^= 1
					if nb[len(hrp)-1] >= 0x60 && nb[len(hrp)-1] < 0x7f {
						emitDec(string(nb))
					}
				}
			}
		}
		// the accumulator reaches the value after the data symbols
		for k := 0; k < per; k++ {
			hrp := g.hrp(1 + g.r.intn(6))
			if hrp != strings.ToLower(hrp) && hrp != strings.ToUpper(hrp) {
				continue
			}
			for _, dn := range []int{8, 16, 40} { // multiples of 8 symbols: whole bytes, no padding
				syms := stateData(g, hrp, dn, target)
				emitDec(withChecksum(hrp, syms))
				emitEnc(hrp, syms)
			}
		}
	}
}

// symsToBytes packs 5-bit symbols (a multiple of 8 of them) into bytes.
func symsToBytes(syms []byte) []byte {
	var out []byte
	acc, bits := 0, 0
	for _, s := range syms {
		acc = acc<<5 | int(s)
		bits += 5
		for bits >= 8 {
			out = append(out, byte(acc>>uint(bits-8)))
			bits -= 8
		}
	}
	return out
}

func genC16Targeted(g *G) {
	genStates(g, func(s string) { g.emit("bech32.dec", hx([]byte(s))) }, func(string, []byte) {})
	window := 24
	if g.thorough {
		window = 40
	}
	// differences between the required final value and values a faulty comparison could also accept: a dropped bit, the
	// four top bits in every combination (26-bit masks), the BIP-350 (Bech32m) constant
	var wanted []uint32
	for i := 0; i < 30; i++ {
		wanted = append(wanted, 1<<uint(i))
	}
	for m := uint32(2); m < 16; m++ {
		wanted = append(wanted, m<<26)
	}
	wanted = append(wanted, 1^0x2bc830a3)
	pats := syndromePatterns(window, wanted)
	for _, hl := range []int{1, 4} {
		dl := (window*5+7)/8 + 2
		s, err := bech32.Encode(g.hrp(hl), g.r.bytes(dl))
		if err != nil {
			continue
		}
		for _, d := range wanted {
			ps := pats[d]
			for i := 0; i+1 < len(ps); i += 2 {
				m := []byte(strings.ToLower(s))
				for _, half := range ps[i : i+2] {
					for _, pv := range half {
						at := len(m) - 1 - pv[0]
						m[at] = b32charset[strings.IndexByte(b32charset, m[at])^pv[1]]
					}
				}
				g.emit("bech32.dec", hx(m))
			}
		}
	}
}

func genC16(g *G) {
	genC16Targeted(g)
	emit := func(s []byte) { g.emit("bech32.dec", hx(s)) }
	bases := 6
	if g.thorough {
		bases = 60
	}
	sub := func(c byte) byte { // a different charset character in the same case
		up := c >= 'A' && c <= 'Z'
		for {
			n := b32charset[g.r.intn(32)]
			if up {
				n = strings.ToUpper(string(n))[0]
			}
			if n != c {
				return n
			}
		}
	}
	for bi := 0; bi < bases; bi++ {
		hl := 1 + g.r.intn(8)
		if bi%5 == 4 {
			hl = 20 + g.r.intn(40)
		}
		maxData := (90 - 7 - hl) * 5 / 8
		dl := g.r.intn(maxData + 1)
		if bi%3 == 0 {
			dl = maxData // longest code words: errors anywhere in the 89-symbol window
		}
		s, err := bech32.Encode(g.hrp(hl), g.r.bytes(dl))
		if err != nil {
			continue
		}
		base := []byte(s)
		emit(base)
		dstart := strings.LastIndex(s, "1") + 1
		npos := len(base) - dstart
		// all weight-1 substitutions in the data part
		for p := dstart; p < len(base); p++ {
			for k := 0; k < 32; k++ {
				c := b32charset[k]
				if base[p] >= 'A' && base[p] <= 'Z' {
					c = strings.ToUpper(string(c))[0]
				}
				if c == base[p] {
					continue
				}
				m := append([]byte(nil), base...)
				m[p] = c
				emit(m)
			}
		}
		// weight 2: all position pairs (thorough: all symbol pairs for a window; quick: sampled symbols)
		for p := 0; p < npos; p++ {
			for q := p + 1; q < npos; q++ {
				reps := 1
				if g.thorough && bi < 4 {
					reps = 12
				}
				for r := 0; r < reps; r++ {
					m := append([]byte(nil), base...)
					m[dstart+p] = sub(base[dstart+p])
					m[dstart+q] = sub(base[dstart+q])
					emit(m)
				}
			}
		}
		// sampled weight 3 and 4, plus hrp same-kind substitutions within a total weight of 4
		n34 := 2000
		if g.thorough {
			n34 = 30000
		}
		for i := 0; i < n34; i++ {
			m := append([]byte(nil), base...)
			w := 3 + g.r.intn(2)
			used := map[int]bool{}
			for len(used) < w {
				var p int
				if g.r.intn(4) == 0 { // an hrp position, same-kind substitution if possible
					p = g.r.intn(dstart - 1)
					c := base[p]
					var n byte
					switch {
					case c >= 'a' && c <= 'z':
						n = byte('a' + g.r.intn(26))
					case c >= 'A' && c <= 'Z':
						n = byte('A' + g.r.intn(26))
					case c >= '0' && c <= '9' && c != '1':
						n = byte('0' + g.r.intn(10))
						if n == '1' { // would move the separator only if after the last '1' — keep clear of it
							n = '2'
						}
					default:
						continue
					}
					if n == c || used[p] {
						continue
					}
					m[p] = n
					used[p] = true
					continue
				}
				p = dstart + g.r.intn(npos)
				if used[p] {
					continue
				}
				m[p] = sub(base[p])
				used[p] = true
			}
			emit(m)
		}
	}
}
