// Command harness is the implementation side of the correspondence check: it
// generates operation lines for one property (all random choices derive from one
// splitmix64 state seeded by -seed), executes every operation against the real
// packages of /repo in-process (panics recovered, optional per-op timeout) and
// writes the op lines and the canonical result lines to two files.  The Lean
// driver is fed the same op lines; `check` diffs the result streams.
package main

import (
	"bufio"
	"encoding/hex"
	"encoding/json"
	"flag"
	"fmt"
	"os"
	"sort"
	"strconv"
	"strings"
	"sync/atomic"
	"time"
)

// ---------------------------------------------------------------- PRNG

type rng struct{ s uint64 }

func (r *rng) next() uint64 {
	r.s += 0x9e3779b97f4a7c15
	z := r.s
	z = (z ^ (z >> 30)) * 0xbf58476d1ce4e5b9
	z = (z ^ (z >> 27)) * 0x94d049bb133111eb
	return z ^ (z >> 31)
}
func (r *rng) intn(n int) int {
	if n <= 0 {
		return 0
	}
	return int(r.next() % uint64(n))
}
func (r *rng) bytes(n int) []byte {
	b := make([]byte, n)
	for i := range b {
		b[i] = byte(r.next())
	}
	return b
}
func (r *rng) bool() bool { return r.next()&1 == 1 }

// ---------------------------------------------------------------- registry

type G struct {
	r        *rng
	thorough bool
	emit     func(op string, args ...string)
}

// mirrorOps: ops that are emitted a second time under another name (answered by the generated code on the Lean side)
var mirrorOps = map[string]string{}

var gens = map[string]func(g *G){}
var execs = map[string]func(a []string) string{}

// slow ops get a timeout (a hang is an observable outcome, not a stuck harness)
var opTimeout = map[string]time.Duration{}

// ---------------------------------------------------------------- encoding helpers

func hx(b []byte) string {
	if len(b) == 0 {
		return "_"
	}
	return hex.EncodeToString(b)
}
func unhx(s string) []byte {
	if s == "_" {
		return []byte{}
	}
	b, err := hex.DecodeString(s)
	if err != nil {
		panic("harness: bad hex " + s)
	}
	return b
}
func csvInt8(t []int8) string {
	if len(t) == 0 {
		return "_"
	}
	p := make([]string, len(t))
	for i, v := range t {
		p[i] = strconv.Itoa(int(v))
	}
	return strings.Join(p, ",")
}
func uncsvInt8(s string) []int8 {
	if s == "_" {
		return []int8{}
	}
	p := strings.Split(s, ",")
	t := make([]int8, len(p))
	for i, x := range p {
		v, err := strconv.Atoi(x)
		if err != nil {
			panic("harness: bad csv")
		}
		t[i] = int8(v)
	}
	return t
}
func csvU32(t []uint32) string {
	if len(t) == 0 {
		return "_"
	}
	p := make([]string, len(t))
	for i, v := range t {
		p[i] = strconv.FormatUint(uint64(v), 10)
	}
	return strings.Join(p, ",")
}
func uncsvU32(s string) []uint32 {
	if s == "_" {
		return []uint32{}
	}
	p := strings.Split(s, ",")
	t := make([]uint32, len(p))
	for i, x := range p {
		v, err := strconv.ParseUint(x, 10, 32)
		if err != nil {
			panic("harness: bad csv")
		}
		t[i] = uint32(v)
	}
	return t
}

// ---------------------------------------------------------------- execution

func run(op string, args []string) (res string) {
	f, ok := execs[op]
	if !ok {
		return "bad-op"
	}
	call := func() (r string) {
		defer func() {
			if e := recover(); e != nil {
				r = "panic"
			}
		}()
		return f(args)
	}
	// every op runs under a timeout: an implementation that hangs is an outcome ("timeout"), not a stuck check.
	// (The goroutine of a timed-out op cannot be killed; it is left behind.)
	d, ok := opTimeout[op]
	if !ok {
		d = defaultOpTimeout
	}
	ch := make(chan string, 1)
	go func() { ch <- call() }()
	timer := time.NewTimer(d)
	defer timer.Stop()
	select {
	case r := <-ch:
		return r
	case <-timer.C:
		return "timeout"
	}
}

const defaultOpTimeout = 120 * time.Second

// pending records, before a call that could take the whole process down (a panic in a goroutine started by the
// implementation cannot be recovered), what is being called, so that ./check can name the failing call.
var pendingPath string

func pending(desc string) {
	if pendingPath != "" {
		os.WriteFile(pendingPath, []byte(desc+"\n"), 0o644)
	}
}

// progress watchdog: generators call the implementation too (to build valid inputs); if nothing at all has been
// emitted for a long time the process says so and exits instead of blocking the check for hours.
var lastProgress int64

func startWatchdog() {
	atomic.StoreInt64(&lastProgress, time.Now().Unix())
	go func() {
		for {
			time.Sleep(30 * time.Second)
			if idle := time.Now().Unix() - atomic.LoadInt64(&lastProgress); idle > 15*60 {
				fmt.Fprintf(os.Stderr, "harness: no progress for %d s (an implementation call made by a generator does not return)\n", idle)
				os.Exit(3)
			}
		}
	}()
}

func class(res string) string {
	f := strings.Fields(res)
	if len(f) == 0 {
		return "empty"
	}
	if f[0] == "err" && len(f) > 1 {
		return "err:" + f[1]
	}
	if i := strings.Index(res, "err="); i >= 0 {
		return "err=" + strings.Fields(res[i+4:])[0]
	}
	if i := strings.IndexAny(f[0], "=:"); i >= 0 {
		return f[0][:i]
	}
	// a value (a digest, a signature, an encoded string …) is one class, not one class per value: the histogram is
	// about outcomes, and the evidence file must stay small
	if len(f[0]) >= 8 && strings.Trim(f[0], "0123456789abcdefABCDEF") == "" {
		return "value"
	}
	if len(f[0]) > 32 {
		return f[0][:32] + "…"
	}
	return f[0]
}

func main() {
	prop := flag.String("prop", "", "property id (generator to run)")
	tier := flag.String("tier", "quick", "quick|thorough")
	seed := flag.Uint64("seed", 1, "PRNG seed")
	opsOut := flag.String("ops", "", "write op lines here")
	implOut := flag.String("impl", "", "write implementation result lines here")
	statsOut := flag.String("stats", "", "write generator statistics (JSON) here")
	replay := flag.String("replay", "", "execute the op lines of this file instead of generating")
	flag.StringVar(&pendingPath, "pending", "", "file that names the implementation call in progress (read by ./check if the process dies)")
	flag.Parse()

	var ow, iw *bufio.Writer
	open := func(p string) *bufio.Writer {
		if p == "" {
			return bufio.NewWriter(os.Stdout)
		}
		f, err := os.Create(p)
		if err != nil {
			fmt.Fprintln(os.Stderr, err)
			os.Exit(2)
		}
		return bufio.NewWriterSize(f, 1<<20)
	}
	iw = open(*implOut)
	defer iw.Flush()

	opCount := map[string]int{}
	clsCount := map[string]int{}
	distinct := map[string]struct{}{}
	nontrivial := map[string]struct{}{}
	total := 0
	var samples []string
	startWatchdog()
	do := func(op string, args []string) {
		atomic.StoreInt64(&lastProgress, time.Now().Unix())
		line := op
		if len(args) > 0 {
			line += " " + strings.Join(args, " ")
		}
		res := run(op, args)
		if ow != nil {
			ow.WriteString(line)
			ow.WriteByte('\n')
		}
		iw.WriteString(res)
		iw.WriteByte('\n')
		total++
		opCount[op]++
		c := op + "/" + class(res)
		clsCount[c]++
		if clsCount[c] <= 2 && len(samples) < 40 {
			s := line + " => " + res
			if len(s) > 300 {
				s = s[:300] + "…"
			}
			samples = append(samples, s)
		}
		if _, ok := distinct[line]; !ok {
			distinct[line] = struct{}{}
			// non-trivial: the op got past argument parsing and is not the first-guard rejection
			if res != "bad-op" && !strings.HasPrefix(res, "err size") && !strings.HasPrefix(res, "err length") {
				nontrivial[line] = struct{}{}
			}
		}
	}

	if *replay != "" {
		f, err := os.Open(*replay)
		if err != nil {
			fmt.Fprintln(os.Stderr, err)
			os.Exit(2)
		}
		sc := bufio.NewScanner(f)
		sc.Buffer(make([]byte, 1<<20), 1<<26)
		for sc.Scan() {
			fs := strings.Fields(sc.Text())
			if len(fs) == 0 || strings.HasPrefix(fs[0], "#") {
				continue
			}
			do(fs[0], fs[1:])
		}
	} else {
		gen, ok := gens[*prop]
		if !ok {
			fmt.Fprintln(os.Stderr, "harness: no generator for", *prop)
			os.Exit(2)
		}
		ow = open(*opsOut)
		defer ow.Flush()
		g := &G{r: &rng{s: *seed*0x2545F4914F6CDD1D + 0x1234567}, thorough: *tier == "thorough"}
		g.emit = func(op string, args ...string) {
			do(op, args)
			// the public Bech32 entry points are also answered by the GENERATED Encode / Decode (Iota/Gen/Bech32.lean,
			// namespace api) on the Lean side: same arguments, same reply format
			if m, ok := mirrorOps[op]; ok {
				do(m, args)
			}
		}
		gen(g)
	}

	if *statsOut != "" {
		keys := make([]string, 0, len(clsCount))
		for k := range clsCount {
			keys = append(keys, k)
		}
		sort.Strings(keys)
		hist := map[string]int{}
		for _, k := range keys {
			hist[k] = clsCount[k]
		}
		st := map[string]interface{}{
			"evaluations":         total,
			"distinct":            len(distinct),
			"distinct_nontrivial": len(nontrivial),
			"ops":                 opCount,
			"branch_histogram":    hist,
			"samples":             samples,
		}
		b, _ := json.MarshalIndent(st, "", " ")
		os.WriteFile(*statsOut, b, 0o644)
	}
}
