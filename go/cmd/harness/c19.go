package main

import (
	"errors"
	"fmt"
	"strconv"
	"strings"

	"github.com/iotaledger/iota.go/consts"
	igb1t6 "github.com/iotaledger/iota.go/encoding/b1t6"
	"github.com/wollac/iota-crypto-demo/pkg/bech32"
	"github.com/wollac/iota-crypto-demo/pkg/bech32/address"
	"github.com/wollac/iota-crypto-demo/pkg/ed25519"
	"github.com/wollac/iota-crypto-demo/pkg/migration"
	"golang.org/x/crypto/blake2b"
)

var addrHRPs = []string{"iota", "atoi", "smr", "rms"}

func addrParseStr(s string) string {
	p, a, err := address.ParseBech32(s)
	if err != nil {
		switch {
		case errors.Is(err, address.ErrInvalidPrefix):
			return "err prefix"
		case errors.Is(err, address.ErrInvalidVersion):
			return "err version"
		case errors.Is(err, address.ErrInvalidLength):
			return "err length"
		case strings.HasPrefix(err.Error(), "invalid bech32 encoding"):
			return "err bech32"
		}
		return "err other"
	}
	b := a.Bytes()
	if byte(a.Version()) != b[0] {
		return "version-mismatch"
	}
	re, err := address.Bech32(p, a)
	res := ""
	if err != nil {
		res = bech32Err(err)
	} else {
		res = hx([]byte(re))
	}
	return fmt.Sprintf("ok %d %d %s re=%s", int(p), b[0], hx(b[1:]), res)
}

func init() {
	execs["addr.parse"] = func(a []string) string { return addrParseStr(string(unhx(a[0]))) }
	execs["addr.enc"] = func(a []string) string {
		p, _ := strconv.Atoi(a[0])
		v, _ := strconv.Atoi(a[1])
		hash := unhx(a[2])
		// addresses can only be built from a key / output id or by parsing: go through ParseBech32
		s0, err := bech32.Encode(addrHRPs[p], append([]byte{byte(v)}, hash...))
		if err != nil {
			return "harness-encode-failed"
		}
		_, addr, err := address.ParseBech32(s0)
		if err != nil {
			return "harness-parse-failed"
		}
		s, err := address.Bech32(address.Prefix(p), addr)
		if err != nil {
			return bech32Err(err)
		}
		return hx([]byte(s)) + " back=" + addrParseStr(s)
	}
	execs["addr.frompk"] = func(a []string) string {
		return hx(address.AddressFromPublicKey(ed25519.PublicKey(unhx(a[0]))).Bytes())
	}
	execs["addr.fromoutput"] = func(a []string) string {
		var o [address.OutputIDLength]byte
		copy(o[:], unhx(a[0]))
		return hx(address.AliasAddressFromOutputID(o).Bytes()) + " " + hx(address.NFTAddressFromOutputID(o).Bytes())
	}
	execs["mig.enc"] = func(a []string) string {
		var addr [32]byte
		copy(addr[:], unhx(a[0]))
		return hx([]byte(migration.Encode(addr)))
	}
	execs["mig.dec"] = func(a []string) string {
		addr, err := migration.Decode(string(unhx(a[0])))
		if err != nil {
			switch {
			case errors.Is(err, consts.ErrInvalidTrytesLength):
				return "err length"
			case errors.Is(err, consts.ErrInvalidChecksum):
				return "err checksum"
			case strings.HasPrefix(err.Error(), "expected prefix"):
				return "err prefix"
			case strings.HasPrefix(err.Error(), "expected suffix"):
				return "err suffix"
			case strings.HasPrefix(err.Error(), "invalid address encoding"):
				return "err addrenc"
			case strings.HasPrefix(err.Error(), "invalid checksum encoding"):
				return "err csenc"
			}
			return "err other"
		}
		return "ok " + hx(addr[:])
	}
	gens["C19"] = genC19
}

func genC19(g *G) {
	lens := map[int]int{0: 32, 8: 20, 16: 20}
	// all prefixes x versions x random hashes
	n := 40
	if g.thorough {
		n = 3000
	}
	for i := 0; i < n; i++ {
		for p := 0; p < 4; p++ {
			for _, v := range []int{0, 8, 16} {
				h := g.r.bytes(lens[v])
				if i < 3 {
					fill := []byte{0x00, 0xff, 0x80}[i]
					for j := range h {
						h[j] = fill
					}
				}
				g.emit("addr.enc", itoa(p), itoa(v), hx(h))
			}
		}
	}
	// Bech32 strings carrying every version byte 0..255 and payload lengths 0..50, known and unknown prefixes
	hrps := []string{"iota", "atoi", "smr", "rms", "IOTA", "iot", "iotaa", "a", "tiota", "rms1", "Smr"}
	for v := 0; v < 256; v++ {
		for _, l := range []int{0, 19, 20, 21, 31, 32, 33} {
			s, err := bech32.Encode(hrps[g.r.intn(4)], append([]byte{byte(v)}, g.r.bytes(l)...))
			if err == nil {
				g.emit("addr.parse", hx([]byte(s)))
			}
		}
	}
	for l := 0; l <= 50; l++ {
		for _, v := range []int{0, 8, 16, 1, 255} {
			for _, hrp := range hrps {
				s, err := bech32.Encode(hrp, append([]byte{byte(v)}, g.r.bytes(l)...))
				if err == nil {
					g.emit("addr.parse", hx([]byte(s)))
					if g.r.intn(4) == 0 {
						g.emit("addr.parse", hx([]byte(strings.ToUpper(s))))
					}
				}
			}
		}
	}
	for _, hrp := range hrps { // no version byte at all
		s, _ := bech32.Encode(hrp, nil)
		g.emit("addr.parse", hx([]byte(s)))
	}
	// corrupted addresses
	m := 300
	if g.thorough {
		m = 20000
	}
	for i := 0; i < m; i++ {
		v := []int{0, 8, 16}[g.r.intn(3)]
		s, _ := bech32.Encode(addrHRPs[g.r.intn(4)], append([]byte{byte(v)}, g.r.bytes(lens[v])...))
		b := []byte(s)
		switch g.r.intn(4) {
		case 0:
			b[g.r.intn(len(b))] = b32charset[g.r.intn(32)]
		case 1:
			b = b[:g.r.intn(len(b))]
		case 2:
			b = append(b, 'q')
		case 3:
			p := g.r.intn(len(b))
			b = append(b[:p:p], append([]byte("K"), b[p+1:]...)...)
		}
		g.emit("addr.parse", hx(b))
	}
	for i := 0; i < 20; i++ {
		g.emit("addr.frompk", hx(g.r.bytes(32)))
		g.emit("addr.fromoutput", hx(g.r.bytes(34)))
	}
	// migration: round trips, every single-tryte substitution of sampled strings, length 80/82, bad prefix/suffix
	k := 3
	if g.thorough {
		k = 60
	}
	for i := 0; i < 200*k; i++ {
		g.emit("mig.enc", hx(g.r.bytes(32)))
	}
	for i := 0; i < k; i++ {
		var a [32]byte
		copy(a[:], g.r.bytes(32))
		t := []byte(migration.Encode(a))
		g.emit("mig.dec", hx(t))
		for p := 0; p < len(t); p++ {
			for _, c := range tryteAlphabet {
				if byte(c) == t[p] {
					continue
				}
				if !g.thorough && g.r.intn(3) != 0 {
					continue
				}
				mt := append([]byte(nil), t...)
				mt[p] = byte(c)
				g.emit("mig.dec", hx(mt))
			}
		}
		g.emit("mig.dec", hx(t[:80]))
		g.emit("mig.dec", hx(append(append([]byte(nil), t...), '9')))
		g.emit("mig.dec", hx(append([]byte("9"), t[:80]...)))
		lower := []byte(strings.ToLower(string(t)))
		g.emit("mig.dec", hx(lower))
		bad := append([]byte(nil), t...)
		bad[10] = 0xc3
		g.emit("mig.dec", hx(bad))
		bad2 := append([]byte(nil), t...)
		bad2[20] = '8'
		g.emit("mig.dec", hx(bad2))
		// framing variants (seeded change C19-e): 81-tryte strings whose PARTS are valid — the address trytes followed by
		// the trytes of more (or fewer) hash bytes than the format has, with only one of prefix and suffix, or neither; a
		// decoder that locates the parts relative to whatever it trimmed accepts some of them
		sum := blake2b.Sum256(a[:])
		long := igb1t6.EncodeToTrytes(append(append([]byte(nil), a[:]...), sum[:]...)) // 64 + 64 trytes
		for _, v := range []string{
			long[:80] + "9",               // no prefix: address, 8 checksum bytes, suffix
			long[:81],                     // neither
			"TRANSFER" + long[:73],        // no suffix
			"TRANSFER" + long[:70] + "99", // short checksum, padded
			long[:72] + "TRANSFER" + "9",  // prefix in the wrong place
			"9" + long[:72] + "TRANSFER",
		} {
			g.emit("mig.dec", hx([]byte(v)))
		}
		// length variants (seeded change C19-h: a guard that also admits the 90-tryte hash-with-checksum form): the valid
		// string with 1…12, 27 and 81 extra trytes — nines or random trytes — inserted at each boundary between its parts
		// (front, behind the prefix, behind the address, in front of the suffix, at the end), which covers every total
		// length 82…93, 108 and 162 with the genuine parts at their fixed offsets from either end
		cuts := []int{0, 8, 72, 80, 81}
		for _, n := range []int{1, 2, 3, 4, 5, 6, 7, 8, 9, 10, 11, 12, 27, 81} {
			if !g.thorough && n != 9 && g.r.intn(3) != 0 {
				continue
			}
			for _, c := range cuts {
				for variant := 0; variant < 2; variant++ {
					ins := []byte(strings.Repeat("9", n))
					if variant == 1 {
						for j := range ins {
							ins[j] = tryteAlphabet[g.r.intn(len(tryteAlphabet))]
						}
					}
					v := append(append(append([]byte(nil), t[:c]...), ins...), t[c:]...)
					g.emit("mig.dec", hx(v))
				}
			}
		}
	}
	g.emit("mig.dec", hx(nil))
	g.emit("mig.dec", hx([]byte(strings.Repeat("9", 81))))
	g.emit("mig.dec", hx([]byte("TRANSFER"+strings.Repeat("9", 73))))
	g.emit("mig.dec", hx([]byte("TRANSFER"+strings.Repeat("M", 72)+"9"))) // invalid groups
}
