package main

import (
	"crypto/sha256"
	"crypto/sha512"
	"errors"
	"fmt"
	"strconv"
	"strings"
	"unicode"
	"unicode/utf8"

	"github.com/wollac/iota-crypto-demo/pkg/bip39"
	"golang.org/x/text/unicode/norm"
)

var bip39Lang = ""

func setLang(l string) {
	if bip39Lang != l {
		if err := bip39.SetWordList(l); err != nil {
			panic(err)
		}
		bip39Lang = l
	}
}

func bip39Err(err error) string {
	switch {
	case errors.Is(err, bip39.ErrInvalidEntropySize):
		return "err size"
	case errors.Is(err, bip39.ErrInvalidMnemonic):
		return "err mnemonic"
	case errors.Is(err, bip39.ErrInvalidChecksum):
		return "err checksum"
	}
	return "err other"
}

func mnemonicOf(sentence []byte) bip39.Mnemonic {
	if len(sentence) == 0 {
		return bip39.Mnemonic{}
	}
	return bip39.Mnemonic(strings.Split(string(sentence), " "))
}

func fieldsStr(fs []string) string {
	if len(fs) == 0 {
		return "-"
	}
	p := make([]string, len(fs))
	for i, f := range fs {
		p[i] = hx([]byte(f))
	}
	return strings.Join(p, ",")
}

func init() {
	execs["bip39.enc"] = func(a []string) string {
		setLang(a[0])
		m, err := bip39.EntropyToMnemonic(unhx(a[1]))
		if err != nil {
			return bip39Err(err)
		}
		return "ok " + hx([]byte(m.String()))
	}
	execs["bip39.dec"] = func(a []string) string {
		setLang(a[0])
		e, err := bip39.MnemonicToEntropy(mnemonicOf(unhx(a[1])))
		if err != nil {
			return bip39Err(err)
		}
		return "ok " + hx(e)
	}
	execs["bip39.sweep"] = func(a []string) string {
		setLang(a[0])
		n, _ := strconv.Atoi(a[1])
		if n < 1 || n > 5 {
			return "bad-op"
		}
		zero, err := bip39.EntropyToMnemonic(make([]byte, 16))
		if err != nil {
			return bip39Err(err)
		}
		m := append(bip39.Mnemonic(nil), zero...)
		buf := make([]byte, n)
		for i := range buf {
			buf[i] = 'a'
		}
		var known []string
		for {
			m[0] = string(buf)
			if _, err := bip39.MnemonicToEntropy(m); !errors.Is(err, bip39.ErrInvalidMnemonic) {
				known = append(known, hx(buf))
			}
			i := n - 1
			for i >= 0 && buf[i] == 'z' {
				buf[i] = 'a'
				i--
			}
			if i < 0 {
				break
			}
			buf[i]++
		}
		return fmt.Sprintf("known=%d %s", len(known), strings.Join(known, ","))
	}
	execs["bip39.seed"] = func(a []string) string {
		setLang(a[0])
		seed, err := bip39.MnemonicToSeed(mnemonicOf(unhx(a[1])), string(unhx(a[2])))
		if err != nil {
			if seed != nil {
				return "err-with-seed"
			}
			return bip39Err(err)
		}
		return "ok " + hx(seed)
	}
	execs["bip39.parse"] = func(a []string) string {
		s := string(unhx(a[0]))
		m := bip39.ParseMnemonic(s)
		var u bip39.Mnemonic
		if err := u.UnmarshalText([]byte(s)); err != nil || fieldsStr(u) != fieldsStr(m) {
			return "unmarshal-differs"
		}
		t, _ := m.MarshalText()
		if string(t) != m.String() {
			return "marshal-differs"
		}
		again := bip39.ParseMnemonic(m.String())
		idem := "false"
		if fieldsStr(again) == fieldsStr(m) {
			idem = "true"
		}
		return fieldsStr(m) + " idem=" + idem
	}
	execs["hash.sha256"] = func(a []string) string { h := sha256.Sum256(unhx(a[0])); return hx(h[:]) }
	execs["hash.sha512"] = func(a []string) string { h := sha512.Sum512(unhx(a[0])); return hx(h[:]) }
	gens["C03"] = genC03
	gens["C09"] = genC09
}

// bip39Tables learns a list's index -> word and word -> index mappings through the public API: the first word of the
// sentence of a 16-byte entropy whose first 11 bits are i is word i.
var bip39TableCache = map[string][]string{}

func bip39Tables(lang string) ([]string, map[string]int) {
	words := bip39TableCache[lang]
	if words == nil {
		setLang(lang)
		words = make([]string, 2048)
		for i := range words {
			e := make([]byte, 16)
			e[0], e[1] = byte(i>>3), byte(i<<5)
			m, _ := bip39.EntropyToMnemonic(e)
			words[i] = m[0]
		}
		bip39TableCache[lang] = words
	}
	index := make(map[string]int, 2048)
	for i, w := range words {
		index[w] = i
	}
	return words, index
}

func genC03(g *G) {
	langs := []string{"english", "japanese"}
	// every length x {all-zero, all-one, leading 1..4 zero bytes, trailing zeros, random}
	for _, lang := range langs {
		for n := 12; n <= 68; n++ {
			if n%4 != 0 && n != 13 && n != 17 && n != 63 {
				continue
			}
			pats := [][]byte{make([]byte, n), g.r.bytes(n), g.r.bytes(n)}
			ones := make([]byte, n)
			for i := range ones {
				ones[i] = 0xff
			}
			pats = append(pats, ones)
			for z := 1; z <= 4 && z < n; z++ {
				b := g.r.bytes(n)
				for i := 0; i < z; i++ {
					b[i] = 0
				}
				pats = append(pats, b)
				c := g.r.bytes(n)
				for i := 0; i < z; i++ {
					c[n-1-i] = 0
				}
				pats = append(pats, c)
			}
			one := make([]byte, n)
			one[n-1] = 1
			pats = append(pats, one)
			for _, e := range pats {
				g.emit("bip39.enc", lang, hx(e))
				if m, err := func() (bip39.Mnemonic, error) { setLang(lang); return bip39.EntropyToMnemonic(e) }(); err == nil {
					g.emit("bip39.dec", lang, hx([]byte(m.String())))
				}
			}
		}
	}
	for _, n := range []int{0, 1, 15, 65, 128} {
		g.emit("bip39.enc", "english", hx(g.r.bytes(n)))
	}
	// all 2048 indices of each list in every word position of a 12-word sentence: craft entropy so that
	// word position p carries index i (the checksum word is whatever it must be)
	for _, lang := range langs {
		for i := 0; i < 2048; i++ {
			p := i % 11 // word positions 0..10 are pure entropy bits
			e := make([]byte, 16)
			// place the 11 bits of i at bit offset 11*p
			for b := 0; b < 11; b++ {
				if (i>>(10-b))&1 == 1 {
					pos := 11*p + b
					e[pos/8] |= 1 << uint(7-pos%8)
				}
			}
			g.emit("bip39.enc", lang, hx(e))
			setLang(lang)
			m, _ := bip39.EntropyToMnemonic(e)
			g.emit("bip39.dec", lang, hx([]byte(m.String())))
		}
	}
	// decode stream: valid sentences with one word swapped, wrong counts, unknown words, NFC Japanese words
	n := 300
	if g.thorough {
		n = 20000
	}
	for k := 0; k < n; k++ {
		lang := langs[g.r.intn(2)]
		setLang(lang)
		m, _ := bip39.EntropyToMnemonic(g.r.bytes(16 + 4*g.r.intn(13)))
		ws := append([]string(nil), m...)
		switch g.r.intn(8) {
		case 0: // swap one word for another list word
			o, _ := bip39.EntropyToMnemonic(g.r.bytes(16))
			ws[g.r.intn(len(ws))] = o[g.r.intn(len(o))]
		case 1: // drop a word
			p := g.r.intn(len(ws))
			ws = append(ws[:p:p], ws[p+1:]...)
		case 2: // add a word
			ws = append(ws, ws[0])
		case 3: // unknown word
			ws[g.r.intn(len(ws))] = []string{"abandonn", "", "Abandon", "zzz", "\xff", "ab andon"}[g.r.intn(6)]
		case 4: // NFC-composed form (differs from the NFKD list entries for Japanese words with dakuten)
			p := g.r.intn(len(ws))
			ws[p] = norm.NFC.String(ws[p])
		case 5: // swap two words
			i, j := g.r.intn(len(ws)), g.r.intn(len(ws))
			ws[i], ws[j] = ws[j], ws[i]
		case 6: // word from the other list
			other := langs[1-g.r.intn(1)]
			setLang(other)
			o, _ := bip39.EntropyToMnemonic(g.r.bytes(16))
			setLang(lang)
			ws[g.r.intn(len(ws))] = o[0]
		}
		g.emit("bip39.dec", lang, hx([]byte(strings.Join(ws, " "))))
	}
	// checksum-bit sweep (added after seeded change C03-f, which compared only the last word's 11 bits: for 48..64-byte
	// entropies the top 1..5 checksum bits live in the second-to-last word): every single checksum bit and the 11 entropy
	// bits next to it flipped in the bit string entropy||checksum of valid sentences of every size, re-split into words
	for _, lang := range langs {
		words, index := bip39Tables(lang)
		for size := 16; size <= 64; size += 4 {
			cs := size / 4
			for rep := 0; rep < 2; rep++ {
				setLang(lang)
				e := g.r.bytes(size)
				if rep == 1 {
					e = make([]byte, size)
				}
				m, _ := bip39.EntropyToMnemonic(e)
				idx := make([]int, len(m))
				for i, w := range m {
					idx[i] = index[w]
				}
				for k := 0; k < cs+11; k++ { // bit k counted from the end of the bit string
					ws := append([]string(nil), m...)
					wpos := len(ws) - 1 - k/11
					ws[wpos] = words[idx[wpos]^(1<<uint(k%11))]
					g.emit("bip39.dec", lang, hx([]byte(strings.Join(ws, " "))))
				}
			}
		}
	}
	g.emit("bip39.dec", "english", "_")
	// exhaustive membership over short ASCII strings (seeded change C03-h: a reverse index keyed by a 32-bit hash of the
	// word, so that a few non-words are taken for list words): EVERY string over a…z of length 1…4 (thorough: 5) as the
	// first word of a twelve-word sentence; the reply lists the strings that were not rejected as unknown words
	maxLen := 4
	if g.thorough {
		maxLen = 5
	}
	for _, lang := range langs {
		for n := 1; n <= maxLen; n++ {
			g.emit("bip39.sweep", lang, fmt.Sprint(n))
		}
	}
	for _, b := range [][]byte{{}, []byte("abc"), make([]byte, 64), make([]byte, 111), make([]byte, 112), make([]byte, 119), make([]byte, 120), make([]byte, 200)} {
		g.emit("hash.sha256", hx(b))
	}
	for i := 0; i < 20; i++ {
		g.emit("hash.sha256", hx(g.r.bytes(g.r.intn(200))))
	}
}

func genC09(g *G) {
	langs := []string{"english", "japanese"}
	passes := []string{"", "TREZOR", "a", strings.Repeat("long passphrase ", 20), "\u00e9", "e\u0301", "\ufb01", "\u00b2", "\uff21\uff22\uff23", "\ud55c\uad6d\uc5b4", "\u1112\u1161\u11ab", "\u30e1\u30fc\u30c8\u30eb", "\u334d", "\u00c5", "\u212b", "\xff\xfe", "a\x00b", "\uff76\uff9e", "\u30ac", "\u3000", "\u01c6"}
	n := 3
	if g.thorough {
		n = 60
	}
	for k := 0; k < n; k++ {
		for _, lang := range langs {
			setLang(lang)
			m, _ := bip39.EntropyToMnemonic(g.r.bytes(16 + 4*g.r.intn(13)))
			for _, p := range passes {
				if !g.thorough && g.r.intn(3) != 0 {
					continue
				}
				g.emit("bip39.seed", lang, hx([]byte(m.String())), hx([]byte(p)), hx([]byte(norm.NFKD.String(p))))
			}
			// invalid mnemonics yield an error and no seed
			bad := append([]string(nil), m...)
			bad[0], bad[1] = bad[1], bad[0]
			g.emit("bip39.seed", lang, hx([]byte(strings.Join(bad, " "))), hx([]byte("x")), hx([]byte("x")))
			g.emit("bip39.seed", lang, hx([]byte(strings.Join(m[:len(m)-1], " "))), "_", "_")
		}
	}
	// structural boundaries of the key stretching: the sentence is the HMAC key (keys LONGER than the 128-byte SHA-512
	// block are hashed first, keys of exactly 128 bytes are not; 111/112 is where the SHA-512 padding spills into a second
	// block) and "mnemonic"+passphrase is the salt. Sentences of exactly these byte lengths are found by sampling
	// entropies of every size; passphrases are cut to measure. (Seeded change C09-d: "pre-hash keys >= 128 bytes".)
	sentLens := []int{127, 128, 129}
	if g.thorough {
		sentLens = []int{103, 104, 111, 112, 119, 120, 127, 128, 129, 130, 239, 240, 255, 256, 257}
	}
	for _, lang := range langs {
		setLang(lang)
		for _, want := range sentLens {
			found := 0
			for try := 0; try < 6000 && found < 2; try++ {
				m, _ := bip39.EntropyToMnemonic(g.r.bytes(16 + 4*g.r.intn(13)))
				if len(m.String()) != want {
					continue
				}
				found++
				for _, p := range []string{"", "TREZOR"} {
					g.emit("bip39.seed", lang, hx([]byte(m.String())), hx([]byte(p)), hx([]byte(p)))
				}
			}
		}
	}
	{
		setLang("english")
		m, _ := bip39.EntropyToMnemonic(g.r.bytes(16))
		for _, saltLen := range []int{111, 112, 119, 120, 127, 128, 129, 240, 256} {
			p := strings.Repeat("p", saltLen-len("mnemonic"))
			g.emit("bip39.seed", "english", hx([]byte(m.String())), hx([]byte(p)), hx([]byte(p)))
		}
	}
	// KNOWN FINDING F11: golang.org/x/text's normalizer produces Stream-Safe Text — it inserts U+034F (COMBINING GRAPHEME
	// JOINER) after 30 consecutive non-starters — so for a passphrase or sentence with more than 30 combining marks in a
	// row the repository does NOT use the NFKD form. The inputs below are in NFKD already (one base letter followed by
	// marks in canonical order), so their true NFKD form is the string itself, which is what the model is given.
	for _, nmarks := range []int{31, 40} {
		for _, lang := range langs[:1] {
			setLang(lang)
			m, _ := bip39.EntropyToMnemonic(make([]byte, 16))
			p := "e" + strings.Repeat("\u0301", nmarks)
			g.emit("bip39.seed", lang, hx([]byte(m.String())), hx([]byte(p)), hx([]byte(p)))
			q := "e" + strings.Repeat("\u0323", 1) + strings.Repeat("\u0301", nmarks-1) // ccc 220 before ccc 230: canonical order
			g.emit("bip39.seed", lang, hx([]byte(m.String())), hx([]byte(q)), hx([]byte(q)))
		}
		s := "abandon" + strings.Repeat("\u0301", nmarks) + " zoo"
		g.emit("bip39.parse", hx([]byte(s)), hx([]byte(s)))
	}
	// 30 marks are fine (no joiner inserted): the boundary belongs to the ordinary stream
	{
		setLang("english")
		m, _ := bip39.EntropyToMnemonic(make([]byte, 16))
		p := "e" + strings.Repeat("\u0301", 30)
		g.emit("bip39.seed", "english", hx([]byte(m.String())), hx([]byte(p)), hx([]byte(norm.NFKD.String(p))))
	}
	// parser: every IsSpace code point as separator, leading/trailing/multiple, NFC vs NFD words, compatibility forms
	spaces := []string{" ", "\t", "\n", "\v", "\f", "\r", "\u0085", "\u00a0", "\u1680", "\u2000", "\u2001", "\u2002", "\u2003", "\u2004", "\u2005", "\u2006", "\u2007", "\u2008", "\u2009", "\u200a", "\u2028", "\u2029", "\u202f", "\u205f", "\u3000"}
	nonspaces := []string{"\u200b", "\u180e", "\u2060", "\ufeff", "\u00ad", "\x1c", "\x1f", "\xc2", "\xe2\x80", "\xe3\x80", "\xe1\x9a", "\xa0", "\x85"}
	emitParse := func(s string) { g.emit("bip39.parse", hx([]byte(s)), hx([]byte(norm.NFKD.String(s)))) }
	for _, sp := range append(spaces, nonspaces...) {
		emitParse("abandon" + sp + "ability")
		emitParse(sp + "abandon" + sp + sp + "ability" + sp)
		emitParse(sp)
	}
	// non-space code points whose compatibility decomposition CONTAINS white space (U+00A8, U+00B4, U+037A, U+309B, U+FDFA, …):
	// normalizing before or after splitting differs exactly on these. Computed from x/text's tables.
	var hidden []string
	for r := rune(0x80); r <= 0x10FFFF; r++ {
		if (r >= 0xD800 && r < 0xE000) || unicode.IsSpace(r) {
			continue
		}
		if d := norm.NFKD.String(string(r)); len(d) != utf8.RuneLen(r) || d != string(r) {
			for _, x := range d {
				if unicode.IsSpace(x) {
					hidden = append(hidden, string(r))
					break
				}
			}
		}
	}
	for i, hc := range hidden {
		if !g.thorough && i%4 != int(g.r.next()%4) {
			continue
		}
		emitParse("abandon" + hc + "ability")
		emitParse("zoo " + hc + " zoo" + hc)
	}
	nonspaces = append(nonspaces, hidden...)
	words := []string{"abandon", "zoo", "\u3042\u3044\u3053\u304f\u3057\u3093", "\u30ac", "\uff76\uff9e", "\u00e9", "e\u0301", "\ufb01", "x", "\xff", "\xe2\x80", "\uff71", "\u3300"}
	m := 300
	if g.thorough {
		m = 20000
	}
	for k := 0; k < m; k++ {
		var b strings.Builder
		for i := g.r.intn(8); i >= 0; i-- {
			switch g.r.intn(3) {
			case 0:
				b.WriteString(words[g.r.intn(len(words))])
			case 1:
				b.WriteString(spaces[g.r.intn(len(spaces))])
			case 2:
				b.WriteString(nonspaces[g.r.intn(len(nonspaces))])
			}
		}
		emitParse(b.String())
	}
	emitParse("")
	for _, b := range [][]byte{{}, []byte("abc"), make([]byte, 111), make([]byte, 112), make([]byte, 127), make([]byte, 128), make([]byte, 239), make([]byte, 240), make([]byte, 300)} {
		g.emit("hash.sha512", hx(b))
	}
}
