package main

import (
	"context"
	"encoding/binary"
	"fmt"
	"math"
	"runtime"
	"strings"
	"sync"
	"sync/atomic"
	"time"

	"github.com/wollac/iota-crypto-demo/pkg/pow"
	powv2 "github.com/wollac/iota-crypto-demo/pkg/pow/v2"
)

type mineEvent struct {
	kind   int
	worker uint64
	value  uint64
}

type mineLog struct {
	mu  sync.Mutex
	evs []string
	w   int
}

func (l *mineLog) add(s string) {
	l.mu.Lock()
	l.evs = append(l.evs, s)
	l.mu.Unlock()
}

// sink translates hook events to trace tokens; worker goroutines are identified by their start nonce
func (l *mineLog) sink(kind int, worker uint64, value uint64) {
	idx := func() uint64 {
		width := uint64(math.MaxUint64) / uint64(l.w)
		return worker / width
	}
	switch kind {
	case 0:
		l.add(fmt.Sprintf("sp:%d", worker))
	case 1:
		l.add("wc")
	case 2:
		l.add("wl")
	case 3:
		l.add(fmt.Sprintf("b:%d", idx()))
	case 4:
		l.add(fmt.Sprintf("sd:%d", idx()))
	case 5:
		l.add(fmt.Sprintf("st:%d:%d", idx(), value))
	case 6:
		l.add(fmt.Sprintf("se:%d:%d", idx(), value))
	case 7:
		l.add(fmt.Sprintf("wd:%d", idx()))
	case 8:
		l.add("wr")
	case 9:
		l.add("cr")
	case 10:
		l.add("cc")
	case 11:
		l.add(fmt.Sprintf("rv:%d", value))
	case 12:
		l.add("rn")
	}
}

// The hook variables are plain package globals read by goroutines that may outlive Mine's return (the watcher), so
// they are written exactly once, before any Mine call; the log of the current run is reached through an atomic pointer.
var currentLog atomic.Value // *mineLog (nil pointer = no trace)

func dispatchSink(kind int, worker uint64, value uint64) {
	if l, _ := currentLog.Load().(*mineLog); l != nil {
		l.sink(kind, worker, value)
	}
}

// tracedMineV2 is tracedMine for v2 with an exact 64-bit target (float64 cannot carry every uint64).
func tracedMineV2(workers int, data []byte, target uint64, cancelAfter time.Duration) (string, string, int, time.Duration) {
	v2Target = target
	defer func() { v2Target = 0 }()
	return tracedMine("v2exact", workers, data, 0, cancelAfter, true)
}

var v2Target uint64

func init() {
	pow.VerifSink = dispatchSink
	powv2.VerifSink = dispatchSink
}

var mineMu sync.Mutex // the sinks are package globals: one traced Mine at a time

// tracedMine runs one Mine call with the hook sink installed and returns the trace op arguments.
// cancelAfter < 0: never cancel; 0: cancelled before the call; > 0: cancel after that duration.
// traced = false: no sink is installed (the sink's mutex would add happens-before edges that could hide a race
// from the race detector, and slows the workers down).
func tracedMine(ver string, workers int, data []byte, target float64, cancelAfter time.Duration, traced bool) (trace string, result string, leaked int, elapsed time.Duration) {
	mineMu.Lock()
	defer mineMu.Unlock()
	lg := &mineLog{w: workers}
	before := runtime.NumGoroutine()
	ctx, cancel := context.WithCancel(context.Background())
	defer cancel()
	if traced {
		currentLog.Store(lg)
		defer currentLog.Store((*mineLog)(nil))
	}
	var cancelledNano int64
	doCancel := func() {
		lg.add("ca") // announced before it happens
		atomic.StoreInt64(&cancelledNano, time.Now().UnixNano())
		cancel()
	}
	if cancelAfter == 0 {
		doCancel()
	} else if cancelAfter > 0 {
		t := time.AfterFunc(cancelAfter, doCancel)
		defer t.Stop()
	}
	var nonce uint64
	var err error
	tdesc := fmt.Sprint(target)
	if ver == "v2exact" {
		tdesc = fmt.Sprint(v2Target)
	}
	pending(fmt.Sprintf("Mine version=%s workers=%d data=%x target=%s cancelAfter=%s traced=%v", ver, workers, data, tdesc, cancelAfter, traced))
	defer pending("")
	finished := make(chan struct{})
	panicked := false
	go func() {
		defer close(finished)
		defer func() {
			if e := recover(); e != nil {
				panicked = true
			}
		}()
		// long-lived Workers (one per version and worker count), as an application would keep them: state that a change
		// makes a Worker carry from one Mine call to the next is then exercised by every scenario (seeded change C13-h)
		if ver == "v1" {
			nonce, err = sharedWorkerV1(workers).Mine(ctx, data, target)
		} else if ver == "v2exact" {
			nonce, err = sharedWorkerV2(workers).Mine(ctx, data, v2Target)
		} else {
			nonce, err = sharedWorkerV2(workers).Mine(ctx, data, uint64(target))
		}
	}()
	// watchdog: every scenario either has an attainable target or is cancelled, so Mine must return; a call that
	// does not is reported as a hang (with its trace) instead of blocking the run
	limit := 30 * time.Second
	if cancelAfter > 0 {
		limit += cancelAfter
	}
	hung := ""
	select {
	case <-finished:
	case <-time.After(limit):
		hung = "HANG"
		if atomic.LoadInt64(&cancelledNano) == 0 {
			cancel()
			select {
			case <-finished:
				hung = "HANG-until-cancelled"
			case <-time.After(5 * time.Second):
			}
		}
	}
	if hung != "" {
		lg.mu.Lock()
		evs := append([]string(nil), lg.evs...)
		lg.mu.Unlock()
		trace = "_"
		if len(evs) > 0 {
			trace = strings.Join(evs, ",")
		}
		return trace, hung, runtime.NumGoroutine() - before, limit
	}
	returned := time.Now().UnixNano()
	if c := atomic.LoadInt64(&cancelledNano); c != 0 && returned > c {
		elapsed = time.Duration(returned - c)
	}
	// give the watcher a moment to finish, then stop collecting
	deadline := time.Now().Add(200 * time.Millisecond)
	for runtime.NumGoroutine() > before && time.Now().Before(deadline) {
		time.Sleep(time.Millisecond)
	}
	leaked = runtime.NumGoroutine() - before
	lg.mu.Lock()
	evs := append([]string(nil), lg.evs...)
	lg.mu.Unlock()
	if len(evs) == 0 {
		trace = "_"
	} else {
		trace = strings.Join(evs, ",")
	}
	switch {
	case panicked:
		result = "panic"
	case err == nil:
		result = fmt.Sprintf("%d", nonce)
		// whatever the interleaving, a returned nonce must meet the target (C11 / C12 under concurrency)
		msg := make([]byte, len(data)+8)
		copy(msg, data)
		binary.LittleEndian.PutUint64(msg[len(data):], nonce)
		switch ver {
		case "v1":
			if sc := pow.Score(msg); !(sc >= target) {
				result = fmt.Sprintf("error:low-score nonce=%d score=%v target=%v", nonce, sc, target)
			}
		case "v2exact":
			if sc := powv2.Score(msg); sc < v2Target {
				result = fmt.Sprintf("error:low-score nonce=%d score=%d target=%d", nonce, sc, v2Target)
			}
		default:
			if sc := powv2.Score(msg); sc < uint64(target) {
				result = fmt.Sprintf("error:low-score nonce=%d score=%d target=%d", nonce, sc, uint64(target))
			}
		}
	case err == pow.ErrCancelled || err == powv2.ErrCancelled:
		result = "cancelled"
	default:
		result = "error:" + err.Error()
	}
	return
}

func init() {
	// the op carries a recorded trace; the implementation side has nothing left to compute: it states the
	// claim the model must confirm
	execs["mine.trace"] = func(a []string) string { return "accepted " + a[2] }
	execs["mine.runtime"] = func(a []string) string { return a[0] } // "ok" or a description of what went wrong
	execs["mine.note"] = func(a []string) string { return "noted" }
	gens["C13"] = genC13
}

// mineRuntime: what the model cannot exhibit is checked directly — goroutines still alive 200 ms after the
// return, more than 2 s between cancel() and the return, an unexpected error, ErrCancelled without a cancel.
func mineRuntime(result string, leaked int, elapsed time.Duration, cancels bool) string {
	switch {
	case strings.HasPrefix(result, "HANG"):
		return result
	case result == "panic" && leaked == 0:
		return "ok" // whether the panic is the documented one is judged by the trace op
	case leaked > 0:
		return fmt.Sprintf("goroutines-leaked:%d", leaked)
	case elapsed > 2*time.Second:
		return fmt.Sprintf("slow-cancel:%s", elapsed)
	case strings.HasPrefix(result, "error:"):
		return result
	case result == "cancelled" && !cancels:
		return "cancelled-without-cancel"
	}
	return "ok"
}

func sharedWorkerV1(workers int) *pow.Worker {
	if sharedV1[workers] == nil {
		sharedV1[workers] = pow.New(workers)
	}
	return sharedV1[workers]
}

func sharedWorkerV2(workers int) *powv2.Worker {
	if sharedV2[workers] == nil {
		sharedV2[workers] = powv2.New(workers)
	}
	return sharedV2[workers]
}

// reuseAfterCancel (seeded change C13-h: the stop flag moved from a local of Mine into the Worker): on ONE Worker, a Mine
// call that succeeds at once, whose context is cancelled the moment it has returned — so that its watcher goroutine, if it
// has not reached its select yet, may still take the ctx.Done() arm — followed at once by a second Mine call with a context
// that is never cancelled and a target that needs several hundred batches. The second call must return a nonce; with one
// processor the late watcher is the rule rather than the exception. Returns the mine.runtime verdict.
func reuseAfterCancel(ver string, workers int, data1, data2 []byte) string {
	mineMu.Lock()
	defer mineMu.Unlock()
	old := runtime.GOMAXPROCS(1)
	defer runtime.GOMAXPROCS(old)
	before := runtime.NumGoroutine()
	pending(fmt.Sprintf("Mine twice on one Worker version=%s workers=%d data=%x then %x", ver, workers, data1, data2))
	defer pending("")
	type res struct {
		nonce uint64
		err   error
	}
	done := make(chan res, 1)
	go func() {
		defer func() {
			if e := recover(); e != nil {
				done <- res{0, fmt.Errorf("panic: %v", e)}
			}
		}()
		ctx1, cancel1 := context.WithCancel(context.Background())
		var r res
		if ver == "v1" {
			_, r.err = sharedWorkerV1(workers).Mine(ctx1, data1, 0.1)
		} else {
			_, r.err = sharedWorkerV2(workers).Mine(ctx1, data1, 1)
		}
		cancel1()
		if r.err != nil {
			done <- r
			return
		}
		if ver == "v1" {
			r.nonce, r.err = sharedWorkerV1(workers).Mine(context.Background(), data2, 3000)
		} else {
			r.nonce, r.err = sharedWorkerV2(workers).Mine(context.Background(), data2, 3000)
		}
		done <- r
	}()
	select {
	case r := <-done:
		if r.err == pow.ErrCancelled || r.err == powv2.ErrCancelled {
			return "cancelled-without-cancel"
		}
		if r.err != nil {
			return "error:" + r.err.Error()
		}
		msg := make([]byte, len(data2)+8)
		copy(msg, data2)
		binary.LittleEndian.PutUint64(msg[len(data2):], r.nonce)
		if ver == "v1" && !(pow.Score(msg) >= 3000) || ver != "v1" && powv2.Score(msg) < 3000 {
			return fmt.Sprintf("error:low-score nonce=%d", r.nonce)
		}
	case <-time.After(120 * time.Second):
		return "HANG"
	}
	deadline := time.Now().Add(200 * time.Millisecond)
	for runtime.NumGoroutine() > before && time.Now().Before(deadline) {
		time.Sleep(time.Millisecond)
	}
	if n := runtime.NumGoroutine() - before; n > 0 {
		return fmt.Sprintf("goroutines-leaked:%d", n)
	}
	return "ok"
}

func genC13(g *G) {
	type scen struct {
		ver     string
		workers int
		target  float64
		cancel  time.Duration
	}
	var scens []scen
	ws := []int{1, 2, 3, 8}
	if g.thorough {
		ws = []int{1, 2, 3, 8, 16, 64}
	}
	for _, ver := range []string{"v1", "v2"} {
		for _, w := range ws {
			// every lane qualifies: all workers find at once
			scens = append(scens, scen{ver, w, 0, -1}, scen{ver, w, 1, -1})
			// a little work
			scens = append(scens, scen{ver, w, 30, -1})
			// cancelled before the call
			scens = append(scens, scen{ver, w, 1e15, 0})
			scens = append(scens, scen{ver, w, 1, 0}) // pre-cancelled and immediately satisfiable: either outcome is legal
			// cancelled during mining of an unattainable-in-practice target
			scens = append(scens, scen{ver, w, 1e15, time.Duration(1+g.r.intn(5)) * time.Millisecond})
			// cancellation racing with a find
			scens = append(scens, scen{ver, w, 100, time.Duration(g.r.intn(3000)) * time.Microsecond})
		}
	}
	// calls that never enter the protocol: a target no hash can reach (v1: waits for cancellation), the zero target and
	// a target whose product with the length overflows (v2: trivial result / documented panic, nothing started)
	for _, w := range ws {
		for _, t := range []float64{1e300, math.Inf(1), math.NaN(), math.Nextafter(math.Pow(3, 243)/8, math.Inf(1))} {
			for _, cancel := range []time.Duration{0, time.Duration(1+g.r.intn(3)) * time.Millisecond} {
				trace, result, leaked, elapsed := tracedMine("v1", w, nil, t, cancel, true)
				g.emit("mine.trace", itoa(w), trace, result, "unattainable")
				g.emit("mine.runtime", mineRuntime(result, leaked, elapsed, true))
			}
		}
		trace, result, leaked, elapsed := tracedMineV2(w, g.r.bytes(g.r.intn(10)), 0, -1)
		g.emit("mine.trace", itoa(w), trace, result, "zero")
		g.emit("mine.runtime", mineRuntime(result, leaked, elapsed, false))
		for _, dl := range []int{0, 3, 8} {
			L := uint64(dl + 8)
			for _, t := range []uint64{math.MaxUint64, math.MaxUint64/L + 1, (math.MaxUint64-1)/L + 1} {
				if t <= math.MaxUint64/L {
					continue // the product fits: a real mining call
				}
				trace, result, leaked, elapsed := tracedMineV2(w, make([]byte, dl), t, -1)
				g.emit("mine.trace", itoa(w), trace, result, "invalid")
				g.emit("mine.runtime", mineRuntime(result, leaked, elapsed, false))
			}
		}
	}
	// many workers on targets just above a power of three (for 8 data bytes: 16·t > 3^k), where v2's lane test takes its
	// slow path (exact comparison of candidate lanes) in most batches: every worker does so within its first batches,
	// concurrently with the others.  Run without the trace sink, so that nothing but the implementation's own
	// synchronisation orders the workers (for the race detector run).
	crowd := 6
	if g.thorough {
		crowd = 30
	}
	for r := 0; r < crowd; r++ {
		for _, ver := range []string{"v1", "v2"} {
			for _, t := range []float64{6, 16, 46} {
				w := []int{4, 8, 16}[r%3]
				_, result, leaked, elapsed := tracedMine(ver, w, g.r.bytes(8), t, -1, false)
				g.emit("mine.runtime", mineRuntime(result, leaked, elapsed, false))
			}
		}
	}
	// two calls on one Worker, the first context cancelled right after its call returned
	pairs := 6
	if g.thorough {
		pairs = 40
	}
	for r := 0; r < pairs; r++ {
		for _, ver := range []string{"v1", "v2"} {
			g.emit("mine.runtime", reuseAfterCancel(ver, 1+r%2, g.r.bytes(g.r.intn(12)), g.r.bytes(8)))
		}
	}
	reps := 1
	if g.thorough {
		reps = 8
	}
	for r := 0; r < reps; r++ {
		for _, sc := range scens {
			if sc.ver == "v2" && sc.target == 0 {
				continue // v2 returns immediately for target 0 without starting anything
			}
			data := g.r.bytes(g.r.intn(10))
			// the same scenario without the trace sink: outcome, goroutine accounting, time to return after cancel
			_, result0, leaked0, elapsed0 := tracedMine(sc.ver, sc.workers, data, sc.target, sc.cancel, false)
			g.emit("mine.runtime", mineRuntime(result0, leaked0, elapsed0, sc.cancel >= 0))
			trace, result, leaked, elapsed := tracedMine(sc.ver, sc.workers, data, sc.target, sc.cancel, true)
			if len(trace) > 400000 {
				// very long mining traces: keep the op small by not replaying them (rare; counted in runtime)
				g.emit("mine.note", "trace-too-long")
				continue
			}
			g.emit("mine.trace", itoa(sc.workers), trace, result)
			g.emit("mine.runtime", mineRuntime(result, leaked, elapsed, sc.cancel >= 0))
		}
	}
}
