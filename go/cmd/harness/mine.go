package main

import (
	"context"
	"fmt"
	"math"
	"runtime"
	"strings"
	"sync"
	"time"

	"github.com/wollac/iota-crypto-demo/pkg/pow"
	powv2 "github.com/wollac/iota-crypto-demo/pkg/pow/v2"
)

type mineEvent struct {
	kind   int
	worker uint64
	value  uint64
}

type mineLog struct {
	mu  sync.Mutex
	evs []string
	w   int
}

func (l *mineLog) add(s string) {
	l.mu.Lock()
	l.evs = append(l.evs, s)
	l.mu.Unlock()
}

// sink translates hook events to trace tokens; worker goroutines are identified by their start nonce
func (l *mineLog) sink(kind int, worker uint64, value uint64) {
	idx := func() uint64 {
		width := uint64(math.MaxUint64) / uint64(l.w)
		return worker / width
	}
	switch kind {
	case 0:
		l.add(fmt.Sprintf("sp:%d", worker))
	case 1:
		l.add("wc")
	case 2:
		l.add("wl")
	case 3:
		l.add(fmt.Sprintf("b:%d", idx()))
	case 4:
		l.add(fmt.Sprintf("sd:%d", idx()))
	case 5:
		l.add(fmt.Sprintf("st:%d:%d", idx(), value))
	case 6:
		l.add(fmt.Sprintf("se:%d:%d", idx(), value))
	case 7:
		l.add(fmt.Sprintf("wd:%d", idx()))
	case 8:
		l.add("wr")
	case 9:
		l.add("cr")
	case 10:
		l.add("cc")
	case 11:
		l.add(fmt.Sprintf("rv:%d", value))
	case 12:
		l.add("rn")
	}
}

var mineMu sync.Mutex // the sinks are package globals: one traced Mine at a time

// tracedMine runs one Mine call with the hook sink installed and returns the trace op arguments.
// cancelAfter < 0: never cancel; 0: cancelled before the call; > 0: cancel after that duration.
func tracedMine(ver string, workers int, data []byte, target float64, cancelAfter time.Duration) (trace string, result string, leaked int, elapsed time.Duration) {
	mineMu.Lock()
	defer mineMu.Unlock()
	lg := &mineLog{w: workers}
	before := runtime.NumGoroutine()
	ctx, cancel := context.WithCancel(context.Background())
	defer cancel()
	if ver == "v1" {
		pow.VerifSink = lg.sink
		defer func() { pow.VerifSink = nil }()
	} else {
		powv2.VerifSink = lg.sink
		defer func() { powv2.VerifSink = nil }()
	}
	var cancelledAt time.Time
	doCancel := func() {
		lg.add("ca") // announced before it happens
		cancelledAt = time.Now()
		cancel()
	}
	if cancelAfter == 0 {
		doCancel()
	} else if cancelAfter > 0 {
		t := time.AfterFunc(cancelAfter, doCancel)
		defer t.Stop()
	}
	var nonce uint64
	var err error
	if ver == "v1" {
		nonce, err = pow.New(workers).Mine(ctx, data, target)
	} else {
		nonce, err = powv2.New(workers).Mine(ctx, data, uint64(target))
	}
	returned := time.Now()
	if !cancelledAt.IsZero() && returned.After(cancelledAt) {
		elapsed = returned.Sub(cancelledAt)
	}
	// give the watcher a moment to finish, then stop collecting
	deadline := time.Now().Add(200 * time.Millisecond)
	for runtime.NumGoroutine() > before && time.Now().Before(deadline) {
		time.Sleep(time.Millisecond)
	}
	leaked = runtime.NumGoroutine() - before
	lg.mu.Lock()
	evs := append([]string(nil), lg.evs...)
	lg.mu.Unlock()
	if len(evs) == 0 {
		trace = "_"
	} else {
		trace = strings.Join(evs, ",")
	}
	switch {
	case err == nil:
		result = fmt.Sprintf("%d", nonce)
	case err == pow.ErrCancelled || err == powv2.ErrCancelled:
		result = "cancelled"
	default:
		result = "error:" + err.Error()
	}
	return
}

func init() {
	// the op carries a recorded trace; the implementation side has nothing left to compute: it states the
	// claim the model must confirm
	execs["mine.trace"] = func(a []string) string { return "accepted " + a[2] }
	execs["mine.runtime"] = func(a []string) string { return a[0] } // "ok" or a description of what went wrong
	gens["C13"] = genC13
}

func genC13(g *G) {
	type scen struct {
		ver     string
		workers int
		target  float64
		cancel  time.Duration
	}
	var scens []scen
	ws := []int{1, 2, 3, 8}
	if g.thorough {
		ws = []int{1, 2, 3, 8, 16, 64}
	}
	for _, ver := range []string{"v1", "v2"} {
		for _, w := range ws {
			// every lane qualifies: all workers find at once
			scens = append(scens, scen{ver, w, 0, -1}, scen{ver, w, 1, -1})
			// a little work
			scens = append(scens, scen{ver, w, 30, -1})
			// cancelled before the call
			scens = append(scens, scen{ver, w, 1e15, 0})
			scens = append(scens, scen{ver, w, 1, 0}) // pre-cancelled and immediately satisfiable: either outcome is legal
			// cancelled during mining of an unattainable-in-practice target
			scens = append(scens, scen{ver, w, 1e15, time.Duration(1+g.r.intn(5)) * time.Millisecond})
			// cancellation racing with a find
			scens = append(scens, scen{ver, w, 100, time.Duration(g.r.intn(3000)) * time.Microsecond})
		}
	}
	reps := 1
	if g.thorough {
		reps = 8
	}
	for r := 0; r < reps; r++ {
		for _, sc := range scens {
			if sc.ver == "v2" && sc.target == 0 {
				continue // v2 returns immediately for target 0 without starting anything
			}
			data := g.r.bytes(g.r.intn(10))
			trace, result, leaked, elapsed := tracedMine(sc.ver, sc.workers, data, sc.target, sc.cancel)
			if len(trace) > 400000 {
				// very long mining traces: keep the op small by not replaying them (rare; counted in runtime)
				g.emit("mine.runtime", "trace-too-long")
				continue
			}
			g.emit("mine.trace", itoa(sc.workers), trace, result)
			rt := "ok"
			if leaked > 0 {
				rt = fmt.Sprintf("goroutines-leaked:%d", leaked)
			} else if elapsed > 2*time.Second {
				rt = fmt.Sprintf("slow-cancel:%s", elapsed)
			} else if strings.HasPrefix(result, "error:") {
				rt = result
			}
			g.emit("mine.runtime", rt)
		}
	}
}
