package main

// Translation validation by execution: the gen.* ops are answered on the Lean side by the definitions that cmd/extract
// generated from the Go source (Iota/Gen/*.lean), here by the Go functions themselves.  Destinations that are too
// short, input outside the documented domain, negative lengths: whatever Go does — including a run-time panic — the
// generated code must do too.

import (
	"errors"
	"strconv"
	"strings"

	"github.com/iotaledger/iota.go/consts"
	"github.com/iotaledger/iota.go/trinary"
	"github.com/wollac/iota-crypto-demo/pkg/bip32path"
	"github.com/wollac/iota-crypto-demo/pkg/curl"
	"github.com/wollac/iota-crypto-demo/pkg/encoding/b1t6"
	"github.com/wollac/iota-crypto-demo/pkg/encoding/b1t8"
	"github.com/wollac/iota-crypto-demo/pkg/pow"
)

// recovered runs f and returns "panic" if it panics.
func recovered(f func() string) (out string) {
	defer func() {
		if recover() != nil {
			out = "panic"
		}
	}()
	return f()
}

func errName(err error, names map[error]string) string {
	if err == nil {
		return "nil"
	}
	for e, n := range names {
		if errors.Is(err, e) {
			return n
		}
	}
	return "other"
}

func fill8(n int, v int8) []int8 {
	s := make([]int8, n)
	for i := range s {
		s[i] = v
	}
	return s
}

func lanesStr(ls []trinary.Trits) string {
	if len(ls) == 0 {
		return "-"
	}
	var parts []string
	for _, l := range ls {
		parts = append(parts, csvInt8(l))
	}
	return strings.Join(parts, ";")
}

func unlanes(s string) []trinary.Trits {
	if s == "-" {
		return nil
	}
	var ls []trinary.Trits
	for _, p := range strings.Split(s, ";") {
		ls = append(ls, uncsvInt8(p))
	}
	return ls
}

func wordsHex(w []uint) string {
	b := make([]byte, 0, 8*len(w))
	for _, x := range w {
		for j := 7; j >= 0; j-- {
			b = append(b, byte(x>>(8*uint(j))))
		}
	}
	return hx(b)
}

// generators for the gen.* ops that need the verifgen hooks; nil when the harness is built without that tag
var genGenBech32, genGenVrf func(g *G)

func init() {
	mirrorOps["bech32.dec"], mirrorOps["bech32.enc"] = "gen.bech32.dec", "gen.bech32.enc"
	// pkg/migration: Encode / Decode answered by the generated code (the two b1t6 encoding errors are one kind there:
	// the message text is not modelled)
	mirrorOps["mig.enc"], mirrorOps["mig.dec"] = "gen.mig.enc", "gen.mig.dec"
	execs["gen.mig.enc"] = func(a []string) string { return execs["mig.enc"](a) }
	execs["gen.mig.dec"] = func(a []string) string {
		r := execs["mig.dec"](a)
		if r == "err addrenc" || r == "err csenc" {
			return "err enc"
		}
		return r
	}
	// pkg/bip32path: ParsePath / Path.String answered by the generated code; here the error is reported by kind
	mirrorOps["path.parse"], mirrorOps["path.print"] = "gen.path.parse", "gen.path.print"
	execs["gen.path.parse"] = func(a []string) string {
		p, err := bip32path.ParsePath(string(unhx(a[0])))
		switch {
		case err == nil:
			return "ok " + csvU32(p)
		case errors.Is(err, bip32path.ErrInvalidPathFormat):
			return "err ErrInvalidPathFormat"
		case errors.Is(err, strconv.ErrRange):
			return "err ErrRange"
		case errors.Is(err, strconv.ErrSyntax):
			return "err ErrSyntax"
		}
		return "err other"
	}
	execs["gen.path.print"] = func(a []string) string { return hx([]byte(bip32path.Path(uncsvU32(a[0])).String())) }
	// pkg/merkle: every op of the C15 stream is also answered by the generated Hasher.Hash / EmptyRoot
	for _, op := range []string{"merkle.hash", "merkle.gen", "merkle.generrs", "merkle.empty"} {
		op := op
		mirrorOps[op] = "gen." + op
		execs["gen."+op] = func(a []string) string { return execs[op](a) }
	}
	// pkg/slip10/elliptic (stage 13): NewPrivateKey / PrivateKey.Shift / PublicKey.Shift answered by the generated code
	mirrorOps["slip10.shift"] = "gen.slip10.shift"
	// pkg/pow/v2 (stage 14): toInt, stateToInt, sufficientTrailingZeros / targetHash answered by the generated code
	for _, op := range []string{"pow2.toint", "pow2.statetoint", "pow2.suff"} {
		op := op
		mirrorOps[op] = "gen." + op
		execs["gen."+op] = func(a []string) string { return execs[op](a) }
	}
	execs["gen.slip10.shift"] = func(a []string) string { return execs["slip10.shift"](a) }
	// pkg/bip39 (stage 12): EntropyToMnemonic / MnemonicToEntropy answered by the generated code, same reply format
	for _, op := range []string{"bip39.enc", "bip39.dec"} {
		op := op
		mirrorOps[op] = "gen." + op
		execs["gen."+op] = func(a []string) string { return execs[op](a) }
	}
	// pkg/bech32/address (stage 11): ParseBech32 / Bech32 answered by the generated code, same reply format
	for _, op := range []string{"addr.parse", "addr.enc"} {
		op := op
		mirrorOps[op] = "gen." + op
		execs["gen."+op] = func(a []string) string { return execs[op](a) }
	}
	// secp256k1 (stage 10): the ops of the C17 stream are also answered by the generated Add / Double / ScalarMult /
	// ScalarBaseMult / IsOnCurve
	for _, op := range []string{"secp.add", "secp.double", "secp.mul", "secp.basemul", "secp.oncurve"} {
		op := op
		mirrorOps[op] = "gen." + op
		execs["gen."+op] = func(a []string) string { return execs[op](a) }
	}
	execs["gen.bech32.dec"] = func(a []string) string { return execs["bech32.dec"](a) }
	execs["gen.bech32.enc"] = func(a []string) string { return execs["bech32.enc"](a) }
	b6 := map[error]string{b1t6.ErrInvalidTrits: "ErrInvalidTrits", b1t6.ErrInvalidLength: "ErrInvalidLength"}
	b8 := map[error]string{b1t8.ErrInvalidTrit: "ErrInvalidTrit", b1t8.ErrInvalidLength: "ErrInvalidLength"}
	cu := map[error]string{consts.ErrInvalidBatchSize: "consts.ErrInvalidBatchSize", consts.ErrInvalidTritsLength: "consts.ErrInvalidTritsLength",
		consts.ErrInvalidSqueezeLength: "consts.ErrInvalidSqueezeLength"}
	execs["gen.b1t6.enc"] = func(a []string) string {
		return recovered(func() string {
			dst := fill8(atoi(a[0]), 7)
			n := b1t6.Encode(dst, unhx(a[1]))
			return "n=" + itoa(n) + " dst=" + csvInt8(dst)
		})
	}
	execs["gen.b1t6.dec"] = func(a []string) string {
		return recovered(func() string {
			dst := make([]byte, atoi(a[0]))
			for i := range dst {
				dst[i] = 0xAA
			}
			n, err := b1t6.Decode(dst, uncsvInt8(a[1]))
			return "n=" + itoa(n) + " err=" + errName(err, b6) + " dst=" + hx(dst)
		})
	}
	execs["gen.b1t6.enctrytes"] = func(a []string) string {
		return recovered(func() string { return "ok " + hx([]byte(b1t6.EncodeToTrytes(unhx(a[0])))) })
	}
	execs["gen.b1t6.dectrytes"] = func(a []string) string {
		return recovered(func() string {
			bs, err := b1t6.DecodeTrytes(string(unhx(a[0])))
			return "ok " + hx(bs) + " err=" + errName(err, b6)
		})
	}
	execs["gen.b1t8.enc"] = func(a []string) string {
		return recovered(func() string {
			dst := fill8(atoi(a[0]), 7)
			n := b1t8.Encode(dst, unhx(a[1]))
			return "n=" + itoa(n) + " dst=" + csvInt8(dst)
		})
	}
	execs["gen.b1t8.dec"] = func(a []string) string {
		return recovered(func() string {
			dst := make([]byte, atoi(a[0]))
			for i := range dst {
				dst[i] = 0xAA
			}
			n, err := b1t8.Decode(dst, uncsvInt8(a[1]))
			return "n=" + itoa(n) + " err=" + errName(err, b8) + " dst=" + hx(dst)
		})
	}
	execs["gen.tri.put"] = func(a []string) string {
		return recovered(func() string {
			t := uncsvInt8(a[0])
			trinary.MustPutTryteTrits(t, int8(atoi(a[1])))
			return "ok " + csvInt8(t)
		})
	}
	execs["gen.tri.val"] = func(a []string) string {
		return recovered(func() string { return "ok " + itoa(int(trinary.MustTritsToTryteValue(uncsvInt8(a[0])))) })
	}
	execs["gen.tri.tochar"] = func(a []string) string {
		return recovered(func() string { return "ok " + itoa(int(trinary.MustTryteValueToTryte(int8(atoi(a[0]))))) })
	}
	execs["gen.tri.fromchar"] = func(a []string) string {
		return recovered(func() string { return "ok " + itoa(int(trinary.MustTryteToTryteValue(byte(atoi(a[0]))))) })
	}
	execs["gen.pow.lanes"] = func(a []string) string {
		return recovered(func() string {
			var l, h [consts.HashTrinarySize]uint
			lb, hb := unhx(a[0]), unhx(a[1])
			for i := range l {
				for j := 0; j < 8; j++ {
					l[i] = l[i]<<8 | uint(lb[8*i+j])
					h[i] = h[i]<<8 | uint(hb[8*i+j])
				}
			}
			return "ok " + itoa(pow.CheckStateTrits(&l, &h, uint(atoi(a[2]))))
		})
	}
	execs["gen.curl.sponge"] = func(a []string) string {
		c := curl.NewCurlP81()
		src, at, k, st := unlanes(a[0]), atoi(a[1]), atoi(a[2]), atoi(a[3])
		res := recovered(func() string { return "absorb=" + errName(c.Absorb(src, at), cu) })
		if res == "panic" {
			return "absorb=panic"
		}
		dst := make([]trinary.Trits, k)
		for i := range dst {
			dst[i] = trinary.Trits{1}
		}
		sq := recovered(func() string { return errName(c.Squeeze(dst, st), cu) })
		if sq == "panic" {
			return res + " squeeze=panic"
		}
		// the direction is not exported: Absorb of zero trits panics exactly when the sponge is squeezing
		dir := recovered(func() string { c.Absorb([]trinary.Trits{{}}, 0); return "0" })
		if dir == "panic" {
			dir = "1"
		}
		return res + " squeeze=" + sq + " dir=" + dir + " out=" + lanesStr(dst)
	}
}

// genGenB1T6: the generated b1t6 / b1t8 / trinary code against Go, deliberately including what the hand model is not
// meant for: short and over-long destinations, trits outside {-1,0,1}, characters outside the tryte alphabet.
func genGenB1T6(g *G) {
	for v := -128; v < 128; v++ {
		g.emit("gen.tri.tochar", itoa(v))
		for _, n := range []int{0, 2, 3, 5} {
			if n == 3 || v%16 == 0 {
				g.emit("gen.tri.put", csvInt8(fill8(n, 5)), itoa(v))
			}
		}
	}
	for c := 0; c < 256; c++ {
		g.emit("gen.tri.fromchar", itoa(c))
	}
	anyTrit := func() int8 {
		switch g.r.intn(8) {
		case 0:
			return int8(g.r.intn(256) - 128)
		case 1:
			return []int8{2, -2, 127, -128, 3}[g.r.intn(5)]
		}
		return int8(g.r.intn(3) - 1)
	}
	n := 300
	if g.thorough {
		n = 4000
	}
	for k := 0; k < n; k++ {
		t := make([]int8, g.r.intn(5))
		for i := range t {
			t[i] = anyTrit()
		}
		g.emit("gen.tri.val", csvInt8(t))
		src := g.r.bytes(g.r.intn(7))
		for _, d := range []int{-7, -1, 0, 1} { // destination shorter / exact / longer than needed
			if m := 6*len(src) + d; m >= 0 {
				g.emit("gen.b1t6.enc", itoa(m), hx(src))
			}
			if m := 8*len(src) + d; m >= 0 {
				g.emit("gen.b1t8.enc", itoa(m), hx(src))
			}
		}
		g.emit("gen.b1t6.enctrytes", hx(src))
		// decoders: valid encodings with faults, arbitrary int8 values, every remainder, short and long destinations
		enc := make([]int8, 6*len(src))
		b1t6.Encode(enc, src)
		for f := g.r.intn(3); f > 0 && len(enc) > 0; f-- {
			enc[g.r.intn(len(enc))] = anyTrit()
		}
		enc = append(enc, fill8(g.r.intn(6), 0)...)
		for _, d := range []int{-1, 0, 2} {
			if m := len(enc)/6 + d; m >= 0 {
				g.emit("gen.b1t6.dec", itoa(m), csvInt8(enc))
			}
		}
		enc8 := make([]int8, 8*len(src))
		b1t8.Encode(enc8, src)
		for f := g.r.intn(3); f > 0 && len(enc8) > 0; f-- {
			enc8[g.r.intn(len(enc8))] = anyTrit()
		}
		enc8 = append(enc8, fill8(g.r.intn(8), int8(g.r.intn(3)-1))...)
		for _, d := range []int{-1, 0, 2} {
			if m := len(enc8)/8 + d; m >= 0 {
				g.emit("gen.b1t8.dec", itoa(m), csvInt8(enc8))
			}
		}
		// trytes: the alphabet, ':'..'@' (accepted by the table), lower case and arbitrary bytes (panic)
		y := []byte(b1t6.EncodeToTrytes(src))
		if len(y) > 0 && g.r.intn(2) == 0 {
			y[g.r.intn(len(y))] = []byte{':', '@', 'a', 'z', '8', '[', 0, 0xff, 'M', 'N'}[g.r.intn(10)]
		}
		if g.r.intn(3) == 0 {
			y = append(y, "9AZ:az"[g.r.intn(6)])
		}
		g.emit("gen.b1t6.dectrytes", hx(y))
	}
}

// genGenPow: the generated v1 lane test on random and structured planes, every n including n > 243 (where 243 - n wraps).
func genGenPow(g *G) {
	n := 60
	if g.thorough {
		n = 600
	}
	for k := 0; k < n; k++ {
		var l, h [consts.HashTrinarySize]uint
		zeros := g.r.intn(244)
		lane := uint(g.r.intn(64))
		for i := range l {
			l[i], h[i] = uint(g.r.next()), uint(g.r.next())
			if i >= consts.HashTrinarySize-zeros {
				// the chosen lane has `zeros` trailing zero trits (l = h there)
				h[i] = h[i]&^(1<<lane) | l[i]&(1<<lane)
			}
		}
		for _, t := range []int{zeros, zeros + 1, g.r.intn(244), 0, 243, 244, 300} {
			g.emit("gen.pow.lanes", wordsHex(l[:]), wordsHex(h[:]), itoa(t))
		}
	}
}

// genGenCurl: a fresh sponge driven through the generated Reset / Absorb / Squeeze (with the generated transformGeneric
// as the permutation): every batch-size and length error, short lanes, negative lengths, several blocks.
func genGenCurl(g *G) {
	n := 12
	if g.thorough {
		n = 80
	}
	lane := func(m int) trinary.Trits {
		t := make(trinary.Trits, m)
		for i := range t {
			t[i] = int8(g.r.intn(3) - 1)
		}
		return t
	}
	for k := 0; k < n; k++ {
		batch := []int{1, 2, 3, 64}[g.r.intn(4)]
		blocks := g.r.intn(3)
		src := make([]trinary.Trits, batch)
		for i := range src {
			src[i] = lane(243 * blocks)
		}
		g.emit("gen.curl.sponge", lanesStr(src), itoa(243*blocks), itoa(batch), itoa(243*(1+g.r.intn(2))))
	}
	one := []trinary.Trits{lane(243)}
	short := []trinary.Trits{lane(243), lane(200)}
	for _, c := range [][4]string{
		{"-", "0", "1", "243"},                                 // empty batch
		{lanesStr(one), "100", "1", "243"},                     // bad absorb length
		{lanesStr(one), "243", "0", "243"},                     // empty squeeze batch
		{lanesStr(one), "243", "1", "100"},                     // bad squeeze length
		{lanesStr(one), "243", "1", "0"},                       // squeeze nothing: direction stays absorbing
		{lanesStr(one), "0", "2", "486"},                       // absorb nothing
		{lanesStr(short), "243", "2", "243"},                   // a lane shorter than the block: panic
		{lanesStr(one), "486", "1", "243"},                     // lane shorter than tritsCount: panic in the second block
		{lanesStr(one), "-243", "1", "243"},                    // negative multiple: the loop does not run
		{lanesStr(one), "-100", "1", "243"},                    // negative, not a multiple
		{lanesStr(one), "243", "1", "-243"},                    // make panics
		{lanesStr(one), "243", "1", "-1"},                      // negative, not a multiple
		{lanesStr(make([]trinary.Trits, 65)), "0", "1", "243"}, // batch too large
		{lanesStr(one), "243", "65", "243"},                    // squeeze batch too large
	} {
		g.emit("gen.curl.sponge", c[0], c[1], c[2], c[3])
	}
}
