package main

import (
	"context"
	"encoding/binary"
	"fmt"
	"math"
	"math/big"
	"strconv"
	"strings"
	"time"

	"github.com/wollac/iota-crypto-demo/pkg/pow"
	powv2 "github.com/wollac/iota-crypto-demo/pkg/pow/v2"
	"golang.org/x/crypto/blake2b"
)

func planes243(s string) (p [243]uint) {
	for i := range p {
		v, err := strconv.ParseUint(s[16*i:16*i+16], 16, 64)
		if err != nil {
			panic("harness: bad planes")
		}
		p[i] = uint(v)
	}
	return
}

func hexPlanes243(p *[243]uint) string {
	var b strings.Builder
	for _, w := range p {
		fmt.Fprintf(&b, "%016x", uint64(w))
	}
	return b.String()
}

func msgOf(data []byte, nonce uint64) []byte {
	m := make([]byte, len(data)+8)
	copy(m, data)
	binary.LittleEndian.PutUint64(m[len(data):], nonce)
	return m
}

func init() {
	execs["pow1.check"] = func(a []string) string {
		l, h := planes243(a[0]), planes243(a[1])
		n, _ := strconv.Atoi(a[2])
		return itoa(pow.CheckStateTrits(&l, &h, uint(n)))
	}
	execs["pow2.check"] = func(a []string) string {
		l, h := planes243(a[0]), planes243(a[1])
		s, _ := strconv.Atoi(a[2])
		t, _ := new(big.Int).SetString(a[3], 10)
		return itoa(powv2.CheckStateTrits(&l, &h, s, t))
	}
	execs["pow2.toint"] = func(a []string) string { return powv2.ToInt(uncsvInt8(a[0])).String() }
	execs["pow2.statetoint"] = func(a []string) string {
		l, h := planes243(a[0]), planes243(a[1])
		i, _ := strconv.Atoi(a[2])
		return powv2.StateToInt(&l, &h, uint(i)).String()
	}
	execs["pow2.suff"] = func(a []string) string {
		dl, _ := strconv.Atoi(a[0])
		t, _ := strconv.ParseUint(a[1], 10, 64)
		data := make([]byte, dl)
		s := powv2.SufficientTrailingZeros(data, t) // panics on overflow: reported as "panic"
		return itoa(s) + " " + powv2.TargetHash(data, t).String()
	}
	// one worker goroutine's whole mining loop from an arbitrary start nonce (hook WorkerRun)
	execs["pow1.worker"] = func(a []string) string {
		start, _ := strconv.ParseUint(a[1], 10, 64)
		z, _ := strconv.Atoi(a[2])
		n, err := pow.New(1).WorkerRun(unhx(a[0]), start, uint(z))
		if err != nil {
			return "err"
		}
		return strconv.FormatUint(n, 10)
	}
	opTimeout["pow1.worker"] = 20 * time.Second
	execs["pow2.worker"] = func(a []string) string {
		start, _ := strconv.ParseUint(a[1], 10, 64)
		dl, _ := strconv.Atoi(a[2])
		t, _ := strconv.ParseUint(a[3], 10, 64)
		data := make([]byte, dl)
		n, err := powv2.New(1).WorkerRun(unhx(a[0]), start, powv2.SufficientTrailingZeros(data, t), powv2.TargetHash(data, t))
		if err != nil {
			return "err"
		}
		return strconv.FormatUint(n, 10)
	}
	opTimeout["pow2.worker"] = 20 * time.Second
	execs["pow.score"] = func(a []string) string {
		data := unhx(a[0])
		nonce, _ := strconv.ParseUint(a[1], 10, 64)
		msg := msgOf(data, nonce)
		d := blake2b.Sum256(data)
		z := pow.TrailingZeros(d[:], nonce)
		ok := pow.Score(msg) == math.Pow(3, float64(z))/float64(len(msg))
		return fmt.Sprintf("z=%d scoreok=%v v2=%d", z, ok, powv2.Score(msg))
	}
	execs["pow.mined"] = func(a []string) string {
		data := unhx(a[1])
		nonce, _ := strconv.ParseUint(a[3], 10, 64)
		msg := msgOf(data, nonce)
		if a[0] == "v2" {
			t, _ := strconv.ParseUint(a[2], 10, 64)
			sc := powv2.Score(msg)
			return fmt.Sprintf("score=%d ok=%v", sc, sc >= t)
		}
		t, _ := strconv.ParseFloat(a[2], 64)
		d := blake2b.Sum256(data)
		return fmt.Sprintf("z=%d ok=%v", pow.TrailingZeros(d[:], nonce), pow.Score(msg) >= t)
	}
	execs["pow2.nopassover"] = func(a []string) string {
		data := unhx(a[0])
		t, _ := strconv.ParseUint(a[1], 10, 64)
		nonce, _ := strconv.ParseUint(a[2], 10, 64)
		lx := new(big.Int).Mul(new(big.Int).SetUint64(t), big.NewInt(int64(len(data)+8)))
		d := blake2b.Sum256(data)
		for m := uint64(0); m < nonce/64*64; m++ {
			if powv2.Difficulty(d[:], m).Cmp(lx) > 0 {
				return fmt.Sprintf("passed-over %d", m)
			}
		}
		return "none-passed-over"
	}
	execs["pow1.mono"] = func(a []string) string {
		l, _ := strconv.Atoi(a[0])
		prev := math.Inf(-1)
		for z := 0; z <= 243; z++ {
			s := math.Pow(3, float64(z)) / float64(l)
			if !(s > prev) || math.IsNaN(s) {
				return fmt.Sprintf("not-monotone at %d", z)
			}
			prev = s
		}
		return "mono"
	}
	gens["C11"] = genC11
	gens["C12"] = genC12
}

// mine runs Mine with a deadline; a hang or process-level trouble is an observable outcome.
func mineV2(workers int, data []byte, target uint64) (uint64, string) {
	ctx, cancel := context.WithTimeout(context.Background(), 20*time.Second)
	defer cancel()
	n, err := powv2.New(workers).Mine(ctx, data, target)
	if err != nil {
		return 0, err.Error()
	}
	return n, ""
}

func mineV1(workers int, data []byte, target float64) (uint64, string) {
	ctx, cancel := context.WithTimeout(context.Background(), 20*time.Second)
	defer cancel()
	n, err := pow.New(workers).Mine(ctx, data, target)
	if err != nil {
		return 0, err.Error()
	}
	return n, ""
}

// Long-lived Workers (seeded changes C12-h, C11-h: a per-Worker cache of the target hash / the required zero count keyed
// by the target score alone): one Worker per worker count serves a whole series of Mine calls, as a node's would.
var sharedV1 = map[int]*pow.Worker{}
var sharedV2 = map[int]*powv2.Worker{}

func mineV2shared(workers int, data []byte, target uint64) (uint64, string) {
	if sharedV2[workers] == nil {
		sharedV2[workers] = powv2.New(workers)
	}
	ctx, cancel := context.WithTimeout(context.Background(), 60*time.Second)
	defer cancel()
	n, err := sharedV2[workers].Mine(ctx, data, target)
	if err != nil {
		return 0, err.Error()
	}
	return n, ""
}

func mineV1shared(workers int, data []byte, target float64) (uint64, string) {
	if sharedV1[workers] == nil {
		sharedV1[workers] = pow.New(workers)
	}
	ctx, cancel := context.WithTimeout(context.Background(), 60*time.Second)
	defer cancel()
	n, err := sharedV1[workers].Mine(ctx, data, target)
	if err != nil {
		return 0, err.Error()
	}
	return n, ""
}

// seriesLens: message lengths of a series mined by one Worker with one target score — up and down, so that len·t crosses
// several powers of three in both directions between consecutive calls
var seriesLens = []int{0, 40, 1, 100, 19, 400, 2, 1000, 6000, 3}

var pow3 = func() []*big.Int {
	p := make([]*big.Int, 245)
	p[0] = big.NewInt(1)
	for i := 1; i < len(p); i++ {
		p[i] = new(big.Int).Mul(p[i-1], big.NewInt(3))
	}
	return p
}()

// tritsOfHash: the 243 balanced trits whose toInt is h (1 <= h <= 3^243)
func tritsOfHash(h *big.Int) []int8 {
	x := new(big.Int).Sub(h, big.NewInt(1))
	t := make([]int8, 243)
	three := big.NewInt(3)
	r := new(big.Int)
	for i := 0; i < 243; i++ {
		x.DivMod(x, three, r)
		switch r.Int64() {
		case 1:
			t[i] = 1
		case 2:
			t[i] = -1
		}
	}
	return t
}

func planesOfLanes(lanes [][]int8) (l, h [243]uint) {
	for i := 0; i < 243; i++ {
		l[i], h[i] = ^uint(0), ^uint(0)
	}
	for j, t := range lanes {
		for i, v := range t {
			if v > 0 {
				l[i] &^= 1 << uint(j)
			} else if v < 0 {
				h[i] &^= 1 << uint(j)
			}
		}
	}
	return
}

func (g *G) bigBelow(n *big.Int) *big.Int {
	b := g.r.bytes((n.BitLen()+7)/8 + 2)
	x := new(big.Int).SetBytes(b)
	return x.Mod(x, n)
}

// workerStarts: start nonces for the single-worker loop — what Mine hands to worker i of W, multiples of 64, and
// nonces placed so that the second, third … batch straddles a multiple of 2^8, 2^16, 2^24, 2^32, 2^48 or wraps 2^64
func workerStarts(g *G, n int) []uint64 {
	var out []uint64
	for len(out) < n {
		switch g.r.intn(6) {
		case 0:
			out = append(out, g.r.next())
		case 1:
			out = append(out, g.r.next()&^63)
		case 2:
			w := uint64(2 + g.r.intn(63))
			out = append(out, uint64(g.r.intn(int(w)))*(math.MaxUint64/w)+uint64(g.r.intn(3))*64*uint64(1020+g.r.intn(8)))
		default:
			sh := []uint{8, 16, 16, 16, 24, 32, 48, 64}[g.r.intn(8)]
			var base uint64
			if sh < 64 {
				base = (g.r.next() >> sh) << sh
			}
			// the boundary is crossed inside batch number j (0-based), at lane r
			j, r := uint64(g.r.intn(4)), uint64(1+g.r.intn(63))
			out = append(out, base-64*j-r)
		}
	}
	return out
}

func genWorkerV1(g *G) {
	n := 160
	if g.thorough {
		n = 600
	}
	for _, st := range workerStarts(g, n) {
		g.emit("pow1.worker", hx(g.r.bytes(32)), strconv.FormatUint(st, 10), itoa(3+g.r.intn(3)))
	}
}

func genWorkerV2(g *G) {
	n := 160
	if g.thorough {
		n = 600
	}
	for _, st := range workerStarts(g, n) {
		dl := g.r.intn(40)
		lx := uint64(9 + g.r.intn(700)) // 3^s >= lx: s = 2..6
		t := lx / uint64(dl+8)
		if t == 0 || uint64(dl+8)*t < 8 {
			dl, t = 0, 2+uint64(g.r.intn(40))
		}
		g.emit("pow2.worker", hx(g.r.bytes(32)), strconv.FormatUint(st, 10), itoa(dl), strconv.FormatUint(t, 10))
	}
}

func genC12(g *G) {
	genWorkerV2(g)
	// toInt: boundary and random trit vectors
	for _, fill := range []int8{0, 1, -1} {
		t := make([]int8, 243)
		for i := range t {
			t[i] = fill
		}
		g.emit("pow2.toint", csvInt8(t))
		for _, p := range []int{0, 39, 40, 79, 80, 199, 200, 239, 240, 241, 242} {
			u := append([]int8(nil), t...)
			u[p] = []int8{1, -1, 0}[g.r.intn(3)]
			g.emit("pow2.toint", csvInt8(u))
		}
	}
	n := 60
	if g.thorough {
		n = 3000
	}
	for i := 0; i < n; i++ {
		t := make([]int8, 243)
		for k := range t {
			t[k] = int8(g.r.intn(3)) - 1
		}
		g.emit("pow2.toint", csvInt8(t))
	}
	// sufficientTrailingZeros / targetHash: powers of three and their neighbours, the overflow guard
	for _, dl := range []int{0, 1, 5, 100, 1000} {
		L := uint64(dl + 8)
		for k := 0; k <= 40; k++ {
			p := pow3[k].Uint64()
			for _, lx := range []uint64{p - 1, p, p + 1} {
				if lx == 0 {
					continue
				}
				t := lx / L
				for _, tt := range []uint64{t, t + 1} {
					if tt > 0 {
						g.emit("pow2.suff", itoa(dl), strconv.FormatUint(tt, 10))
					}
				}
			}
		}
		max := ^uint64(0) / L
		for _, tt := range []uint64{1, max - 1, max, max + 1, max + 2, ^uint64(0)} {
			g.emit("pow2.suff", itoa(dl), strconv.FormatUint(tt, 10))
		}
	}
	// the lane test on constructed planes
	rounds := 40
	if g.thorough {
		rounds = 2500
	}
	for r := 0; r < rounds; r++ {
		dl := []int{0, 1, 10, 100, 3000}[g.r.intn(5)]
		L := uint64(dl + 8)
		var t uint64
		switch g.r.intn(4) {
		case 0:
			t = 1 + uint64(g.r.intn(20))
		case 1:
			t = pow3[1+g.r.intn(38)].Uint64()/L + uint64(g.r.intn(3))
		case 2:
			t = g.r.next()%(^uint64(0)/L) + 1
		case 3:
			t = uint64(1) << uint(g.r.intn(50))
		}
		if t == 0 || t > ^uint64(0)/L {
			t = 1
		}
		data := make([]byte, dl)
		s := powv2.SufficientTrailingZeros(data, t)
		T := powv2.TargetHash(data, t)
		cand := func() *big.Int {
			switch g.r.intn(9) {
			case 0:
				return new(big.Int).Set(T) // exactly the target hash
			case 1:
				return new(big.Int).Add(T, big.NewInt(1)) // just above: must fail unless s zeros
			case 2:
				if T.Sign() > 0 && T.Cmp(big.NewInt(1)) > 0 {
					return new(big.Int).Sub(T, big.NewInt(1))
				}
				return big.NewInt(1)
			case 3:
				return new(big.Int).Set(pow3[243-s]) // largest hash with s trailing zeros
			case 4:
				return new(big.Int).Add(pow3[243-s], big.NewInt(1)) // s-1 zeros, smallest such above
			case 5:
				return new(big.Int).Set(pow3[244-s]) // largest with s-1 zeros
			case 6:
				return new(big.Int).Add(g.bigBelow(pow3[244-s]), big.NewInt(1)) // random with >= s-1 zeros
			case 7:
				return new(big.Int).Add(g.bigBelow(pow3[243-s]), big.NewInt(1)) // random with >= s zeros
			}
			return new(big.Int).Add(g.bigBelow(pow3[243]), big.NewInt(1)) // random: almost surely fails the mask
		}
		lanes := make([][]int8, 64)
		mode := g.r.intn(5)
		for j := range lanes {
			var h *big.Int
			switch mode {
			case 0: // everything random: all fail
				h = new(big.Int).Add(g.bigBelow(pow3[243]), big.NewInt(1))
			case 1: // one interesting lane at 0, 63 or random, the rest fail
				h = new(big.Int).Add(g.bigBelow(pow3[243]), big.NewInt(1))
			default:
				h = cand()
			}
			if h.Cmp(pow3[243]) > 0 {
				h.Set(pow3[243])
			}
			lanes[j] = tritsOfHash(h)
		}
		if mode == 1 {
			lanes[[]int{0, 63, g.r.intn(64)}[g.r.intn(3)]] = tritsOfHash(cand())
		}
		l, h := planesOfLanes(lanes)
		if g.r.intn(10) == 0 { // sprinkle invalid (0,0) encodings: they read as trit 0 on both paths
			for k := 0; k < 20; k++ {
				i, j := g.r.intn(243), uint(g.r.intn(64))
				l[i] &^= 1 << j
				h[i] &^= 1 << j
			}
		}
		g.emit("pow2.check", hexPlanes243(&l), hexPlanes243(&h), itoa(s), T.String())
		if r%10 == 0 {
			g.emit("pow2.statetoint", hexPlanes243(&l), hexPlanes243(&h), itoa(g.r.intn(64)))
		}
	}
	// Score against the Lean pipeline
	m := 25
	if g.thorough {
		m = 600
	}
	for i := 0; i < m; i++ {
		g.emit("pow.score", hx(g.r.bytes(g.r.intn(40))), strconv.FormatUint(g.r.next(), 10))
	}
	// end-to-end Mine: one worker (with the no-pass-over scan) and several workers
	targets := []uint64{1, 2, 3, 10, 30}
	if g.thorough {
		targets = append(targets, 100, 300, 1000)
	}
	for _, t := range targets {
		data := g.r.bytes(g.r.intn(12))
		if nonce, e := mineV2(1, data, t); e == "" {
			g.emit("pow.mined", "v2", hx(data), strconv.FormatUint(t, 10), strconv.FormatUint(nonce, 10))
			if nonce < 20000 {
				g.emit("pow2.nopassover", hx(data), strconv.FormatUint(t, 10), strconv.FormatUint(nonce, 10))
			}
		} else {
			g.emit("pow.minefailed", "v2", e)
		}
		for _, w := range []int{2, 5, 16} {
			if nonce, e := mineV2(w, data, t); e == "" {
				g.emit("pow.mined", "v2", hx(data), strconv.FormatUint(t, 10), strconv.FormatUint(nonce, 10))
			} else {
				g.emit("pow.minefailed", "v2", e)
			}
		}
	}
	// series on long-lived Workers: the same target score for messages of very different lengths, then another score
	series := []uint64{30, 300}
	if g.thorough {
		series = append(series, 7, 2000)
	}
	for _, t := range series {
		for _, w := range []int{1, 3} {
			for _, dl := range seriesLens {
				if dl > 1000 && (t > 300 || (!g.thorough && t > 30)) {
					continue
				}
				data := g.r.bytes(dl)
				if nonce, e := mineV2shared(w, data, t); e == "" {
					g.emit("pow.mined", "v2", hx(data), strconv.FormatUint(t, 10), strconv.FormatUint(nonce, 10))
					if w == 1 && nonce < 20000 {
						g.emit("pow2.nopassover", hx(data), strconv.FormatUint(t, 10), strconv.FormatUint(nonce, 10))
					}
				} else {
					g.emit("pow.minefailed", "v2", e)
				}
			}
		}
	}
}

func genC11(g *G) {
	genGenPow(g)
	genWorkerV1(g)
	// the v1 lane test on arbitrary planes and every n
	rounds := 60
	if g.thorough {
		rounds = 3000
	}
	for r := 0; r < rounds; r++ {
		lanes := make([][]int8, 64)
		z := g.r.intn(244)
		for j := range lanes {
			t := make([]int8, 243)
			for k := range t {
				t[k] = int8(g.r.intn(3)) - 1
			}
			zz := z
			switch g.r.intn(4) {
			case 0:
				zz = z - 1
			case 1:
				zz = z + 1
			case 2:
				zz = g.r.intn(244)
			}
			if zz < 0 {
				zz = 0
			}
			if zz > 243 {
				zz = 243
			}
			for k := 243 - zz; k < 243; k++ {
				t[k] = 0
			}
			if zz < 243 && g.r.bool() {
				t[242-zz] = 1 // exactly zz trailing zeros
			}
			lanes[j] = t
		}
		l, h := planesOfLanes(lanes)
		g.emit("pow1.check", hexPlanes243(&l), hexPlanes243(&h), itoa(z))
		if r%7 == 0 {
			g.emit("pow1.check", hexPlanes243(&l), hexPlanes243(&h), itoa([]int{0, 1, 242, 243}[g.r.intn(4)]))
		}
	}
	m := 25
	if g.thorough {
		m = 600
	}
	for i := 0; i < m; i++ {
		g.emit("pow.score", hx(g.r.bytes(g.r.intn(40))), strconv.FormatUint(g.r.next(), 10))
	}
	// Mine at rounding boundaries: exactly at, one ulp above and below 3^k/len, 1/len, below it, 0, negative
	kmax := 4
	if g.thorough {
		kmax = 6
	}
	for _, dl := range []int{0, 1, 3, 5} {
		g.emit("pow1.mono", itoa(dl+8))
		data := g.r.bytes(dl)
		L := float64(dl + 8)
		var targets []float64
		for k := 0; k <= kmax; k++ {
			x := math.Pow(3, float64(k)) / L
			targets = append(targets, x, math.Nextafter(x, math.Inf(1)), math.Nextafter(x, math.Inf(-1)))
		}
		targets = append(targets, 1/L/2, 0, -1, 1e-300, math.SmallestNonzeroFloat64)
		for _, t := range targets {
			for _, w := range []int{1, 2, 3, 16} {
				if !g.thorough && w > 2 && g.r.intn(3) != 0 {
					continue
				}
				if nonce, e := mineV1(w, data, t); e == "" {
					g.emit("pow.mined", "v1", hx(data), strconv.FormatFloat(t, 'g', -1, 64), strconv.FormatUint(nonce, 10))
				} else {
					g.emit("pow.minefailed", "v1", e)
				}
			}
		}
	}
	// series on long-lived Workers: the same target score for messages of very different lengths, then another score
	series := []float64{50, 3}
	if g.thorough {
		series = append(series, 400, 0.5)
	}
	for _, t := range series {
		for _, w := range []int{1, 3} {
			for _, dl := range seriesLens {
				if dl > 1000 && (t > 100 || (!g.thorough && t > 3)) {
					continue
				}
				data := g.r.bytes(dl)
				if nonce, e := mineV1shared(w, data, t); e == "" {
					g.emit("pow.mined", "v1", hx(data), strconv.FormatFloat(t, 'g', -1, 64), strconv.FormatUint(nonce, 10))
				} else {
					g.emit("pow.minefailed", "v1", e)
				}
			}
		}
	}
}
