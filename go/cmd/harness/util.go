package main

import "strconv"

func itoa(n int) string { return strconv.Itoa(n) }

func atoi(s string) int {
	n, err := strconv.Atoi(s)
	if err != nil {
		panic("bad integer in op: " + s)
	}
	return n
}
