package main

import "strconv"

func itoa(n int) string { return strconv.Itoa(n) }
