package main

import (
	"math/big"

	"github.com/wollac/iota-crypto-demo/pkg/slip10/btccurve"
)

func bigOfHex(s string) *big.Int {
	b, ok := new(big.Int).SetString(s, 16)
	if !ok {
		panic("harness: bad big hex " + s)
	}
	return b
}

func ptStr(x, y *big.Int) string {
	if x == nil || y == nil {
		return "nil"
	}
	return x.Text(16) + " " + y.Text(16)
}

func init() {
	c := btccurve.Secp256k1()
	execs["secp.add"] = func(a []string) string {
		return ptStr(c.Add(bigOfHex(a[0]), bigOfHex(a[1]), bigOfHex(a[2]), bigOfHex(a[3])))
	}
	execs["secp.double"] = func(a []string) string { return ptStr(c.Double(bigOfHex(a[0]), bigOfHex(a[1]))) }
	execs["secp.mul"] = func(a []string) string {
		return ptStr(c.ScalarMult(bigOfHex(a[0]), bigOfHex(a[1]), unhx(a[2])))
	}
	execs["secp.basemul"] = func(a []string) string { return ptStr(c.ScalarBaseMult(unhx(a[0]))) }
	execs["secp.oncurve"] = func(a []string) string {
		if c.IsOnCurve(bigOfHex(a[0]), bigOfHex(a[1])) {
			return "true"
		}
		return "false"
	}
	gens["C17"] = genC17
}

func genC17(g *G) {
	c := btccurve.Secp256k1()
	p := c.Params()
	n := p.N
	type pt struct{ x, y *big.Int }
	O := pt{new(big.Int), new(big.Int)}
	G1 := pt{p.Gx, p.Gy}
	randPt := func() pt {
		k := new(big.Int).SetBytes(g.r.bytes(32))
		k.Mod(k, n)
		x, y := c.ScalarBaseMult(k.Bytes())
		return pt{x, y}
	}
	neg := func(a pt) pt {
		if a.y.Sign() == 0 {
			return a
		}
		return pt{a.x, new(big.Int).Sub(p.P, a.y)}
	}
	h := func(b *big.Int) string { return b.Text(16) }
	add := func(a, b pt) { g.emit("secp.add", h(a.x), h(a.y), h(b.x), h(b.y)) }
	rounds := 20
	if g.thorough {
		rounds = 600
	}
	for i := 0; i < rounds; i++ {
		a, b := randPt(), randPt()
		add(a, b)      // generic
		add(a, a)      // doubling through Add
		add(a, neg(a)) // cancellation to the identity
		add(a, O)
		add(O, a)
		g.emit("secp.double", h(a.x), h(a.y))
		g.emit("secp.oncurve", h(a.x), h(a.y))
		g.emit("secp.oncurve", h(a.x), h(new(big.Int).Add(a.y, big.NewInt(1))))
		g.emit("secp.oncurve", h(new(big.Int).Xor(a.x, big.NewInt(1<<uint(g.r.intn(60))))), h(a.y))
		// a*G added to (n-a)*G etc. through ScalarMult
		k := g.r.bytes(1 + g.r.intn(40))
		g.emit("secp.mul", h(a.x), h(a.y), hx(k))
		g.emit("secp.basemul", hx(k))
	}
	// points with a small y² (added after seeded change C17-g, an IsOnCurve that compares the unreduced x³+7, wrong exactly
	// when y² mod p < 7) and, symmetrically, a small x³: p ≡ 7 (mod 9), so a^((p+2)/9) is a cube root of every cubic residue
	// a; p ≡ 3 (mod 4), so a^((p+1)/4) is a square root of every quadratic residue
	{
		cbrtExp := new(big.Int).Div(new(big.Int).Add(p.P, big.NewInt(2)), big.NewInt(9))
		sqrtExp := new(big.Int).Div(new(big.Int).Add(p.P, big.NewInt(1)), big.NewInt(4))
		seven := big.NewInt(7)
		for yv := int64(0); yv <= 40; yv++ {
			for _, y := range []*big.Int{big.NewInt(yv), new(big.Int).Sub(p.P, big.NewInt(yv))} {
				a := new(big.Int).Mul(y, y)
				a.Sub(a, seven).Mod(a, p.P)
				r := new(big.Int).Exp(a, cbrtExp, p.P)
				g.emit("secp.oncurve", h(r), h(y)) // on the curve iff a is a cubic residue
				if new(big.Int).Exp(r, big.NewInt(3), p.P).Cmp(a) == 0 && y.Sign() != 0 && y.Cmp(p.P) < 0 {
					q := pt{r, new(big.Int).Set(y)}
					add(q, G1)
					add(q, q)
					g.emit("secp.mul", h(q.x), h(q.y), "03")
				}
			}
		}
		for xv := int64(0); xv <= 40; xv++ {
			for _, x := range []*big.Int{big.NewInt(xv), new(big.Int).Sub(p.P, big.NewInt(xv))} {
				a := new(big.Int).Exp(x, big.NewInt(3), p.P)
				a.Add(a, seven).Mod(a, p.P)
				r := new(big.Int).Exp(a, sqrtExp, p.P)
				g.emit("secp.oncurve", h(x), h(r))
				if new(big.Int).Mul(r, r).Mod(new(big.Int).Mul(r, r), p.P).Cmp(a) == 0 && x.Cmp(p.P) < 0 && r.Sign() != 0 {
					q := pt{new(big.Int).Set(x), r}
					add(q, neg(q))
					g.emit("secp.double", h(q.x), h(q.y))
				}
			}
		}
	}
	add(O, O)
	add(G1, G1)
	add(G1, neg(G1))
	g.emit("secp.double", "0", "0")
	g.emit("secp.oncurve", "0", "0")
	g.emit("secp.oncurve", h(p.Gx), h(p.Gy))
	// scalars: 0, 1, n-1, n, n+1, 2n, 2^256-1, leading zero bytes, lengths 0..40
	one := big.NewInt(1)
	two256 := new(big.Int).Lsh(one, 256)
	scalars := []*big.Int{big.NewInt(0), one, big.NewInt(2), new(big.Int).Sub(n, one), n, new(big.Int).Add(n, one),
		new(big.Int).Lsh(n, 1), new(big.Int).Sub(two256, one), new(big.Int).Rsh(n, 1), new(big.Int).Add(new(big.Int).Rsh(n, 1), one)}
	for _, s := range scalars {
		for _, pad := range []int{0, 1, 8} {
			k := append(make([]byte, pad), s.Bytes()...)
			g.emit("secp.basemul", hx(k))
			a := randPt()
			g.emit("secp.mul", h(a.x), h(a.y), hx(k))
			g.emit("secp.mul", "0", "0", hx(k)) // multiples of the identity
		}
	}
	// scalars whose bit prefixes make the double-and-add accumulator hit +-P, 2P or the identity in the middle of the
	// loop: c*n + t for small t (a prefix p with 2p = +-1, 0, 2 mod n), also followed by further random bits
	for cmul := int64(1); cmul <= 3; cmul++ {
		for t := int64(-4); t <= 4; t++ {
			k0 := new(big.Int).Add(new(big.Int).Mul(big.NewInt(cmul), n), big.NewInt(t))
			for _, extra := range []uint{0, 1, 3, 8} {
				if !g.thorough && extra > 1 && (t+cmul)%2 != 0 {
					continue
				}
				k := new(big.Int).Lsh(k0, extra)
				if extra > 0 {
					k.Add(k, big.NewInt(int64(g.r.intn(1<<extra))))
				}
				kb := append(make([]byte, g.r.intn(2)), k.Bytes()...)
				g.emit("secp.basemul", hx(kb))
				a := randPt()
				g.emit("secp.mul", h(a.x), h(a.y), hx(kb))
			}
		}
	}
	for l := 0; l <= 40; l++ {
		g.emit("secp.basemul", hx(make([]byte, l)))
	}
}
