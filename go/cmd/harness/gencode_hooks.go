//go:build verifgen

package main

// The gen.* ops for unexported helpers (checksum.go, internal/base32, chars.go, vrf.isCanonicalY).  They go through
// hooks of the repository that need the build tags verif AND verifgen: ./check builds the harness with both and falls
// back to verif alone when that does not compile (a refactoring that changes the signature of an unexported helper must
// not take the whole correspondence run down with it).

import (
	"errors"
	"strings"

	"github.com/wollac/iota-crypto-demo/pkg/bech32"
	"github.com/wollac/iota-crypto-demo/pkg/vrf"
)

func init() {
	genGenBech32, genGenVrf = genGenBech32Impl, genGenVrfImpl
	execs["gen.b32.polymod"] = func(a []string) string { return "ok " + itoa(bech32.Polymod(unhx(a[0]))) }
	execs["gen.b32.hrpexpand"] = func(a []string) string { return "ok " + hx(bech32.HrpExpand(string(unhx(a[0])))) }
	execs["gen.b32.create"] = func(a []string) string {
		return "ok " + hx(bech32.CreateChecksum(string(unhx(a[0])), unhx(a[1])))
	}
	execs["gen.b32.verify"] = func(a []string) string {
		if bech32.VerifyChecksum(string(unhx(a[0])), unhx(a[1])) {
			return "ok true"
		}
		return "ok false"
	}
	execs["gen.base32.len"] = func(a []string) string {
		n := atoi(a[0])
		return "ok " + itoa(bech32.Base32EncodedLen(n)) + " " + itoa(bech32.Base32DecodedLen(n))
	}
	fill := func(n int) []byte {
		b := make([]byte, n)
		for i := range b {
			b[i] = 0x55
		}
		return b
	}
	execs["gen.base32.enc"] = func(a []string) string {
		return recovered(func() string {
			dst := fill(atoi(a[0]))
			n := bech32.Base32Encode(dst, unhx(a[1]))
			return "n=" + itoa(n) + " dst=" + hx(dst)
		})
	}
	execs["gen.base32.dec"] = func(a []string) string {
		return recovered(func() string {
			dst := fill(atoi(a[0]))
			n, err := bech32.Base32Decode(dst, unhx(a[1]))
			es := "nil"
			if err != nil {
				il, nz := bech32.Base32Errors()
				name := "other"
				switch {
				case errors.Is(err, il):
					name = "ErrInvalidLength"
				case errors.Is(err, nz):
					name = "ErrNonZeroPadding"
				}
				// the offset is a field of an internal type: read it from the message "… at input byte N"
				msg := err.Error()
				es = name + "@" + msg[strings.LastIndex(msg, " ")+1:]
			}
			return "n=" + itoa(n) + " err=" + es + " dst=" + hx(dst)
		})
	}
	execs["gen.chars.new"] = func(a []string) string {
		return recovered(func() string {
			enc, dec := bech32.NewEncodingTables(string(unhx(a[0])))
			return "ok " + hx(enc[:]) + " " + hx(dec[:])
		})
	}
	execs["gen.chars.enc"] = func(a []string) string {
		return recovered(func() string { return "ok " + hx([]byte(bech32.CharsetEncode(unhx(a[0])))) })
	}
	execs["gen.chars.dec"] = func(a []string) string {
		return recovered(func() string {
			r, err := bech32.CharsetDecode(string(unhx(a[0])))
			return "ok " + hx(r) + " err=" + errName(err, map[error]string{bech32.ErrInvalidCharacter: "ErrInvalidCharacter"})
		})
	}
	execs["gen.vrf.canon"] = func(a []string) string {
		return recovered(func() string {
			if vrf.IsCanonicalY(unhx(a[0])) {
				return "ok true"
			}
			return "ok false"
		})
	}
}

// genGenBech32: the generated checksum.go, internal/base32 and chars.go against Go.
func genGenBech32Impl(g *G) {
	for n := -3; n <= 70; n++ {
		g.emit("gen.base32.len", itoa(n))
	}
	for _, n := range []int{1 << 40, 1<<60 - 1, 1 << 60, 1<<61 + 5, 1<<62 + 1, 1<<63 - 1, -(1 << 62)} {
		g.emit("gen.base32.len", itoa(n))
	}
	g.emit("gen.chars.new", hx([]byte(b32charset)))
	g.emit("gen.chars.new", hx([]byte(b32charset[:31])))
	g.emit("gen.chars.new", hx([]byte(b32charset+"x")))
	g.emit("gen.chars.new", hx([]byte("aaaaaaaaaaaaaaaabbbbbbbbbbbbbbb\xff"))) // duplicates: the later index wins
	rounds := 150
	if g.thorough {
		rounds = 3000
	}
	for k := 0; k < rounds; k++ {
		syms := make([]byte, g.r.intn(40))
		for i := range syms {
			syms[i] = byte(g.r.intn(32))
		}
		hrp := strings.ToLower(g.hrp(1 + g.r.intn(8)))
		g.emit("gen.b32.polymod", hx(syms))
		g.emit("gen.b32.hrpexpand", hx([]byte(hrp)))
		g.emit("gen.b32.create", hx([]byte(hrp)), hx(syms))
		full := append(append([]byte(nil), syms...), bech32.CreateChecksum(hrp, syms)...)
		g.emit("gen.b32.verify", hx([]byte(hrp)), hx(full))
		if len(full) > 0 {
			full[g.r.intn(len(full))] ^= byte(1 + g.r.intn(31))
		}
		g.emit("gen.b32.verify", hx([]byte(hrp)), hx(full))
		g.emit("gen.b32.polymod", hx(g.r.bytes(g.r.intn(12)))) // symbols above 31: only the arithmetic matters
		// base32: every length residue, destinations one short / exact / longer, invalid padding and lengths
		src := g.r.bytes(g.r.intn(12))
		need := bech32.Base32EncodedLen(len(src))
		for _, d := range []int{-1, 0, 3} {
			if need+d >= 0 {
				g.emit("gen.base32.enc", itoa(need+d), hx(src))
			}
		}
		enc := make([]byte, need)
		bech32.Base32Encode(enc, src)
		switch g.r.intn(4) {
		case 0:
			if len(enc) > 0 {
				enc[len(enc)-1] |= byte(1 << uint(g.r.intn(5))) // padding bits
			}
		case 1:
			enc = append(enc, byte(g.r.intn(32)))
		case 2:
			if len(enc) > 0 {
				enc = enc[:len(enc)-1]
			}
		}
		dneed := bech32.Base32DecodedLen(len(enc))
		for _, d := range []int{-3, -1, 0, 2} {
			if dneed+d >= 0 {
				g.emit("gen.base32.dec", itoa(dneed+d), hx(enc))
			}
		}
		// chars: symbols in and out of range; strings with charset characters, other ASCII, non-ASCII, invalid UTF-8
		if g.r.intn(4) == 0 && len(syms) > 0 {
			syms[g.r.intn(len(syms))] = byte(32 + g.r.intn(224))
		}
		g.emit("gen.chars.enc", hx(syms))
		str := []byte(bech32.CharsetEncode(syms[:0]))
		for i := g.r.intn(20); i > 0; i-- {
			str = append(str, b32charset[g.r.intn(32)])
		}
		if g.r.intn(2) == 0 {
			bad := [][]byte{{'b'}, {'1'}, {'Q'}, {0xc3, 0xa9}, {0xe2, 0x84, 0xaa}, {0xff}, {0x80}, {0xf0, 0x9f, 0x98, 0x80}, {0xc3}, {0}}[g.r.intn(10)]
			at := g.r.intn(len(str) + 1)
			str = append(str[:at], append(append([]byte(nil), bad...), str[at:]...)...)
		}
		g.emit("gen.chars.dec", hx(str))
	}
}

// genGenVrf: the generated isCanonicalY: short inputs (panic), the boundary encodings, random strings.
func genGenVrfImpl(g *G) {
	for n := 0; n <= 33; n++ {
		g.emit("gen.vrf.canon", hx(make([]byte, n)))
	}
	for _, e := range smallOrder {
		g.emit("gen.vrf.canon", e)
	}
	for k := 1; k <= 30; k++ {
		for _, b0 := range []byte{0xec, 0xed, 0xff} {
			x := make([]byte, 32)
			for i := range x {
				x[i] = 0xff
			}
			x[0], x[k] = b0, 0xfe
			g.emit("gen.vrf.canon", hx(x))
			x[31] = 0x7f
			g.emit("gen.vrf.canon", hx(x))
		}
	}
	for i := 0; i < 100; i++ {
		g.emit("gen.vrf.canon", hx(g.r.bytes(32+g.r.intn(3))))
	}
}
