package main

import (
	"crypto/hmac"
	"crypto/sha256"
	"crypto/sha512"
	"errors"
	"fmt"
	"math/big"
	"strings"
	"time"

	"github.com/wollac/iota-crypto-demo/pkg/slip10"
	"github.com/wollac/iota-crypto-demo/pkg/slip10/eddsa"
	"github.com/wollac/iota-crypto-demo/pkg/slip10/elliptic"
	"golang.org/x/crypto/ripemd160" //nolint
)

// ---- toy pluggable curve (mirrored by Iota/Driver/Slip10.lean `toyCurve`)

type toyCurve struct {
	m    int
	perm bool
}
type toyKey struct {
	c *toyCurve
	b []byte
}

var errToyPermanent = errors.New("toy: permanent failure")

func (c *toyCurve) Name() string    { return "toy" }
func (c *toyCurve) HmacKey() []byte { return []byte("toy") }
func (c *toyCurve) NewPrivateKey(buf []byte) (slip10.Key, error) {
	if c.perm && buf[1] == 0xFF {
		return nil, errToyPermanent
	}
	if int(buf[0])%c.m != 0 {
		return nil, slip10.ErrInvalidKey
	}
	return &toyKey{c, append([]byte(nil), buf...)}, nil
}
func (k *toyKey) Bytes() []byte   { return k.b }
func (k *toyKey) IsPrivate() bool { return len(k.b) == 32 }
func (k *toyKey) Public() slip10.Key {
	if len(k.b) == 32 {
		return &toyKey{k.c, append([]byte{2}, k.b...)}
	}
	return k
}
func (k *toyKey) Shift(buf []byte) (slip10.Key, error) {
	if k.c.perm && buf[1] == 0xFF {
		return nil, errToyPermanent
	}
	first := k.b[len(k.b)-32]
	if int(buf[0]^first)%k.c.m != 0 {
		return nil, fmt.Errorf("wrapped: %w", slip10.ErrInvalidKey)
	}
	body := k.b[len(k.b)-32:]
	out := make([]byte, 32)
	for i := range out {
		out[i] = body[i] ^ buf[i]
	}
	if len(k.b) == 32 {
		return &toyKey{k.c, out}, nil
	}
	return &toyKey{k.c, append([]byte{2}, out...)}, nil
}

func slipCurve(name string) slip10.Curve {
	switch name {
	case "k1":
		return elliptic.Secp256k1()
	case "p256":
		return elliptic.Nist256p1()
	case "ed":
		return eddsa.Ed25519()
	case "toy2":
		return &toyCurve{2, false}
	case "toy100":
		return &toyCurve{100, false}
	case "toyperm":
		return &toyCurve{2, true}
	}
	panic("harness: unknown curve " + name)
}

func slipErr(err error) string {
	switch {
	case errors.Is(err, slip10.ErrHardenedChildPublicKey):
		return "err hardened-pub"
	case errors.Is(err, slip10.ErrNotHardened):
		return "err not-hardened"
	case errors.Is(err, errToyPermanent):
		return "err curve 7"
	case errors.Is(err, slip10.ErrInvalidKey):
		return "err invalid-key-leaked"
	}
	return "err other"
}

func showExt(e *slip10.ExtendedKey, err error) string {
	if err != nil {
		return slipErr(err)
	}
	return "key=" + hx(e.Key.Bytes()) + " cc=" + hx(e.ChainCode) + " pub=" + hx(e.Key.Public().Bytes()) + " fpr=" + hx(e.Fingerprint())
}

func init() {
	opTimeout["slip10.derive"] = 20 * time.Second
	execs["slip10.derive"] = func(a []string) string {
		path := uncsvU32(a[2])
		e, err := slip10.DeriveKeyFromPath(unhx(a[1]), slipCurve(a[0]), path)
		if err == nil {
			// path concatenation: deriving step by step gives the same key
			k, err2 := slip10.NewMasterKey(unhx(a[1]), slipCurve(a[0]))
			nodes := []*slip10.ExtendedKey{k}
			snaps := []string{showExt(k, err2)}
			for _, i := range path {
				if err2 != nil {
					break
				}
				k, err2 = k.DeriveChild(i)
				nodes = append(nodes, k)
				snaps = append(snaps, showExt(k, err2))
			}
			if err2 != nil || showExt(k, nil) != showExt(e, nil) {
				return "stepwise-differs"
			}
			// results handed out earlier must not change when siblings are derived from the same nodes afterwards,
			// and deriving the same child again must give the same key (no state carried inside an ExtendedKey)
			for j := range nodes[:len(nodes)-1] {
				nodes[j].DeriveChild(path[j] ^ 1)
				nodes[j].DeriveChild(path[j] ^ 0x40000000)
			}
			for j := range nodes {
				if showExt(nodes[j], nil) != snaps[j] {
					return "earlier-result-changed-by-later-derivation"
				}
			}
			for j := range nodes[:len(nodes)-1] {
				if again, err3 := nodes[j].DeriveChild(path[j]); err3 != nil || showExt(again, nil) != snaps[j+1] {
					return "second-derivation-differs"
				}
			}
		}
		return showExt(e, err)
	}
	execs["slip10.pubderive"] = func(a []string) string {
		e, err := slip10.DeriveKeyFromPath(unhx(a[1]), slipCurve(a[0]), uncsvU32(a[2]))
		if err != nil {
			return slipErr(err)
		}
		i := uncsvU32(a[3])[0]
		c1, err1 := e.DeriveChild(i)
		var pa string
		if err1 != nil {
			pa = slipErr(err1)
		} else {
			pa = showExt(c1.Public(), nil)
		}
		c2, err2 := e.Public().DeriveChild(i)
		return "privside[" + pa + "] pubside[" + showExt(c2, err2) + "]"
	}
	execs["slip10.shift"] = func(a []string) string {
		c := slipCurve(a[0])
		key, err := c.NewPrivateKey(unhx(a[1]))
		if err != nil {
			return "bad-scalar"
		}
		sh := func(f func() (slip10.Key, error)) (r string) {
			defer func() {
				if e := recover(); e != nil {
					r = "panic"
				}
			}()
			k, err := f()
			if err != nil {
				if errors.Is(err, slip10.ErrInvalidKey) {
					return "invalid"
				}
				return "error"
			}
			return hx(k.Public().Bytes())
		}
		s := unhx(a[2])
		return "priv=" + sh(func() (slip10.Key, error) { return key.Shift(s) }) + " pub=" + sh(func() (slip10.Key, error) { return key.Public().Shift(s) })
	}
	execs["hash.hmac512"] = func(a []string) string {
		h := hmac.New(sha512.New, unhx(a[0]))
		h.Write(unhx(a[1]))
		return hx(h.Sum(nil))
	}
	execs["hash.hash160"] = func(a []string) string {
		s := sha256.Sum256(unhx(a[0]))
		r := ripemd160.New()
		r.Write(s[:])
		return hx(r.Sum(nil))
	}
	gens["C02"] = genC02
	gens["C08"] = genC08
}

func (g *G) path(maxLen int, hardenedOnly bool) []uint32 {
	p := make([]uint32, g.r.intn(maxLen+1))
	for i := range p {
		v := uint32(g.r.next())
		switch g.r.intn(4) {
		case 0:
			v = uint32(g.r.intn(5))
		case 1:
			v = 1<<31 | uint32(g.r.intn(5))
		}
		if hardenedOnly {
			v |= 1 << 31
		}
		p[i] = v
	}
	return p
}

// the coordinates themselves are inspected, not the serialization under test
func leadingZeroX(k slip10.Key) bool {
	pk, ok := k.(*elliptic.PublicKey)
	return ok && pk.X != nil && pk.X.BitLen() <= 248
}

func leadingZeroK(k slip10.Key) bool {
	sk, ok := k.(*elliptic.PrivateKey)
	return ok && sk.K != nil && sk.K.BitLen() <= 248
}

func genC02(g *G) {
	n := 6
	if g.thorough {
		n = 150
	}
	// seeds of length 0..64 x three curves x random paths
	for _, cv := range []string{"k1", "p256", "ed"} {
		for l := 0; l <= 64; l++ {
			if !g.thorough && l%9 != 0 && l != 16 && l != 64 {
				continue
			}
			g.emit("slip10.derive", cv, hx(g.r.bytes(l)), csvU32(g.path(4, cv == "ed")))
		}
		for i := 0; i < n; i++ {
			g.emit("slip10.derive", cv, hx(g.r.bytes(16+g.r.intn(49))), csvU32(g.path(6, cv == "ed")))
		}
	}
	// keys whose serialization has leading zero bytes (public x, private scalar, chain code: each 1 in 256): found by
	// search over sibling indices with the real package, then derived through and below (the serialized public key of such
	// a node is the HMAC input of its non-hardened children)
	for _, cv := range []string{"k1", "p256"} {
		seed := g.r.bytes(32)
		parent, err := slip10.DeriveKeyFromPath(seed, slipCurve(cv), []uint32{1<<31 | 44})
		if err != nil {
			continue
		}
		found := map[string]bool{}
		for i := uint32(0); i < 4000 && len(found) < 3; i++ {
			c, err := parent.DeriveChild(i)
			if err != nil {
				continue
			}
			kind := ""
			switch {
			case leadingZeroX(c.Key.Public()):
				kind = "pub"
			case leadingZeroK(c.Key):
				kind = "priv"
			case c.ChainCode[0] == 0:
				kind = "cc"
			}
			if kind == "" || found[kind] {
				continue
			}
			found[kind] = true
			g.emit("slip10.derive", cv, hx(seed), csvU32([]uint32{1<<31 | 44, i, uint32(g.r.intn(1000))}))
			g.emit("slip10.derive", cv, hx(seed), csvU32([]uint32{1<<31 | 44, i, 1<<31 | uint32(g.r.intn(1000))}))
			g.emit("slip10.pubderive", cv, hx(seed), csvU32([]uint32{1<<31 | 44, i}), csvU32([]uint32{uint32(g.r.intn(1000))}))
		}
	}
	// undefined derivations: non-hardened on ed25519 (private and public), hardened child of a public key
	for i := 0; i < 4; i++ {
		seed := hx(g.r.bytes(32))
		g.emit("slip10.derive", "ed", seed, csvU32([]uint32{1<<31 | 1, uint32(g.r.intn(1 << 30))}))
		g.emit("slip10.pubderive", "ed", seed, csvU32(g.path(2, true)), csvU32([]uint32{uint32(g.r.intn(1 << 30))}))
		g.emit("slip10.pubderive", "ed", seed, csvU32(g.path(2, true)), csvU32([]uint32{1<<31 | 5}))
		g.emit("slip10.pubderive", "k1", seed, csvU32(g.path(2, false)), csvU32([]uint32{1<<31 | uint32(g.r.intn(100))}))
	}
	// retry branches: pluggable curves rejecting ~50% and ~99% of the candidates; a permanent curve error
	m := 30
	if g.thorough {
		m = 1500
	}
	for i := 0; i < m; i++ {
		g.emit("slip10.derive", "toy2", hx(g.r.bytes(16)), csvU32(g.path(5, false)))
		g.emit("slip10.pubderive", "toy2", hx(g.r.bytes(16)), csvU32(g.path(2, false)), csvU32([]uint32{uint32(g.r.intn(1 << 31))}))
		if i%3 == 0 {
			g.emit("slip10.derive", "toy100", hx(g.r.bytes(16)), csvU32(g.path(3, false)))
		}
		g.emit("slip10.derive", "toyperm", hx(g.r.bytes(16)), csvU32(g.path(40, false)))
	}
	if g.thorough {
		shiftCorners(g, 12)
	} else {
		shiftCorners(g, 3)
	}
	for _, b := range [][]byte{{}, []byte("abc"), make([]byte, 127), make([]byte, 128), make([]byte, 129), make([]byte, 200)} {
		g.emit("hash.hmac512", hx(g.r.bytes(g.r.intn(140))), hx(b))
		g.emit("hash.hash160", hx(b))
	}
}

// shiftCorners: PrivateKey.Shift / PublicKey.Shift at the boundaries of the scalar arithmetic (shift 0, k, n-k, n-k+1, n-1, n,
// n+1, 2^256-1): the step of CKD in which "the resulting key is invalid, retry" is decided. Shared by C08 and — since seeded
// change C02-h, an off-by-one in the reduction of I_L + k_par that only k + shift = n reaches — by C02, whose retry clause
// depends on exactly this decision and whose derivation stream meets it with probability 2^-256.
func shiftCorners(g *G, n int) {
	orders := map[string]*big.Int{}
	orders["k1"], _ = new(big.Int).SetString("FFFFFFFFFFFFFFFFFFFFFFFFFFFFFFFEBAAEDCE6AF48A03BBFD25E8CD0364141", 16)
	orders["p256"], _ = new(big.Int).SetString("ffffffff00000000ffffffffffffffffbce6faada7179e84f3b9cac2fc632551", 16)
	be32 := func(x *big.Int) []byte { return x.FillBytes(make([]byte, 32)) }
	for _, cv := range []string{"k1", "p256"} {
		N := orders[cv]
		for i := 0; i < n; i++ {
			k := new(big.Int).SetBytes(g.r.bytes(32))
			k.Mod(k, new(big.Int).Sub(N, big.NewInt(1)))
			k.Add(k, big.NewInt(1))
			shifts := []*big.Int{big.NewInt(0), new(big.Int).Set(k), new(big.Int).Sub(N, k), new(big.Int).Sub(N, big.NewInt(1)), new(big.Int).Set(N),
				new(big.Int).Add(N, big.NewInt(1)), new(big.Int).Sub(new(big.Int).Lsh(big.NewInt(1), 256), big.NewInt(1)), big.NewInt(1),
				new(big.Int).SetBytes(g.r.bytes(32)), new(big.Int).Mod(new(big.Int).Add(new(big.Int).Sub(N, k), big.NewInt(1)), N)}
			for _, s := range shifts {
				g.emit("slip10.shift", cv, hx(be32(k)), hx(be32(s)))
			}
		}
		// scalar 1 and n-1
		for _, k := range []*big.Int{big.NewInt(1), new(big.Int).Sub(N, big.NewInt(1))} {
			for _, s := range []*big.Int{big.NewInt(0), big.NewInt(1), new(big.Int).Sub(N, big.NewInt(1)), new(big.Int).Sub(N, k), k} {
				g.emit("slip10.shift", cv, hx(be32(k)), hx(be32(s)))
			}
		}
	}
}

func genC08(g *G) {
	n := 8
	if g.thorough {
		n = 250
	}
	shiftCorners(g, n)
	for _, cv := range []string{"k1", "p256"} {
		// public vs private child derivation
		for i := 0; i < 2*n; i++ {
			g.emit("slip10.pubderive", cv, hx(g.r.bytes(16+g.r.intn(40))), csvU32(g.path(3, false)), csvU32([]uint32{uint32(g.r.next()) &^ (1 << 31)}))
		}
	}
	_ = strings.Join
}
