package main

import (
	"bytes"

	"github.com/wollac/iota-crypto-demo/pkg/bip32path"
)

func init() {
	execs["path.parse"] = func(a []string) string {
		s := string(unhx(a[0]))
		p, err := bip32path.ParsePath(s)
		var q bip32path.Path
		err2 := q.UnmarshalText([]byte(s))
		if (err == nil) != (err2 == nil) || (err == nil && csvU32(p) != csvU32(q)) {
			return "unmarshal-differs"
		}
		if err != nil {
			return "err"
		}
		return "ok " + csvU32(p)
	}
	execs["path.print"] = func(a []string) string {
		p := bip32path.Path(uncsvU32(a[0]))
		s := p.String()
		m, err := p.MarshalText()
		if err != nil || !bytes.Equal(m, []byte(s)) {
			return "marshal-differs"
		}
		back := "err"
		if q, err := bip32path.ParsePath(s); err == nil {
			back = "ok " + csvU32(q)
		}
		return hx([]byte(s)) + " back=" + back
	}
	gens["C10"] = genC10
}

func genC10(g *G) {
	// all strings of length ≤ L over a 10-letter alphabet that contains every syntactic class
	alpha := []byte("0179m/H'x8")
	L := 5
	if g.thorough {
		L = 6
	}
	var rec func(cur []byte)
	rec = func(cur []byte) {
		g.emit("path.parse", hx(cur))
		if len(cur) == L {
			return
		}
		for _, c := range alpha {
			rec(append(cur, c))
		}
	}
	rec(nil)
	// 2^31 boundary values with leading zeros, all markers, with and without the m/ prefix
	vals := []string{"0", "1", "7", "8", "9", "10", "2147483646", "2147483647", "2147483648", "2147483649",
		"4294967295", "4294967296", "9999999999", "18446744073709551615", "18446744073709551616", "99999999999999999999999"}
	for _, v := range vals {
		for z := 0; z <= 20; z++ {
			if !g.thorough && z > 3 && z != 20 {
				continue
			}
			for _, mk := range []string{"", "H", "'", "h", "''", "H'"} {
				for _, pre := range []string{"m/", "", "m/0/", "M/"} {
					s := pre
					for i := 0; i < z; i++ {
						s += "0"
					}
					s += v + mk
					g.emit("path.parse", hx([]byte(s)))
				}
			}
		}
	}
	// prefixes that look like other bases, signs, underscores, non-ASCII digits
	for _, s := range []string{"m/0x10", "m/0X10", "m/0b1", "m/0o7", "m/1_000", "m/+1", "m/-1", "m/ 1", "m/1 ", "m/١", "m/１", "m/1/", "/1", "m//1", "m", "", "m/", "mm", "m/m", "m/m/1", "m/1/m", "1/m/", "\x00", "m/1\x00", "m/\xff"} {
		g.emit("path.parse", hx([]byte(s)))
	}
	// random paths of length 0..40 for the round trip
	n := 400
	if g.thorough {
		n = 20000
	}
	for i := 0; i < n; i++ {
		l := g.r.intn(41)
		p := make([]uint32, l)
		for j := range p {
			switch g.r.intn(6) {
			case 0:
				p[j] = uint32(g.r.intn(10))
			case 1:
				p[j] = 1<<31 + uint32(g.r.intn(10))
			case 2:
				p[j] = []uint32{0, 1<<31 - 1, 1 << 31, 1<<32 - 1, 1<<31 + 1}[g.r.intn(5)]
			default:
				p[j] = uint32(g.r.next())
			}
		}
		g.emit("path.print", csvU32(p))
	}
	// random mutation of printed paths
	for i := 0; i < n; i++ {
		l := 1 + g.r.intn(5)
		p := make(bip32path.Path, l)
		for j := range p {
			p[j] = uint32(g.r.next())
		}
		s := []byte(p.String())
		for k := g.r.intn(3); k >= 0; k-- {
			pos := g.r.intn(len(s))
			switch g.r.intn(3) {
			case 0:
				s[pos] = alpha[g.r.intn(len(alpha))]
			case 1:
				s = append(s[:pos:pos], s[pos+1:]...)
			case 2:
				s = append(s[:pos:pos], append([]byte{alpha[g.r.intn(len(alpha))]}, s[pos:]...)...)
			}
			if len(s) == 0 {
				break
			}
		}
		g.emit("path.parse", hx(s))
	}
}
