package main

import (
	"bytes"
	"crypto"
	stded "crypto/ed25519"
	"crypto/rsa"
	"crypto/sha512"
	"encoding/hex"
	"fmt"
	"math/big"

	"filippo.io/edwards25519"
	"github.com/wollac/iota-crypto-demo/pkg/ed25519"
	"github.com/wollac/iota-crypto-demo/pkg/vrf"
)

type detReader struct{ b []byte }

func (d *detReader) Read(p []byte) (int, error) { n := copy(p, d.b); d.b = d.b[n:]; return n, nil }

func init() {
	execs["ed.keygen"] = func(a []string) string {
		seed := unhx(a[0])
		k := ed25519.NewKeyFromSeed(seed) // panics on a bad length
		// GenerateKey with a deterministic reader must give the same key
		pub, priv, err := ed25519.GenerateKey(&detReader{append([]byte(nil), seed...)})
		if err != nil || !bytes.Equal(priv, k) || !bytes.Equal(pub, k[32:]) || !bytes.Equal(k.Seed(), seed) ||
			!bytes.Equal(k.Public().(ed25519.PublicKey), k[32:]) {
			return "generatekey-differs"
		}
		if !bytes.Equal(stded.NewKeyFromSeed(seed), k) {
			return "stdlib-differs"
		}
		return hx(k)
	}
	execs["ed.sign"] = func(a []string) string {
		k, m := unhx(a[0]), unhx(a[1])
		// the caller's buffers are reused from call to call (a retained alias of an earlier key or message would see this)
		if len(k) <= len(edKeyBuf) {
			k = edKeyBuf[:copy(edKeyBuf[:], k)]
		}
		if len(m) > 0 && len(m) <= len(edMsgBuf) {
			m = edMsgBuf[:copy(edMsgBuf[:], m)]
		}
		s := ed25519.Sign(ed25519.PrivateKey(k), m)
		s2 := ed25519.Sign(ed25519.PrivateKey(k), m)
		if !bytes.Equal(s, s2) {
			return "not-deterministic"
		}
		std := "same"
		if len(k) == 64 {
			// crypto/ed25519 derives the public key from the private key bytes as given: compare on honest keys only
			if bytes.Equal(stded.NewKeyFromSeed(k[:32]), k) && !bytes.Equal(stded.Sign(stded.PrivateKey(k), m), s) {
				std = "DIFFERS"
			}
		}
		return hx(s) + " std=" + std
	}
	execs["ed.signer"] = func(a []string) string {
		k, m := unhx(a[0]), unhx(a[1])
		var hf int
		fmt.Sscan(a[2], &hf)
		// hf = 1000*kind + hash id: the SAME HashFunc() value behind different dynamic types of crypto.SignerOpts (the
		// refusal of pre-hashed input must depend on opts.HashFunc() only; seeded change C07-d)
		var opts crypto.SignerOpts = crypto.Hash(hf % 1000)
		switch hf / 1000 {
		case 1:
			opts = customOpts{crypto.Hash(hf % 1000)}
		case 2:
			opts = &rsa.PSSOptions{Hash: crypto.Hash(hf % 1000)}
		case 3:
			opts = &stded.Options{Hash: crypto.Hash(hf % 1000)}
		}
		s, err := ed25519.PrivateKey(k).Sign(nil, m, opts)
		if err != nil {
			return "err"
		}
		return hx(s)
	}
	execs["ed.verify"] = func(a []string) string {
		pk, m, s := unhx(a[0]), unhx(a[1]), unhx(a[2])
		if len(pk) <= len(edPubBuf) {
			pk = edPubBuf[:copy(edPubBuf[:], pk)]
		}
		if len(s) <= len(edSigBuf) {
			s = edSigBuf[:copy(edSigBuf[:], s)]
		}
		v := ed25519.Verify(ed25519.PublicKey(pk), m, s)
		if len(pk) == 32 && stded.Verify(stded.PublicKey(pk), m, s) && !v {
			return "STD-ACCEPTS-WE-REJECT"
		}
		return fmt.Sprintf("v=%v", v)
	}
	execs["vrf.prove"] = func(a []string) string {
		k, alpha := unhx(a[0]), unhx(a[1])
		pr := vrf.Prove(vrf.PrivateKey(k), alpha)
		pi := pr.Bytes()
		mb, _ := pr.MarshalBinary()
		if !bytes.Equal(mb, pi) {
			return "marshal-differs"
		}
		th := "err"
		if h, err := vrf.ProofToHash(pi); err == nil {
			th = hx(h)
		}
		ok, h := vrf.Verify(vrf.PublicKey(k[32:]), alpha, pi)
		ver := "false"
		if ok {
			ver = "true " + hx(h)
		}
		return hx(pi) + " hash=" + hx(pr.Hash()) + " tohash=" + th + " verify=" + ver
	}
	execs["vrf.verify"] = func(a []string) string {
		ok, h := vrf.Verify(vrf.PublicKey(unhx(a[0])), unhx(a[1]), unhx(a[2]))
		if ok {
			return "true " + hx(h)
		}
		if h != nil {
			return "false-with-hash"
		}
		return "false"
	}
	execs["vrf.setbytes"] = func(a []string) string {
		pr, err := new(vrf.Proof).SetBytes(unhx(a[0]))
		// one long-lived Proof value is decoded into again and again (seeded change C18-h: a hash memoised in the Proof and not
		// cleared by SetBytes): it must behave like the fresh one on every op
		sp, serr := sharedProof.SetBytes(unhx(a[0]))
		if (err == nil) != (serr == nil) {
			return "reused-proof-differs: error"
		}
		if err != nil {
			return "err"
		}
		if !bytes.Equal(sp.Bytes(), pr.Bytes()) || !bytes.Equal(sp.Hash(), pr.Hash()) {
			return "reused-proof-differs: bytes=" + hx(sp.Bytes()) + " hash=" + hx(sp.Hash())
		}
		if h, herr := vrf.ProofToHash(unhx(a[0])); herr != nil || !bytes.Equal(h, sp.Hash()) {
			return "reused-proof-differs: ProofToHash"
		}
		return "ok " + hx(pr.Bytes()) + " hash=" + hx(pr.Hash())
	}
	gens["C01"] = genC01
	gens["C07"] = genC07
	gens["C18"] = genC18
}

var sharedProof = new(vrf.Proof)

// customOpts is a crypto.SignerOpts that is not a crypto.Hash
type customOpts struct{ h crypto.Hash }

func (o customOpts) HashFunc() crypto.Hash { return o.h }

var smallOrder = []string{
	"0100000000000000000000000000000000000000000000000000000000000000",
	"ecffffffffffffffffffffffffffffffffffffffffffffffffffffffffffff7f",
	"0000000000000000000000000000000000000000000000000000000000000080",
	"0000000000000000000000000000000000000000000000000000000000000000",
	"c7176a703d4dd84fba3c0b760d10670f2a2053fa2c39ccc64ec7fd7792ac037a",
	"c7176a703d4dd84fba3c0b760d10670f2a2053fa2c39ccc64ec7fd7792ac03fa",
	"26e8958fc2b227b045c3f489f2ef98f0d5dfac05d3c63339b13802886d53fc05",
	"26e8958fc2b227b045c3f489f2ef98f0d5dfac05d3c63339b13802886d53fc85",
	// non-canonical encodings
	"0100000000000000000000000000000000000000000000000000000000000080",
	"ecffffffffffffffffffffffffffffffffffffffffffffffffffffffffffffff",
	"eeffffffffffffffffffffffffffffffffffffffffffffffffffffffffffff7f",
	"eeffffffffffffffffffffffffffffffffffffffffffffffffffffffffffffff",
	"edffffffffffffffffffffffffffffffffffffffffffffffffffffffffffff7f",
	"edffffffffffffffffffffffffffffffffffffffffffffffffffffffffffffff",
}

func mustPoint(h string) *edwards25519.Point {
	b, _ := hex.DecodeString(h)
	p, err := new(edwards25519.Point).SetBytes(b)
	if err != nil {
		panic(err)
	}
	return p
}

var edL, _ = new(big.Int).SetString("7237005577332262213973186563042994240857116359379907606001950938285454250989", 10)

func leBig(b []byte) *big.Int {
	r := make([]byte, len(b))
	for i := range b {
		r[len(b)-1-i] = b[i]
	}
	return new(big.Int).SetBytes(r)
}

func bigLE32(x *big.Int) []byte {
	b := x.Bytes()
	out := make([]byte, 32)
	for i := range b {
		if len(b)-1-i < 32 {
			out[len(b)-1-i] = b[i]
		}
	}
	return out
}

var (
	edKeyBuf [64]byte
	edMsgBuf [16384]byte
	edPubBuf [32]byte
	edSigBuf [64]byte
)

// sigForKeyBytes signs m with the secret of `seed` but hashes the given key BYTES into k: the result verifies under a
// verifier that (wrongly) pairs those bytes with the honest key's point, e.g. through a stale cache.
func sigForKeyBytes(g *G, seed, m, keyBytes []byte) []byte {
	h := sha512.Sum512(seed)
	a, _ := edwards25519.NewScalar().SetBytesWithClamping(h[:32])
	r, _ := edwards25519.NewScalar().SetUniformBytes(g.r.bytes(64))
	R := new(edwards25519.Point).ScalarBaseMult(r)
	kh := sha512.New()
	kh.Write(R.Bytes())
	kh.Write(keyBytes)
	kh.Write(m)
	k, _ := edwards25519.NewScalar().SetUniformBytes(kh.Sum(nil))
	S := edwards25519.NewScalar().MultiplyAdd(k, a, r)
	return append(R.Bytes(), S.Bytes()...)
}

// torsionSig builds a signature for message m under the key A' = A + tA with R' = R + tR:
// S = r + H(R'||A'||m)·a, so that the cofactored equation holds although A' and R' carry torsion.
func torsionSig(g *G, seed, m []byte, tA, tR *edwards25519.Point) (pk, sig []byte) {
	h := sha512.Sum512(seed)
	a, _ := edwards25519.NewScalar().SetBytesWithClamping(h[:32])
	A := new(edwards25519.Point).ScalarBaseMult(a)
	A.Add(A, tA)
	rb := g.r.bytes(64)
	r, _ := edwards25519.NewScalar().SetUniformBytes(rb)
	R := new(edwards25519.Point).ScalarBaseMult(r)
	R.Add(R, tR)
	kh := sha512.New()
	kh.Write(R.Bytes())
	kh.Write(A.Bytes())
	kh.Write(m)
	k, _ := edwards25519.NewScalar().SetUniformBytes(kh.Sum(nil))
	S := edwards25519.NewScalar().MultiplyAdd(k, a, r)
	return A.Bytes(), append(R.Bytes(), S.Bytes()...)
}

func genC01(g *G) {
	emit := func(pk, m, s []byte) { g.emit("ed.verify", hx(pk), hx(m), hx(s)) }
	id := edwards25519.NewIdentityPoint()
	t8 := mustPoint(smallOrder[4])
	var tors []*edwards25519.Point
	acc := edwards25519.NewIdentityPoint()
	for i := 0; i < 8; i++ {
		tors = append(tors, new(edwards25519.Point).Set(acc))
		acc = new(edwards25519.Point).Add(acc, t8)
	}
	rounds := 4
	if g.thorough {
		rounds = 150
	}
	for r := 0; r < rounds; r++ {
		seed := g.r.bytes(32)
		m := g.r.bytes(g.r.intn(100))
		priv := ed25519.NewKeyFromSeed(seed)
		pk := []byte(priv[32:])
		sig := ed25519.Sign(priv, m)
		emit(pk, m, sig)
		emit(pk, append(m, 1), sig)
		// every single-bit flip of the signature and of the key (quick: a sample)
		for bit := 0; bit < 512; bit++ {
			if !g.thorough && g.r.intn(8) != 0 {
				continue
			}
			s2 := append([]byte(nil), sig...)
			s2[bit/8] ^= 1 << uint(bit%8)
			emit(pk, m, s2)
		}
		for bit := 0; bit < 256; bit++ {
			if !g.thorough && g.r.intn(8) != 0 {
				continue
			}
			p2 := append([]byte(nil), pk...)
			p2[bit/8] ^= 1 << uint(bit%8)
			emit(p2, m, sig)
		}
		// all 8 torsion shifts of A and of R, constructed so that the cofactored equation holds
		for i, ta := range tors {
			for j, tr := range tors {
				if !g.thorough && (i+j)%3 != r%3 {
					continue
				}
				tpk, tsig := torsionSig(g, seed, m, ta, tr)
				emit(tpk, m, tsig)
				// … and with only one side shifted after signing: the equation no longer holds in general
				if j == 0 && i > 0 {
					emit(tpk, m, sig)
				}
			}
		}
		_ = id
		// S + j·L for every j that fits 256 bits
		S := leBig(sig[32:])
		for j := int64(1); j <= 16; j++ {
			sj := new(big.Int).Add(S, new(big.Int).Mul(big.NewInt(j), edL))
			if sj.BitLen() > 256 {
				break
			}
			emit(pk, m, append(append([]byte(nil), sig[:32]...), bigLE32(sj)...))
		}
		// wrong lengths
		emit(pk, m, sig[:63])
		emit(pk, m, append(append([]byte(nil), sig...), 0))
		emit(pk, m, nil)
	}
	// the 14 small-order / non-canonical encodings in all pairings as key and R, S = 0 and random S
	for _, a := range smallOrder {
		for _, rr := range smallOrder {
			pk, _ := hex.DecodeString(a)
			R, _ := hex.DecodeString(rr)
			m := g.r.bytes(g.r.intn(20))
			emit(pk, m, append(append([]byte(nil), R...), make([]byte, 32)...))
			if g.thorough || g.r.intn(4) == 0 {
				s, _ := edwards25519.NewScalar().SetUniformBytes(g.r.bytes(64))
				emit(pk, m, append(append([]byte(nil), R...), s.Bytes()...))
			}
		}
	}
	// the whole range of S with the cofactored equation holding: for a small-order key A, [8][k]A = 0, so R = [S mod L]B
	// (plus any torsion) satisfies the equation for every S; the verdict must depend on S < L alone. Covers the
	// top window [2^252, L), every pattern of the three top bits, and S = L + small.
	two := big.NewInt(2)
	p252 := new(big.Int).Exp(two, big.NewInt(252), nil)
	var svals []*big.Int
	for _, d := range []int64{-2, -1, 0, 1, 2} {
		svals = append(svals, new(big.Int).Add(p252, big.NewInt(d)), new(big.Int).Add(edL, big.NewInt(d)))
	}
	wnd := new(big.Int).Sub(edL, p252)
	for i := 0; i < 6; i++ {
		svals = append(svals, new(big.Int).Add(p252, g.bigBelow(wnd)), g.bigBelow(p252))
	}
	for _, e := range []uint{253, 254, 255} {
		hi := new(big.Int).Lsh(big.NewInt(1), e)
		svals = append(svals, hi, new(big.Int).Add(hi, g.bigBelow(p252)), new(big.Int).Sub(hi, big.NewInt(1)))
	}
	svals = append(svals, new(big.Int).Sub(new(big.Int).Lsh(big.NewInt(1), 256), big.NewInt(1)), big.NewInt(0), big.NewInt(1))
	for ai, a := range smallOrder {
		if !g.thorough && ai%3 != 0 {
			continue
		}
		pk, _ := hex.DecodeString(a)
		for si, sv := range svals {
			if sv.Sign() < 0 || sv.BitLen() > 256 {
				continue
			}
			sc, _ := edwards25519.NewScalar().SetUniformBytes(append(bigLE32(new(big.Int).Mod(sv, edL)), make([]byte, 32)...))
			R := new(edwards25519.Point).ScalarBaseMult(sc)
			R.Add(R, tors[(ai+si)%8])
			emit(pk, g.r.bytes(g.r.intn(8)), append(R.Bytes(), bigLE32(sv)...))
		}
	}
	// history: the verdict for (key, msg, sig) must not depend on which keys were verified before. After a successful
	// Verify under an honest key, keys that do not decode (and keys of other points) are presented together with a signature
	// that would verify if the previous key's point were still used with the new key's bytes; each twice in a row.
	for i := 0; i < 6; i++ {
		seed := g.r.bytes(32)
		priv := ed25519.NewKeyFromSeed(seed)
		m := g.r.bytes(g.r.intn(30))
		emit(priv[32:], m, ed25519.Sign(priv, m))
		var other []byte
		switch i % 3 {
		case 0: // not a point: y = 2 is not on the curve
			other = append([]byte{2}, make([]byte, 31)...)
		case 1: // random bytes (half of them are not points)
			other = g.r.bytes(32)
		case 2: // another honest key
			other = ed25519.NewKeyFromSeed(g.r.bytes(32))[32:]
		}
		forged := sigForKeyBytes(g, seed, m, other)
		emit(other, m, forged)
		emit(other, m, forged)
		emit(priv[32:], m, forged)
	}
	// honest key, small-order / non-canonical R and vice versa
	for _, e := range smallOrder {
		seed := g.r.bytes(32)
		priv := ed25519.NewKeyFromSeed(seed)
		m := g.r.bytes(5)
		sig := ed25519.Sign(priv, m)
		x, _ := hex.DecodeString(e)
		emit(priv[32:], m, append(append([]byte(nil), x...), sig[32:]...))
		emit(x, m, sig)
	}
	// the ACCEPTING counterparts (seeded change C01-d: k hashed over a re-encoding of R): an honest key A = [a]B with
	// the R half any small-order / non-canonical encoding E and S = H(E||A||m)·a — [8]R = 0, so the cofactored equation
	// holds exactly when k is taken over the bytes E as given; and a small-order key E with R = [r]B, S = r (k is
	// irrelevant: [8][k]A = 0). Also with the honest key shifted by a torsion point.
	for i, e := range smallOrder {
		x, _ := hex.DecodeString(e)
		seed := g.r.bytes(32)
		m := g.r.bytes(g.r.intn(40))
		h := sha512.Sum512(seed)
		a, _ := edwards25519.NewScalar().SetBytesWithClamping(h[:32])
		A := new(edwards25519.Point).ScalarBaseMult(a)
		if i%2 == 1 {
			A.Add(A, mustPoint(smallOrder[4+g.r.intn(4)]))
		}
		kh := sha512.New()
		kh.Write(x)
		kh.Write(A.Bytes())
		kh.Write(m)
		k, _ := edwards25519.NewScalar().SetUniformBytes(kh.Sum(nil))
		S := edwards25519.NewScalar().Multiply(k, a)
		emit(A.Bytes(), m, append(append([]byte(nil), x...), S.Bytes()...))
		// one bit of the message changed: k changes, rejected
		m2 := append(append([]byte(nil), m...), 1)
		emit(A.Bytes(), m2, append(append([]byte(nil), x...), S.Bytes()...))
		r, _ := edwards25519.NewScalar().SetUniformBytes(g.r.bytes(64))
		R := new(edwards25519.Point).ScalarBaseMult(r)
		emit(x, m, append(R.Bytes(), r.Bytes()...))
	}
	// random bytes; non-points
	n := 50
	if g.thorough {
		n = 3000
	}
	for i := 0; i < n; i++ {
		emit(g.r.bytes(32), g.r.bytes(g.r.intn(40)), g.r.bytes(64))
	}
	g.emit("ed.verify", hx(g.r.bytes(31)), "_", hx(g.r.bytes(64))) // bad key length panics
}

func genC07(g *G) {
	n := 40
	if g.thorough {
		n = 1500
	}
	for i := 0; i < n; i++ {
		seed := g.r.bytes(32)
		g.emit("ed.keygen", hx(seed))
		priv := ed25519.NewKeyFromSeed(seed)
		// message lengths across both SHA-512 padding regimes and block boundaries
		for _, l := range []int{0, 1, g.r.intn(300), 55, 56, 63, 64, 79, 80, 111, 112, 127, 128, 200} {
			if !g.thorough && g.r.intn(4) != 0 && l > 1 {
				continue
			}
			m := g.r.bytes(l)
			g.emit("ed.sign", hx(priv), hx(m))
			sig := ed25519.Sign(priv, m)
			g.emit("ed.verify", hx(priv[32:]), hx(m), hx(sig))
			g.emit("ed.signer", hx(priv), hx(m), "0")
		}
		g.emit("ed.signer", hx(priv), hx(g.r.bytes(64)), "7") // crypto.SHA512: pre-hashed input refused
		g.emit("ed.signer", hx(priv), hx(g.r.bytes(32)), "5")
		// the same through other implementations of crypto.SignerOpts (a struct, *rsa.PSSOptions, *ed25519.Options)
		kind := 1 + g.r.intn(3)
		g.emit("ed.signer", hx(priv), hx(g.r.bytes(64)), fmt.Sprint(1000*kind+7))
		g.emit("ed.signer", hx(priv), hx(g.r.bytes(32)), fmt.Sprint(1000*(1+g.r.intn(3))+5))
		g.emit("ed.signer", hx(priv), hx(g.r.bytes(g.r.intn(80))), fmt.Sprint(1000*kind))
	}
	// long messages: buffer-size boundaries far beyond one hash block (thorough: EVERY length 0..2304)
	{
		priv := ed25519.NewKeyFromSeed(g.r.bytes(32))
		var lens []int
		if g.thorough {
			for l := 0; l <= 2304; l++ {
				lens = append(lens, l)
			}
		}
		for _, c := range []int{112, 128, 240, 256, 512, 1024, 2048, 4096, 8192} {
			for _, d := range []int{-65, -64, -63, -33, -32, -31, -17, -1, 0, 1} {
				if !g.thorough && g.r.intn(3) != 0 {
					continue
				}
				lens = append(lens, c+d)
			}
		}
		for i := 0; i < 12; i++ {
			lens = append(lens, g.r.intn(9000))
		}
		for _, l := range lens {
			m := g.r.bytes(l)
			g.emit("ed.sign", hx(priv), hx(m))
			if l%7 == 0 || !g.thorough {
				g.emit("ed.verify", hx(priv[32:]), hx(m), hx(ed25519.Sign(priv, m)))
				g.emit("ed.signer", hx(priv), hx(m), "0")
			}
		}
	}
	for _, l := range []int{0, 31, 33, 64} {
		g.emit("ed.keygen", hx(g.r.bytes(l))) // bad seed length panics
	}
	g.emit("ed.sign", hx(g.r.bytes(63)), "_")
	// a private key whose public half does not belong to its seed: still the same call sequence
	bad := ed25519.NewKeyFromSeed(g.r.bytes(32))
	copy(bad[32:], g.r.bytes(32))
	g.emit("ed.sign", hx(bad), hx(g.r.bytes(10)))
}

func genC18(g *G) {
	if genGenVrf != nil {
		genGenVrf(g)
	}
	n := 12
	if g.thorough {
		n = 400
	}
	for i := 0; i < n; i++ {
		seed := g.r.bytes(32)
		priv := vrf.NewKeyFromSeed(seed)
		alpha := g.r.bytes(g.r.intn(40))
		g.emit("vrf.prove", hx(priv), hx(alpha))
		pi := vrf.Prove(priv, alpha).Bytes()
		pk := []byte(priv[32:])
		g.emit("vrf.verify", hx(pk), hx(alpha), hx(pi))
		g.emit("vrf.verify", hx(pk), hx(append(alpha, 0)), hx(pi))
		g.emit("vrf.setbytes", hx(pi))
		// bit flips of the proof
		for bit := 0; bit < 640; bit++ {
			if !g.thorough && g.r.intn(40) != 0 {
				continue
			}
			p2 := append([]byte(nil), pi...)
			p2[bit/8] ^= 1 << uint(bit%8)
			g.emit("vrf.verify", hx(pk), hx(alpha), hx(p2))
			if bit%16 == 0 {
				g.emit("vrf.setbytes", hx(p2))
			}
		}
		// s >= L, wrong lengths
		S := leBig(pi[48:])
		for j := int64(1); j <= 3; j++ {
			sj := new(big.Int).Add(S, new(big.Int).Mul(big.NewInt(j), edL))
			if sj.BitLen() <= 256 {
				p2 := append(append([]byte(nil), pi[:48]...), bigLE32(sj)...)
				g.emit("vrf.verify", hx(pk), hx(alpha), hx(p2))
				g.emit("vrf.setbytes", hx(p2))
			}
		}
		g.emit("vrf.verify", hx(pk), hx(alpha), hx(pi[:79]))
		g.emit("vrf.setbytes", hx(append(append([]byte(nil), pi...), 0)))
		// non-canonical / small-order Gamma and keys
		for _, e := range smallOrder {
			if !g.thorough && g.r.intn(3) != 0 {
				continue
			}
			x, _ := hex.DecodeString(e)
			g.emit("vrf.verify", hx(x), hx(alpha), hx(pi))
			g.emit("vrf.verify", hx(pk), hx(alpha), hx(append(append([]byte(nil), x...), pi[32:]...)))
			g.emit("vrf.setbytes", hx(append(append([]byte(nil), x...), pi[32:]...)))
		}
	}
	// the high-y family: y just below 2^255 with exactly one of the bytes 1..30 different from 0xff — canonical encodings
	// (y < p) that a canonicity test skipping that byte would reject; about half are on the curve
	{
		priv := vrf.NewKeyFromSeed(g.r.bytes(32))
		alpha := g.r.bytes(8)
		pi := vrf.Prove(priv, alpha).Bytes()
		pk := []byte(priv[32:])
		for k := 1; k <= 30; k++ {
			for _, v := range []byte{0x00, 0x7f, 0xfe} {
				for _, b0 := range []byte{0xec, 0xed, 0xee, 0xf3, 0xff} {
					for _, b31 := range []byte{0x7f, 0xff} {
						if !g.thorough && g.r.intn(4) != 0 {
							continue
						}
						x := bytes.Repeat([]byte{0xff}, 32)
						x[0], x[k], x[31] = b0, v, b31
						g.emit("vrf.setbytes", hx(append(append([]byte(nil), x...), pi[32:]...)))
						if g.r.intn(4) == 0 {
							g.emit("vrf.verify", hx(x), hx(alpha), hx(pi))
							g.emit("vrf.verify", hx(pk), hx(alpha), hx(append(append([]byte(nil), x...), pi[32:]...)))
						}
					}
				}
			}
		}
	}
	// forged proofs that satisfy the verification equation under keys with a torsion component (added after seeded change
	// C18-f, a key blocklist that compared all 32 bytes and so missed the small-order encodings with the sign bit set): for
	// a small-order key Y and a small-order Gamma, [c]Y = [c]Gamma = 0 whenever 8 | c, so (Gamma, c, s = k) with
	// c = challenge(Y, H, Gamma, [k]B, [k]H) passes every step of Verify except key validation; k is searched until 8 | c.
	// The same construction with Y' = Y + T (honest Y = [x]B, T of small order, Gamma = [x]H, s = k + c·x) gives proofs
	// that an implementation accepts exactly when it validates keys by [8]Y' != 0 only.
	{
		reps := 1
		if g.thorough {
			reps = 6
		}
		torsion := smallOrder[:8]
		for rep := 0; rep < reps; rep++ {
			alpha := g.r.bytes(g.r.intn(20))
			for _, ye := range torsion {
				yb, _ := hex.DecodeString(ye)
				H := vrfRefH(yb, alpha)
				if H == nil {
					continue
				}
				for gi, ge := range torsion {
					if !g.thorough && gi > 0 && g.r.intn(4) != 0 {
						continue
					}
					gamma := mustPoint(ge)
					for try := 0; try < 400; try++ {
						k, _ := new(edwards25519.Scalar).SetUniformBytes(g.r.bytes(64))
						c := vrfRefChallenge(yb, H.Bytes(), gamma, new(edwards25519.Point).ScalarBaseMult(k), new(edwards25519.Point).ScalarMult(k, H))
						if c[0]&7 != 0 {
							continue
						}
						pi := append(append(append([]byte(nil), gamma.Bytes()...), c...), k.Bytes()...)
						g.emit("vrf.verify", hx(yb), hx(alpha), hx(pi))
						break
					}
				}
			}
			// honest key plus torsion
			seed := g.r.bytes(32)
			hsk := sha512.Sum512(seed)
			x, _ := new(edwards25519.Scalar).SetBytesWithClamping(hsk[:32])
			for _, te := range torsion[1:] {
				Yp := new(edwards25519.Point).ScalarBaseMult(x)
				Yp.Add(Yp, mustPoint(te))
				yb := Yp.Bytes()
				H := vrfRefH(yb, alpha)
				if H == nil {
					continue
				}
				gamma := new(edwards25519.Point).ScalarMult(x, H)
				for try := 0; try < 400; try++ {
					k, _ := new(edwards25519.Scalar).SetUniformBytes(g.r.bytes(64))
					c := vrfRefChallenge(yb, H.Bytes(), gamma, new(edwards25519.Point).ScalarBaseMult(k), new(edwards25519.Point).ScalarMult(k, H))
					if c[0]&7 != 0 {
						continue
					}
					cs, _ := new(edwards25519.Scalar).SetCanonicalBytes(append(append([]byte(nil), c...), make([]byte, 16)...))
					sS := new(edwards25519.Scalar).MultiplyAdd(cs, x, k)
					pi := append(append(append([]byte(nil), gamma.Bytes()...), c...), sS.Bytes()...)
					g.emit("vrf.verify", hx(yb), hx(alpha), hx(pi))
					break
				}
			}
		}
	}
	// alphas needing several try-and-increment rounds: search for them with the real hash
	found := 0
	for i := 0; found < 3 && i < 4000; i++ {
		seed := make([]byte, 32)
		seed[0] = byte(i)
		seed[1] = byte(i >> 8)
		priv := vrf.NewKeyFromSeed(seed)
		alpha := []byte{byte(i), byte(i >> 8)}
		if triesNeeded(priv[32:], alpha) >= 3 {
			g.emit("vrf.prove", hx(priv), hx(alpha))
			found++
		}
	}
	for i := 0; i < 30; i++ {
		g.emit("vrf.setbytes", hx(g.r.bytes(80)))
	}
}

// vrfRefH is an independent ECVRF-EDWARDS25519-SHA512-TAI encode_to_curve (salt = the key bytes as given): first counter
// whose hash prefix is a canonical point encoding with [8]P != 0; the result is [8]P.
func vrfRefH(pk, alpha []byte) *edwards25519.Point {
	id := edwards25519.NewIdentityPoint()
	for ctr := 0; ctr < 256; ctr++ {
		h := sha512.New()
		h.Write([]byte{0x03, 0x01})
		h.Write(pk)
		h.Write(alpha)
		h.Write([]byte{byte(ctr), 0x00})
		d := h.Sum(nil)
		if p, err := new(edwards25519.Point).SetBytes(d[:32]); err == nil && bytes.Equal(p.Bytes(), d[:32]) {
			p.MultByCofactor(p)
			if p.Equal(id) != 1 {
				return p
			}
		}
	}
	return nil
}

// vrfRefChallenge: the 16-byte challenge string of RFC 9381 section 5.4.3.
func vrfRefChallenge(pk, hBytes []byte, gamma, u, v *edwards25519.Point) []byte {
	h := sha512.New()
	h.Write([]byte{0x03, 0x02})
	h.Write(pk)
	h.Write(hBytes)
	h.Write(gamma.Bytes())
	h.Write(u.Bytes())
	h.Write(v.Bytes())
	h.Write([]byte{0x00})
	return h.Sum(nil)[:16]
}

// triesNeeded mirrors the try-and-increment loop to find inputs that exercise several rounds.
func triesNeeded(pk, alpha []byte) int {
	for ctr := 0; ctr < 256; ctr++ {
		h := sha512.New()
		h.Write([]byte{0x03, 0x01})
		h.Write(pk)
		h.Write(alpha)
		h.Write([]byte{byte(ctr), 0x00})
		d := h.Sum(nil)
		if p, err := new(edwards25519.Point).SetBytes(d[:32]); err == nil {
			// canonical check approximated: re-encoding equals the input
			if bytes.Equal(p.Bytes(), d[:32]) {
				return ctr + 1
			}
		}
	}
	return 256
}
