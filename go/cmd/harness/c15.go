package main

import (
	"bytes"
	"crypto"
	_ "crypto/sha256"
	_ "crypto/sha512"
	"encoding"
	"errors"
	"fmt"
	"strconv"
	"strings"

	"github.com/wollac/iota-crypto-demo/pkg/merkle"
	_ "golang.org/x/crypto/blake2b"
)

type leaf struct {
	b   []byte
	err error
}

type leafErr int

func (e leafErr) Error() string { return "leaf " + strconv.Itoa(int(e)) }

func (l *leaf) MarshalBinary() ([]byte, error) {
	if l.err != nil {
		return nil, l.err
	}
	return l.b, nil
}

func hashByName(n string) crypto.Hash {
	switch n {
	case "sha256":
		return crypto.SHA256
	case "sha512":
		return crypto.SHA512
	case "blake2b256":
		return crypto.BLAKE2b_256
	}
	panic("harness: unknown hash " + n)
}

func merkleRun(h crypto.Hash, leaves []*leaf) string {
	data := make([]encoding.BinaryMarshaler, len(leaves))
	snap := make([][]byte, len(leaves))
	for i, l := range leaves {
		data[i] = l
		snap[i] = append([]byte(nil), l.b...)
	}
	// one long-lived Hasher per hash function, shared by the whole run (the way a caller uses it), and a
	// fresh one: the result must depend on the leaves only, not on what the Hasher did before
	res, err := sharedHasher(h).Hash(data)
	res2, err2 := merkle.NewHasher(h).Hash(data)
	if !bytes.Equal(res, res2) || (err == nil) != (err2 == nil) || (err != nil && err.Error() != err2.Error()) {
		return fmt.Sprintf("history-dependent shared=%s/%v fresh=%s/%v", hx(res), err, hx(res2), err2)
	}
	for i, l := range leaves { // inputs must not be modified
		if !bytes.Equal(snap[i], l.b) || data[i] != encoding.BinaryMarshaler(l) {
			return "input-modified"
		}
	}
	if err != nil {
		var le leafErr
		if errors.As(err, &le) {
			return fmt.Sprintf("err %d", int(le))
		}
		return "err other"
	}
	return "ok " + hx(res)
}

var sharedHashers = map[crypto.Hash]*merkle.Hasher{}

func sharedHasher(h crypto.Hash) *merkle.Hasher {
	if sharedHashers[h] == nil {
		sharedHashers[h] = merkle.NewHasher(h)
	}
	return sharedHashers[h]
}

func genLeaf(seed, i, n int) []byte {
	b := make([]byte, n)
	for j := range b {
		b[j] = byte((seed + i*7 + j*13 + i*j) % 256)
	}
	return b
}

func init() {
	execs["merkle.hash"] = func(a []string) string {
		var leaves []*leaf
		if a[1] != "-" {
			for i, t := range strings.Split(a[1], ";") {
				_ = i
				if strings.HasPrefix(t, "!") {
					k, _ := strconv.Atoi(t[1:])
					leaves = append(leaves, &leaf{err: leafErr(k)})
				} else {
					leaves = append(leaves, &leaf{b: unhx(t)})
				}
			}
		}
		return merkleRun(hashByName(a[0]), leaves)
	}
	execs["merkle.gen"] = func(a []string) string {
		n, _ := strconv.Atoi(a[1])
		seed, _ := strconv.Atoi(a[2])
		ln, _ := strconv.Atoi(a[3])
		errAt, _ := strconv.Atoi(a[4])
		leaves := make([]*leaf, n)
		for i := range leaves {
			if i == errAt {
				leaves[i] = &leaf{err: leafErr(i)}
			} else {
				leaves[i] = &leaf{b: genLeaf(seed, i, ln+i%3)}
			}
		}
		return merkleRun(hashByName(a[0]), leaves)
	}
	// merkle.generrs hash n seed len e1,e2,…: generated leaves, the listed positions fail to marshal
	execs["merkle.generrs"] = func(a []string) string {
		n, _ := strconv.Atoi(a[1])
		seed, _ := strconv.Atoi(a[2])
		ln, _ := strconv.Atoi(a[3])
		bad := map[int]bool{}
		for _, t := range strings.Split(a[4], ",") {
			k, _ := strconv.Atoi(t)
			bad[k] = true
		}
		leaves := make([]*leaf, n)
		for i := range leaves {
			if bad[i] {
				leaves[i] = &leaf{err: leafErr(i)}
			} else {
				leaves[i] = &leaf{b: genLeaf(seed, i, ln+i%3)}
			}
		}
		return merkleRun(hashByName(a[0]), leaves)
	}
	execs["merkle.empty"] = func(a []string) string {
		h := sharedHasher(hashByName(a[0]))
		r, err := h.Hash(nil)
		r2, err2 := h.Hash([]encoding.BinaryMarshaler{})
		f := merkle.NewHasher(hashByName(a[0]))
		if err != nil || err2 != nil || !bytes.Equal(r, h.EmptyRoot()) || !bytes.Equal(r2, r) || !bytes.Equal(r, f.EmptyRoot()) {
			return "empty-differs " + hx(r) + " " + hx(r2) + " " + hx(h.EmptyRoot()) + " " + hx(f.EmptyRoot())
		}
		return hx(h.EmptyRoot())
	}
	gens["C15"] = genC15
}

func largestPow2Below(n int) int {
	k := 1
	for k*2 < n {
		k *= 2
	}
	return k
}

func joinInts(v []int) string {
	p := make([]string, len(v))
	for i, x := range v {
		p[i] = itoa(x)
	}
	return strings.Join(p, ",")
}

func genC15(g *G) {
	hashes := []string{"sha256", "blake2b256", "sha512"}
	for _, h := range hashes {
		g.emit("merkle.empty", h)
		g.emit("merkle.hash", h, "-")
	}
	// every leaf count 0..N with generated leaves
	N := 600
	if g.thorough {
		N = 4100
	}
	for n := 0; n <= N; n++ {
		h := hashes[n%2]
		g.emit("merkle.gen", h, itoa(n), itoa(g.r.intn(1000)), itoa(g.r.intn(40)), "-1")
	}
	// counts around larger powers of two
	top := 13
	if g.thorough {
		top = 17
	}
	for e := 10; e <= top; e++ {
		for _, d := range []int{-1, 0, 1} {
			n := 1<<e + d
			g.emit("merkle.gen", hashes[e%2], itoa(n), itoa(g.r.intn(1000)), itoa(g.r.intn(8)), "-1")
		}
	}
	// an erroring leaf at every position of small trees; two errors: the first wins
	for n := 1; n <= 33; n++ {
		for at := 0; at < n; at++ {
			g.emit("merkle.gen", "sha256", itoa(n), "5", "3", itoa(at))
		}
	}
	// several failing leaves far apart in larger trees (both sides of every kind of split point): the FIRST one is reported
	sizes := []int{34, 64, 65, 257, 1024, 1025, 1500, 2049}
	if g.thorough {
		sizes = append(sizes, 4096, 4097, 5000, 8193, 16385)
	}
	for _, n := range sizes {
		for rep := 0; rep < 3; rep++ {
			k := largestPow2Below(n)
			cands := [][]int{{1, n - 1}, {k - 1, k}, {0, k, n - 1}, {g.r.intn(k), k + g.r.intn(n-k)}, {k + g.r.intn(n-k), g.r.intn(k)}, {n - 1, n - 2}}
			c := cands[(rep*2+n)%len(cands)]
			g.emit("merkle.generrs", hashes[n%2], itoa(n), itoa(g.r.intn(1000)), itoa(g.r.intn(8)), itoa(c[0])+","+joinInts(c[1:]))
		}
	}
	rounds := 200
	if g.thorough {
		rounds = 5000
	}
	for i := 0; i < rounds; i++ {
		n := 1 + g.r.intn(20)
		parts := make([]string, n)
		for j := range parts {
			switch g.r.intn(8) {
			case 0:
				parts[j] = "!" + itoa(j)
			case 1:
				parts[j] = "_" // empty leaf
			default:
				parts[j] = hx(g.r.bytes(1 + g.r.intn(100)))
			}
		}
		hn := hashes[g.r.intn(3)]
		g.emit("merkle.hash", hn, strings.Join(parts, ";"))
		// histories: the empty list / EmptyRoot / a one-leaf list right after a non-empty or failed call on the same Hasher
		switch g.r.intn(4) {
		case 0:
			g.emit("merkle.empty", hn)
		case 1:
			g.emit("merkle.hash", hn, "-")
		case 2:
			g.emit("merkle.hash", hn, hx(g.r.bytes(1+g.r.intn(3))))
		}
	}
}
