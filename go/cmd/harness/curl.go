package main

import (
	"fmt"
	"strconv"
	"strings"

	"github.com/iotaledger/iota.go/consts"
	refcurl "github.com/iotaledger/iota.go/curl"
	sponge "github.com/iotaledger/iota.go/signing/utils"
	"github.com/iotaledger/iota.go/trinary"
	"github.com/wollac/iota-crypto-demo/pkg/curl"
)

func tritsOfStr(s string) trinary.Trits {
	t := make(trinary.Trits, len(s))
	for i := 0; i < len(s); i++ {
		switch s[i] {
		case '+':
			t[i] = 1
		case '-':
			t[i] = -1
		}
	}
	return t
}

func strOfTrits(t trinary.Trits) string {
	b := make([]byte, len(t))
	for i, v := range t {
		switch {
		case v > 0:
			b[i] = '+'
		case v < 0:
			b[i] = '-'
		default:
			b[i] = '0'
		}
	}
	return string(b)
}

type curlSim struct {
	c   *curl.Curl
	ref []sponge.SpongeFunction // 64 single-lane reference sponges (iota.go)
}

func newCurlSim() *curlSim {
	s := &curlSim{c: curl.NewCurlP81(), ref: make([]sponge.SpongeFunction, 64)}
	for i := range s.ref {
		s.ref[i] = refcurl.NewCurlP81()
	}
	return s
}

func (s *curlSim) clone() *curlSim {
	n := &curlSim{c: s.c.Clone(), ref: make([]sponge.SpongeFunction, 64)}
	for i := range s.ref {
		n.ref[i] = s.ref[i].Clone()
	}
	return n
}

func curlHist(hist string) string {
	sim := newCurlSim()
	var saved *curlSim
	var outs []string
	for _, op := range strings.Split(hist, ";") {
		f := strings.Split(op, ":")
		res := func() (r string) {
			defer func() {
				if e := recover(); e != nil {
					r = f[0] + ":panic"
				}
			}()
			switch f[0] {
			case "R":
				sim.c.Reset()
				for i := range sim.ref {
					sim.ref[i].Reset()
				}
				return "R"
			case "C":
				saved = sim.clone()
				return "C"
			case "X":
				if saved == nil {
					return "X-none"
				}
				sim, saved = saved, sim
				return "X"
			case "A":
				n, _ := strconv.Atoi(f[1])
				var src []trinary.Trits
				if f[2] != "_" {
					for _, l := range strings.Split(f[2], ",") {
						src = append(src, tritsOfStr(l))
					}
				}
				// snapshot to check that a rejected call leaves the state untouched
				var l0, h0, l1, h1 [curl.StateSize]uint
				sim.c.CopyState(l0[:], h0[:])
				err := sim.c.Absorb(src, n)
				if err != nil {
					sim.c.CopyState(l1[:], h1[:])
					if l0 != l1 || h0 != h1 {
						return "A:err-state-modified"
					}
					switch err {
					case consts.ErrInvalidBatchSize:
						return "A:err-batch"
					case consts.ErrInvalidTritsLength:
						return "A:err-length"
					}
					return "A:err-other"
				}
				for j := range sim.ref {
					in := make(trinary.Trits, n) // lanes beyond the batch absorb zero blocks
					if j < len(src) {
						copy(in, src[j][:n])
					}
					if n > 0 {
						if err := sim.ref[j].Absorb(in); err != nil {
							return "A:ref-error"
						}
					}
				}
				return "A:ok"
			case "S":
				lanes, _ := strconv.Atoi(f[1])
				n, _ := strconv.Atoi(f[2])
				var l0, h0, l1, h1 [curl.StateSize]uint
				sim.c.CopyState(l0[:], h0[:])
				dst := make([]trinary.Trits, lanes)
				err := sim.c.Squeeze(dst, n)
				if err != nil {
					sim.c.CopyState(l1[:], h1[:])
					if l0 != l1 || h0 != h1 {
						return "S:err-state-modified"
					}
					switch err {
					case consts.ErrInvalidBatchSize:
						return "S:err-batch"
					case consts.ErrInvalidSqueezeLength:
						return "S:err-length"
					}
					return "S:err-other"
				}
				agree := "="
				parts := make([]string, lanes)
				for j := range sim.ref {
					if n == 0 {
						break
					}
					o, err := sim.ref[j].Squeeze(n)
					if err != nil {
						return "S:ref-error"
					}
					if j < lanes && strOfTrits(o) != strOfTrits(dst[j]) {
						agree = "IMPL-REF-DIFFER"
					}
				}
				for j := 0; j < lanes; j++ {
					parts[j] = strOfTrits(dst[j])
				}
				return "S:" + agree + ":" + strings.Join(parts, ",")
			}
			return "bad-op"
		}()
		outs = append(outs, res)
	}
	return strings.Join(outs, ";")
}

func planeOfHex(s string) (p [curl.StateSize]uint) {
	for i := range p {
		v, err := strconv.ParseUint(s[16*i:16*i+16], 16, 64)
		if err != nil {
			panic("harness: bad plane")
		}
		p[i] = uint(v)
	}
	return
}

func hexOfPlane(p *[curl.StateSize]uint) string {
	var b strings.Builder
	for _, w := range p {
		fmt.Fprintf(&b, "%016x", uint64(w))
	}
	return b.String()
}

// guarded holds the four buffers with canary words on both sides of each, to observe stray writes
type guarded struct {
	g0 [8]uint
	a  [curl.StateSize]uint
	g1 [8]uint
	b  [curl.StateSize]uint
	g2 [8]uint
	c  [curl.StateSize]uint
	g3 [8]uint
	d  [curl.StateSize]uint
	g4 [8]uint
}

const canary = 0xA5A5A5A5DEADBEEF

func (g *guarded) arm() {
	for _, gw := range []*[8]uint{&g.g0, &g.g1, &g.g2, &g.g3, &g.g4} {
		for i := range gw {
			gw[i] = canary
		}
	}
}
func (g *guarded) intact() bool {
	for _, gw := range []*[8]uint{&g.g0, &g.g1, &g.g2, &g.g3, &g.g4} {
		for i := range gw {
			if gw[i] != canary {
				return false
			}
		}
	}
	return true
}

func init() {
	execs["curl.hist"] = func(a []string) string { return curlHist(a[0]) }
	execs["curl.transform"] = func(a []string) string {
		lp, hp := planeOfHex(a[0]), planeOfHex(a[1])
		var x, y guarded
		x.arm()
		y.arm()
		x.c, x.d = lp, hp
		y.c, y.d = lp, hp
		curl.Transform(&x.a, &x.b, &x.c, &x.d)        // the build's permutation (assembly on amd64)
		curl.TransformGeneric(&y.a, &y.b, &y.c, &y.d) // portable Go
		if !x.intact() || !y.intact() {
			return "stray-write"
		}
		if x.a != y.a || x.b != y.b || x.c != y.c || x.d != y.d {
			return "ASM-GENERIC-DIFFER"
		}
		return hexOfPlane(&x.a) + " " + hexOfPlane(&x.b)
	}
	gens["C06"] = genC06
	gens["C20"] = genC20
}

func (g *G) tritLane(n int) string {
	b := make([]byte, n)
	mode := g.r.intn(4)
	for i := range b {
		switch mode {
		case 0:
			b[i] = "-0+"[g.r.intn(3)]
		case 1:
			b[i] = '0'
		case 2:
			b[i] = '+'
		case 3:
			b[i] = "-0+"[(i+g.r.intn(2))%3]
		}
	}
	return string(b)
}

func genC06(g *G) {
	genGenCurl(g)
	hists := 10
	if g.thorough {
		hists = 400
	}
	// clone scenarios: a clone taken while absorbing / after 1..2 squeezed blocks must continue exactly like the
	// original, and the original must be unaffected by what the clone does (X swaps between the two)
	absorb := func(blocks int) string {
		lanes := 1 + g.r.intn(64)
		parts := make([]string, lanes)
		for j := range parts {
			parts[j] = g.tritLane(243 * blocks)
		}
		return fmt.Sprintf("A:%d:%s", 243*blocks, strings.Join(parts, ","))
	}
	squeeze := func(blocks int) string { return fmt.Sprintf("S:%d:%d", 1+g.r.intn(64), 243*blocks) }
	scen := 3
	if g.thorough {
		scen = 60
	}
	for i := 0; i < scen; i++ {
		ops := []string{absorb(1 + g.r.intn(2))}
		switch i % 3 {
		case 0: // clone while absorbing; both absorb different data, then squeeze
			ops = append(ops, "C", absorb(1), "X", absorb(1), squeeze(1), "X", squeeze(2))
		case 1: // clone after squeezing: the next block of the clone is the next block of the original
			ops = append(ops, squeeze(1+g.r.intn(2)), "C", squeeze(1), "X", squeeze(1+g.r.intn(2)), "X", squeeze(1))
		case 2: // clone, reset the original, continue on the clone
			ops = append(ops, squeeze(g.r.intn(2)), "C", "R", absorb(1), "X", squeeze(2), "X", squeeze(1))
		}
		g.emit("curl.hist", strings.Join(ops, ";"))
	}
	for hI := 0; hI < hists; hI++ {
		var ops []string
		nops := 2 + g.r.intn(6)
		squeezed := false
		if g.r.intn(5) != 0 { // most histories start with data in the sponge (the zero state squeezes zeros for ever)
			ops = append(ops, absorb(1+g.r.intn(2)))
		}
		for k := 0; k < nops; k++ {
			switch c := g.r.intn(12); {
			case c < 5 && !squeezed: // absorb, batch size 1..64 varying between calls, 0..3 blocks
				lanes := 1 + g.r.intn(64)
				if g.r.intn(4) == 0 {
					lanes = []int{1, 2, 63, 64}[g.r.intn(4)]
				}
				blocks := g.r.intn(3)
				if g.r.intn(6) == 0 {
					blocks = 3
				}
				parts := make([]string, lanes)
				for j := range parts {
					extra := 0
					if g.r.intn(8) == 0 {
						extra = g.r.intn(5) // lanes may be longer than tritsCount
					}
					parts[j] = g.tritLane(243*blocks + extra)
				}
				ops = append(ops, fmt.Sprintf("A:%d:%s", 243*blocks, strings.Join(parts, ",")))
			case c < 9: // squeeze
				lanes := 1 + g.r.intn(64)
				ops = append(ops, fmt.Sprintf("S:%d:%d", lanes, 243*g.r.intn(3)))
				squeezed = true
			case c == 9:
				ops = append(ops, "R")
				squeezed = false
			case c == 10:
				ops = append(ops, "C")
			case c == 11:
				ops = append(ops, "X") // continue on the clone; the original is kept aside
				squeezed = true        // conservative: the clone may be squeezing
			}
		}
		// rejected calls: bad batch sizes and lengths, in the middle of a history
		switch g.r.intn(5) {
		case 0:
			ops = append(ops, "A:243:_")
		case 1:
			ops = append(ops, "S:0:243", "S:65:243")
		case 2:
			ops = append(ops, "S:3:100")
		case 3:
			if !squeezed {
				ops = append(ops, "A:244:"+g.tritLane(244))
			}
		}
		ops = append(ops, fmt.Sprintf("S:%d:243", 1+g.r.intn(64)))
		if g.r.intn(6) == 0 {
			ops = append(ops, "A:243:"+g.tritLane(243)) // absorb after squeeze: panics; last op of the history
		}
		g.emit("curl.hist", strings.Join(ops, ";"))
	}
	// 65 lanes rejected; a lane shorter than tritsCount panics (documented precondition)
	many := make([]string, 65)
	for i := range many {
		many[i] = g.tritLane(243)
	}
	g.emit("curl.hist", "A:243:"+strings.Join(many, ",")+";S:1:243")
	g.emit("curl.hist", "A:486:"+g.tritLane(486)+","+g.tritLane(243))
}

func (g *G) plane(mode int) string {
	var b strings.Builder
	for i := 0; i < curl.StateSize; i++ {
		var w uint64
		switch mode {
		case 0:
			w = g.r.next()
		case 1:
			w = 0
		case 2:
			w = ^uint64(0)
		case 3:
			if i == g.r.intn(curl.StateSize) {
				w = 1 << uint(g.r.intn(64))
			}
		case 4:
			w = g.r.next() & g.r.next() & g.r.next()
		}
		fmt.Fprintf(&b, "%016x", w)
	}
	return b.String()
}

func genC20(g *G) {
	n := 12
	if g.thorough {
		n = 300
	}
	// every combination of plane shapes, including invalid (0,0) encodings
	for a := 0; a < 5; a++ {
		for b := 0; b < 5; b++ {
			g.emit("curl.transform", g.plane(a), g.plane(b))
		}
	}
	for i := 0; i < n; i++ {
		g.emit("curl.transform", g.plane(0), g.plane(0))
	}
	// whole-sponge histories exercise Absorb/Squeeze on top of the build's transform
	for i := 0; i < n/4+2; i++ {
		lanes := 1 + g.r.intn(64)
		parts := make([]string, lanes)
		for j := range parts {
			parts[j] = g.tritLane(243)
		}
		g.emit("curl.hist", fmt.Sprintf("A:243:%s;S:%d:486", strings.Join(parts, ","), lanes))
	}
}
