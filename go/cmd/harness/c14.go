package main

import (
	"errors"

	"github.com/wollac/iota-crypto-demo/pkg/encoding/b1t6"
	"github.com/wollac/iota-crypto-demo/pkg/encoding/b1t8"
)

func init() {
	execs["b1t6.enc"] = func(a []string) string {
		src := unhx(a[0])
		dst := make([]int8, b1t6.EncodedLen(len(src)))
		n := b1t6.Encode(dst, src)
		return "T=" + csvInt8(dst[:n]) + " Y=" + hx([]byte(b1t6.EncodeToTrytes(src)))
	}
	decRes := func(n int, dst []byte, err error, invTrits, invLen error) string {
		e := "none"
		switch {
		case err == nil:
		case errors.Is(err, invTrits):
			e = "trits"
		case errors.Is(err, invLen):
			e = "length"
		default:
			e = "other"
		}
		return "n=" + itoa(n) + " bytes=" + hx(dst[:n]) + " err=" + e
	}
	execs["b1t6.dec"] = func(a []string) string {
		src := uncsvInt8(a[0])
		dst := make([]byte, b1t6.DecodedLen(len(src)))
		n, err := b1t6.Decode(dst, src)
		return decRes(n, dst, err, b1t6.ErrInvalidTrits, b1t6.ErrInvalidLength)
	}
	execs["b1t6.dectrytes"] = func(a []string) string {
		bs, err := b1t6.DecodeTrytes(string(unhx(a[0])))
		switch {
		case err == nil:
			return "ok " + hx(bs)
		case errors.Is(err, b1t6.ErrInvalidTrits):
			return "err trits"
		case errors.Is(err, b1t6.ErrInvalidLength):
			return "err length"
		}
		return "err other"
	}
	execs["b1t8.enc"] = func(a []string) string {
		src := unhx(a[0])
		dst := make([]int8, b1t8.EncodedLen(len(src)))
		n := b1t8.Encode(dst, src)
		return "T=" + csvInt8(dst[:n])
	}
	execs["b1t8.dec"] = func(a []string) string {
		src := uncsvInt8(a[0])
		dst := make([]byte, b1t8.DecodedLen(len(src)))
		n, err := b1t8.Decode(dst, src)
		return decRes(n, dst, err, b1t8.ErrInvalidTrit, b1t8.ErrInvalidLength)
	}
	gens["C14"] = genC14
}

const tryteAlphabet = "9ABCDEFGHIJKLMNOPQRSTUVWXYZ"

func genC14(g *G) {
	genGenB1T6(g)
	// every byte, alone
	for b := 0; b < 256; b++ {
		g.emit("b1t6.enc", hx([]byte{byte(b)}))
		g.emit("b1t8.enc", hx([]byte{byte(b)}))
	}
	// every one of the 729 b1t6 groups, alone and after a valid group
	var grp [6]int8
	for n := 0; n < 729; n++ {
		x := n
		for i := range grp {
			grp[i] = int8(x%3) - 1
			x /= 3
		}
		g.emit("b1t6.dec", csvInt8(grp[:]))
		g.emit("b1t6.dec", csvInt8(append([]int8{1, 0, 0, 0, 0, 0}, grp[:]...)))
	}
	// every one of the 6561 b1t8 groups over {-1,0,1}
	var g8 [8]int8
	for n := 0; n < 6561; n++ {
		x := n
		for i := range g8 {
			g8[i] = int8(x%3) - 1
			x /= 3
		}
		g.emit("b1t8.dec", csvInt8(g8[:]))
	}
	// every pair of tryte characters
	for _, c1 := range tryteAlphabet {
		for _, c2 := range tryteAlphabet {
			g.emit("b1t6.dectrytes", hx([]byte{byte(c1), byte(c2)}))
		}
	}
	// b1t8: every int8 value at every position of a group
	for v := -128; v < 128; v++ {
		for pos := 0; pos < 8; pos++ {
			t := []int8{1, 0, 1, 0, 1, 1, 0, 0}
			t[pos] = int8(v)
			if !g.thorough && pos != g.r.intn(8) && v > 2 {
				continue
			}
			g.emit("b1t8.dec", csvInt8(t))
		}
	}
	// every length remainder, with and without a fault in the remainder / body
	rounds := 300
	if g.thorough {
		rounds = 20000
	}
	for i := 0; i < rounds; i++ {
		n := g.r.intn(12)
		src := g.r.bytes(n)
		g.emit("b1t6.enc", hx(src))
		g.emit("b1t8.enc", hx(src))

		t6 := make([]int8, b1t6.EncodedLen(n))
		b1t6.Encode(t6, src)
		rem := g.r.intn(6)
		for k := 0; k < rem; k++ {
			t6 = append(t6, int8(g.r.intn(3))-1)
		}
		switch g.r.intn(4) {
		case 0: // untouched (valid body + remainder)
		case 1, 2: // one substituted trit anywhere
			if len(t6) > 0 {
				t6[g.r.intn(len(t6))] = int8(g.r.intn(3)) - 1
			}
		case 3: // an invalid group inserted at a group boundary
			at := 6 * g.r.intn(n+1)
			bad := []int8{1, 1, 1, 1, 1, 1}
			t6 = append(t6[:at:at], append(bad, t6[at:]...)...)
		}
		g.emit("b1t6.dec", csvInt8(t6))

		ty := []byte(b1t6.EncodeToTrytes(src))
		if g.r.intn(3) == 0 {
			ty = append(ty, tryteAlphabet[g.r.intn(27)])
		}
		if len(ty) > 0 && g.r.intn(2) == 0 {
			ty[g.r.intn(len(ty))] = tryteAlphabet[g.r.intn(27)]
		}
		g.emit("b1t6.dectrytes", hx(ty))

		t8 := make([]int8, b1t8.EncodedLen(n))
		b1t8.Encode(t8, src)
		rem = g.r.intn(8)
		for k := 0; k < rem; k++ {
			t8 = append(t8, int8(g.r.intn(2)))
		}
		if len(t8) > 0 {
			switch g.r.intn(4) {
			case 0:
			case 1:
				t8[g.r.intn(len(t8))] = int8(g.r.intn(2))
			case 2:
				t8[g.r.intn(len(t8))] = []int8{-1, 2, 3, 127, -128}[g.r.intn(5)]
			case 3:
				t8[len(t8)-1] = -1
			}
		}
		g.emit("b1t8.dec", csvInt8(t8))
	}
}
