package main

// Stage 12 of the loop translator (see loops.go, loops_big.go): more of math/big — SetBytes, Bytes, Int64, And, Or, Rsh, Lsh
// and Rsh with a non-constant uint count —, a modifying method whose result (the receiver) is consumed at once
// (`x := v.Op(…).Bytes()`, `return v.Op(…)`), package-level *big.Int CONSTANTS (`var one = big.NewInt(1)`, never modified
// anywhere in the package), a named []string type (`type Mnemonic []string`) as a read-only parameter and as a locally made,
// index-written result, the methods of a package-level INTERFACE variable (wordlist.List) as PARAMETERS, local constant
// declarations, and crypto/sha256.Sum256 as a PARAMETER (the table entry is in loops_strs.go).
//
// Everything here is reached through one-line hooks (in loops_big.go: bigOpValue, bigCall, bigCheck, bigPanics, bigReturn,
// bigModInverseStmt; in loops_expr.go: listIdent, makeCall; in loops_stmt.go: simple, block, translate; in loops_strs.go:
// noStrings).

import (
	"fmt"
	"go/ast"
	"go/constant"
	"go/token"
	"go/types"
	"strings"
)

// big2HeaderText is appended to the header of generated files whose translated code uses stage 12.
const big2HeaderText = `/-
Additional semantics, stage 12 (more of math/big, a named []string type, an interface variable):
* More methods of *big.Int (definitions in Iota/Model/GoBits.lean, "stage 12"; all of them defined for EVERY Int, with
  the meaning math/big documents — two's complement for negative operands of And / Or / Rsh):
  z.SetBytes(b) ↦ Go.bigSetBytes b, the big-endian unsigned value of the bytes (b is only read); x.Bytes() ↦ Go.bigBytes x,
  the minimal big-endian bytes of |x| (empty for 0), a FRESH []byte; z.And(x, y) ↦ Go.bigAnd x y, z.Or(x, y) ↦ Go.bigOr x y;
  z.Rsh(x, n) ↦ Go.bigRsh x n = Int.shiftRight (floor division by 2^n, the arithmetic shift big.Int implements);
  z.Lsh(x, n) ↦ Go.bigLsh x n; the count n of Lsh / Rsh is a constant or an expression of type uint (n.toNat: exact).
  x.Int64() ↦ Go.bigInt64 x = BitVec.ofInt 64 x: the value when it fits an int64; for other x Go documents the result as
  "undefined" — the current implementation returns the low 64 bits, which is what Go.bigInt64 is; a tie that wants to be
  independent of that has to show that the argument fits (Tie/Bip39BigCode shows it is below 2048).
* A modifying method returns its receiver.  Two uses of that result are accepted besides the statement "v.Op(…)", both on
  a LOCAL variable v (the only reference to its big.Int, stage 10): "x := v.Op(…).M()" / "x = v.Op(…).M()" with M one of
  Bytes, Int64, Sign ↦ "let v := …; let x := M v" (assign the receiver, then read it), and "return v.Op(…)" ↦
  "let v := …; return v" (v is a fresh local, so the function stays fresh-returning; v may not occur in another result).
* A package-level variable "var c = big.NewInt(k)" (k a constant) is a CONSTANT ↦ (k : Int), accepted only when EVERY use
  of c in its package (all files, every function, translated or not) is as an operand — never the receiver — of a math/big
  method, or as the receiver of one of the non-modifying methods Sign, Cmp, Int64, Bytes: so nothing assigns it, copies
  the pointer, takes its address or modifies the big.Int (checked over the whole package).
* A named slice-of-strings type of the package ("type Mnemonic []string") ↦ List (List (BitVec 8)).  As a PARAMETER it is
  read-only (len, m[i], range); as a RESULT every returned value must be nil (↦ []) or a local variable made once by
  "make(Mnemonic, n)" (↦ List.replicate n []) that is only written by "words[i] = s" (index checked: panic = none) — strings
  are immutable values, so such a slice is owned by the function like a make-slice of bytes.  A plain []string stays
  restricted as in stage 8.
* The methods of a package-level variable of INTERFACE type wordlist.List (pkg/bip39/wordlist) are PARAMETERS of the
  translated function and of every translated function that calls it, named after the variable v:
    v.Contains(w) ↦ v_Contains w : Bool (ASSUMED total and pure: it does not panic);
    v.Word(i) ↦ v_Word i : Option (List (BitVec 8)), i the int argument as BitVec 64; none = the method panics;
    v.Index(w) ↦ v_Index w : Option (BitVec 64); none = the method panics (the interface documents that it panics for a
      word that is not in the list).
  A call of Word / Index is accepted only as the whole right-hand side of an assignment ("a[i] = v.Word(e)",
  "k := v.Index(w)"); it is Go.Flow.bind (Go.call (v_Word e)) (fun st => …): none is a panic of the function.
  NOTHING is assumed about the values of these parameters (the tie states what it assumes).  ASSUMPTION made by passing
  them as functions: during ONE call of a translated function the variable holds one list, whose methods are pure
  functions of their arguments (the variable may be reassigned between calls — bip39.SetWordList —, not concurrently).
* "const c = e" inside a function: the constant is the value go/types computes for it wherever it is used.
* crypto/sha256.Sum256(b) is a PARAMETER sha256_Sum256 : List (BitVec 8) → List (BitVec 8), ASSUMED total, pure and to
  return a list of length 32 (a [32]byte array returned by value), exactly as blake2b.Sum256 in stage 9.
-/
`

func init() {
	for _, n := range []string{"Rsh", "And", "Or", "SetBytes"} {
		bigSetters[n] = true
	}
}

// big2Readers: the non-modifying methods of stage 12 (Sign and Cmp are stage 10).
var big2Readers = map[string]lkind{"Bytes": kBytes, "Int64": kInt}

func big2IsReader(name string) bool { _, ok := big2Readers[name]; return ok }

// big2ChainReaders: the methods M accepted in `x := v.Op(…).M()`.
var big2ChainReaders = map[string]bool{"Bytes": true, "Int64": true, "Sign": true}

// ---------------------------------------------------------------- math/big

// big2Count renders the count of Lsh / Rsh as a Nat: a constant, or an expression of type uint.
func (t *loopTr) big2Count(c *ast.CallExpr, e ast.Expr) string {
	if n, isConst := t.constInt(e); isConst {
		if n.Sign() < 0 || !n.IsInt64() || n.Int64() > 1<<20 {
			t.fail(c, "shift count %s: only small non-negative constants are supported", n)
		}
		return n.String()
	}
	s, k := t.expr(e)
	if k != kUint {
		t.fail(c, "shift count of type %s (only a constant or an expression of type uint is supported)", t.typeOf(e).Type)
	}
	return s + ".toNat"
}

// big2OpValue is bigOpValue for the modifying methods of stage 12 (and Lsh with a non-constant count); ok = false: not one.
func (t *loopTr) big2OpValue(c *ast.CallExpr, name string) (string, bool) {
	need := func(n int) {
		if len(c.Args) != n || c.Ellipsis.IsValid() {
			t.fail(c, "arity of %s", name)
		}
	}
	switch name {
	case "Lsh":
		need(2)
		if _, isConst := t.constInt(c.Args[1]); isConst {
			return "", false // stage 10
		}
		a := t.bigOperand(c.Args[0])
		return "(Go.bigLsh " + a + " " + t.big2Count(c, c.Args[1]) + ")", true
	case "Rsh":
		need(2)
		a := t.bigOperand(c.Args[0])
		return "(Go.bigRsh " + a + " " + t.big2Count(c, c.Args[1]) + ")", true
	case "And", "Or":
		need(2)
		a, b := t.bigOperand(c.Args[0]), t.bigOperand(c.Args[1])
		return "(Go.big" + name + " " + a + " " + b + ")", true
	case "SetBytes":
		need(1)
		v, k := t.argValue(c.Args[0]) // only read: SetBytes copies the value
		if k != kBytes {
			t.fail(c, "SetBytes of %s", k.lean())
		}
		return "(Go.bigSetBytes " + v + ")", true
	}
	return "", false
}

// big2Reader translates x.Bytes() and x.Int64().
func (t *loopTr) big2Reader(x *ast.CallExpr, recv ast.Expr, name string) (string, lkind, bool) {
	k, ok := big2Readers[name]
	if !ok {
		return "", 0, false
	}
	if len(x.Args) != 0 {
		t.fail(x, "arity")
	}
	return "(Go.big" + name + " " + t.bigOperand(recv) + ")", k, true
}

// big2ChainOK: in bigCheck — the result of the modifying call `v.Op(…)` on the local v is used, not discarded.  Accepted:
// `return v.Op(…)` (v in no other result) and `x := v.Op(…).M()` with M a reader without arguments (see big2HeaderText).
func (t *loopTr) big2ChainOK(call *ast.CallExpr, stack []ast.Node) bool {
	// the ancestors of call, parentheses skipped
	var anc []ast.Node
	seen := false
	for i := len(stack) - 1; i >= 0; i-- {
		if stack[i] == ast.Node(call) {
			seen = true
			continue
		}
		if !seen {
			continue
		}
		if _, isParen := stack[i].(*ast.ParenExpr); isParen {
			continue
		}
		anc = append(anc, stack[i])
	}
	if len(anc) == 0 {
		return false
	}
	v := t.bigMutCall(call)
	if v == nil {
		return false
	}
	if r, ok := anc[0].(*ast.ReturnStmt); ok {
		n := 0
		for _, e := range r.Results {
			ast.Inspect(e, func(x ast.Node) bool {
				if id, ok := x.(*ast.Ident); ok && t.info.Uses[id] == v {
					n++
				}
				return true
			})
		}
		// the receiver and the operands that mention v inside the call itself
		inCall := 0
		ast.Inspect(call, func(x ast.Node) bool {
			if id, ok := x.(*ast.Ident); ok && t.info.Uses[id] == v {
				inCall++
			}
			return true
		})
		direct := false
		for _, e := range r.Results {
			if unparen(e) == ast.Expr(call) {
				direct = true
			}
		}
		return direct && n == inCall
	}
	if len(anc) < 3 {
		return false
	}
	sel, ok1 := anc[0].(*ast.SelectorExpr)
	outer, ok2 := anc[1].(*ast.CallExpr)
	as, ok3 := anc[2].(*ast.AssignStmt)
	if !ok1 || !ok2 || !ok3 || unparen(outer.Fun) != ast.Expr(sel) || len(outer.Args) != 0 {
		return false
	}
	if _, name := t.bigMethod(outer); !big2ChainReaders[name] {
		return false
	}
	if len(as.Lhs) != 1 || len(as.Rhs) != 1 || unparen(as.Rhs[0]) != ast.Expr(outer) || (as.Tok != token.ASSIGN && as.Tok != token.DEFINE) {
		return false
	}
	// the left-hand side must be a plain variable other than v
	id, ok := unparen(as.Lhs[0]).(*ast.Ident)
	return ok && t.objOf(id) != v
}

// big2Return rewrites `return v.Op(…)` as `v.Op(…); return v`.
func (t *loopTr) big2Return(s *ast.ReturnStmt, list []ast.Stmt, ind string, m blockMode, k func(string) string) (string, bool) {
	if t.big == nil || len(s.Results) == 0 {
		return "", false
	}
	var pre []ast.Stmt
	s2 := &ast.ReturnStmt{Return: s.Return}
	for _, r := range s.Results {
		c, isCall := unparen(r).(*ast.CallExpr)
		if isCall {
			if v := t.bigMutCall(c); v != nil {
				recv, _ := t.bigMethod(c)
				pre = append(pre, &ast.ExprStmt{X: c})
				s2.Results = append(s2.Results, unparen(recv))
				continue
			}
		}
		s2.Results = append(s2.Results, r)
	}
	if len(pre) == 0 {
		return "", false
	}
	return t.block(append(append(pre, s2), list[1:]...), ind, m, k), true
}

// big2Stmt handles, in front of a statement: `x := v.Op(…).M()` (rewritten as `v.Op(…); x := v.M()`) and an assignment
// whose right-hand side is a call of an Option-valued interface method (bound in front of the statement).
func (t *loopTr) big2Stmt(s ast.Stmt, ind string, m blockMode, rest func(string) string) (string, bool) {
	as, ok := s.(*ast.AssignStmt)
	if !ok || len(as.Lhs) != 1 || len(as.Rhs) != 1 {
		return "", false
	}
	outer, ok := unparen(as.Rhs[0]).(*ast.CallExpr)
	if !ok {
		return "", false
	}
	if recv, name := t.bigMethod(outer); recv != nil && big2ChainReaders[name] {
		if inner, isCall := unparen(recv).(*ast.CallExpr); isCall {
			if v := t.bigMutCall(inner); v != nil {
				irecv, _ := t.bigMethod(inner)
				osel := unparen(outer.Fun).(*ast.SelectorExpr)
				sel2 := &ast.SelectorExpr{X: unparen(irecv), Sel: osel.Sel}
				call2 := &ast.CallExpr{Fun: sel2, Lparen: outer.Lparen, Rparen: outer.Rparen}
				t.info.Types[sel2] = t.info.Types[osel]
				t.info.Types[call2] = t.info.Types[outer]
				as2 := *as
				as2.Rhs = []ast.Expr{call2}
				return t.block([]ast.Stmt{&ast.ExprStmt{X: inner}, &as2}, ind, m, rest), true
			}
		}
	}
	if im, pv := t.ifaceMethodOf(outer); im != nil && im.option {
		if _, done := t.hoisted[outer]; done {
			return "", false
		}
		if !m.flow {
			t.fail(s, "internal error: call of an interface method that may panic outside a flow block")
		}
		call := t.ifaceApply(outer, im, pv)
		pre := t.guards(s, ind, m)
		name := t.freshName()
		if t.hoisted == nil {
			t.hoisted = map[*ast.CallExpr]hoistedVal{}
		}
		t.hoisted[outer] = hoistedVal{name, im.ret}
		return pre + fmt.Sprintf("%sGo.Flow.bind (Go.call %s) (fun (%s : %s) =>\n%s)", ind, call, name, im.ret.lean(),
			t.block([]ast.Stmt{s}, ind, m, rest)), true
	}
	return "", false
}

// ---------------------------------------------------------------- package-level *big.Int constants

var big2ConstOK = map[*types.Var]string{}

// big2PkgConst returns the value (a Lean Int literal) of the package-level variable v when it is `var v = big.NewInt(k)`,
// k a constant, and every use of v in its package is read-only (see big2HeaderText); fails otherwise.
func (t *loopTr) big2PkgConst(at ast.Node, v *types.Var) string {
	if s, ok := big2ConstOK[v]; ok {
		return s
	}
	const shape = "a package-level *big.Int variable is only supported as a constant: `var c = big.NewInt(k)` with a constant k, and every use of c in the package an operand (not the receiver) of a math/big method or the receiver of Sign, Cmp, Int64 or Bytes"
	if v.Exported() {
		// an exported variable can be modified by any importing package: the whole-package read-only check proves nothing
		// (fourth audit, finding 2)
		t.fail(at, "%s (%s is exported: other packages can modify it)", shape, v.Name())
	}
	init, _, has := t.set.p.valueSpec(v.Name())
	value := ""
	if has && init != nil {
		if kv, ok := t.pow2ConstInit(init); ok {
			// stage 14 (loops_pow2.go): new(big.Int).SetUint64(k), or the package's hex helper on a constant string
			value = kv.String()
		}
	}
	if value == "" {
		if !has || init == nil || !t.isBigNewInt(init) {
			t.fail(at, "%s (%s is not initialised that way, nor by new(big.Int).SetUint64(k) or by a helper `b, _ := new(big.Int).SetString(s, 16); return b` on a constant string of hex digits)", shape, v.Name())
		}
		ic := unparen(init).(*ast.CallExpr)
		if len(ic.Args) != 1 {
			t.fail(at, "%s", shape)
		}
		tv, ok := t.info.Types[ic.Args[0]]
		if !ok || tv.Value == nil {
			t.fail(at, "%s (%s is initialised with a non-constant argument)", shape, v.Name())
		}
		k := constant.ToInt(tv.Value)
		if k.Kind() != constant.Int {
			t.fail(at, "%s", shape)
		}
		value = k.ExactString()
	}
	// every use, in every file of the package
	okUse := map[*ast.Ident]bool{}
	for _, fn := range t.set.p.sortedFiles() {
		ast.Inspect(t.set.p.files[fn], func(n ast.Node) bool {
			c, isCall := n.(*ast.CallExpr)
			if !isCall {
				return true
			}
			recv, name := t.bigMethod(c)
			if recv == nil {
				return true
			}
			if id, isId := unparen(recv).(*ast.Ident); isId && t.info.Uses[id] == v {
				if _, reader := big2Readers[name]; reader || name == "Sign" || name == "Cmp" {
					okUse[id] = true
				}
			}
			if bigSetters[name] || name == "Cmp" || name == "ModInverse" {
				for _, a := range c.Args {
					if id, isId := unparen(a).(*ast.Ident); isId && t.info.Uses[id] == v {
						okUse[id] = true
					}
				}
			}
			return true
		})
	}
	for id, o := range t.info.Uses {
		if o == v && !okUse[id] {
			pos := t.set.p.fset.Position(id.Pos())
			t.fail(at, "%s (%s is used in another way at %s:%d)", shape, v.Name(), pos.Filename, pos.Line)
		}
	}
	s := "(" + value + " : Int)"
	big2ConstOK[v] = s
	return s
}

// big2PkgVar: the identifier x names a package-level *big.Int variable of the translated package: its constant value.
func (t *loopTr) big2PkgVar(x *ast.Ident) (string, bool) {
	v, ok := t.info.Uses[x].(*types.Var)
	if !ok || v.IsField() || v.Pkg() != t.set.tp.tpkg || v.Parent() != t.set.tp.tpkg.Scope() || !isBigIntPtr(v.Type()) {
		return "", false
	}
	return t.big2PkgConst(x, v), true
}

// ---------------------------------------------------------------- a named []string type

// namedStrings: ty is a named type of the translated package whose underlying type is []string.
func (t *loopTr) namedStrings(ty types.Type) bool {
	n, ok := ty.(*types.Named)
	if !ok || n.Obj().Pkg() != t.set.tp.tpkg {
		return false
	}
	sl, ok := n.Underlying().(*types.Slice)
	if !ok {
		return false
	}
	b, ok := sl.Elem().(*types.Basic)
	return ok && b.Kind() == types.String
}

// big2StringsOK: in noStrings — a parameter or result of a NAMED []string type of the package is accepted.
func (t *loopTr) big2StringsOK(at ast.Node, what string) bool {
	switch what {
	case "a parameter":
		if id, ok := at.(*ast.Ident); ok {
			if o := t.info.Defs[id]; o != nil {
				return t.namedStrings(o.Type())
			}
		}
	case "a result":
		if f, ok := at.(*ast.Field); ok {
			if tv, ok := t.info.Types[f.Type]; ok {
				return t.namedStrings(tv.Type)
			}
		}
	}
	return false
}

// madeStrings: o is a local variable of a named []string type that is defined once, by make, and never reassigned.
func (t *loopTr) madeStrings(o types.Object) bool {
	if o == nil || !t.namedStrings(o.Type()) {
		return false
	}
	_, local := t.vars[o]
	f := t.facts
	return local && !t.params[o] && len(f.defs[o]) == 1 && f.plain[o] == 0 && t.isMake(f.defs[o][0])
}

// big2MakeStrings translates make(T, n) for a named []string type T: n empty strings.
func (t *loopTr) big2MakeStrings(x *ast.CallExpr) (string, lkind, bool) {
	if len(x.Args) != 2 {
		return "", 0, false
	}
	ttv, ok := t.info.Types[x.Args[0]]
	if !ok || !ttv.IsType() || !t.namedStrings(ttv.Type) {
		return "", 0, false
	}
	empty := "([] : List (BitVec 8))"
	if ltv := t.typeOf(x.Args[1]); ltv.Value != nil {
		n := constant.ToInt(ltv.Value)
		if n.Kind() != constant.Int || constant.Sign(n) < 0 {
			t.fail(x, "bad constant length")
		}
		return "(List.replicate " + n.ExactString() + " " + empty + ")", kStrings, true
	}
	n, nk := t.expr(x.Args[1])
	if nk != kInt && nk != kUint {
		t.fail(x, "length is not an int")
	}
	if nk == kInt && t.flowFn {
		t.addCheck("(Go.nonneg " + n + ")")
	}
	return "(List.replicate " + n + ".toNat " + empty + ")", kStrings, true
}

// big2AssignStrings translates `words[i] = s` for a local made by make of a named []string type.
func (t *loopTr) big2AssignStrings(s *ast.AssignStmt, l *ast.IndexExpr) ([]binding, bool) {
	o := t.varOf(l.X)
	if o == nil || !t.namedStrings(o.Type()) {
		return nil, false
	}
	if s.Tok != token.ASSIGN {
		t.fail(s, "unsupported assignment operator on an element of %s", o.Name())
	}
	if !t.madeStrings(o) {
		t.fail(s, "index assignment to `%s`, which is not a local variable created once by make in this function (a []string parameter is read-only)", o.Name())
	}
	a, i, _, _ := t.index(l)
	v, vk := t.expr(s.Rhs[0])
	if vk != kString {
		t.fail(s, "element type")
	}
	return []binding{{name: t.vars[o], kind: kStrings, val: fmt.Sprintf("(%s.set %s %s)", a, i, v), checks: t.takeChecks()}}, true
}

// big2RetStrings: in a return statement, the operand r of a result of kind kStrings: nil ↦ []; a local made by make is
// translated as usual (ok = false); anything else is rejected.
func (t *loopTr) big2RetStrings(r ast.Expr, k lkind) (string, bool) {
	if v, ok := t.keyRetValue(r, k); ok {
		return v, true // stage 13 (loops_key.go)
	}
	if k != kStrings {
		return "", false
	}
	id, ok := unparen(r).(*ast.Ident)
	if ok {
		if _, isNil := t.info.Uses[id].(*types.Nil); isNil {
			return "([] : " + kStrings.lean() + ")", true
		}
		if t.madeStrings(t.info.Uses[id]) {
			return "", false
		}
	}
	t.fail(r, "returning %s as a []string result: only nil or a local variable made once by make in this function is supported", t.p.src(r))
	return "", false
}

// ---------------------------------------------------------------- methods of an interface variable

type ifaceMethod struct {
	suffix, ty string
	args       []lkind
	ret        lkind
	option     bool // the parameter returns an Option: none = the method panics
	note       string
}

// ifaceMethods: by "import path.Interface.method".
var ifaceMethods = map[string]*ifaceMethod{
	modulePrefix + "pkg/bip39/wordlist.List.Contains": {suffix: "Contains", ty: "List (BitVec 8) → Bool", args: []lkind{kString}, ret: kBool,
		note: "the method Contains of the word list the package-level interface variable `%s` holds during the call — not modelled; ASSUMED total and pure, see the header, stage 12; passed in by the caller"},
	modulePrefix + "pkg/bip39/wordlist.List.Word": {suffix: "Word", ty: "BitVec 64 → Option (List (BitVec 8))", args: []lkind{kInt}, ret: kString, option: true,
		note: "the method Word of the word list the package-level interface variable `%s` holds during the call, none = it panics — not modelled, see the header, stage 12; passed in by the caller"},
	modulePrefix + "pkg/bip39/wordlist.List.Index": {suffix: "Index", ty: "List (BitVec 8) → Option (BitVec 64)", args: []lkind{kString}, ret: kInt, option: true,
		note: "the method Index of the word list the package-level interface variable `%s` holds during the call, none = it panics — not modelled, see the header, stage 12; passed in by the caller"},
}

// ifaceMethodOf: c is v.M(…) with v a package-level variable of the translated package whose type is an interface listed
// in ifaceMethods.
func (t *loopTr) ifaceMethodOf(c *ast.CallExpr) (*ifaceMethod, *types.Var) {
	sel, ok := unparen(c.Fun).(*ast.SelectorExpr)
	if !ok {
		return nil, nil
	}
	x, ok := unparen(sel.X).(*ast.Ident)
	if !ok {
		return nil, nil
	}
	v, ok := t.info.Uses[x].(*types.Var)
	if !ok || v.IsField() || v.Pkg() != t.set.tp.tpkg || v.Parent() != t.set.tp.tpkg.Scope() {
		return nil, nil
	}
	named, ok := v.Type().(*types.Named)
	if !ok || named.Obj().Pkg() == nil {
		return nil, nil
	}
	if _, isIface := named.Underlying().(*types.Interface); !isIface {
		return nil, nil
	}
	f, ok := t.info.Uses[sel.Sel].(*types.Func)
	if !ok {
		return nil, nil
	}
	im := ifaceMethods[named.Obj().Pkg().Path()+"."+named.Obj().Name()+"."+f.Name()]
	if im == nil {
		return nil, nil
	}
	return im, v
}

// ifaceApply renders the application of the parameter that stands for the method and records it as a dependency.
func (t *loopTr) ifaceApply(c *ast.CallExpr, im *ifaceMethod, v *types.Var) string {
	if len(c.Args) != len(im.args) || c.Ellipsis.IsValid() {
		t.fail(c, "arity")
	}
	param := v.Name() + "_" + im.suffix
	for o, n := range t.vars {
		if n == param {
			t.fail(c, "variable name %s clashes with the parameter that stands for %s", o.Name(), t.p.src(c.Fun))
		}
	}
	if ty, ok := t.absDeps[param]; (ok && ty != im.ty) || leanReserved[param] || t.set.all[param] {
		t.fail(c, "the parameter name %s for %s clashes with a name used by the generated Lean text", param, t.p.src(c.Fun))
	}
	parts := []string{param}
	for i, a := range c.Args {
		s, k := t.argValue(a)
		if k != im.args[i] && !(im.args[i] == kString && k == kBytes) {
			t.fail(a, "argument of type %s", k.lean())
		}
		parts = append(parts, s)
	}
	t.absDeps[param] = im.ty
	externDepNotes[param] = [2]string{im.ty, fmt.Sprintf(im.note, v.Name())}
	return "(" + strings.Join(parts, " ") + ")"
}

// big2Call translates, as an expression, the call of a method of an interface variable: a total one is the application of
// its parameter; an Option-valued one must have been bound in front of the statement (big2Stmt).
func (t *loopTr) big2Call(x *ast.CallExpr) (string, lkind, bool) {
	im, v := t.ifaceMethodOf(x)
	if im == nil {
		return "", 0, false
	}
	if im.option {
		t.fail(x, "%s may panic: the call is only supported as the whole right-hand side of an assignment (`x := %s(…)`, `a[i] = %s(…)`)", t.p.src(x.Fun), t.p.src(x.Fun), t.p.src(x.Fun))
	}
	return t.ifaceApply(x, im, v), im.ret, true
}

// big2Panics: c is a call of an Option-valued interface method.
func (t *loopTr) big2Panics(c *ast.CallExpr) bool {
	im, _ := t.ifaceMethodOf(c)
	return im != nil && im.option
}
