// Command extract is the translator of the verification framework: it reads the
// Go (and Go assembly) sources of /repo and of the pinned iota.go dependency and
// regenerates /verif/lean/Iota/Gen/*.lean from them: constants, tables, call-site
// arguments, small straight-line integer functions translated as code (translateFunc), functions with
// range loops over byte/int slices translated as code with 64-bit int semantics (translateLoopFuncs, loops*.go), the
// transform_amd64.s instruction list and the synchronisation skeleton of Mine.
//
// Nothing here knows what the values *should* be; the expectations live in the
// Lean `Iota/Tie/*.lean` theorems, which are re-checked against the regenerated
// files on every run.
package main

import (
	"bytes"
	"crypto/sha256"
	"encoding/json"
	"flag"
	"fmt"
	"go/ast"
	"go/constant"
	"go/parser"
	"go/printer"
	"go/token"
	"go/types"
	"os"
	"path/filepath"
	"regexp"
	"sort"
	"strconv"
	"strings"
)

var (
	repo      = flag.String("repo", "/repo", "repository root")
	out       = flag.String("out", "/verif/lean/Iota/Gen", "output directory")
	expectOut = flag.String("expect", "", "write the snapshot of recorded source texts to this Lean file")
	trOnly    = flag.String("translate", "", "debugging/tests: print the loop translation of `dir:func1,func2,…` and exit")
	modDir    = flag.String("iotago", "", "directory of github.com/iotaledger/iota.go (default: module cache, version from go.mod)")
)

// extractFailure is what die panics with while a generator runs (runGenerators): the failure is confined to the files of
// that generator, which are replaced by stubs that do not compile, and the other files are still regenerated
type extractFailure struct{ msg string }

var inGenerator bool

func die(format string, a ...interface{}) {
	if inGenerator {
		panic(extractFailure{fmt.Sprintf(format, a...)})
	}
	fmt.Fprintf(os.Stderr, "extract: "+format+"\n", a...)
	os.Exit(2)
}

// ---------------------------------------------------------------- packages

type pkg struct {
	dir   string
	fset  *token.FileSet
	files map[string]*ast.File
	// resolved lazily
	consts map[string]constant.Value
}

var pkgCache = map[string]*pkg{}

func load(dir string) *pkg {
	if p, ok := pkgCache[dir]; ok {
		return p
	}
	p := &pkg{dir: dir, fset: token.NewFileSet(), files: map[string]*ast.File{}, consts: map[string]constant.Value{}}
	ents, err := os.ReadDir(dir)
	if err != nil {
		die("read %s: %v", dir, err)
	}
	for _, e := range ents {
		n := e.Name()
		if e.IsDir() || !strings.HasSuffix(n, ".go") || strings.HasSuffix(n, "_test.go") || strings.HasSuffix(n, "_verif.go") {
			continue
		}
		f, err := parser.ParseFile(p.fset, filepath.Join(dir, n), nil, parser.ParseComments)
		if err != nil {
			die("parse %s: %v", n, err)
		}
		p.files[n] = f
	}
	pkgCache[dir] = p
	return p
}

func (p *pkg) sortedFiles() []string {
	var ns []string
	for n := range p.files {
		ns = append(ns, n)
	}
	sort.Strings(ns)
	return ns
}

// valueSpec finds the declaration `name = expr` (const or var) and returns expr
// together with the iota value of the spec (for const groups with implicit repetition).
func (p *pkg) valueSpec(name string) (ast.Expr, int, bool) {
	for _, fn := range p.sortedFiles() {
		for _, d := range p.files[fn].Decls {
			gd, ok := d.(*ast.GenDecl)
			if !ok || (gd.Tok != token.CONST && gd.Tok != token.VAR) {
				continue
			}
			var lastVals []ast.Expr
			for i, s := range gd.Specs {
				vs := s.(*ast.ValueSpec)
				vals := vs.Values
				if len(vals) == 0 && gd.Tok == token.CONST {
					vals = lastVals
				} else {
					lastVals = vals
				}
				for j, id := range vs.Names {
					if id.Name == name {
						if j < len(vals) {
							return vals[j], i, true
						}
						return nil, i, false
					}
				}
			}
		}
	}
	return nil, 0, false
}

func (p *pkg) funcDecl(name string) *ast.FuncDecl {
	for _, fn := range p.sortedFiles() {
		for _, d := range p.files[fn].Decls {
			if fd, ok := d.(*ast.FuncDecl); ok && fd.Name.Name == name {
				return fd
			}
		}
	}
	die("%s: func %s not found", p.dir, name)
	return nil
}

// importPath resolves an import name used in any file of p to a directory.
func (p *pkg) importDir(name string) string {
	for _, fn := range p.sortedFiles() {
		for _, im := range p.files[fn].Imports {
			path, _ := strconv.Unquote(im.Path.Value)
			local := filepath.Base(path)
			if im.Name != nil {
				local = im.Name.Name
			}
			if local != name {
				continue
			}
			switch {
			case strings.HasPrefix(path, "github.com/iotaledger/iota.go/"):
				return filepath.Join(iotaGoDir(), strings.TrimPrefix(path, "github.com/iotaledger/iota.go/"))
			case strings.HasPrefix(path, "github.com/wollac/iota-crypto-demo/"):
				return filepath.Join(*repo, strings.TrimPrefix(path, "github.com/wollac/iota-crypto-demo/"))
			}
			return "std:" + path
		}
	}
	return ""
}

func iotaGoDir() string {
	if *modDir != "" {
		return *modDir
	}
	b, err := os.ReadFile(filepath.Join(*repo, "go.mod"))
	if err != nil {
		die("go.mod: %v", err)
	}
	m := regexp.MustCompile(`github.com/iotaledger/iota.go (v[^\s]+)`).FindSubmatch(b)
	if m == nil {
		die("iota.go version not found in go.mod")
	}
	return filepath.Join(modCache(), "github.com", "iotaledger", "iota.go@"+string(m[1]))
}

// modCache returns the module cache directory.
func modCache() string {
	cache := os.Getenv("GOMODCACHE")
	if cache == "" {
		gp := os.Getenv("GOPATH")
		if gp == "" {
			gp = filepath.Join(os.Getenv("HOME"), "go")
		}
		cache = filepath.Join(gp, "pkg", "mod")
	}
	return cache
}

// ---------------------------------------------------------------- constant evaluation

var stdConsts = map[string]constant.Value{
	"math.MinInt8":        constant.MakeInt64(-128),
	"math.MaxInt8":        constant.MakeInt64(127),
	"math.MaxUint64":      constant.MakeUint64(^uint64(0)),
	"bits.UintSize":       constant.MakeInt64(64),
	"sha512.Size":         constant.MakeInt64(64),
	"sha256.Size":         constant.MakeInt64(32),
	"blake2b.Size256":     constant.MakeInt64(32),
	"blake2b.Size":        constant.MakeInt64(64),
	"ed25519.SeedSize":    constant.MakeInt64(32),
	"bct.MaxBatchSize":    constant.MakeInt64(64),
	"curl.NumberOfRounds": constant.MakeInt64(81),
}

func (p *pkg) eval(e ast.Expr, iota int) constant.Value {
	switch x := e.(type) {
	case *ast.BasicLit:
		v := constant.MakeFromLiteral(x.Value, x.Kind, 0)
		if x.Kind == token.CHAR {
			return constant.ToInt(v)
		}
		return v
	case *ast.ParenExpr:
		return p.eval(x.X, iota)
	case *ast.Ident:
		if x.Name == "iota" {
			return constant.MakeInt64(int64(iota))
		}
		if x.Name == "true" {
			return constant.MakeBool(true)
		}
		if x.Name == "false" {
			return constant.MakeBool(false)
		}
		return p.constant(x.Name)
	case *ast.SelectorExpr:
		id, ok := x.X.(*ast.Ident)
		if !ok {
			die("eval: unsupported selector")
		}
		if v, ok := stdConsts[id.Name+"."+x.Sel.Name]; ok {
			dir := p.importDir(id.Name)
			if strings.HasPrefix(dir, "std:") || dir == "" || strings.Contains(dir, "bct") {
				return v
			}
		}
		dir := p.importDir(id.Name)
		if dir == "" || strings.HasPrefix(dir, "std:") {
			die("eval: unknown constant %s.%s", id.Name, x.Sel.Name)
		}
		return load(dir).constant(x.Sel.Name)
	case *ast.UnaryExpr:
		v := p.eval(x.X, iota)
		return constant.UnaryOp(x.Op, v, 0)
	case *ast.BinaryExpr:
		a, b := p.eval(x.X, iota), p.eval(x.Y, iota)
		switch x.Op {
		case token.SHL, token.SHR:
			s, _ := constant.Uint64Val(b)
			return constant.Shift(a, x.Op, uint(s))
		case token.QUO:
			if a.Kind() == constant.Int && b.Kind() == constant.Int {
				return constant.BinaryOp(a, token.QUO_ASSIGN, b) // integer division
			}
		}
		return constant.BinaryOp(a, x.Op, b)
	case *ast.CallExpr:
		// conversion T(x) with one argument
		if len(x.Args) == 1 {
			return p.eval(x.Args[0], iota)
		}
	}
	die("eval: unsupported expression %s", p.src(e))
	return nil
}

func (p *pkg) constant(name string) constant.Value {
	if v, ok := p.consts[name]; ok {
		return v
	}
	e, io, ok := p.valueSpec(name)
	if !ok || e == nil {
		die("%s: constant %s not found", p.dir, name)
	}
	v := p.eval(e, io)
	p.consts[name] = v
	return v
}

func (p *pkg) src(n ast.Node) string {
	var b bytes.Buffer
	printer.Fprint(&b, p.fset, n)
	return b.String()
}

func (p *pkg) intConst(name string) string {
	v := p.constant(name)
	if v.Kind() != constant.Int {
		die("%s: %s is not an integer constant", p.dir, name)
	}
	return leanInt(v.ExactString())
}

func leanInt(s string) string {
	if strings.HasPrefix(s, "-") {
		return "(" + s + ")"
	}
	return s
}

func (p *pkg) stringConst(name string) string {
	v := p.constant(name)
	if v.Kind() != constant.String {
		die("%s: %s is not a string constant", p.dir, name)
	}
	return constant.StringVal(v)
}

func leanBytes(s string) string {
	var parts []string
	for i := 0; i < len(s); i++ {
		parts = append(parts, strconv.Itoa(int(s[i])))
	}
	return "[" + strings.Join(parts, ", ") + "]"
}

// compositeInts flattens a (possibly nested) composite literal of integer constant expressions.
func (p *pkg) compositeInts(e ast.Expr) string {
	switch x := e.(type) {
	case *ast.CompositeLit:
		var parts []string
		for _, el := range x.Elts {
			if kv, ok := el.(*ast.KeyValueExpr); ok {
				el = kv.Value
			}
			parts = append(parts, p.compositeInts(el))
		}
		return "[" + strings.Join(parts, ", ") + "]"
	default:
		v := p.eval(e, 0)
		return leanInt(constant.ToInt(v).ExactString())
	}
}

func (p *pkg) compositeStrings(e ast.Expr) string {
	cl, ok := e.(*ast.CompositeLit)
	if !ok {
		die("not a composite literal: %s", p.src(e))
	}
	var parts []string
	for _, el := range cl.Elts {
		v := p.eval(el, 0)
		parts = append(parts, leanBytes(constant.StringVal(v)))
	}
	return "[" + strings.Join(parts, ", ") + "]"
}

func (p *pkg) varExpr(name string) ast.Expr {
	e, _, ok := p.valueSpec(name)
	if !ok || e == nil {
		die("%s: var %s not found", p.dir, name)
	}
	return e
}

// callArgs finds the first call `recv.fn(...)` (or `fn(...)` if recv=="") inside function `in`
// and returns its arguments.
func (p *pkg) callArgs(in, recv, fn string) []ast.Expr {
	var res []ast.Expr
	found := false
	ast.Inspect(p.funcDecl(in), func(n ast.Node) bool {
		if found {
			return false
		}
		c, ok := n.(*ast.CallExpr)
		if !ok {
			return true
		}
		switch f := c.Fun.(type) {
		case *ast.SelectorExpr:
			if id, ok := f.X.(*ast.Ident); ok && id.Name == recv && f.Sel.Name == fn {
				res, found = c.Args, true
			}
		case *ast.Ident:
			if recv == "" && f.Name == fn {
				res, found = c.Args, true
			}
		}
		return true
	})
	if !found {
		die("%s: call %s.%s not found in %s", p.dir, recv, fn, in)
	}
	return res
}

// ---------------------------------------------------------------- function translation

// Go types handled by the translator and their Lean carriers.
//   int, rune        -> Int            (unbounded: overflow of Go int is outside the translated fragment)
//   uint, uint64     -> BitVec 64
//   byte, uint8      -> BitVec 8
//   int8             -> BitVec 8 (two's complement; conversions sign-extend)
//   bool             -> Bool
//   untyped constant -> adapts to the other operand

type gtype string

const (
	tInt     gtype = "int"
	tUint64  gtype = "uint64"
	tByte    gtype = "byte"
	tInt8    gtype = "int8"
	tBool    gtype = "bool"
	tUntyped gtype = "untyped"
)

func parseType(e ast.Expr) gtype {
	id, ok := e.(*ast.Ident)
	if !ok {
		die("translate: unsupported type expression")
	}
	switch id.Name {
	case "int", "rune", "int64", "int32":
		return tInt
	case "uint", "uint64":
		return tUint64
	case "byte", "uint8":
		return tByte
	case "int8":
		return tInt8
	case "bool":
		return tBool
	}
	die("translate: unsupported type %s", id.Name)
	return ""
}

func leanType(t gtype) string {
	switch t {
	case tInt:
		return "Int"
	case tUint64:
		return "BitVec 64"
	case tByte, tInt8:
		return "BitVec 8"
	case tBool:
		return "Bool"
	}
	die("leanType %s", t)
	return ""
}

type tr struct {
	p    *pkg
	vars map[string]gtype
}

func lit(v constant.Value, t gtype) string {
	s := constant.ToInt(v).ExactString()
	switch t {
	case tInt, tUntyped:
		return "(" + s + " : Int)"
	case tUint64:
		return "(BitVec.ofInt 64 " + leanInt(s) + ")"
	case tByte, tInt8:
		return "(BitVec.ofInt 8 " + leanInt(s) + ")"
	}
	die("lit: bad type %s", t)
	return ""
}

// isConst reports whether e is a constant expression (no local variables).
func (t *tr) isConst(e ast.Expr) bool {
	ok := true
	ast.Inspect(e, func(n ast.Node) bool {
		switch x := n.(type) {
		case *ast.Ident:
			if _, loc := t.vars[x.Name]; loc {
				ok = false
			}
		case *ast.CallExpr:
			if id, isId := x.Fun.(*ast.Ident); !isId || len(x.Args) != 1 || (id.Name != "int" && id.Name != "uint" && id.Name != "uint64" && id.Name != "byte" && id.Name != "int8") {
				ok = false
			}
		case *ast.SelectorExpr:
			return false
		}
		return ok
	})
	return ok
}

// expr translates e; want is the type required by context (tUntyped = none).
func (t *tr) expr(e ast.Expr, want gtype) (string, gtype) {
	if t.isConst(e) {
		if _, isCall := e.(*ast.CallExpr); !isCall || true {
			v := t.p.eval(e, 0)
			if v.Kind() == constant.Bool {
				if constant.BoolVal(v) {
					return "true", tBool
				}
				return "false", tBool
			}
			ty := want
			if c, ok := e.(*ast.CallExpr); ok {
				ty = parseType(c.Fun)
			}
			if ty == tUntyped {
				return lit(v, tInt), tUntyped
			}
			return lit(v, ty), ty
		}
	}
	switch x := e.(type) {
	case *ast.ParenExpr:
		s, ty := t.expr(x.X, want)
		return "(" + s + ")", ty
	case *ast.Ident:
		ty, ok := t.vars[x.Name]
		if !ok {
			die("translate: unknown identifier %s", x.Name)
		}
		return x.Name, ty
	case *ast.UnaryExpr:
		s, ty := t.expr(x.X, want)
		switch x.Op {
		case token.XOR:
			if ty == tInt {
				die("translate: ^ on int")
			}
			return "(~~~" + s + ")", ty
		case token.SUB:
			return "(-" + s + ")", ty
		case token.NOT:
			return "(!" + s + ")", tBool
		}
	case *ast.BinaryExpr:
		switch x.Op {
		case token.LAND, token.LOR:
			a, _ := t.expr(x.X, tBool)
			b, _ := t.expr(x.Y, tBool)
			op := "&&"
			if x.Op == token.LOR {
				op = "||"
			}
			return "(" + a + " " + op + " " + b + ")", tBool
		case token.SHL, token.SHR:
			a, ta := t.expr(x.X, want)
			if !t.isConst(x.Y) {
				die("translate: non-constant shift")
			}
			n := constant.ToInt(t.p.eval(x.Y, 0)).ExactString()
			op := "<<<"
			if x.Op == token.SHR {
				op = ">>>"
				if ta == tInt8 {
					die("translate: arithmetic shift of int8")
				}
			}
			if ta == tInt || ta == tUntyped {
				die("translate: shift of int")
			}
			return "(" + a + " " + op + " " + n + ")", ta
		}
		// operand types: find the typed side first
		var a, b string
		var ta, tb gtype
		if t.isConst(x.X) && !t.isConst(x.Y) {
			b, tb = t.expr(x.Y, tUntyped)
			a, ta = t.expr(x.X, tb)
		} else {
			a, ta = t.expr(x.X, want)
			w := ta
			if w == tUntyped {
				w = want
			}
			b, tb = t.expr(x.Y, w)
			if ta == tUntyped && tb != tUntyped {
				a, ta = t.expr(x.X, tb)
			}
		}
		if ta == tUntyped {
			ta = tInt
		}
		if tb == tUntyped {
			tb = ta
		}
		if ta != tb {
			die("translate: mismatched operand types %s %s in %s", ta, tb, t.p.src(e))
		}
		cmp := map[token.Token]string{token.EQL: "==", token.NEQ: "!=", token.LSS: "<", token.LEQ: "≤", token.GTR: ">", token.GEQ: "≥"}
		if op, ok := cmp[x.Op]; ok {
			switch ta {
			case tInt:
				return "(decide (" + a + " " + op + " " + b + "))", tBool
			case tUint64, tByte:
				return "(decide (" + a + ".toNat " + op + " " + b + ".toNat))", tBool
			case tInt8:
				return "(decide (" + a + ".toInt " + op + " " + b + ".toInt))", tBool
			}
		}
		arith := map[token.Token]string{token.ADD: "+", token.SUB: "-", token.MUL: "*"}
		if op, ok := arith[x.Op]; ok {
			return "(" + a + " " + op + " " + b + ")", ta
		}
		switch x.Op {
		case token.QUO:
			if ta == tInt {
				return "(Int.tdiv " + a + " " + b + ")", ta
			}
			if ta == tUint64 || ta == tByte {
				return "(" + a + " / " + b + ")", ta
			}
		case token.REM:
			if ta == tInt {
				return "(Int.tmod " + a + " " + b + ")", ta
			}
			if ta == tUint64 || ta == tByte {
				return "(" + a + " % " + b + ")", ta
			}
		case token.AND:
			if ta != tInt {
				return "(" + a + " &&& " + b + ")", ta
			}
		case token.OR:
			if ta != tInt {
				return "(" + a + " ||| " + b + ")", ta
			}
		case token.XOR:
			if ta != tInt {
				return "(" + a + " ^^^ " + b + ")", ta
			}
		case token.AND_NOT:
			if ta != tInt {
				return "(" + a + " &&& ~~~" + b + ")", ta
			}
		}
	case *ast.CallExpr:
		if id, ok := x.Fun.(*ast.Ident); ok && len(x.Args) == 1 {
			to := parseType(id)
			s, from := t.expr(x.Args[0], tUntyped)
			return conv(s, from, to), to
		}
	}
	die("translate: unsupported expression %s", t.p.src(e))
	return "", ""
}

func conv(s string, from, to gtype) string {
	if from == to {
		return s
	}
	switch {
	case from == tInt8 && to == tInt:
		return "(" + s + ").toInt"
	case from == tByte && to == tInt:
		return "((" + s + ").toNat : Int)"
	case from == tUint64 && to == tInt:
		return "(BitVec.toInt " + s + ")" // Go int(uint64) reinterprets
	case (from == tInt || from == tUntyped) && (to == tByte || to == tInt8):
		return "(BitVec.ofInt 8 " + s + ")"
	case (from == tInt || from == tUntyped) && to == tUint64:
		return "(BitVec.ofInt 64 " + s + ")"
	case from == tByte && to == tInt8, from == tInt8 && to == tByte:
		return s
	case from == tInt8 && to == tUint64:
		return "(BitVec.signExtend 64 " + s + ")"
	case from == tByte && to == tUint64:
		return "(BitVec.zeroExtend 64 " + s + ")"
	case from == tUint64 && (to == tByte || to == tInt8):
		return "(BitVec.truncate 8 " + s + ")"
	}
	die("translate: unsupported conversion %s -> %s", from, to)
	return ""
}

// translateFunc renders a straight-line function (assignments, if-return, return).
func translateFunc(p *pkg, name string) string {
	fd := p.funcDecl(name)
	t := &tr{p: p, vars: map[string]gtype{}}
	var params []string
	for _, f := range fd.Type.Params.List {
		ty := parseType(f.Type)
		for _, n := range f.Names {
			t.vars[n.Name] = ty
			params = append(params, fmt.Sprintf("(%s : %s)", n.Name, leanType(ty)))
		}
	}
	var rets []gtype
	for _, f := range fd.Type.Results.List {
		n := len(f.Names)
		if n == 0 {
			n = 1
		}
		for i := 0; i < n; i++ {
			rets = append(rets, parseType(f.Type))
		}
	}
	var rt []string
	for _, r := range rets {
		rt = append(rt, leanType(r))
	}
	var b strings.Builder
	fmt.Fprintf(&b, "/-- translated from `%s` in %s -/\ndef %s %s : %s :=\n", name, rel(p.dir), name, strings.Join(params, " "), strings.Join(rt, " × "))
	b.WriteString(t.block(fd.Body.List, rets, "  "))
	b.WriteString("\n")
	return b.String()
}

func (t *tr) block(stmts []ast.Stmt, rets []gtype, ind string) string {
	if len(stmts) == 0 {
		die("translate: function falls off the end")
	}
	switch s := stmts[0].(type) {
	case *ast.AssignStmt:
		if len(s.Lhs) == len(s.Rhs) {
			var out strings.Builder
			// simultaneous assignment: evaluate all RHS first
			var vals []string
			var tys []gtype
			for i := range s.Rhs {
				want := tUntyped
				if id, ok := s.Lhs[i].(*ast.Ident); ok {
					if ty, ok := t.vars[id.Name]; ok && s.Tok != token.DEFINE {
						want = ty
					}
				}
				v, ty := t.expr(s.Rhs[i], want)
				if ty == tUntyped {
					ty = tInt
				}
				vals = append(vals, v)
				tys = append(tys, ty)
			}
			if len(vals) == 1 {
				id := s.Lhs[0].(*ast.Ident)
				t.vars[id.Name] = tys[0]
				fmt.Fprintf(&out, "%slet %s : %s := %s\n", ind, id.Name, leanType(tys[0]), vals[0])
			} else {
				var names []string
				for i, l := range s.Lhs {
					id := l.(*ast.Ident)
					names = append(names, id.Name)
					t.vars[id.Name] = tys[i]
				}
				fmt.Fprintf(&out, "%slet (%s) := (%s)\n", ind, strings.Join(names, ", "), strings.Join(vals, ", "))
			}
			out.WriteString(t.block(stmts[1:], rets, ind))
			return out.String()
		}
	case *ast.IfStmt:
		if s.Init == nil && s.Else == nil {
			c, _ := t.expr(s.Cond, tBool)
			saved := map[string]gtype{}
			for k, v := range t.vars {
				saved[k] = v
			}
			th := t.block(s.Body.List, rets, ind+"  ")
			t.vars = saved
			el := t.block(stmts[1:], rets, ind+"  ")
			return fmt.Sprintf("%sif %s then\n%s\n%selse\n%s", ind, c, th, ind, el)
		}
	case *ast.ReturnStmt:
		if len(s.Results) != len(rets) {
			die("translate: return arity")
		}
		var vals []string
		for i, r := range s.Results {
			v, ty := t.expr(r, rets[i])
			if ty == tUntyped {
				ty = rets[i]
			}
			if ty != rets[i] {
				die("translate: return type %s, want %s", ty, rets[i])
			}
			vals = append(vals, v)
		}
		if len(vals) == 1 {
			return ind + vals[0]
		}
		return ind + "(" + strings.Join(vals, ", ") + ")"
	}
	die("translate: unsupported statement %s", t.p.src(stmts[0]))
	return ""
}

func rel(dir string) string {
	if r, err := filepath.Rel(*repo, dir); err == nil && !strings.HasPrefix(r, "..") {
		return r
	}
	if r, err := filepath.Rel(iotaGoDir(), dir); err == nil && !strings.HasPrefix(r, "..") {
		return "iota.go/" + r
	}
	return dir
}

// ---------------------------------------------------------------- textual identity of vendored copies

// normalizedFuncs returns function name -> printed body with comments stripped.
func normalizedFuncs(p *pkg, file string) map[string]string {
	res := map[string]string{}
	f := p.files[file]
	if f == nil {
		die("%s: file %s not found", p.dir, file)
	}
	for _, d := range f.Decls {
		if fd, ok := d.(*ast.FuncDecl); ok && fd.Body != nil {
			var b bytes.Buffer
			cfg := printer.Config{Mode: printer.RawFormat}
			name := fd.Name.Name
			if fd.Recv != nil {
				name = "(recv)." + name
			}
			fd2 := *fd
			fd2.Doc = nil
			cfg.Fprint(&b, token.NewFileSet(), &fd2)
			res[name] = regexp.MustCompile(`\s+`).ReplaceAllString(stripComments(b.String()), " ")
		}
	}
	return res
}

func stripComments(s string) string {
	return regexp.MustCompile(`(?m)//.*$`).ReplaceAllString(s, "")
}

func sameFuncs(a, b map[string]string, names ...string) (bool, string) {
	for _, n := range names {
		x, ok1 := a[n]
		y, ok2 := b[n]
		if !ok1 || !ok2 {
			return false, n + " missing"
		}
		if x != y {
			return false, n + " differs"
		}
	}
	return true, ""
}

// ---------------------------------------------------------------- output

type genFile struct {
	name string
	b    strings.Builder
}

func newGen(name string, imports ...string) *genFile { return newGenHdr(name, "", imports...) }

// newGenHdr is newGen with an additional header comment (assumptions of the translated code).
func newGenHdr(name, header string, imports ...string) *genFile {
	g := &genFile{name: name}
	g.b.WriteString("-- GENERATED by /verif/go/cmd/extract from the current /repo working tree. Do not edit.\n")
	g.b.WriteString(header)
	for _, im := range imports {
		g.b.WriteString("import " + im + "\n")
	}
	g.b.WriteString("\nnamespace Iota.Gen." + name + "\n\n")
	return g
}

func (g *genFile) def(name, ty, val string) {
	fmt.Fprintf(&g.b, "def %s : %s := %s\n", name, ty, val)
}

func (g *genFile) raw(s string) { g.b.WriteString(s) }

// src records the normalised source text (comments stripped, white space collapsed) of
// function or method `name` ("Recv.Name" for methods) of p as the Lean string `src_<name>`.
// The committed expectation (Iota/Tie/Expect.lean) is the text the hand-written model was
// written from; the Tie theorems compare the two.
func (g *genFile) src(p *pkg, names ...string) {
	for _, name := range names {
		fd := p.method(name)
		pinnedFns[fd] = true
		txt := p.funcText(fd)
		lname := "src_" + filepath.Base(p.dir) + "_" + strings.ReplaceAll(name, ".", "_")
		fmt.Fprintf(&g.b, "def %s : String := %s\n", lname, leanString(txt))
		expect = append(expect, [2]string{g.name + "." + lname, leanString(txt)})
	}
}

var expect [][2]string

// funcText is the normalised text of a function that the source pins compare: comments stripped, white space collapsed,
// and the function's LOCAL names — receiver, parameters, named results, local variables, labels — replaced by _l1, _l2, …
// in order of first occurrence (by go/types object, so shadowing and closures are handled), so that a consistent renaming
// of locals, which cannot change the meaning, does not change the text.  Package-level names, fields, methods and
// imported names are left as they are.
func (p *pkg) funcText(fd *ast.FuncDecl) string {
	tp := typeCheck(p)
	names := map[types.Object]string{}
	var touched []*ast.Ident
	var old []string
	local := func(o types.Object) bool {
		if o == nil || o.Pkg() != tp.tpkg {
			return false
		}
		switch v := o.(type) {
		case *types.Var:
			return !v.IsField() && o.Parent() != tp.tpkg.Scope()
		case *types.Label:
			return true
		}
		return false
	}
	ast.Inspect(fd, func(n ast.Node) bool {
		id, ok := n.(*ast.Ident)
		if !ok || id.Name == "_" {
			return true
		}
		o := tp.info.Defs[id]
		if o == nil {
			o = tp.info.Uses[id]
		}
		if !local(o) {
			return true
		}
		if _, seen := names[o]; !seen {
			names[o] = fmt.Sprintf("_l%d", len(names)+1)
		}
		touched = append(touched, id)
		old = append(old, id.Name)
		id.Name = names[o]
		return true
	})
	fd2 := *fd
	fd2.Doc = nil
	txt := normWS(stripComments(p.src(&fd2)))
	for i, id := range touched {
		id.Name = old[i]
	}
	return txt
}

// functions already recorded one by one through src
var pinnedFns = map[*ast.FuncDecl]bool{}

// rest records everything ELSE a package declares — imports, constants, types, variables and the functions not
// recorded by src — for all its non-test files except the verification hooks (*_verif.go), in file order, as
// the Lean string `rest_<label>`. Together with src nothing in the package can change without a Tie theorem
// noticing. Call it after the src calls for the package.
func (g *genFile) rest(p *pkg, label string) {
	var parts, names, ignored []string
	for _, f := range p.sortedFiles() {
		if strings.HasSuffix(f, "_test.go") || strings.HasSuffix(f, "_verif.go") {
			continue
		}
		fileParts := []string{"FILE " + filepath.Base(f) + " [" + buildConstraint(filepath.Join(p.dir, filepath.Base(f))) + "]"}
		nIgnored := len(ignored)
		for _, d := range p.files[f].Decls {
			if fd, ok := d.(*ast.FuncDecl); ok {
				if pinnedFns[fd] {
					continue
				}
				if restIgnorable(label, fd) {
					ignored = append(ignored, fd.Name.Name)
					continue
				}
				names = append(names, fd.Name.Name)
				fileParts = append(fileParts, p.funcText(fd))
				continue
			}
			t := normWS(stripComments(p.src(d)))
			if len(t) > 4000 { // large tables (the word lists) are tied separately; here by digest
				t = fmt.Sprintf("<%d characters, sha256 %x>", len(t), sha256.Sum256([]byte(t)))
			}
			fileParts = append(fileParts, t)
		}
		// a file that contributes nothing but ignorable functions (and its package clause / imports) is left out altogether
		if len(ignored) > nIgnored && onlyImports(fileParts[1:]) {
			continue
		}
		parts = append(parts, fileParts...)
	}
	txt := strings.Join(parts, " ;; ")
	lname := "rest_" + label
	restNamesSeen[label] = names
	for _, n := range ignored {
		fmt.Fprintf(&g.b, "-- rest_%s: plain function %s is not in the snapshot and is left out (nothing pinned or translated refers to it, else that text would differ)\n", label, n)
		fmt.Printf("extract: NOTE rest_%s: new plain function %s left out of the pin\n", label, n)
	}
	fmt.Fprintf(&g.b, "def %s : String := %s\n", lname, leanString(txt))
	expect = append(expect, [2]string{g.name + "." + lname, leanString(txt)})
}

// restNames is the committed list (lean/Iota/Tie/rest_names.json, written together with Expect.lean by -expect) of the
// plain functions each rest_<label> pin contained when the snapshot was taken.  A plain function (no receiver, not
// init) that is NOT in that list and is not pinned or translated one by one is left out of the pin: it is new, and
// nothing the models were written from can refer to it without its own pinned text (or translation) changing, which
// the other ties notice.  Exceptions that stay in the pin (and so raise the alarm): methods (they change method sets
// and interface satisfaction), init functions, names of the universe scope (a package-level `len` or `min` silently
// changes the meaning of unchanged text), and every non-function declaration (a new variable's initialiser runs).
// Without the file every function is pinned, as before.
var restNames map[string][]string
var restNamesSeen = map[string][]string{}

func loadRestNames() {
	b, err := os.ReadFile(filepath.Join(*out, "..", "Tie", "rest_names.json"))
	if err != nil {
		return
	}
	m := map[string][]string{}
	if json.Unmarshal(b, &m) == nil {
		restNames = m
	}
}

func restIgnorable(label string, fd *ast.FuncDecl) bool {
	known, ok := restNames[label]
	if !ok || fd.Recv != nil || fd.Name.Name == "init" || fd.Name.Name == "_" || fd.Type.TypeParams != nil {
		return false
	}
	if types.Universe.Lookup(fd.Name.Name) != nil {
		return false
	}
	for _, k := range known {
		if k == fd.Name.Name {
			return false
		}
	}
	return true
}

// onlyImports: the remaining declarations of a file are import declarations only
func onlyImports(parts []string) bool {
	for _, t := range parts {
		if !strings.HasPrefix(t, "import ") && !strings.HasPrefix(t, "import(") {
			return false
		}
	}
	return true
}

func leanString(s string) string {
	var b strings.Builder
	b.WriteByte('"')
	for _, r := range s {
		switch r {
		case '\\':
			b.WriteString("\\\\")
		case '"':
			b.WriteString("\\\"")
		case '\n':
			b.WriteString("\\n")
		case '\t':
			b.WriteString("\\t")
		default:
			b.WriteRune(r)
		}
	}
	b.WriteByte('"')
	return b.String()
}

// method finds a function "Name" or method "Recv.Name" (receiver type name, pointer or not).
func (p *pkg) method(name string) *ast.FuncDecl {
	recv, fn := "", name
	if i := strings.Index(name, "."); i >= 0 {
		recv, fn = name[:i], name[i+1:]
	}
	for _, f := range p.sortedFiles() {
		for _, d := range p.files[f].Decls {
			fd, ok := d.(*ast.FuncDecl)
			if !ok || fd.Name.Name != fn {
				continue
			}
			r := ""
			if fd.Recv != nil && len(fd.Recv.List) == 1 {
				t := fd.Recv.List[0].Type
				if st, ok := t.(*ast.StarExpr); ok {
					t = st.X
				}
				if id, ok := t.(*ast.Ident); ok {
					r = id.Name
				}
			}
			if r == recv {
				return fd
			}
		}
	}
	die("%s: function %s not found", p.dir, name)
	return nil
}

// write queues the file; runGenerators puts the files of a generator on disk only when the whole generator succeeded
func (g *genFile) write() {
	g.b.WriteString("\nend Iota.Gen." + g.name + "\n")
	pendingFiles = append(pendingFiles, [2]string{g.name, g.b.String()})
}

var pendingFiles [][2]string

func putFile(name, text string) {
	path := filepath.Join(*out, name+".lean")
	old, err := os.ReadFile(path)
	if err == nil && string(old) == text {
		return // unchanged: keep mtime so lake does not rebuild
	}
	if err := os.WriteFile(path, []byte(text), 0o644); err != nil {
		fmt.Fprintf(os.Stderr, "extract: write %s: %v\n", path, err)
		os.Exit(2)
	}
	fmt.Println("extract: updated", path)
}

// the generators and the files each one writes.  A generator that fails (a function left the translated subset, a
// declaration disappeared, the package does not type-check …) must not leave the files of an EARLIER tree behind, which
// the proofs and the gen.* ops of the correspondence run would then take for the current code: its files are replaced by
// a stub whose only command fails, so every tie that imports it stops checking, with the extractor's message.
var generators = []struct {
	name  string
	files []string
	run   func()
}{
	{"b1t6", []string{"B1T6"}, genB1T6},
	{"bip32path", []string{"Bip32Path"}, genBip32Path},
	{"merkle", []string{"Merkle"}, genMerkle},
	{"bech32", []string{"Bech32"}, genBech32},
	{"bip39", []string{"Bip39"}, genBip39},
	{"curl", []string{"Curl", "CurlAsm"}, genCurl},
	{"pow", []string{"Pow"}, genPow},
	{"address", []string{"Address"}, genAddress},
	{"migration", []string{"Migration"}, genMigration},
	{"slip10", []string{"Slip10", "Secp256k1"}, genSlip10},
	{"secp256k1code", []string{"Secp256k1Code"}, genSecp256k1Code},
	{"bip39code", []string{"Bip39Code"}, genBip39Code},
	{"elliptickeycode", []string{"EllipticKeyCode"}, genEllipticKeyCode},
	{"ed", []string{"Ed"}, genEd},
	{"deps", []string{"Deps"}, genDeps},
	{"addresscode", []string{"AddressCode"}, genAddressCode}, // stage 11 (loops_iface.go)
}

func leanStringLit(s string) string {
	var b strings.Builder
	b.WriteByte('"')
	for _, r := range s {
		switch {
		case r == '"' || r == '\\':
			b.WriteByte('\\')
			b.WriteRune(r)
		case r == '\n':
			b.WriteString("\\n")
		case r < 0x20 || r > 0x7e:
			b.WriteByte('?')
		default:
			b.WriteRune(r)
		}
	}
	b.WriteByte('"')
	return b.String()
}

func runGenerators() (failed int) {
	for _, gen := range generators {
		pendingFiles = nil
		msg := func() (msg string) {
			inGenerator = true
			defer func() {
				inGenerator = false
				if r := recover(); r != nil {
					f, ok := r.(extractFailure)
					if !ok {
						panic(r)
					}
					msg = f.msg
				}
			}()
			gen.run()
			return ""
		}()
		if msg == "" {
			written := map[string]bool{}
			for _, f := range pendingFiles {
				putFile(f[0], f[1])
				written[f[0]] = true
			}
			for _, f := range gen.files {
				if !written[f] {
					fmt.Fprintf(os.Stderr, "extract: generator %s did not write %s.lean\n", gen.name, f)
					os.Exit(2)
				}
			}
			continue
		}
		failed++
		for _, f := range gen.files {
			fmt.Fprintf(os.Stderr, "extract: FAILED %s: %s\n", f, msg)
			putFile(f, "-- EXTRACTION FAILED: this file could not be regenerated from the current source tree.\n"+
				"-- Nothing that imports it checks until the extractor accepts the source again (or is extended).\n"+
				"#eval show IO Unit from throw (IO.userError "+leanStringLit("extraction failed ("+gen.name+"): "+msg)+")\n")
		}
	}
	pendingFiles = nil
	return failed
}

func boolLean(b bool) string {
	if b {
		return "true"
	}
	return "false"
}

func main() {
	flag.Parse()
	if *trOnly != "" {
		// groups separated by ";", each `[namespace=]dir:func1,func2,…`, translated in order
		for _, grp := range strings.Split(*trOnly, ";") {
			ns := ""
			if j := strings.Index(grp, "="); j >= 0 {
				ns, grp = grp[:j], grp[j+1:]
			}
			i := strings.LastIndex(grp, ":")
			if i < 0 {
				die("-translate wants [namespace=]dir:func1,func2,…")
			}
			fmt.Print(translateLoopFuncsNS(load(grp[:i]), ns, strings.Split(grp[i+1:], ",")...))
		}
		return
	}
	if err := os.MkdirAll(*out, 0o755); err != nil {
		die("%v", err)
	}
	if *expectOut == "" {
		loadRestNames()
	}
	if n := runGenerators(); n > 0 {
		os.Exit(2)
	}
	if *expectOut != "" {
		var b strings.Builder
		b.WriteString("-- Snapshot of the source text the hand-written models were written from.\n")
		b.WriteString("-- Regenerate ONLY after re-validating the models: go run ./cmd/extract -expect <this file>\n\nnamespace Iota.Tie.Expect\n\n")
		for _, e := range expect {
			fmt.Fprintf(&b, "def %s : String := %s\n", strings.ReplaceAll(e[0], ".", "_"), e[1])
		}
		b.WriteString("\nend Iota.Tie.Expect\n")
		if err := os.WriteFile(*expectOut, []byte(b.String()), 0o644); err != nil {
			die("%v", err)
		}
		// the plain functions each rest pin contains now (see restNames)
		jb, _ := json.MarshalIndent(restNamesSeen, "", " ")
		if err := os.WriteFile(filepath.Join(filepath.Dir(*expectOut), "rest_names.json"), append(jb, '\n'), 0o644); err != nil {
			die("%v", err)
		}
	}
}
