package main

// Stage 8 of the loop translator (see loops.go): uint32 and []uint32, named slice types as value receivers, read-only
// []string values returned by library calls, the library functions strings.TrimPrefix, strings.Split (one-byte separator)
// and fmt.Sprintf (one %d of an unsigned integer) DEFINED in Iota/Model/GoBits.lean, library functions with several
// results and methods of package-level variables of a library type taken as PARAMETERS, `for i, x := range` over a
// []string, fmt.Errorf with %w of a local error variable.

import (
	"fmt"
	"go/ast"
	"go/constant"
	"go/types"
	"strings"
)

// strsHeaderText is appended to the header of generated files whose translated code uses stage 8.
const strsHeaderText = `/-
Additional semantics, stage 8:
* uint32 ↦ BitVec 32 unsigned (comparisons BitVec.ult / BitVec.ule, "x &^ y" is x &&& ~~~y, a typed constant such as
  "const hardened uint32 = 1 << 31" is its value 2147483648#32); uint32(n) of a 64-bit integer is truncation
  (BitVec.setWidth 32), uint64(x) / int(x) / uint(x) of a uint32 is zero extension, uint32(b) of a byte is zero
  extension, byte(x) of a uint32 is truncation.  []uint32 ↦ List (BitVec 32).  A named slice type ("type Path []uint32")
  is its underlying type; "Path{}" is the empty list (as nil is).  A method with a VALUE receiver of such a type
  ("func (p Path) String() string") is translated as a function whose first parameter is the receiver: a slice
  parameter like any other (the ownership discipline applies: never appended to, written into or returned).  Calls of
  such a method from other translated functions are rejected for now.
* []string ↦ List (List (BitVec 8)), ONLY as the value a library call (below) returns, bound to a local variable or
  ranged over directly.  It is read-only: len(m); m[i] (bounds-checked like every index, so the function is
  Option-valued; the value is the i-th string); "for i, x := range m" (a loop over Go.indexed m, the pairs (index as an
  int, element)), "for _, x := range m", "for i := range m".  Everything else is rejected: parameters, results, fields
  and declarations of that type, literals, make, append, m[i] = e, m[a:b], m2 := m.  Nothing can write into such a
  slice and strings are immutable, so treating it as a value is sound.
* Library functions that are DEFINED (Iota/Model/GoBits.lean): strings.TrimPrefix(s, p) ↦ Go.trimPrefix s p;
  strings.Split(s, sep) ONLY for a constant separator that is a single byte b ↦ Go.splitByte s b (the substrings between
  the occurrences of b, one more than there are occurrences: "a/b" ↦ ["a", "b"], "" ↦ [""], "a/" ↦ ["a", ""]);
  fmt.Sprintf(f, x) where f is a constant that contains exactly one verb, a plain %d (no flags, width, precision or
  argument index; "%%" is a percent sign), and x has one of the predeclared types uint8 / byte, uint32, uint, uint64
  ↦ prefix ++ Go.decimal x.toNat ++ suffix, Go.decimal n the ASCII decimal digits of n, most significant first, no
  leading zeros, "0" for 0.  Signed arguments, arguments of a named type (it may implement fmt.Formatter), other verbs
  and other separators are rejected.
* Library functions taken as PARAMETERS of the translated function and of every translated function that calls it
  (nothing about them is defined here):
    strconv.ParseUint(s, base, bitSize), only in the statement "n, err := strconv.ParseUint(…)" ↦
      strconv_ParseUint s base bitSize : BitVec 64 × Option String, the pair (value, error); base and bitSize are the
      int arguments as BitVec 64; the error is none for nil and otherwise "some name" for an OPAQUE name that whoever
      instantiates the parameter chooses (e.g. "ErrSyntax" / "ErrRange" for a *strconv.NumError that wraps
      strconv.ErrSyntax / strconv.ErrRange).  As everywhere, a name that is also the name of an error variable of
      the translated package stands for that variable.
    v.FindStringSubmatch(x), v a package-level variable of the translated package of type *regexp.Regexp that is
      initialised by regexp.MustCompile(constant) and is used in its package ONLY as the receiver of calls of this
      method (never assigned, address never taken, no other method such as Longest, which would modify it, called on
      it) ↦ v_FindStringSubmatch x : List (List (BitVec 8)) (the parameter is called after the variable; Go's nil
      result for "no match" is the empty list).
  NOTHING IS ASSUMED about the values of these parameters by the translation: the tie theorems state what they assume
  about them (for instance that keyReg_FindStringSubmatch is the leftmost-first submatch function of the regular
  expression whose text the generated file records).  ASSUMPTION made by passing them as plain functions (the
  documented behaviour of these library functions, not checked here): a call is a total, pure function of its arguments
  (and, for a method, of the value its package variable was initialised with) — it does not panic, has no other effect,
  gives the same result for the same arguments — and what it returns is freshly allocated (nobody else writes into it).
* fmt.Errorf("…%w…", …, err, …) where the operand of %w is a LOCAL error variable (only in functions whose error carrier
  is the plain Option String) ↦ Go.errWrap err: what err wraps ("some name" stays "some name"; the message text is not
  modelled, the other operands are only evaluated).  fmt.Errorf never returns nil: for err == nil the result is
  some "", an error that wraps no error variable ("" is not the name of one).
* "s = e" on a string PARAMETER s is an ordinary assignment (strings are immutable values: no aliasing), "let s := e".
-/
`

// ---------------------------------------------------------------- value receivers of a named slice type

// sliceRecv returns the receiver identifier when the function is a method with a value receiver `p T`, T a named
// slice type of the package (e.g. `type Path []uint32`): the receiver is translated as the first parameter.
func (t *loopTr) sliceRecv() *ast.Ident {
	fd := t.fd
	if fd.Recv == nil || len(fd.Recv.List) != 1 || len(fd.Recv.List[0].Names) != 1 || fd.Recv.List[0].Names[0].Name == "_" {
		return nil
	}
	rid := fd.Recv.List[0].Names[0]
	ro := t.info.Defs[rid]
	if ro == nil {
		return nil
	}
	named, ok := ro.Type().(*types.Named)
	if !ok || named.Obj().Pkg() != t.set.tp.tpkg {
		return nil
	}
	if _, isSlice := named.Underlying().(*types.Slice); !isSlice {
		return nil
	}
	return rid
}

// noStrings rejects the carrier []string where a value of that type is not the result of a library call.
func (t *loopTr) noStrings(k lkind, at ast.Node, what string) {
	if k == kStrings && !t.big2StringsOK(at, what) { // (stage 12, loops_big2.go: a named []string type of the package)
		t.fail(at, "%s of type []string is not supported ([]string values are only supported as the result of a library call, bound to a local variable or ranged over, and are read-only)", what)
	}
}

// ---------------------------------------------------------------- library functions passed in as parameters

// externFn describes a library function (or a method of a package-level variable of a library type) that is not
// modelled but passed in as a PARAMETER of the translated functions that use it (and of their callers): the tie theorems
// state what they assume about it.
type externFn struct {
	param, ty string  // name and Lean type of the parameter (for a method: the method name; the parameter is v_method)
	args      []lkind // the carriers of the arguments
	ret       lkind   // the carrier of the result, when there is one result
	rets      []lkind // the carriers of the results, when there are several: the parameter returns their tuple
	note      string  // what the parameter stands for, for the doc comments of the functions that have it ("" = the general text)
}

// externDepNotes: the dependency parameters that have a note of their own in the doc comments (also of the callers that
// pass them on): name -> (Lean type, note).
var externDepNotes = map[string][2]string{}

// externFns: library functions, by "import path.name".
var externFns = map[string]externFn{
	"strings.ToLower":   {param: "strings_ToLower", ty: "List (BitVec 8) → List (BitVec 8)", args: []lkind{kString}, ret: kString},
	"strings.ToUpper":   {param: "strings_ToUpper", ty: "List (BitVec 8) → List (BitVec 8)", args: []lkind{kString}, ret: kString},
	"strings.LastIndex": {param: "strings_LastIndex", ty: "List (BitVec 8) → List (BitVec 8) → BitVec 64", args: []lkind{kString, kString}, ret: kInt},
	// (value, error): the error is none for nil, otherwise some opaque name (see strsHeaderText)
	"strconv.ParseUint": {param: "strconv_ParseUint", ty: "List (BitVec 8) → BitVec 64 → BitVec 64 → (BitVec 64 × Option String)",
		args: []lkind{kString, kInt, kInt}, rets: []lkind{kUint, kErr},
		note: "the library function strconv.ParseUint (string, base, bitSize) ↦ (value, error), the error none for nil and otherwise some opaque name — not modelled, see the header, stage 8; passed in by the caller"},
	// stage 9 (loops_arr.go): the result is a [32]byte array, by value: a list ASSUMED to have length 32
	"golang.org/x/crypto/blake2b.Sum256": {param: "blake2b_Sum256", ty: "List (BitVec 8) → List (BitVec 8)", args: []lkind{kBytes}, ret: kBytes,
		note: "the library function golang.org/x/crypto/blake2b.Sum256, bytes ↦ digest, a [32]byte array returned by value — not modelled; ASSUMED total, pure and to return a list of length 32, see the header, stage 9; passed in by the caller"},
	// stage 12 (loops_big2.go): likewise
	"crypto/sha256.Sum256": {param: "sha256_Sum256", ty: "List (BitVec 8) → List (BitVec 8)", args: []lkind{kBytes}, ret: kBytes,
		note: "the library function crypto/sha256.Sum256, bytes ↦ digest, a [32]byte array returned by value — not modelled; ASSUMED total, pure and to return a list of length 32, see the header, stage 12; passed in by the caller"},
}

// externMethods: methods of package-level variables of a library type, by "import path.Type.method"; the parameter is
// called v_method for the variable v.
var externMethods = map[string]externFn{
	"regexp.Regexp.FindStringSubmatch": {param: "FindStringSubmatch", ty: "List (BitVec 8) → List (List (BitVec 8))", args: []lkind{kString}, ret: kStrings,
		note: "the method FindStringSubmatch of the package-level variable `%s` (a *regexp.Regexp initialised by regexp.MustCompile and never assigned), no match = the empty list — not modelled, see the header, stage 8; passed in by the caller"},
}

// externMethodInit: how a package-level variable of the library type must be initialised ("import path.function" with a
// constant argument), so that it is not nil and its value is fixed by the text of the package.
var externMethodInit = map[string]string{
	"regexp.Regexp": "regexp.MustCompile",
}

// externPeek finds the table entry for the call of the library function or method f, without any check.
func externPeek(f *types.Func) (externFn, string, bool) {
	if f == nil || f.Pkg() == nil {
		return externFn{}, "", false
	}
	if f.Type().(*types.Signature).Recv() == nil {
		ex, ok := externFns[f.Pkg().Path()+"."+f.Name()]
		return ex, "", ok
	}
	tn := recvTypeName(f)
	if tn == "" {
		return externFn{}, "", false
	}
	ex, ok := externMethods[f.Pkg().Path()+"."+tn+"."+f.Name()]
	return ex, f.Pkg().Path() + "." + tn, ok
}

// externOf returns the description of the parameter that stands for the library function or method f called by x, after
// checking, for a method, that its receiver is a package-level variable that can be treated as a constant.
func (t *loopTr) externOf(x *ast.CallExpr, sel *ast.SelectorExpr, f *types.Func) (externFn, bool) {
	ex, recvType, ok := externPeek(f)
	if !ok {
		return externFn{}, false
	}
	if recvType == "" {
		return ex, true
	}
	shape := fmt.Sprintf("the method %s of the library type %s is only supported on a package-level variable of the translated package that is initialised by %s(constant) and used only as the receiver of method calls",
		f.Name(), recvType, externMethodInit[recvType])
	pv := t.pkgRecv(x)
	if pv == nil {
		t.fail(x, "%s", shape)
	}
	ptr, isPtr := pv.Type().(*types.Pointer)
	if !isPtr || !isNamedType(ptr.Elem(), f.Pkg().Path(), recvTypeName(f)) {
		t.fail(x, "%s (the variable %s has type %s)", shape, pv.Name(), pv.Type())
	}
	init, _, has := t.set.p.valueSpec(pv.Name())
	ic, isCall := init.(*ast.CallExpr)
	if !has || init == nil || !isCall || len(ic.Args) != 1 || ic.Ellipsis.IsValid() {
		t.fail(x, "%s (the variable %s is not initialised that way)", shape, pv.Name())
	}
	isel, isSel := unparen(ic.Fun).(*ast.SelectorExpr)
	if !isSel {
		t.fail(x, "%s (the variable %s is not initialised that way)", shape, pv.Name())
	}
	ifn, isFn := t.info.Uses[isel.Sel].(*types.Func)
	if !isFn || ifn.Pkg() == nil || ifn.Pkg().Path()+"."+ifn.Name() != externMethodInit[recvType] || ifn.Type().(*types.Signature).Recv() != nil {
		t.fail(x, "%s (the variable %s is not initialised that way)", shape, pv.Name())
	}
	if atv, known := t.info.Types[ic.Args[0]]; !known || atv.Value == nil {
		t.fail(x, "%s (the variable %s is initialised with a non-constant argument)", shape, pv.Name())
	}
	t.set.checkOnlyMethodCalls(t, pv, x)
	// … and only of methods that are known not to modify their receiver (e.g. (*regexp.Regexp).Longest would)
	for _, fn := range t.set.p.sortedFiles() {
		ast.Inspect(t.set.p.files[fn], func(n ast.Node) bool {
			if c, isCall := n.(*ast.CallExpr); isCall {
				if fs, isSel := unparen(c.Fun).(*ast.SelectorExpr); isSel {
					if xi, isId := unparen(fs.X).(*ast.Ident); isId && t.info.Uses[xi] == pv {
						if m, isFn := t.info.Uses[fs.Sel].(*types.Func); isFn {
							if _, known := externMethods[recvType+"."+m.Name()]; !known {
								pos := t.set.p.fset.Position(c.Pos())
								t.fail(x, "%s (the method %s is called on %s at %s:%d: it is not known to leave the variable unchanged)", shape, m.Name(), pv.Name(), pos.Filename, pos.Line)
							}
						}
					}
				}
			}
			return true
		})
	}
	ex.param = pv.Name() + "_" + ex.param
	if ex.note != "" {
		ex.note = fmt.Sprintf(ex.note, pv.Name())
	}
	return ex, true
}

// externCall renders the call x of the library function described by ex as an application of the parameter that stands
// for it, and records the parameter as a dependency of the function (passed on by every caller).
func (t *loopTr) externCall(x *ast.CallExpr, ex externFn) string {
	if len(x.Args) != len(ex.args) || x.Ellipsis.IsValid() {
		t.fail(x, "arity")
	}
	for o, n := range t.vars {
		if n == ex.param {
			t.fail(x, "variable name %s clashes with the parameter that stands for %s", o.Name(), t.p.src(x.Fun))
		}
	}
	if ty, ok := t.absDeps[ex.param]; (ok && ty != ex.ty) || leanReserved[ex.param] || t.set.all[ex.param] {
		t.fail(x, "the parameter name %s for %s clashes with a name used by the generated Lean text", ex.param, t.p.src(x.Fun))
	}
	parts := []string{ex.param}
	for i, a := range x.Args {
		s, k := t.argValue(a)
		if k != ex.args[i] && !(ex.args[i] == kString && k == kBytes) {
			t.fail(a, "argument of type %s", k.lean())
		}
		parts = append(parts, s)
	}
	t.absDeps[ex.param] = ex.ty
	if ex.note != "" {
		externDepNotes[ex.param] = [2]string{ex.ty, ex.note}
	}
	return "(" + strings.Join(parts, " ") + ")"
}

// externTuple translates the call of a library function with several results that is passed in as a parameter (in
// `x, y := f(…)`): the text of the call and the carriers of the components of the tuple it returns.
func (t *loopTr) externTuple(x *ast.CallExpr) (string, []lkind, bool) {
	sel, ok := unparen(x.Fun).(*ast.SelectorExpr)
	if !ok {
		return "", nil, false
	}
	f, ok := t.info.Uses[sel.Sel].(*types.Func)
	if !ok {
		return "", nil, false
	}
	ex, ok := t.externOf(x, sel, f)
	if !ok {
		return "", nil, false
	}
	if len(ex.rets) == 0 {
		t.fail(x, "%s has a single result", t.p.src(x.Fun))
	}
	for _, k := range ex.rets {
		if k == kErr && (t.errAt && !t.errOpt) {
			t.fail(x, "the plain error of %s in a function whose errors are all &T{ErrX, off} values is not supported", t.p.src(x.Fun))
		}
	}
	return t.externCall(x, ex), ex.rets, true
}

// externErrKinds: the error carriers among the results of the library function that x calls, if it is one that is passed
// in as a parameter (for mixesErrors).
func (t *loopTr) externErrKinds(x *ast.CallExpr) []lkind {
	sel, ok := unparen(x.Fun).(*ast.SelectorExpr)
	if !ok {
		return nil
	}
	f, _ := t.info.Uses[sel.Sel].(*types.Func)
	ex, _, ok := externPeek(f)
	if !ok {
		return nil
	}
	var out []lkind
	for _, k := range append([]lkind{ex.ret}, ex.rets...) {
		if isErrKind(k) {
			out = append(out, k)
		}
	}
	return out
}

// ---------------------------------------------------------------- library functions that are defined

// strsLibCall translates the calls of the library functions that Iota/Model/GoBits.lean defines (see strsHeaderText).
func (t *loopTr) strsLibCall(x *ast.CallExpr, f *types.Func) (string, lkind, bool) {
	strArg := func(a ast.Expr) string {
		s, k := t.argValue(a)
		if k != kString {
			t.fail(a, "argument of type %s", k.lean())
		}
		return s
	}
	switch f.Pkg().Path() + "." + f.Name() {
	case "strings.TrimPrefix":
		if len(x.Args) != 2 || x.Ellipsis.IsValid() {
			t.fail(x, "arity")
		}
		return "(Go.trimPrefix " + strArg(x.Args[0]) + " " + strArg(x.Args[1]) + ")", kString, true
	case "strings.Split":
		if len(x.Args) != 2 || x.Ellipsis.IsValid() {
			t.fail(x, "arity")
		}
		tv := t.typeOf(x.Args[1])
		if tv.Value == nil || tv.Value.Kind() != constant.String || len(constant.StringVal(tv.Value)) != 1 {
			t.fail(x, "strings.Split is only supported with a constant separator that is a single byte")
		}
		return fmt.Sprintf("(Go.splitByte %s %d#8)", strArg(x.Args[0]), constant.StringVal(tv.Value)[0]), kStrings, true
	case "fmt.Sprintf":
		const shape = "fmt.Sprintf is only supported as fmt.Sprintf(f, x) with a constant format f that contains exactly one verb, a plain %d, and x of type uint8, uint32, uint or uint64"
		if len(x.Args) != 2 || x.Ellipsis.IsValid() {
			t.fail(x, "%s", shape)
		}
		tv := t.typeOf(x.Args[0])
		if tv.Value == nil || tv.Value.Kind() != constant.String {
			t.fail(x, "%s", shape)
		}
		format := constant.StringVal(tv.Value)
		var pre, post []byte
		seen := false
		for i := 0; i < len(format); i++ {
			c := format[i]
			if c == '%' {
				i++
				switch {
				case i < len(format) && format[i] == '%':
					c = '%'
				case i < len(format) && format[i] == 'd' && !seen:
					seen = true
					continue
				default:
					t.fail(x, "%s (unsupported verb in %q)", shape, format)
				}
			}
			if seen {
				post = append(post, c)
			} else {
				pre = append(pre, c)
			}
		}
		if !seen {
			t.fail(x, "%s (no verb in %q)", shape, format)
		}
		// the static type must be a predeclared unsigned integer type: a named type could implement fmt.Formatter
		atv := t.typeOf(x.Args[1])
		if _, basic := atv.Type.(*types.Basic); !basic {
			t.fail(x.Args[1], "%s (the argument has the named type %s, which could implement fmt.Formatter)", shape, atv.Type)
		}
		s, k := t.expr(x.Args[1])
		if k != kByte && k != kUint32 && k != kUint {
			t.fail(x.Args[1], "%s (the argument has type %s)", shape, atv.Type)
		}
		parts := []string{}
		if len(pre) > 0 {
			parts = append(parts, t.constLit(x, constant.MakeString(string(pre)), kString))
		}
		parts = append(parts, "Go.decimal "+s+".toNat")
		if len(post) > 0 {
			parts = append(parts, t.constLit(x, constant.MakeString(string(post)), kString))
		}
		return "(" + strings.Join(parts, " ++ ") + ")", kString, true
	}
	return "", 0, false
}

// ---------------------------------------------------------------- fmt.Errorf with %w of a local error variable

// wrapLocalErr translates the operand `err` of %w in fmt.Errorf when it is a local variable of type error: the result of
// the call (see strsHeaderText).  ok = false: wv is not such a variable.
func (t *loopTr) wrapLocalErr(x *ast.CallExpr, id *ast.Ident, wv *types.Var) (string, bool) {
	name, local := t.vars[wv]
	if !local || wv.IsField() || !types.Identical(wv.Type(), types.Universe.Lookup("error").Type()) {
		return "", false
	}
	if r, ok := t.ifaceWrapLocalErrOpt(name, wv); ok { // stage 11 (loops_iface.go): the carrier with an optional position
		return r, true
	}
	if t.errAt || t.errOpt || t.inErrLit > 0 {
		t.fail(x, "fmt.Errorf with %%w of the local error variable %s is only supported in a function whose errors are all plain (no &T{ErrX, off} errors)", id.Name)
	}
	if t.asBound[wv] != nil {
		return "", false
	}
	return "(Go.errWrap " + name + ")", true
}

// ---------------------------------------------------------------- for i, x := range <[]string>

// rangeIndexed translates `for i, x := range m` over a []string: the elements are the pairs (index, string) of Go.indexed.
func (t *loopTr) rangeIndexed(s *ast.RangeStmt, key, val *ast.Ident, ind string, m blockMode, rest func(string) string) string {
	plain, indexed := t.assignedIn(s.Body)
	ast.Inspect(s.X, func(n ast.Node) bool {
		if id, ok := n.(*ast.Ident); ok {
			if o := t.info.Uses[id]; o != nil && (plain[o] || indexed[o]) {
				t.fail(s, "the loop body assigns `%s`, over which it ranges", id.Name)
			}
		}
		return true
	})
	for _, id := range []*ast.Ident{key, val} {
		if plain[t.info.Defs[id]] {
			t.fail(s, "the loop body assigns the range variable %s", id.Name)
		}
	}
	xs, xk := t.expr(s.X)
	if xk != kStrings {
		t.fail(s, "range with both key and value over %s is not supported (only over a string and over a []string)", t.typeOf(s.X).Type)
	}
	t.fresh++
	el := fmt.Sprintf("rk_%d", t.fresh)
	t.loopPre = fmt.Sprintf("\x00let %s : BitVec 64 := %s.1\n\x00let %s : List (BitVec 8) := %s.2\n", t.vars[t.info.Defs[key]], el, t.vars[t.info.Defs[val]], el)
	return t.loopOver(s, s.Body, "(Go.indexed "+xs+")", fmt.Sprintf("(%s : BitVec 64 × List (BitVec 8))", el), ind, m, rest)
}
