package main

// Translation AS CODE of a Go subset with range loops and byte/int slices into plain
// functional Lean (no `do`, no `partial`, no `mut`).  Entry point: translateLoopFuncs.
//
// Unlike translateFunc (main.go), which keeps Go `int` unbounded and is used for small
// straight-line functions, this translator gives every integer type its machine
// semantics (64-bit platform) and uses go/types for the typing of every expression, so
// nothing about untyped constants or conversions is guessed.
//
// Carriers
//   int, int64     BitVec 64 read as two's complement (>> is BitVec.sshiftRight, < is BitVec.slt)
//   uint, uint64   BitVec 64 unsigned
//   byte, uint8    BitVec 8
//   int8           BitVec 8 read as two's complement (conversions to 64 bits sign-extend)
//   bool           Bool
//   []byte, string List (BitVec 8)      (a string is the list of its bytes)
//   []int8         List (BitVec 8)
//   []int, []uint  List (BitVec 64)
//   p *[N]T        (parameters that are only read by p[i] / len(p)) the list of the N elements
//   error          Option String: none = nil, some "ErrX" = an error that wraps the package variable ErrX = errors.New(…);
//                  in a function that builds &T{ErrX, off} (T a struct {error; int} of the package whose pointer is an
//                  error): Option (String × BitVec 64), some ("ErrX", off) = a *T with these two fields
//   hash.Hash      (a local `h := c.f.New()`, f a crypto.Hash field of the receiver) List (BitVec 8): the bytes written so far;
//                  h.Sum(nil) is a PARAMETER f_sum of the translated function applied to them (loops_rec.go)
//   encoding.BinaryMarshaler   List (BitVec 8) × Option String: the result of its MarshalBinary(); a slice of them is the list
//                  of these pairs, read-only (loops_rec.go)
//   uint32         BitVec 32 unsigned; []uint32 List (BitVec 32); a named slice type is its underlying type, also as the value
//                  receiver of a method: then the receiver is the first parameter (loops_strs.go)
//   []string       List (List (BitVec 8)), only as the result of a library call bound to a local or ranged over, read-only
//                  (len, m[i], range) (loops_strs.go)
//   [N]T           (T an integer type) the list of the N elements: fields of the receiver, `var a [N]T` locals, and since stage 9
//                  (loops_arr.go) parameters passed by value (read-only; the list is assumed to have length N), named results
//                  and locals that hold the array a call returns
//
// Statements: x := e, var x T [= e], x = e, x op= e, x++/x--, a[i] = e, _ = a[c] (bounds-check hint), if/else without
// init, return (anywhere, see below), `for i := range a`, `for _, v := range a`, `for i := range n` (int),
// `for i := a; i < b; i++` and its variants (<=, >, >=, i--, i += k, i -= k; loops_flow.go: forStmt),
// `for len(x) >= c { …; x = x[k:]; … }` (whileStmt), x = x[k:] on a slice parameter, nested blocks,
// `switch tag { case c1, c2: …; default: … }` on an integer tag with constant case values, with `fallthrough`, and
// `switch { case cond: …; default: … }` (default last, no fallthrough) (loops_flow.go: switchStmt), unlabeled `break`
// out of a loop where it is the last statement of the loop body or of `if c { …; break }` blocks in tail position of
// it; as the last statement of a switch clause `break` is a no-op, anywhere else in a clause it is rejected (it
// would leave the switch, not the loop).
// Expressions: constants, variables, read-only package-level slice variables, unary - ^ ! +,
// binary + - * & | ^ &^ << >> == != < <= > >= && ||, x / c and x % c for a non-zero constant c, a[i], len, append,
// make, slice literals, conversions between the integer types and []byte(string), calls of functions
// of the same package translated earlier in the same translateLoopFuncs call (unless they can panic or
// write into a parameter), math/bits.TrailingZeros, math/bits.Len, fmt.Errorf("…%w…", …, ErrX, …), nil and package-level
// errors.New variables as error values, &T{ErrX, off}.
// Library functions: strings.TrimPrefix, strings.Split with a one-byte constant separator and fmt.Sprintf with one %d of an
// unsigned integer are defined in Iota/Model/GoBits.lean; strings.ToLower/ToUpper/LastIndex, strconv.ParseUint (two results)
// and v.FindStringSubmatch on a package-level *regexp.Regexp are PARAMETERS of the translation (loops_strs.go: externFns,
// externMethods; strsHeaderText states all of stage 8).
// A function that calls itself is a definition by structural recursion on an additional parameter `fuel : Nat`; none then
// means panic or fuel exhausted (loops_rec.go: recHeaderText states all of stage 7).
// Stage 9 (loops_arr.go: arrHeaderText states all of it): named results (locals that start with their zero values), array
// parameters, `append(a[:], …)` on an array that is never written, strings.HasPrefix / HasSuffix / TrimSuffix, bytes.Equal
// and `a + b` on strings (defined in Iota/Model/GoBits.lean), fmt.Errorf without %w (a new error with an opaque name),
// golang.org/x/crypto/blake2b.Sum256 as a PARAMETER.
//
// Two shapes of output.  A function in which nothing can panic and every return is the last statement of the
// function or of an else-less `if` in tail position is translated as a plain value, exactly as before (range loops
// are List.foldl, `if` is a conditional let).  Any other function is translated as a Go.Flow (Iota/Model/GoBits.lean):
// every statement list yields run st / done r / panic, loops are Go.forIn / Go.whileFuel, the result type is
// Option with none = run-time panic.  Inside such a function the parts that need neither keep the plain shape.
//
// Panics that are modelled: a[i] whose index is not in range by construction (below) is checked against the
// length before the statement that evaluates it (under && / || only when the right operand is evaluated);
// `_ = a[c]` is only that check; x = x[k:] checks k ≤ len(x); a non-constant int shift count is checked to be
// non-negative in functions that are Go.Flow for another reason.  Not modelled (`.toNat` is used): negative
// make lengths, negative shift counts in plain-valued functions, nil array pointers.
//
// Indexing a[i] (read or write) is in range by construction where i is the key of an enclosing
// `for i := range a` over the same variable and neither i nor a is reassigned in that loop; it is then rendered
// with the total List.getD/List.set without a check.
//
// Slices are translated as VALUES.  That is only sound when no sharing of backing arrays
// can be observed, which the translator enforces syntactically (every local slice variable
// owns its backing array):
//   * `y := x` / `y = x` / []T(x) with x a slice variable, and slice expressions x[a:b], are rejected
//     (except the statement x = x[k:] on a slice parameter x: List.drop);
//   * a parameter or package variable is never the first argument of append and is never
//     returned as such, so results never alias arguments;
//   * `append(x, …)` with x a local variable is accepted as `x = append(x, …)`, or when it
//     is the textually last reference to the singly-defined x and sits in the same loop
//     body as the declaration of x (x is dead afterwards);
//   * `a[i] = e` is accepted for a local `a := make(…)` that is never reassigned and
//     never the first argument of append, and for a slice PARAMETER a (an output buffer) when the function
//     returns no slice and the element type of a differs from that of every other slice / array parameter
//     (so the arrays cannot overlap; with the same element type only under the explicit, documented assumption
//     "!disjoint" of translateLoopFuncs): the content of the caller's array on return becomes an additional
//     component of the result.  An output buffer that is also resliced is the pair
//     (part already passed, current window).
// Three-clause loops are folds over Go.forUp / Go.forDown (the list of values of the loop variable, computed
// in 64-bit arithmetic); they are accepted when the loop variable is not assigned in the body, the bound does
// not depend on anything the body assigns, and the step cannot wrap around before the condition fails
// (Iota/Tie/GoFlow.lean proves forUp_sound / forDown_sound under exactly that side condition).
// Condition loops are accepted only in the form that provably terminates by consuming a slice parameter.
// Everything else makes the extractor fail.

import (
	"fmt"
	"go/ast"
	"go/build"
	"go/constant"
	"go/importer"
	"go/parser"
	"go/token"
	"go/types"
	"os"
	"path/filepath"
	"regexp"
	"sort"
	"strings"
)

// ---------------------------------------------------------------- type checking

const (
	modulePrefix = "github.com/wollac/iota-crypto-demo/"
	iotaGoPrefix = "github.com/iotaledger/iota.go/"
)

type typedPkg struct {
	tpkg *types.Package
	info *types.Info
}

var (
	typedCache  = map[string]*typedPkg{}
	typedBusy   = map[string]bool{}
	stdImporter types.Importer
)

type srcImporter struct{}

func (srcImporter) Import(path string) (*types.Package, error) {
	switch {
	case strings.HasPrefix(path, modulePrefix):
		return importExternal(path, filepath.Join(*repo, strings.TrimPrefix(path, modulePrefix)))
	case strings.HasPrefix(path, iotaGoPrefix):
		return importExternal(path, filepath.Join(iotaGoDir(), strings.TrimPrefix(path, iotaGoPrefix)))
	}
	if dir := modCacheDir(path); dir != "" {
		return importExternal(path, dir)
	}
	if stdImporter == nil {
		stdImporter = importer.ForCompiler(token.NewFileSet(), "source", nil)
	}
	return stdImporter.Import(path)
}

var (
	modReqs  map[string]string // module path -> version, from the go.mod of the repository
	extCache = map[string]*types.Package{}
)

// modCacheDir returns the directory of import path `path` in the module cache when it belongs to a
// module required by the go.mod of the repository ("" otherwise, e.g. for the standard library).
func modCacheDir(path string) string {
	if modReqs == nil {
		modReqs = map[string]string{}
		b, err := os.ReadFile(filepath.Join(*repo, "go.mod"))
		if err != nil {
			die("go.mod: %v", err)
		}
		for _, m := range regexp.MustCompile(`(?m)^\s*(?:require\s+)?([^\s()]+\.[^\s()]+/?[^\s()]*)\s+(v[^\s]+)`).FindAllStringSubmatch(string(b), -1) {
			modReqs[m[1]] = m[2]
		}
	}
	best := ""
	for m := range modReqs {
		if (path == m || strings.HasPrefix(path, m+"/")) && len(m) > len(best) {
			best = m
		}
	}
	if best == "" {
		return ""
	}
	var esc strings.Builder
	for _, r := range best {
		if 'A' <= r && r <= 'Z' {
			esc.WriteByte('!')
			r += 'a' - 'A'
		}
		esc.WriteRune(r)
	}
	return filepath.Join(modCache(), filepath.FromSlash(esc.String())+"@"+modReqs[best], filepath.FromSlash(strings.TrimPrefix(path, best)))
}

// importExternal type-checks an imported package (files selected by the build constraints of linux/amd64).
func importExternal(path, dir string) (*types.Package, error) {
	if p, ok := extCache[path]; ok {
		return p, nil
	}
	ctx := build.Default
	ctx.GOOS, ctx.GOARCH, ctx.CgoEnabled = "linux", "amd64", false
	bp, err := ctx.ImportDir(dir, 0)
	if err != nil {
		return nil, err
	}
	fset := token.NewFileSet()
	var files []*ast.File
	for _, n := range bp.GoFiles {
		f, err := parser.ParseFile(fset, filepath.Join(dir, n), nil, 0)
		if err != nil {
			return nil, err
		}
		files = append(files, f)
	}
	conf := types.Config{Importer: srcImporter{}, Sizes: types.SizesFor("gc", "amd64")}
	p, err := conf.Check(path, fset, files, nil)
	if err != nil {
		return nil, err
	}
	extCache[path] = p
	return p, nil
}

// typeCheck runs go/types (sizes of gc/amd64: 64-bit int) over the files of p.
func typeCheck(p *pkg) *typedPkg {
	if tp, ok := typedCache[p.dir]; ok {
		return tp
	}
	if typedBusy[p.dir] {
		die("type-check %s: import cycle", p.dir)
	}
	typedBusy[p.dir] = true
	path := p.dir
	if r, err := filepath.Rel(*repo, p.dir); err == nil && !strings.HasPrefix(r, "..") {
		path = modulePrefix + filepath.ToSlash(r)
	} else if r, err := filepath.Rel(iotaGoDir(), p.dir); err == nil && !strings.HasPrefix(r, "..") {
		path = iotaGoPrefix + filepath.ToSlash(r)
	}
	var files []*ast.File
	ctx := build.Default
	ctx.GOOS, ctx.GOARCH, ctx.CgoEnabled = "linux", "amd64", false
	for _, n := range p.sortedFiles() {
		// the files the build constraints select for linux/amd64 without tags (as importExternal does)
		if ok, err := ctx.MatchFile(p.dir, filepath.Base(n)); err == nil && !ok {
			continue
		}
		files = append(files, p.files[n])
	}
	info := &types.Info{
		Types: map[ast.Expr]types.TypeAndValue{},
		Defs:  map[*ast.Ident]types.Object{},
		Uses:  map[*ast.Ident]types.Object{},
	}
	conf := types.Config{Importer: srcImporter{}, Sizes: types.SizesFor("gc", "amd64")}
	tpkg, err := conf.Check(path, p.fset, files, info)
	if err != nil {
		die("type-check %s: %v", p.dir, err)
	}
	tp := &typedPkg{tpkg: tpkg, info: info}
	typedCache[p.dir] = tp
	delete(typedBusy, p.dir)
	return tp
}

// ---------------------------------------------------------------- Lean carriers

type lkind int

const (
	kInt     lkind = iota // int, int64
	kUint                 // uint, uint64
	kByte                 // byte
	kBool                 // bool
	kBytes                // []byte
	kInts                 // []int
	kString               // string
	kInt8                 // int8
	kInt8s                // []int8
	kUints                // []uint
	kErr                  // error
	kErrAt                // error in a function that builds &T{ErrX, off}: the pair (name of ErrX, off)
	kErrOpt               // error in a function that returns both plain and positioned errors: (name, optional offset)
	kRune                 // rune / int32: BitVec 32 read as two's complement
	kInt8ss               // [][]int8 (only as a parameter: rows are read as x[j][lo:] arguments, assigned by make, or written through callees)
	kHash                 // a local of type hash.Hash: the bytes written to it so far (loops_rec.go)
	kMarsh                // encoding.BinaryMarshaler: the result (bytes, error) of its MarshalBinary() (loops_rec.go)
	kMarshs               // []encoding.BinaryMarshaler (read-only: indexed, measured, windows as arguments)
	kUint32               // uint32: BitVec 32 unsigned (loops_strs.go)
	kUint32s              // []uint32
	kStrings              // []string, only as the result of a library call (read-only: indexed, measured, ranged over; loops_strs.go)
	kBig                  // *big.Int: Int, under the ownership discipline of stage 10 (loops_big.go)
	kKey                  // stage 13 (loops_key.go): a result of a foreign interface type: nil or a pointer to a new key struct
)

func (k lkind) lean() string {
	switch k {
	case kInt, kUint:
		return "BitVec 64"
	case kByte, kInt8:
		return "BitVec 8"
	case kRune, kUint32:
		return "BitVec 32"
	case kUint32s:
		return "List (BitVec 32)"
	case kStrings:
		return "List (List (BitVec 8))"
	case kBool:
		return "Bool"
	case kBytes, kString, kInt8s, kHash:
		return "List (BitVec 8)"
	case kMarsh:
		return "(List (BitVec 8) × Option String)"
	case kMarshs:
		return "List (List (BitVec 8) × Option String)"
	case kInts, kUints:
		return "List (BitVec 64)"
	case kErr:
		return "Option String"
	case kErrAt:
		return "Option (String × BitVec 64)"
	case kErrOpt:
		return "Option (String × Option (BitVec 64))"
	case kInt8ss:
		return "List (List (BitVec 8))"
	case kBig:
		return "Int"
	case kKey:
		return keyLeanType
	}
	if s, ok := ifaceLean(k); ok { // stage 11 (loops_iface.go)
		return s
	}
	die("lkind.lean")
	return ""
}

func (k lkind) width() int {
	switch k {
	case kInt, kUint:
		return 64
	case kByte, kInt8:
		return 8
	case kRune, kUint32:
		return 32
	}
	die("lkind.width")
	return 0
}

func (k lkind) isNum() bool {
	return k == kInt || k == kUint || k == kByte || k == kInt8 || k == kRune || k == kUint32
}
func (k lkind) isSlice() bool {
	return k == kBytes || k == kInts || k == kInt8s || k == kUints || k == kInt8ss || k == kUint32s
}
func (k lkind) isSigned() bool { return k == kInt || k == kInt8 || k == kRune }

func (k lkind) elem() lkind {
	switch k {
	case kBytes, kString:
		return kByte
	case kInts:
		return kInt
	case kInt8s:
		return kInt8
	case kUints:
		return kUint
	case kInt8ss:
		return kInt8s
	case kUint32s:
		return kUint32
	case kStrings:
		return kString
	}
	die("lkind.elem")
	return 0
}

// names that may not be used for Go variables: Lean keywords would not parse, and a local
// called like a namespace or constant used by the generated text would capture it
var leanReserved = map[string]bool{}

func init() {
	for _, w := range strings.Fields(`at from have show fun end in do then else if let open by with match
		deriving instance where mut for def theorem example namespace section variable universe import
		structure class inductive return try catch finally unless break continue using calc suffices obtain
		nomatch nofun Type Sort Prop forall exists macro syntax notation infix infixl infixr prefix postfix
		private protected partial unsafe noncomputable abbrev axiom opaque extends local scoped set_option
		attribute mutual export this sorry true false List BitVec Nat Int Bool Go Option Unit String some none decide`) {
		leanReserved[w] = true
	}
}

// leanRenamed: Lean keywords that are not rejected as variable names (leanReserved) but renamed (x ↦ x_2) in the
// generated text.
var leanRenamed = map[string]bool{"matches": true}

// ---------------------------------------------------------------- translator state

type loopSet struct {
	p       *pkg
	tp      *typedPkg
	done    map[string]bool // functions translated so far
	flowFns map[string]bool // those of them that may panic or write into a parameter (result is not a plain value)
	all     map[string]bool // every function of the call (for name clashes)
	pkgVars []*types.Var    // package variables used, in order of first use
	varText map[*types.Var]string
	// functions translated under the assumption that the arrays of their parameters do not overlap
	disjoint map[string]bool
	nowrap   map[string]bool // functions translated under the assumption that `i += k` in their loop headers does not wrap around
	ns       string          // namespace the functions are generated in (for callers in other namespaces)
}

type loopCtx struct {
	key, rng       types.Object
	plain, indexed map[types.Object]bool
}

// safeIn: a[i] is in range by construction in this loop (i is its key, it ranges over a, neither is reassigned).
func (l *loopCtx) safeIn(ao, io types.Object) bool {
	return l.key != nil && l.key == io && l.rng == ao && !l.plain[io] && !l.plain[ao]
}

type ownFacts struct {
	defs     map[types.Object][]ast.Expr // defining expressions (nil for zero-valued declarations)
	plain    map[types.Object]int        // reassignments after the definition
	indexed  map[types.Object]bool       // a[i] = e somewhere
	lastRef  map[types.Object]token.Pos
	declLoop map[types.Object]ast.Node
	loops    []ast.Node
	resliced map[types.Object]bool // x = x[k:] somewhere
	marshRes map[types.Object]bool // assigned the bytes of a MarshalBinary() result somewhere (read-only: may share memory with the element)
}

type loopTr struct {
	set        *loopSet
	p          *pkg
	info       *types.Info
	fd         *ast.FuncDecl
	rets       []lkind
	vars       map[types.Object]string
	params     map[types.Object]bool
	facts      *ownFacts
	fresh      int
	selfAppend *ast.CallExpr
	// panics, early returns and output buffers (see loops_flow.go)
	flowFn  bool                    // the body is built as a Go.Flow; the result type is Option
	safe    map[*ast.IndexExpr]bool // index expressions that are in range by construction
	checks  []string                // bounds checks of the expressions translated since the last takeChecks
	outBufs []types.Object          // slice parameters the function writes into, in parameter order
	pairBuf map[types.Object]bool   // those of them that are also resliced: (part already passed, current window)
	retTy   string                  // Lean type of the result tuple
	// switch statements and structured errors (see loops_flow.go)
	errAt      bool                          // the function builds &T{ErrX, off}: error ↦ Option (String × BitVec 64)
	errOpt     bool                          // … and also has plain errors (or gets errors of both kinds from callees): (name, optional offset)
	asBound    map[types.Object]types.Object // `errors.As(err, &e)`: e ↦ err (loops_call.go)
	mayOverlap []string                      // output buffers accepted only under the assumption `disjoint` (for the doc comment)
	synthCond  map[*ast.IfStmt]string        // conditionals made from switch clauses: the Lean text of the condition ("" = translate Cond)
	// methods, array fields, swapped array pointers, prefix reslicing (see loops_recv.go)
	name          string                       // the name under which the function was requested ("f" or "T.m")
	recv          types.Object                 // the receiver `c *T` (nil for a function)
	ctor          bool                         // the function is a constructor: recv is the local `e := new(T)` it returns (loops_recv.go)
	ctorDef       *ast.AssignStmt              // that statement
	fields        []types.Object               // the fields of T the body uses, in declaration order: parameters c_f of the translation
	fieldOuts     []types.Object               // those of them the body writes: additional components of the result
	tagged        map[types.Object]int         // array-pointer parameters that are swapped: variable = (tag, content), see Go.byTag
	restBuf       map[types.Object]bool        // output buffers cut by `x = x[:k]`: the part behind the window is kept in x_rest
	errFrom       map[types.Object]*fnSig      // error variables: the callee whose result they hold (for errors.As)
	inErrLit      int                          // inside &T{…} (a fmt.Errorf there is the wrapped error, not a plain error of the function)
	loopPre       string                       // bindings to put in front of the body of the next loop (rangeRunes)
	spareCap      map[types.Object]bool        // local slices that were cut with an upper bound: they have capacity beyond their length
	capSens       map[types.Object]bool        // slice parameters that are sliced with an upper bound (Go checks it against the capacity)
	absDeps       map[string]string            // abstract methods called: parameter name -> Lean type (loops_call.go)
	assumedNoWrap bool                         // a loop header was accepted under the !nowrap assumption (for the doc comment)
	hoisted       map[*ast.CallExpr]hoistedVal // calls that may panic, bound in front of the statement that contains them (loops_call.go)
	// stage 7 (loops_rec.go): recursion, hash.Hash locals, encoding.BinaryMarshaler values
	selfFn     *types.Func                      // the function being translated
	recursive  bool                             // it calls itself: the translation recurses on an additional parameter `fuel`
	selfSig    *fnSig                           // its provisional signature, for the calls of itself
	hashNewSel map[*ast.SelectorExpr]*types.Var // the selectors `c.f` of the calls `c.f.New()` (f a crypto.Hash field of the receiver)
	hashFields map[types.Object]*types.Var      // hash.Hash locals: the field whose New() made them
	hashDeps   map[string]string                // the parameters f_sum this function introduces: name -> field name
	selfArgs   []selfArg                        // slice arguments of the calls of itself (for the capacity caveat)
	capCaveat  []string                         // parameters for which that caveat applies (for the doc comment)
	// stage 8 (loops_strs.go)
	recvParam *ast.Ident // the value receiver `p T` of a method on a named slice type: translated as the first parameter
	// stage 9 (loops_arr.go)
	arrParams []types.Object // array parameters `a [N]T` (passed by value): lists assumed to have length N
	namedRes  []types.Object // named results: locals bound to their zero values in front of the body
	big       *bigState      // stage 10 (loops_big.go): the function uses *big.Int (nil otherwise)
	key       *keyState      // stage 13 (loops_key.go): the receiver is a key / curve of pkg/slip10/elliptic (nil otherwise)
}

func (t *loopTr) fail(n ast.Node, format string, a ...interface{}) {
	pos := t.p.fset.Position(n.Pos())
	die("translate %s (%s:%d): %s", t.fd.Name.Name, filepath.Base(pos.Filename), pos.Line, fmt.Sprintf(format, a...))
}

func unparen(e ast.Expr) ast.Expr {
	for {
		p, ok := e.(*ast.ParenExpr)
		if !ok {
			return e
		}
		e = p.X
	}
}

func (t *loopTr) kindOf(ty types.Type, at ast.Node) lkind {
	if n, ok := ty.(*types.Named); ok && n.Obj().Pkg() != nil && n.Obj().Pkg().Path() == "strings" && n.Obj().Name() == "Builder" {
		return kBytes // a local strings.Builder: the bytes written so far (see loops_call.go)
	}
	switch {
	case isNamedType(ty, "hash", "Hash"):
		return kHash // a local hash.Hash: the bytes written so far (see loops_rec.go)
	case isNamedType(ty, "encoding", "BinaryMarshaler"):
		return kMarsh // the result of its MarshalBinary() (see loops_rec.go)
	case isBigIntPtr(ty):
		return kBig // stage 10 (loops_big.go)
	case t.keyIface(ty):
		return kKey // stage 13 (loops_key.go)
	}
	switch u := ty.Underlying().(type) {
	case *types.Basic:
		switch u.Kind() {
		case types.Int, types.Int64:
			return kInt
		case types.Uint, types.Uint64:
			return kUint
		case types.Uint8:
			return kByte
		case types.Int8:
			return kInt8
		case types.Int32: // rune
			return kRune
		case types.Uint32:
			return kUint32
		case types.Bool, types.UntypedBool:
			return kBool
		case types.String:
			return kString
		}
	case *types.Slice:
		if isNamedType(u.Elem(), "encoding", "BinaryMarshaler") {
			return kMarshs
		}
		if k, ok := sliceKind(u.Elem()); ok {
			return k
		}
		if k, ok := nestedKind(ty); ok {
			return k
		}
		if b, ok := u.Elem().(*types.Basic); ok && b.Kind() == types.String {
			return kStrings // only as the result of a library call; everything but reading it is rejected where it is used
		}
	case *types.Pointer: // *[N]T, only for parameters that are read by index (checked where it is used)
		if a, ok := u.Elem().Underlying().(*types.Array); ok {
			if k, ok := sliceKind(a.Elem()); ok {
				return k
			}
		}
	case *types.Array: // [N]T: fields of the receiver, local variables, parameters by value and results (arrays are values: no aliasing)
		if k, ok := sliceKind(u.Elem()); ok {
			return k
		}
	case *types.Interface:
		if types.Identical(ty, types.Universe.Lookup("error").Type()) {
			return t.errKind()
		}
	}
	if k, ok := t.ifaceKindOf(ty, at); ok { // stage 11 (loops_iface.go)
		return k
	}
	t.fail(at, "type %s is outside the translated subset", ty)
	return 0
}

// errKind is the carrier of `error` in this function.
func (t *loopTr) errKind() lkind {
	if t.errOpt {
		return kErrOpt
	}
	if t.errAt {
		return kErrAt
	}
	return kErr
}

func isErrKind(k lkind) bool { return k == kErr || k == kErrAt || k == kErrOpt }

func sliceKind(elem types.Type) (lkind, bool) {
	if b, ok := elem.Underlying().(*types.Basic); ok {
		switch b.Kind() {
		case types.Uint8:
			return kBytes, true
		case types.Int, types.Int64:
			return kInts, true
		case types.Int8:
			return kInt8s, true
		case types.Uint, types.Uint64:
			return kUints, true
		case types.Uint32:
			return kUint32s, true
		}
	}
	return 0, false
}

// arrayLen returns N when ty is *[N]T or [N]T.
func arrayLen(ty types.Type) (int64, bool) {
	if p, ok := ty.Underlying().(*types.Pointer); ok {
		if a, ok := p.Elem().Underlying().(*types.Array); ok {
			return a.Len(), true
		}
	}
	if a, ok := ty.Underlying().(*types.Array); ok {
		return a.Len(), true
	}
	return 0, false
}

// isArrayPtr: ty is *[N]T.
func isArrayPtr(ty types.Type) bool {
	if p, ok := ty.Underlying().(*types.Pointer); ok {
		_, ok := p.Elem().Underlying().(*types.Array)
		return ok
	}
	return false
}

func (t *loopTr) typeOf(e ast.Expr) types.TypeAndValue {
	tv, ok := t.info.Types[e]
	if !ok {
		t.fail(e, "no type information for %s", t.p.src(e))
	}
	return tv
}

// constLit renders the constant v of kind k.
func (t *loopTr) constLit(at ast.Node, v constant.Value, k lkind) string {
	switch {
	case k == kBool && v.Kind() == constant.Bool:
		return boolLean(constant.BoolVal(v))
	case k.isNum():
		iv := constant.ToInt(v)
		if iv.Kind() != constant.Int {
			t.fail(at, "constant %s is not an integer", v)
		}
		if constant.Sign(iv) >= 0 {
			return fmt.Sprintf("%s#%d", iv.ExactString(), k.width())
		}
		return fmt.Sprintf("(BitVec.ofInt %d (%s))", k.width(), iv.ExactString())
	case k == kString && v.Kind() == constant.String:
		s := constant.StringVal(v)
		var parts []string
		for i := 0; i < len(s); i++ {
			parts = append(parts, fmt.Sprintf("%d#8", s[i]))
		}
		return "([" + strings.Join(parts, ", ") + "] : List (BitVec 8))"
	}
	t.fail(at, "unsupported constant %s", v)
	return ""
}

// ---------------------------------------------------------------- ownership facts

func (t *loopTr) objOf(id *ast.Ident) types.Object {
	if o := t.info.Defs[id]; o != nil {
		return o
	}
	return t.info.Uses[id]
}

func (t *loopTr) collectFacts() {
	f := &ownFacts{
		defs:     map[types.Object][]ast.Expr{},
		plain:    map[types.Object]int{},
		indexed:  map[types.Object]bool{},
		lastRef:  map[types.Object]token.Pos{},
		declLoop: map[types.Object]ast.Node{},
		resliced: map[types.Object]bool{},
		marshRes: map[types.Object]bool{},
	}
	t.facts = f
	ast.Inspect(t.fd.Body, func(n ast.Node) bool {
		switch n.(type) {
		case *ast.RangeStmt, *ast.ForStmt:
			f.loops = append(f.loops, n)
		}
		return true
	})
	declare := func(id *ast.Ident, def ast.Expr, loop ast.Node) {
		o := t.info.Defs[id]
		if o == nil || id.Name == "_" {
			return
		}
		f.defs[o] = append(f.defs[o], def)
		f.declLoop[o] = loop
	}
	ast.Inspect(t.fd.Body, func(n ast.Node) bool {
		switch s := n.(type) {
		case *ast.AssignStmt:
			if o, _ := t.resliceOf(s); o != nil {
				f.resliced[o] = true
			}
			if len(s.Rhs) == 1 && len(s.Lhs) == 2 && t.isMarshalCall(s.Rhs[0]) {
				if id, ok := unparen(s.Lhs[0]).(*ast.Ident); ok && id.Name != "_" {
					if o := t.objOf(id); o != nil {
						f.marshRes[o] = true
					}
				}
			}
			for i, l := range s.Lhs {
				switch l := unparen(l).(type) {
				case *ast.Ident:
					if l.Name == "_" {
						continue
					}
					if s.Tok == token.DEFINE && t.info.Defs[l] != nil {
						var def ast.Expr
						if len(s.Lhs) == len(s.Rhs) {
							def = s.Rhs[i]
						}
						declare(l, def, t.innermostLoop(l.Pos()))
					} else if o := t.info.Uses[l]; o != nil {
						f.plain[o]++
					}
				case *ast.SelectorExpr:
					if o := t.fieldOf(l); o != nil {
						f.plain[o]++
					}
				case *ast.IndexExpr:
					if o := t.varOf(l.X); o != nil {
						f.indexed[o] = true
					}
				}
			}
		case *ast.ExprStmt:
			if dst := t.copyTarget(s); dst != nil {
				f.indexed[dst] = true
			}
		case *ast.CallExpr:
			for _, o := range t.callOuts(s) {
				f.indexed[o] = true
			}
			if o, m := t.builderCall(s); o != nil && m != "String" {
				f.plain[o]++
			}
			if o := t.bigMutCall(s); o != nil {
				f.plain[o]++ // stage 10: v.Op(…) on a *big.Int assigns v
			}
		case *ast.IncDecStmt:
			if o := t.varOf(s.X); o != nil {
				f.plain[o]++
			}
		case *ast.ValueSpec:
			for i, id := range s.Names {
				var def ast.Expr
				if i < len(s.Values) {
					def = s.Values[i]
				}
				declare(id, def, t.innermostLoop(id.Pos()))
			}
		case *ast.RangeStmt:
			for _, e := range []ast.Expr{s.Key, s.Value} {
				if id, ok := e.(*ast.Ident); ok && s.Tok == token.DEFINE {
					declare(id, nil, s)
				}
			}
		case *ast.Ident:
			if o := t.info.Uses[s]; o != nil && s.Pos() > f.lastRef[o] {
				f.lastRef[o] = s.Pos()
			}
		}
		return true
	})
}

// innermostLoop returns the innermost loop whose BODY contains pos (nil if none).
func (t *loopTr) innermostLoop(pos token.Pos) ast.Node {
	var best ast.Node
	for _, l := range t.facts.loops {
		var body *ast.BlockStmt
		switch s := l.(type) {
		case *ast.RangeStmt:
			body = s.Body
		case *ast.ForStmt:
			body = s.Body
		}
		if body.Pos() <= pos && pos < body.End() {
			if best == nil || l.Pos() > best.Pos() {
				best = l
			}
		}
	}
	return best
}

// assignedIn returns the objects assigned (plainly / by index) anywhere inside n.
func (t *loopTr) assignedIn(n ast.Node) (plain, indexed map[types.Object]bool) {
	plain, indexed = map[types.Object]bool{}, map[types.Object]bool{}
	ast.Inspect(n, func(n ast.Node) bool {
		switch s := n.(type) {
		case *ast.AssignStmt:
			for _, l := range s.Lhs {
				switch l := unparen(l).(type) {
				case *ast.Ident:
					if o := t.objOf(l); o != nil && l.Name != "_" {
						plain[o] = true
					}
				case *ast.SelectorExpr:
					if o := t.fieldOf(l); o != nil {
						plain[o] = true
					}
				case *ast.IndexExpr:
					if o := t.varOf(l.X); o != nil {
						indexed[o] = true
					}
				}
			}
		case *ast.ExprStmt:
			if dst := t.copyTarget(s); dst != nil {
				indexed[dst] = true
			}
		case *ast.CallExpr:
			for _, o := range t.callOuts(s) {
				indexed[o] = true
			}
			if o, m := t.builderCall(s); o != nil && m != "String" {
				plain[o] = true
			}
			if o, m := t.hashCall(s); o != nil && m != "Sum" {
				plain[o] = true
			}
			if o := t.bigMutCall(s); o != nil {
				plain[o] = true // stage 10: v.Op(…) on a *big.Int assigns v
			}
		case *ast.IncDecStmt:
			if o := t.varOf(s.X); o != nil {
				plain[o] = true
			}
		}
		return true
	})
	return
}

// stateOf returns the variables assigned inside body that are declared outside scope,
// in declaration order: the state threaded through a loop or a conditional.
func (t *loopTr) stateOf(body, scope ast.Node) []types.Object {
	plain, indexed := t.assignedIn(body)
	var objs []types.Object
	seen := map[types.Object]bool{}
	for _, m := range []map[types.Object]bool{plain, indexed} {
		for o := range m {
			if seen[o] || (scope.Pos() <= o.Pos() && o.Pos() < scope.End()) {
				continue
			}
			seen[o] = true
			if _, ok := t.vars[o]; !ok {
				t.fail(body, "assignment to %s, which is not a local variable", o.Name())
			}
			objs = append(objs, o)
		}
	}
	sort.Slice(objs, func(i, j int) bool { return objs[i].Pos() < objs[j].Pos() })
	return objs
}

func hasReturn(n ast.Node) bool {
	found := false
	ast.Inspect(n, func(n ast.Node) bool {
		if _, ok := n.(*ast.ReturnStmt); ok {
			found = true
		}
		return !found
	})
	return found
}
