package main

import (
	"os"
	"os/exec"
	"path/filepath"
	"strings"
	"testing"
)

// Stage 11 (loops_iface.go).  Each case is a one-file package; want is a substring of the Lean text (ok) or of the error
// message (rejected), as in loops_test.go.
const ifacePrelude = `type P int
const (
	A P = iota
	B
	C
)
type V byte
const (
	V0 V = 0x00
	V8 V = 0x08
)
var tab = [...]string{"ab", "cd", "e"}
type T struct{ h [4]byte }
type U struct{ h [2]byte }
type I interface {
	Ver() V
	B() []byte
	S() string
}
func (T) Ver() V { return V0 }
func (U) Ver() V { return V8 }
func (a T) B() []byte { return append([]byte{byte(V0)}, a.h[:]...) }
func (a U) B() []byte { return append([]byte{byte(V8)}, a.h[:]...) }
func (a T) S() string { return "t" }
func (a U) S() string { return "u" }
func (p P) Str() string { return tab[p] }
`

const ifaceTestMethods = "P.Str,T.Ver,U.Ver,T.B,U.B,I.Ver,I.B"

var ifaceCases = []struct {
	name, src, fns string
	ok             bool
	want           string
}{
	// named integer types, typed constants, conversions, switch over named constants
	{"named int conversion and constant", ifacePrelude + `func f(i int) P { return P(i) + C }`, "f", true, "(i + 2#64)"},
	{"named byte conversion", ifacePrelude + `func f(x []byte) V { return V(x[0]) }`, "f", true, "Go.Flow.done (x.getD 0 0#8)"},
	{"byte of a named constant", ifacePrelude + `func f() []byte { return []byte{byte(V8)} }`, "f", true, "([8#8] : List (BitVec 8))"},
	{"switch over named constants", ifacePrelude + `func f(v V) int { switch v { case V0: return 1; case V8: return 2 }; return 3 }`, "f", true, "if (sw_1 == 8#8) then"},
	{"variable called prefix is renamed", `func f(a int) int { prefix := a + 1; prefix *= 3; return prefix }`, "f", true, "let prefix_2 : BitVec 64 := (a + 1#64)"},
	// package-level array of strings
	{"range over a table of strings", ifacePrelude + `func f(s string) (P, bool) { for i := range tab { if s == tab[i] { return P(i), true } }; return 0, false }`, "f", true,
		"if (s == (var_tab.getD i.toNat ([] : List (BitVec 8)))) then"},
	{"table of strings, definition", ifacePrelude + `func f(s string) bool { for i := range tab { if s == tab[i] { return true } }; return false }`, "f", true,
		"def var_tab : List (List (BitVec 8)) := [([97#8, 98#8] : List (BitVec 8)), ([99#8, 100#8] : List (BitVec 8)), ([101#8] : List (BitVec 8))]"},
	{"exported table is not a constant (another package may modify it)", `var Tab2 = [...]string{"x", "y"}
func f(s string) bool { for i := range Tab2 { if s == Tab2[i] { return true } }; return false }`, "f", false, "Tab2 is exported"},
	{"checked index into the table", ifacePrelude, "P.Str", true, "if !(Go.inRangeS p 3) then Go.Flow.panic else"},
	{"checked index by a byte", ifacePrelude + `func f(v V) string { return tab[v] }`, "f", true, "if !(Go.inRangeU8 v 3) then Go.Flow.panic else"},
	{"len of the table", ifacePrelude + `func f() int { return len(tab) }`, "f", true, "3#64"},
	{"assignment to the table", ifacePrelude + `func g() { tab[0] = "x" }
func f(p P) string { return tab[p] }`, "f", false, "may be modified or aliased"},
	{"assignment of the whole table", ifacePrelude + `func g() { tab = [3]string{} }
func f(p P) string { return tab[p] }`, "f", false, "may be modified or aliased"},
	{"table sliced", ifacePrelude + `func g() []string { return tab[:] }
func f(p P) string { return tab[p] }`, "f", false, "may be modified or aliased"},
	{"address of a table element", ifacePrelude + `func g() *string { return &tab[1] }
func f(p P) string { return tab[p] }`, "f", false, "may be modified or aliased"},
	{"table with a non-constant element", `var x = "q"
var tab2 = [2]string{"a", x}
func f(i int) string { return tab2[i] }`, "f", false, "non-constant or keyed element"},
	{"table that does not list all elements", `var tab2 = [3]string{"a", "b"}
func f(i int) string { return tab2[i] }`, "f", false, "does not list all 3 elements"},
	// value receivers
	{"value receiver of a named int", ifacePrelude, "P.Str", true, "def P_Str (p : BitVec 64) : Option (List (BitVec 8)) :="},
	{"unnamed value receiver", ifacePrelude, "T.Ver", true, "def T_Ver (_recv : List (BitVec 8)) : BitVec 8 :=\n  0#8"},
	{"struct value receiver, field read", ifacePrelude, "T.B", true, "def T_B (a : List (BitVec 8)) : List (BitVec 8) :=\n  (([0#8] : List (BitVec 8)) ++ a)"},
	{"call of a value-receiver method", ifacePrelude + `func f(p P) string { return p.Str() }`, "P.Str,f", true, "Go.Flow.bind (Go.call (P_Str p)) (fun (st_1 : List (BitVec 8)) =>"},
	{"call of a value-receiver method as a statement", ifacePrelude + `func f(p P) int { s := p.Str(); return len(s) }`, "P.Str,f", true, "Go.Flow.bind (Go.call (P_Str p)) (fun (st_1 : List (BitVec 8)) =>\n  let s : List (BitVec 8) := st_1"},
	{"call of an untranslated method", ifacePrelude + `func f(p P) string { return p.Str() }`, "f", false, "which has not been translated before this function"},
	{"call of an untranslated method of a struct value", ifacePrelude + `func f(x []byte) string { var a T; copy(a.h[:], x); return a.S() }`, "T.B,f", false, "call of the method T.S, which has not been translated"},
	{"method call on a receiver that is not a variable", ifacePrelude + `func g(i int) P { return P(i) }
func f(i int) string { return g(i).Str() }`, "P.Str,g,f", false, "the receiver must be a variable"},
	// struct values with one array field
	{"struct value: zero value, copy, conversion to the interface", ifacePrelude + `func f(x []byte) I { var a U; copy(a.h[:], x); return a }`, "f", true,
		"let a : List (BitVec 8) := (List.replicate 2 0#8)\n  let a : List (BitVec 8) := (Go.copy a x)\n  (some (1, a))"},
	{"first implementation has tag 0", ifacePrelude + `func f(x []byte) (I, bool) { var a T; copy(a.h[:], x); return a, true }`, "f", true, "((some (0, a)), true)"},
	{"nil interface", ifacePrelude + `func f(x []byte) (I, bool) { if len(x) != 2 { return nil, false }; var a U; copy(a.h[:], x); return a, true }`, "f", true,
		"((none : Option (Nat × List (BitVec 8))), false)"},
	{"interface value passed on", ifacePrelude + `func f(a I, b bool) (I, bool) { return a, !b }`, "f", true, "(a, (!b))"},
	{"copy of a struct value", ifacePrelude + `func f(x []byte) I { var a U; copy(a.h[:], x); b := a; return b }`, "f", true, "let b : List (BitVec 8) := a\n  (some (1, b))"},
	{"struct parameter, field read", ifacePrelude + `func f(a T) []byte { return append([]byte{7}, a.h[:]...) }`, "f", true, "ASSUMPTION (not checked here): `a` (a struct value with one array field"},
	{"struct with two fields as a value", `type W struct { h [4]byte; n int }
func f(x []byte) int { var a W; _ = a; return len(x) }`, "f", false, "exactly one field"},
	{"struct with a slice field as a value", `type W struct { h []byte }
func f(a W) int { return 1 }`, "f", false, "exactly one field, of type [N]byte"},
	{"struct value of another package", `import "time"
func f(t time.Time) int { return 1 }`, "f", false, "a struct value of a type of another package"},
	{"composite literal of a struct value", ifacePrelude + `func f() I { a := T{}; return a }`, "f", false, "composite literal of the struct type"},
	{"window of the array field", ifacePrelude + `func f(a T) []byte { return append([]byte{7}, a.h[1:]...) }`, "f", false, "only the full slice `x.f[:]` is supported"},
	{"index of the array field", ifacePrelude + `func f(a T) byte { return a.h[0] }`, "f", false, "only variable[index] is supported"},
	{"copy into a struct parameter", ifacePrelude + `func f(a T, x []byte) I { copy(a.h[:], x); return a }`, "f", false, "read-only in the translated subset"},
	{"assignment to a field of a struct receiver", ifacePrelude + `func (a T) Z() []byte { a.h[0] = 1; return append([]byte{1}, a.h[:]...) }`, "T.Z", false, "read-only in the translated subset"},
	{"copy into a window of the field", ifacePrelude + `func f(x []byte) I { var a T; copy(a.h[1:], x); return a }`, "f", false, "only the full slice `x.f[:]` is supported as destination"},
	{"pointer returned as the interface", ifacePrelude + `func f() I { var a T; return &a }`, "f", false, "only VALUES of the package's struct types are modelled"},
	{"struct value assigned to an interface variable", ifacePrelude + `func f(x []byte) I { var a T; var i I = a; return i }`, "f", false, "declaration type"},
	// the closed interface
	{"dispatch function", ifacePrelude, ifaceTestMethods, true,
		"def I_B (a : Option (Nat × List (BitVec 8))) : Option (List (BitVec 8)) :=\n  match a with\n  | none => none\n  | some (0, h) => some (T_B h)\n  | some (1, h) => some (U_B h)\n  | some _ => none"},
	{"dispatch of a method with an unnamed receiver", ifacePrelude, ifaceTestMethods, true, "  | some (1, h) => some (U_Ver h)"},
	{"interface method call", ifacePrelude + `func f(a I) []byte { return a.B() }`, ifaceTestMethods + ",f", true, "Go.Flow.bind (Go.call (I_B a)) (fun (st_1 : List (BitVec 8)) =>\n  Go.Flow.done st_1)"},
	{"interface method calls as arguments", ifacePrelude + `func g(v V, b []byte) int { return len(b) + int(v) }
func f(a I) int { return g(a.Ver(), a.B()) }`, ifaceTestMethods + ",g,f", true, "Go.Flow.bind (Go.call (I_B a)) (fun (st_2 : List (BitVec 8)) =>\n  Go.Flow.done (g st_1 st_2)))"},
	{"interface parameter, closed world in the doc comment", ifacePrelude + `func f(a I) []byte { return a.B() }`, ifaceTestMethods + ",f", true, "CLOSED WORLD"},
	{"call of an interface method without dispatch function", ifacePrelude + `func f(a I) string { return a.S() }`, ifaceTestMethods + ",f", false, "for which no dispatch function has been generated"},
	{"dispatch requested before the methods", ifacePrelude, "T.B,I.B", false, "the method U.B has not been translated before it"},
	{"dispatch of a method the interface does not have", ifacePrelude, "T.B,U.B,I.Q", false, "interface I has no method Q"},
	{"interface of another package", `import "fmt"
func f(s fmt.Stringer) int { return 1 }`, "f", false, "an interface type of another package"},
	{"unnamed interface", `func f(s interface{ M() int }) int { return 1 }`, "f", false, "only supported for a named interface type declared in the package"},
	{"type switch", ifacePrelude + `func f(a I) int { switch a.(type) { case T: return 1 }; return 0 }`, "f", false, "type switch: outside the translated subset"},
	{"type assertion", ifacePrelude + `func f(a I) bool { _, ok := a.(T); return ok }`, "f", false, "type assertion: outside the translated subset"},
	{"nil interface comparison", ifacePrelude + `func f(a I) bool { return a == nil }`, "f", false, "comparison of a value of the interface type I (also with nil) is not supported"},
	{"comparison of two interface values", ifacePrelude + `func f(a, b I) bool { return a != b }`, "f", false, "comparison of a value of the interface type I"},
	{"implementation with two fields", `type I2 interface { M() int }
type W struct { h [4]byte; n int }
func (W) M() int { return 1 }
func f(a I2) int { return 1 }`, "f", false, "its implementation W is not a struct with exactly one field of type [N]byte"},
	{"implementation that is a named integer", `type I2 interface { M() int }
type N int
func (N) M() int { return 1 }
func f(a I2) int { return 1 }`, "f", false, "its implementation N is not a struct with exactly one field"},
	{"implementation with pointer receivers", `type I2 interface { M() int }
type W struct { h [4]byte }
func (w *W) M() int { return 1 }
func f(a I2) int { return 1 }`, "f", false, "implements it with pointer receivers only"},
	{"interface without methods", `type I2 interface{}
func f(a I2) int { return 1 }`, "f", false, "has no methods"},
	{"interface with an embedded interface", `type J interface { M() int }
type I2 interface { J; K() int }
type W struct { h [4]byte }
func (W) M() int { return 1 }
func (W) K() int { return 1 }
func f(a I2) int { return 1 }`, "f", false, "embedding is not supported"},
	{"interface method with a parameter", `type I2 interface { M(x int) int }
type W struct { h [4]byte }
func (W) M(x int) int { return x }`, "W.M,I2.M", false, "methods with parameters are not supported"},
	{"interface without implementation", `type I2 interface { M() int }
func f(a I2) int { return 1 }`, "f", false, "no type of the package implements it"},
	// x = x[k:] on a local slice, %w of a local error with the optional-position carrier
	{"reslice of a local slice", `func f(s []byte) int { d := append([]byte{1}, s...); d = d[1:]; return len(d) }`, "f", true,
		"if !(decide (1 ≤ d.length)) then Go.Flow.panic else\n  let d : List (BitVec 8) := (d.drop 1)"},
	{"reslice of a local string", `func f(s string, n int) int { t := s + "x"; t = t[n:]; return len(t) }`, "f", true, "let t : List (BitVec 8) := (t.drop n.toNat)"},
	{"reslice of a local slice that is written by index", `func f(n int) int { d := make([]byte, 8); d[n] = 1; d = d[1:]; return len(d) }`, "f", false, "index assignment to `d`, which is not a local slice created once by make"},
	{"reslice of a local slice made by make", `func f(n int) int { d := make([]byte, 8); d = d[n:]; return len(d) }`, "f", false, "supported for slice parameters only"},
	{"reslice of a local slice inside a loop", `func f(s []byte) int { d := append([]byte{1}, s...); for range s { d = d[1:] }; return len(d) }`, "f", false, "inside a loop that does not declare it"},
	{"%w of a local error, optional-position carrier", `import ("errors"; "fmt")
type E struct { err error; Offset int }
func (e *E) Error() string { return "e" }
var ErrA = errors.New("a")
func g(x int) error { if x < 0 { return &E{ErrA, x} }; if x == 0 { return ErrA }; return nil }
func f(x int) error { err := g(x); if err != nil { return fmt.Errorf("wrapped: %w", err) }; return nil }`, "g,f", true, "(Go.errWrapOpt err)"},
	{"%w of a local error in a function that builds positioned errors itself", `import ("errors"; "fmt")
type E struct { err error; Offset int }
func (e *E) Error() string { return "e" }
var ErrA = errors.New("a")
func g(x int) error { if x == 0 { return ErrA }; return nil }
func f(x int) error { err := g(x); if err != nil { return fmt.Errorf("wrapped: %w", err) }; if x == 1 { return &E{ErrA, x} }; return nil }`, "g,f", false, "only supported in a function whose errors are all plain"},
	{"%w first with a package error and %d", `import ("errors"; "fmt")
var ErrA = errors.New("a")
type V byte
func f(v V) error { if v == 3 { return fmt.Errorf("%w: no version", ErrA) }; return fmt.Errorf("%w: %d", ErrA, v) }`, "f", true, `(some "ErrA")`},
}

func TestIfaceTranslator(t *testing.T) {
	tmp := t.TempDir()
	bin := filepath.Join(tmp, "extract")
	if out, err := exec.Command("go", "build", "-o", bin, ".").CombinedOutput(); err != nil {
		t.Fatalf("build: %v\n%s", err, out)
	}
	for i, c := range ifaceCases {
		dir := filepath.Join(tmp, "case", string(rune('a'+i/26))+string(rune('a'+i%26)))
		if err := os.MkdirAll(dir, 0o755); err != nil {
			t.Fatal(err)
		}
		if err := os.WriteFile(filepath.Join(dir, "x.go"), []byte("package x\n\n"+c.src+"\n"), 0o644); err != nil {
			t.Fatal(err)
		}
		out, err := exec.Command(bin, "-translate", dir+":"+c.fns).CombinedOutput()
		switch {
		case c.ok && err != nil:
			t.Errorf("%s: rejected: %s", c.name, out)
		case !c.ok && err == nil:
			t.Errorf("%s: accepted:\n%s", c.name, out)
		case !strings.Contains(string(out), c.want):
			t.Errorf("%s: output does not contain %q:\n%s", c.name, c.want, out)
		}
	}
}
