package main

import (
	"os"
	"os/exec"
	"path/filepath"
	"strings"
	"testing"
)

// Each case is a one-file package; want is a substring of the Lean text (ok) or of the
// error message (rejected).
var loopCases = []struct {
	name, src, fns string
	ok             bool
	want           string
}{
	{"sum", `func f(xs []byte) int { s := 0; for _, v := range xs { s += int(v) }; return s }`, "f", true,
		"List.foldl (fun (s : BitVec 64) (v : BitVec 8) =>"},
	{"two state variables", `func f(xs []byte) int { a := 0; b := 1; for _, v := range xs { a ^= int(v); b = b*3 + a }; return a - b }`, "f", true,
		"let st_1 : BitVec 64 × BitVec 64 := List.foldl (fun (st_1 : BitVec 64 × BitVec 64) (v : BitVec 8) =>"},
	{"if else", `func f(a int, b uint) uint { if a < 3 { b = b >> 2 } else { b <<= uint(a) }; return b }`, "f", true,
		"(if (BitVec.slt a 3#64) then (b >>> 2) else (b <<< a.toNat))"},
	{"if return", `func f(a int) int { if a >= 0 { return a }; return -a }`, "f", true, "if (BitVec.sle 0#64 a) then"},
	{"range int", `func f(n int) int { s := 0; for i := range n { s += i }; return s }`, "f", true, "(List.range n.toInt.toNat)"},
	{"make and set", `func f(xs []byte) []byte { r := make([]byte, len(xs)); for i := range r { r[i] = 7 }; return r }`, "f", true,
		"(r.set i.toNat 7#8)"},
	{"call", `func g(x byte) byte { return x &^ 3 }
func f(x byte) byte { return g(x) + 1 }`, "g,f", true, "((g x) + 1#8)"},
	{"negative constant", `func f(a int) int { return a * -5 }`, "f", true, "(BitVec.ofInt 64 (-5))"},

	// early return (was rejected before the Go.Flow scheme)
	{"return in loop", `func f(xs []byte) int { s := 0; for _, v := range xs { s++; if v == 0 { return 1 } }; return s }`, "f", true,
		"Go.Flow.bind (Go.forIn xs s (fun (s : BitVec 64) (v : BitVec 8) =>"},
	{"return in loop, direct", `func f(xs []byte) int { s := 0; for _, v := range xs { s += int(v); return s }; return s }`, "f", true, "Go.Flow.done s)) (fun (s : BitVec 64) =>"},
	{"return in loop without state", `func f(xs []byte) bool { for _, v := range xs { if v == 0 { return true } }; return false }`, "f", true,
		"Go.forIn xs () (fun (_ : Unit) (v : BitVec 8) =>"},
	{"return in non-tail if", `func f(a int) int { b := 0; if a > 0 { if a > 5 { return 7 }; b = 1 }; return b }`, "f", true, "Go.Flow.bind (if (BitVec.slt 0#64 a) then"},
	{"return in if-else", `func f(a int) int { if a > 0 { return 1 } else { a = 2 }; return a }`, "f", true, "Go.Flow.run a) (fun (a : BitVec 64) =>"},
	{"goto", `func f(a int) int { goto L; L: return a }`, "f", false, "unsupported"},
	{"continue", `func f(xs []byte) int { s := 0; for _, v := range xs { s += int(v); continue }; return s }`, "f", false, "unsupported statement"},
	// three-clause loops
	{"three-clause for", `func f(n int) int { s := 0; for i := 0; i < n; i++ { s += i }; return s }`, "f", true, "(s + i)) s (Go.forUp true false 0#64 n 1)"},
	{"three-clause for, uint", `func f(a, n uint) uint { var s uint; for i := 10 - a; i < n; i++ { s += i }; return s }`, "f", true, "(Go.forUp false false (10#64 - a) n 1)"},
	{"three-clause for, <= constant", `func f() int { s := 0; for i := 1; i <= 30; i++ { s += i }; return s }`, "f", true, "(Go.forUp true true 1#64 30#64 1)"},
	{"three-clause for, step", `func f(a int) int { s := 0; for i := a; i < 100; i += 8 { s += i }; return s }`, "f", true, "(Go.forUp true false a 100#64 8)"},
	{"three-clause for, down", `func f(a int) int { s := 0; for j := a; j >= 0; j-- { s += j }; return s }`, "f", true, "(Go.forDown true true a 0#64 1)"},
	{"three-clause for, down >", `func f(a, b uint) uint { var s uint; for j := a; j > b; j-- { s += j }; return s }`, "f", true, "(Go.forDown false false a b 1)"},
	{"three-clause for, unsigned j >= 0", `func f(a uint) uint { var s uint; for j := a; j >= 0; j-- { s += j }; return s }`, "f", false, "could wrap around"},
	{"three-clause for, <= variable", `func f(n int) int { s := 0; for i := 0; i <= n; i++ { s += i }; return s }`, "f", false, "could wrap around"},
	{"three-clause for, step to variable bound", `func f(n int) int { s := 0; for i := 0; i < n; i += 2 { s += i }; return s }`, "f", false, "could wrap around"},
	{"three-clause for, wrong direction", `func f(n int) int { s := 0; for i := 0; i < n; i-- { s += i }; return s }`, "f", false, "moves away from the bound"},
	{"three-clause for, variable assigned", `func f(n int) int { s := 0; for i := 0; i < n; i++ { i = i + 1; s += i }; return s }`, "f", false, "is assigned in the body"},
	{"three-clause for, bound assigned", `func f(n int) int { s := 0; for i := 0; i < n; i++ { n--; s += i }; return s }`, "f", false, "the bound depends on n"},
	{"three-clause for, other shape", `func f(n int) int { s := 0; for i := 0; i != n; i++ { s += i }; return s }`, "f", false, "three-clause loop: only"},
	{"for without condition", `func f(n int) int { for { n++ } }`, "f", false, "a loop with only a condition must be"},
	{"closure", `func f(a int) int { g := func() int { return a }; return g() }`, "f", false, "closures are not supported"},
	{"map", `func f(a int) int { m := map[int]int{}; m[a] = 1; return len(m) }`, "f", false, "outside the translated subset"},
	{"index assignment to parameter", `func f(xs []byte) []byte { for i := range xs { xs[i] = 0 }; return make([]byte, 1) }`, "f", false,
		"not a local slice created once by make"},
	{"index assignment to appended slice", `func f(xs []byte) []byte { r := append([]byte{1}, xs...); for i := range r { r[i] = 0 }; return r }`, "f", false,
		"not a local slice created once by make"},
	{"slice alias", `func f(xs []byte) []byte { r := make([]byte, 2); q := r; for i := range r { r[i] = 1 }; return q }`, "f", false, "would alias"},
	{"return parameter", `func f(xs []byte) []byte { return xs }`, "f", false, "would alias a parameter"},
	{"append to parameter", `func f(xs []byte) []byte { xs = append(xs, 1); return make([]byte, 1) }`, "f", false, "not a local variable"},
	{"two appends to one slice", `func f(x byte) int { a := []byte{x}; b := append(a, 1); c := append(a, 2); return len(b) + len(c) }`, "f", false,
		"used again later"},
	{"append in loop to outer slice", `func f(xs []byte) int { a := []byte{1}; n := 0; for _, v := range xs { b := append(a, v); n += len(b) }; return n }`, "f", false,
		"inside a loop that does not declare"},
	{"slice expression", `func f(xs []byte) int { return len(xs[1:]) }`, "f", false, "unsupported expression"},
	// indices that are not in range by construction: Option result, none = panic (were rejected before)
	{"unchecked index", `func f(xs []byte, i int) byte { return xs[i] }`, "f", true, "if !(Go.inRangeS i xs.length) then Go.Flow.panic else"},
	{"unchecked index, result type", `func f(xs []byte, i uint) byte { return xs[i+1] }`, "f", true, ": Option (BitVec 8) :="},
	{"unchecked index, uint", `func f(xs []byte, i uint) byte { return xs[i+1] }`, "f", true, "if !(Go.inRangeU (i + 1#64) xs.length) then Go.Flow.panic else"},
	{"index after reassignment", `func f(xs []byte) byte { var r byte; for i := range xs { i = i + 1; r = xs[i] }; return r }`, "f", true,
		"if !(Go.inRangeS i xs.length) then Go.Flow.panic else"},
	{"constant index", `func f(xs []byte) byte { return xs[0] }`, "f", true, "if !(decide (0 < xs.length)) then Go.Flow.panic else"},
	{"bounds hint", `func f(xs []byte) byte { _ = xs[3]; return 1 }`, "f", true, "if !(decide (3 < xs.length)) then Go.Flow.panic else\n  Go.Flow.done 1#8"},
	{"index under &&", `func f(xs []byte, i int) bool { return i < len(xs) && xs[i] == 0 }`, "f", true,
		"if !(!(BitVec.slt i (BitVec.ofNat 64 xs.length)) || (Go.inRangeS i xs.length)) then Go.Flow.panic else"},
	{"in-range index stays plain", `func f(xs []byte) byte { var r byte; for i := range xs { r ^= xs[i] }; return r }`, "f", true, "def f (xs : List (BitVec 8)) : BitVec 8 :="},
	{"checked write to a local", `func f(n int) []byte { r := make([]byte, 4); r[n] = 1; return r }`, "f", true, "(r.set n.toNat 1#8)"},
	{"index by byte", `func f(xs []byte, i byte) byte { return xs[i] }`, "f", true, "if !(Go.inRangeU8 i xs.length) then Go.Flow.panic else"},
	{"index by bool", `func f(xs []byte, i string) byte { return xs[len(i)] + xs[0] }`, "f", true, "Go.inRangeS"},
	{"index of call", `func g(xs []byte) []byte { return append([]byte{1}, xs...) }
func f(xs []byte) byte { return g(xs)[0] }`, "g,f", false, "only variable[index]"},
	{"call of a function that may panic", `func g(xs []byte) byte { return xs[0] }
func f(xs []byte) byte { return g(xs) }`, "g,f", true, "Go.Flow.bind (Go.call (g xs)) (fun (st_1 : BitVec 8) =>\n  Go.Flow.done st_1)"},
	// stage 5: calls that may panic or write into an argument, slice expressions as arguments, tables, panic, Builder
	{"call statement with an output window", `func g(dst []int8, v int8) { dst[0] = v }
func f(dst []int8, v int8) { g(dst[1:], v) }`, "g,f", true,
		"if !(decide (1 ≤ dst.length)) then Go.Flow.panic else\n  Go.Flow.bind (Go.call (g (dst.drop 1) v)) (fun (st_1 : List (BitVec 8)) =>\n  let dst : List (BitVec 8) := (dst.take 1 ++ st_1)"},
	{"call statement, whole output buffer", `func g(dst []int8, v int8) { dst[0] = v }
func f(v int8) []int8 { r := make([]int8, 2); g(r, v); return r }`, "g,f", true, "Go.Flow.bind (Go.call (g r v)) (fun (st_1 : List (BitVec 8)) =>\n  let r : List (BitVec 8) := st_1"},
	{"call result assigned", `func g(xs []byte) (byte, bool) { return xs[0], true }
func f(xs []byte) byte { a, ok := g(xs[2:]); if !ok { return 0 }; return a }`, "g,f", true,
		"Go.Flow.bind (Go.call (g (xs.drop 2))) (fun (st_1 : BitVec 8 × Bool) =>\n  let a : BitVec 8 := st_1.1\n  let ok : Bool := st_1.2"},
	{"call into a parameter that is not an output buffer of the caller", `func g(dst []int8) { dst[0] = 1 }
func f(dst []int8, src []int8) int8 { g(src); dst[0] = 2; return 0 }`, "g,f!disjoint", true, "let src : List (BitVec 8) := st_1"},
	{"call writing into a shared local", `func g(dst []int8) { dst[0] = 1 }
func f(n int) int { r := make([]int8, 2); r = append(r, 1); g(r); return len(r) }`, "g,f", false, "also assigned by index"},
	{"call reading what it writes", `func g(dst []int8, src []int8) { dst[0] = src[0] }
func f() int8 { r := make([]int8, 2); g(r, r[1:]); return r[0] }`, "g!disjoint,f", false, "reads `r`, which g writes into"},
	{"nested call under &&", `func g(xs []byte) bool { return xs[0] == 1 }
func f(xs []byte, a bool) bool { return a && g(xs) }`, "g,f", false, "evaluated conditionally"},
	{"nested calls", `func g(xs []byte) byte { return xs[0] }
func f(xs []byte) byte { return g(xs) + g(xs[1:]) }`, "g,f", true, "Go.Flow.bind (Go.call (g (xs.drop 1))) (fun (st_2 : BitVec 8) =>\n  Go.Flow.done (st_1 + st_2)))"},
	{"slice expression with two bounds as argument", `func g(xs []byte) int { return len(xs) }
func f(xs []byte, a, b int) int { return g(xs[a:b]) }`, "g,f", true, "if !(Go.sliceOK a b xs.length) then Go.Flow.panic else"},
	{"two-dimensional table", `var tab = [2][3]int8{{1, 2, 3}, {4, 5, -6}}
func f(i int8) int8 { return tab[i][2] }`, "f", true, "((var_tab.getD i.toNat []).getD 2 0#8)"},
	{"two-dimensional table, modified", `var tab = [2][3]int8{{1, 2, 3}, {4, 5, -6}}
func g() { tab[0][0] = 1 }
func f(i int8) int8 { return tab[i][2] }`, "f", false, "may be modified or aliased"},
	{"panic", `func f(a int) int { if a < 0 { panic("neg") }; return a }`, "f", true, "if (BitVec.slt a 0#64) then\n    Go.Flow.panic\n  else"},
	{"strings.Builder", `import "strings"
func f(xs []byte) string { var b strings.Builder; b.Grow(len(xs)); for _, x := range xs { b.WriteByte(x + 1) }; return b.String() }`, "f", true,
		"List.foldl (fun (b : List (BitVec 8)) (x : BitVec 8) =>\n      (b ++ [(x + 1#8)])) b xs"},
	{"strings.Builder, other method", `import "strings"
func f(xs string) string { var b strings.Builder; b.WriteString(xs); b.WriteRune('x'); return b.String() }`, "f", false, "is not supported (only WriteByte, WriteString, Grow and String)"},
	{"strings.Builder.WriteString", `import "strings"
func f(xs string) string { var b strings.Builder; b.WriteString(xs); b.WriteByte('1'); return b.String() }`, "f", true, "let b : List (BitVec 8) := (b ++ xs)"},
	{"if with init", `func g(a int) (int, bool) { return a + 1, a > 3 }
func f(a int) int { if v, ok := g(a); ok { return v }; return 0 }`, "g,f", true, "let st_1 : BitVec 64 × Bool := (g a)"},
	{"substring", `func f(s string, n int) int { t := s[:n]; u := s[n:]; if t == u { return 1 }; return len(t) }`, "f", true, "if !(Go.sliceOK 0#64 n s.length) then Go.Flow.panic else\n  let t : List (BitVec 8) := (s.take n.toNat)"},
	{"copy into a window", `func f(xs []byte, n int) []byte { r := make([]byte, 8); copy(r[n:], xs); return r }`, "f", true, "(r.take n.toNat ++ Go.copy (r.drop n.toNat) xs)"},
	{"library function as a parameter", `import "strings"
func g(s string) string { return strings.ToLower(s) }
func f(s string) int { return len(g(s)) }`, "g,f", true, "def f (strings_ToLower : List (BitVec 8) → List (BitVec 8)) (s : List (BitVec 8)) : BitVec 64 :=\n  (BitVec.ofNat 64 (g strings_ToLower s).length)"},
	{"three-clause for, <= len(x)-c", `func f(xs []byte) int { s := 0; for j := 0; j <= len(xs)-6; j += 6 { s += j }; return s }`, "f", true,
		"(Go.forUp true true 0#64 ((BitVec.ofNat 64 xs.length) - 6#64) 6)"},
	// patterns an independent audit found accepted and mistranslated; now rejected (or translated in Go's order)
	{"tuple assignment, index uses an assigned variable", `func f(n int) []byte { a := make([]byte, 4); i := 0; i, a[i] = 2, 7; return a }`, "f", false,
		"Go evaluates the index first"},
	{"tuple assignment, independent index", `func f(i int) int { a := make([]byte, 4); j := 0; j, a[i] = 2, 7; return j + int(a[0]) }`, "f", true, "(a.set i.toNat st_2)"},
	{"method result assigned to a field the callee assigns", `type T struct { n int }
func (c *T) g() int { c.n = 100; return 5 }
func (c *T) m() int { c.n = c.g(); return c.n }`, "T.g,T.m", true, "let c_n : BitVec 64 := st_1.2\n  let c_n : BitVec 64 := st_1.1"},
	{"method argument reads a field the callee assigns", `type T struct { a [4]uint }
func (c *T) g(src []uint) uint { c.a[0] = 5; return src[0] }
func (c *T) m() uint { x := c.g(c.a[:]); return x }`, "T.g!disjoint,T.m", false, "reads `a`, which T_g writes into"},
	{"method writing a parameter that may overlap a field", `type T struct { a [4]uint }
func (c *T) m(dst []uint) uint { dst[0] = 7; return c.a[0] }`, "T.m", false, "may overlap"},
	{"slice-typed field", `type T struct { a []uint }
func (c *T) m() uint { c.a[0] = 9; return c.a[0] }`, "T.m", false, "a slice field could alias"},
	{"returning a slice twice", `func f(n int) ([]byte, []byte) { r := make([]byte, 2); r[0] = byte(n); return r, r }`, "f", false, "share a backing array"},
	{"partial array literal", `var tab = [5]int{1, 2}
func f() int { s := 0; for i := range tab { s += i + tab[i] }; return s }`, "f", false, "does not list all 5 elements"},
	// capacity is not modelled: a callee that slices a parameter with an upper bound must not be handed spare capacity
	{"spare capacity passed to a reslicing callee", `func k(xs []byte) int { return len(xs) }
func g(xs []byte) int { return k(xs[1:3]) + int(xs[0]) }
func f(xs []byte) int { return g(xs[:2]) }`, "k,g,f", false, "capacity is not modelled"},
	{"suffix window passed to a reslicing callee", `func k(xs []byte) int { return len(xs) }
func g(xs []byte) int { return k(xs[1:3]) + int(xs[0]) }
func f(xs []byte) int { return g(xs[1:]) }`, "k,g,f", true, "(g (xs.drop 1))"},
	{"spare capacity passed through an intermediate function", `func g(xs []byte) int { xs = xs[:3]; return len(xs) }
func h(xs []byte) int { a, b := 1, g(xs); return a + b }
func f(xs []byte) int { return h(xs[:2]) }`, "g,h,f", false, "capacity is not modelled"},
	{"three-clause for, <= len(x)-c too small", `func f(xs []byte) int { s := 0; for j := 0; j <= len(xs)-5; j += 6 { s += j }; return s }`, "f", false, "could wrap around"},
	{"negative shift count in a function that may panic", `func f(xs []byte, n int) byte { return xs[0] << n }`, "f", true, "if !(Go.nonneg n) then Go.Flow.panic else"},
	// reslicing and condition loops
	{"reslice", `func f(xs []byte, n int) int { xs = xs[n:]; return len(xs) }`, "f", true, "if !(Go.sliceFromS n xs.length) then Go.Flow.panic else\n  let xs : List (BitVec 8) := (xs.drop n.toNat)"},
	{"condition loop", `func f(xs []byte) int { s := 0; for len(xs) >= 2 { s += int(xs[1]); xs = xs[2:] }; return s }`, "f", true,
		"(BitVec.sle 2#64 (BitVec.ofNat 64 xs.length))) (fun (st_1 : List (BitVec 8) × BitVec 64) =>"},
	{"condition loop, fuel", `func f(xs []byte) int { s := 0; for len(xs) > 0 { s += int(xs[0]); xs = xs[1:] }; return s }`, "f", true, "Go.Flow.run (xs, s)) xs.length (xs, s))"},
	{"condition loop, no reslicing", `func f(xs []byte) int { s := 0; for len(xs) > 0 { s++ }; return s }`, "f", false, "a loop with only a condition must be"},
	{"condition loop, conditional reslicing", `func f(xs []byte) int { s := 0; for len(xs) > 0 { if s < 3 { xs = xs[1:] }; s++ }; return s }`, "f", false,
		"a loop with only a condition must be"},
	{"condition loop, other condition", `func f(xs []byte, n int) int { for n > 0 { n--; xs = xs[1:] }; return n }`, "f", false, "a loop with only a condition must be"},
	{"condition loop, len(x) >= 0", `func f(xs []byte) int { s := 0; for len(xs) >= 0 { s++; xs = xs[1:] }; return s }`, "f", false, "a loop with only a condition must be"},
	{"reslice of a local", `func f(n int) int { r := make([]byte, 4); r = r[n:]; return len(r) }`, "f", false, "supported for slice parameters only"},
	{"reslice with upper bound", `func f(xs []byte) int { xs = xs[1:2]; return len(xs) }`, "f", false, "unsupported expression"},
	// output buffers
	{"output buffer", `func f(dst []int8, src []byte) int { for _, b := range src { dst[0] = int8(b); dst = dst[1:] }; return len(src) }`, "f", true,
		"let dst : (List (BitVec 8) × List (BitVec 8)) := (dst.1 ++ dst.2.take 1, dst.2.drop 1)"},
	{"output buffer, result", `func f(dst []int8, src []byte) int { for _, b := range src { dst[0] = int8(b); dst = dst[1:] }; return len(src) }`, "f", true,
		"Go.Flow.done ((BitVec.ofNat 64 src.length), (dst.1 ++ dst.2))"},
	{"output buffer, in range", `func f(dst []int8) int { for i := range dst { dst[i] = 1 }; return 0 }`, "f", true, "def f (dst : List (BitVec 8)) : BitVec 64 × List (BitVec 8) :="},
	{"output buffer that may overlap", `func f(dst []byte, src []byte) int { for i := range src { dst[i] = src[i] }; return 0 }`, "f", false, "may overlap"},
	{"output buffer reassigned", `func f(dst []int8) int { dst = make([]int8, 2); dst[0] = 1; return 0 }`, "f", false, "assignment to the slice parameter"},
	// array pointers, uint, int8, bits, errors
	{"array pointer", `func f(l *[4]uint, i uint) uint { return l[i] }`, "f", true, "if !(Go.inRangeU i 4) then Go.Flow.panic else\n  Go.Flow.done (l.getD i.toNat 0#64)"},
	{"array pointer written", `func f(l *[4]uint) uint { l[0] = 1; return 0 }`, "f", false, "writing through an array pointer"},
	{"array pointer escaping", `func g(xs []uint) uint { return 0 }
func f(l *[4]uint) uint { return g(l[:]) }`, "g,f", true, "(g l)"},
	{"array pointer escaping into a writer", `func g(xs []uint) { xs[0] = 1 }
func f(l *[4]uint) uint { g(l[:]); return 0 }`, "g,f", false, "writing through an array pointer"},
	{"array pointer copied", `func f(l *[4]uint) uint { m := l; return m[0] }`, "f", false, "assignment to the array pointer"},
	{"array pointer passed on", `func g(l *[4]uint) uint { return 0 }
func f(l *[4]uint) uint { return g(l) }`, "g,f", false, "may only be indexed"},
	{"array by value", `func f(l [4]uint) uint { return l[0] }`, "f", true, "def f (l : List (BitVec 64)) : Option (BitVec 64) :=\n  Go.Flow.result (\n  if !(decide (0 < 4)) then Go.Flow.panic else\n  Go.Flow.done (l.getD 0 0#64))"}, // rejected before stage 9
	{"int8", `func f(a int8, b byte) bool { return a>>1 < int8(b) }`, "f", true, "(BitVec.slt (BitVec.sshiftRight a 1) b)"},
	{"int8 to uint", `func f(a int8) uint { return uint(a) }`, "f", true, "(BitVec.signExtend 64 a)"},
	{"trailing zeros", `import "math/bits"
func f(a uint) int { return bits.TrailingZeros(^a) }`, "f", true, "(Go.trailingZeros64 (~~~a))"},
	{"other library call", `import "math/bits"
func f(a uint) int { return bits.LeadingZeros(a) }`, "f", false, "unsupported call"},
	{"errors", `import ("errors"; "fmt")
var ErrX = errors.New("x")
func f(a int) (int, error) { if a < 0 { return 0, fmt.Errorf("%w: %d", ErrX, a) }; if a == 0 { return 0, ErrX }; return a, nil }`, "f", true,
		"(0#64, (some \"ErrX\"))"},
	{"error variable assigned", `import "errors"
var ErrX = errors.New("x")
func g() { ErrX = nil }
func f(a int) (int, error) { return a, ErrX }`, "f", false, "may be modified"},
	{"error not from errors.New", `import "fmt"
var ErrX = fmt.Errorf("x")
func f(a int) (int, error) { return a, ErrX }`, "f", false, "not initialised by errors.New"},
	{"Errorf without %w", `import "fmt"
func f(a int) (int, error) { return a, fmt.Errorf("bad %d", a) }`, "f", true, `(a, (some "fmt.Errorf(\"bad %d\")"))`}, // rejected before stage 9
	{"modified package variable", `var tab = []int{1, 2}
func g() { tab[0] = 5 }
func f() int { s := 0; for i := range tab { s += tab[i] }; return s }`, "f", false, "may be modified or aliased"},
	{"escaping package variable", `var tab = []int{1, 2}
func g() []int { return tab }
func f() int { s := 0; for i := range tab { s += tab[i] }; return s }`, "f", false, "may be modified or aliased"},
	{"shadowing", `func f(a int) int { if a > 0 { a := 2; a++; if a > 5 { return 1 } }; return a }`, "f", true, "let a_2 : BitVec 64 := (a_2 + 1#64)"},
	{"division by a constant", `func f(a int) int { return (a*8 + 4) / 5 }`, "f", true, "(BitVec.sdiv ((a * 8#64) + 4#64) 5#64)"},
	{"division by a constant, uint", `func f(a uint, b byte) uint { return a/3 + uint(b%7) }`, "f", true, "((a / 3#64) + (BitVec.setWidth 64 (b % 7#8)))"},
	{"remainder, int", `func f(a int) int { return a % 10 }`, "f", true, "(BitVec.srem a 10#64)"},
	{"division by a variable", `func f(a, b int) int { return a / b }`, "f", false, "non-constant or zero divisor"},
	{"remainder by zero", `func f(a uint) uint { const z = 0; return a % (z + 0) }`, "f", false, "invalid operation"},
	{"int32 (rune)", `func f(a int32, b byte) bool { return a >= 33 && a <= rune(b) }`, "f", true, "((BitVec.sle 33#32 a) && (BitVec.sle a (BitVec.setWidth 32 b)))"},
	{"int16", `func f(a int16) int16 { return a }`, "f", false, "outside the translated subset"},
	{"range over string", `func f(s string) int { n := 0; for range s { n++ }; return n }`, "f", true, "(n + 1#64)) n (Go.runeStarts s)"},
	{"range over string by value", `func f(s string) int { n := 0; for _, c := range s { n += int(c) }; return n }`, "f", true, "(Go.runes s)"},
	{"range over string, key and value", `func f(s string) int { n := 0; for i, c := range s { n += i + int(c) }; return n }`, "f", true, "let i : BitVec 64 := rk_1.1\n      let c : BitVec 32 := rk_1.2"},
	{"range by value over assigned slice", `func f(x byte) int { r := []byte{x}; s := 0; for _, v := range r { r = append(r, v); s += int(v) }; return s }`, "f", false,
		"over which it ranges by value"},
	{"callee not translated", `func g(x byte) byte { return x }
func f(x byte) byte { return g(x) }`, "f", false, "has not been translated"},
	{"pointer", `func f(a *int) int { return *a }`, "f", false, "outside the translated subset"},
	// switch
	{"switch with return", `func f(a int) int { switch a { case 1: return 2 }; return a }`, "f", true,
		"let sw_1 : BitVec 64 := a\n  if (sw_1 == 1#64) then\n    Go.Flow.done 2#64\n  else\n  Go.Flow.done a"},
	{"switch, plain value", `func f(a byte) int { r := 0; switch a { case 1, 2: r = 5; case 3: r = 7; default: r = 9 }; return r }`, "f", true,
		"let r : BitVec 64 := (if (sw_1 == 3#8) then 7#64 else r)\n  (if (!((sw_1 == 1#8) || (sw_1 == 2#8) || (sw_1 == 3#8))) then 9#64 else r)"},
	{"switch, plain value, case list", `func f(a byte) int { r := 0; switch a { case 1, 2: r = 5; case 3: r = 7; default: r = 9 }; return r }`, "f", true,
		"let r : BitVec 64 := (if ((sw_1 == 1#8) || (sw_1 == 2#8)) then 5#64 else r)"},
	{"switch, result stays plain", `func f(a byte) int { r := 0; switch a { case 1: r = 5 }; return r }`, "f", true, "def f (a : BitVec 8) : BitVec 64 :="},
	{"switch, fallthrough", `func f(a int) int { r := 0; switch a { default: r += 1; fallthrough; case 4: r += 2; fallthrough; case 3: r += 4; case 2: r += 8 }; return r }`, "f", true,
		"(if ((!((sw_1 == 4#64) || (sw_1 == 3#64) || (sw_1 == 2#64))) || (sw_1 == 4#64) || (sw_1 == 3#64)) then (r + 4#64) else r)"},
	{"switch, fallthrough ends the chain", `func f(a int) int { r := 0; switch a { default: r += 1; fallthrough; case 4: r += 2; fallthrough; case 3: r += 4; case 2: r += 8 }; return r }`, "f", true,
		"(if (sw_1 == 2#64) then (r + 8#64) else r)"},
	{"switch, default in the middle", `func f(a int) int { r := 0; switch a { case 1: r = 1; default: r = 2; fallthrough; case 5: r += 3 }; return r }`, "f", true,
		"(if ((!((sw_1 == 1#64) || (sw_1 == 5#64))) || (sw_1 == 5#64)) then (r + 3#64) else r)"},
	{"switch, tag evaluated once", `func f(a int) int { switch a { case 1: a = 2; fallthrough; case 2: a += 5 }; return a }`, "f", true,
		"let sw_1 : BitVec 64 := a\n  let a : BitVec 64 := (if (sw_1 == 1#64) then 2#64 else a)\n  (if ((sw_1 == 1#64) || (sw_1 == 2#64)) then (a + 5#64) else a)"},
	{"switch, empty clause", `func f(a int) int { r := 0; switch a { case 1: case 2: r = 3 }; return r }`, "f", true, "(if (sw_1 == 2#64) then 3#64 else r)"},
	{"switch, empty clause falling through", `func f(a int) int { r := 0; switch a { case 1: fallthrough; case 2: r = 3 }; return r }`, "f", true,
		"(if ((sw_1 == 1#64) || (sw_1 == 2#64)) then 3#64 else r)"},
	{"switch, only default", `func f(a int) int { r := 0; switch a { default: r = 3 }; return r }`, "f", true, "(if true then 3#64 else r)"},
	{"switch, panicking tag", `func f(xs []byte) int { switch xs[0] { case 1: return 2 }; return 0 }`, "f", true,
		"if !(decide (0 < xs.length)) then Go.Flow.panic else\n  let sw_1 : BitVec 8 := (xs.getD 0 0#8)"},
	{"switch, break at the end of a clause", `func f(a int) int { r := 0; switch a { case 1: r = 5; break; default: r = 9 }; return r }`, "f", true,
		"(if (sw_1 == 1#64) then 5#64 else r)"},
	{"switch, break inside a clause", `func f(xs []byte) int { r := 0; for len(xs) > 0 { switch xs[0] { case 1: if r > 3 { break }; r++ }; xs = xs[1:] }; return r }`, "f", false,
		"inside a switch clause it leaves the switch, not the loop"},
	{"switch, break in a clause is not a loop break", `func f(xs []byte) int { r := 0; for len(xs) > 0 { switch xs[0] { case 1: r++; break }; xs = xs[1:] }; return r }`, "f", true,
		"Go.whileFuel (fun"},
	{"switch without tag", `func f(a, b int) int { r := 0; switch { case a > 3: r = 1; case b > 3: r = 2; default: r = 3 }; return r }`, "f", true,
		"(if (BitVec.slt 3#64 a) then 1#64 else (if (BitVec.slt 3#64 b) then 2#64 else 3#64))"},
	{"switch without tag, returns", `func f(xs []byte, n int) int { switch { case n == 2 && xs[1] != 0: return 1; case n == 4 && xs[3] != 0: return 2 }; return 0 }`, "f", true,
		"else\n  if !(!(n == 4#64) || (decide (3 < xs.length))) then Go.Flow.panic else\n  if ((n == 4#64) && ((xs.getD 3 0#8) != 0#8)) then"},
	{"switch without tag, fallthrough", `func f(a int) int { r := 0; switch { case a > 3: r = 1; fallthrough; default: r += 3 }; return r }`, "f", false,
		"fallthrough in a switch without tag"},
	{"switch without tag, default first", `func f(a int) int { r := 0; switch { default: r = 3; case a > 3: r = 1 }; return r }`, "f", false, "the default clause must be the last one"},
	{"switch without tag, two conditions", `func f(a int) int { r := 0; switch { case a > 3, a < 0: r = 1 }; return r }`, "f", false, "a single condition"},
	{"switch, non-constant case", `func f(a, b int) int { r := 0; switch a { case b: r = 1 }; return r }`, "f", false, "only constant case values"},
	{"switch on a string", `func f(s string) int { r := 0; switch s { case "a": r = 1 }; return r }`, "f", false, "only integer tags"},
	{"switch with init", `func f(a int) int { r := 0; switch b := a + 1; b { case 1: r = 1 }; return r }`, "f", false, "switch with an init statement"},
	{"type switch", `func f(a interface{}) int { switch a.(type) { case int: return 1 }; return 0 }`, "f", false, "outside the translated subset"},
	// break
	{"break in a condition loop", `func f(xs []byte) int { s := 0; for len(xs) > 0 { s += int(xs[0]); if len(xs) < 5 { break }; xs = xs[5:] }; return s }`, "f", true,
		"if (BitVec.slt (BitVec.ofNat 64 xs.length) 5#64) then\n        Go.Flow.run (true, (xs, s))\n      else"},
	{"break in a condition loop, loop", `func f(xs []byte) int { s := 0; for len(xs) > 0 { s += int(xs[0]); if len(xs) < 5 { break }; xs = xs[5:] }; return s }`, "f", true,
		"Go.Flow.run (false, (xs, s))) xs.length (xs, s)) (fun (st_1 : List (BitVec 8) × BitVec 64) =>"},
	{"break in a condition loop, combinator", `func f(xs []byte) int { s := 0; for len(xs) > 0 { s += int(xs[0]); if len(xs) < 5 { break }; xs = xs[5:] }; return s }`, "f", true,
		"Go.Flow.bind (Go.whileFuelB (fun (st_1 : List (BitVec 8) × BitVec 64) =>"},
	{"break in a range loop", `func f(xs []byte) int { s := 0; for _, v := range xs { s += int(v); break }; return s }`, "f", true,
		"Go.Flow.bind (Go.forInB xs s (fun (s : BitVec 64) (v : BitVec 8) =>\n      let s : BitVec 64 := (s + (BitVec.setWidth 64 v))\n      Go.Flow.run (true, s)))"},
	{"break in a three-clause loop", `func f(n int) int { s := 0; for i := 0; i < n; i++ { if i == 7 { s++; break }; s += i }; return s }`, "f", true,
		"Go.Flow.run (false, s))) (fun (s : BitVec 64) =>"},
	{"break after a nested block", `func f(xs []byte) int { s := 0; for _, v := range xs { if v == 0 { if s > 3 { break }; s = 9; break }; s++ }; return s }`, "f", true,
		"let s : BitVec 64 := 9#64\n        Go.Flow.run (true, s)"},
	{"break in the inner loop only", `func f(xs []byte) int { s := 0; for _, v := range xs { for _, w := range xs { if w == v { break }; s++ } }; return s }`, "f", true,
		"Go.Flow.bind (Go.forIn xs s (fun (s : BitVec 64) (v : BitVec 8) =>\n      Go.Flow.bind (Go.forInB xs s (fun (s : BitVec 64) (w : BitVec 8) =>"},
	{"break not in tail position", `func f(xs []byte) int { s := 0; for _, v := range xs { if v == 0 { if s > 3 { break }; s = 9 }; s++ }; return s }`, "f", false,
		"inside a conditional whose end can be reached"},
	{"break in else", `func f(xs []byte) int { s := 0; for _, v := range xs { if v == 0 { s++ } else { break } }; return s }`, "f", false, "inside a conditional whose end can be reached"},
	{"statement after break", `func f(xs []byte) int { s := 0; for _, v := range xs { s += int(v); break; s++ }; return s }`, "f", false, "statement after break"},
	{"labeled break", `func f(xs []byte) int { s := 0; L: for _, v := range xs { s += int(v); break L }; return s }`, "f", false, "unsupported declaration of L"},
	// &T{ErrX, off}
	{"error with offset", `import "errors"
var ErrX = errors.New("x")
type E struct { err error; Off int }
func (e *E) Error() string { return "e" }
func f(a int) (int, error) { if a < 0 { return 0, &E{ErrX, a + 1} }; return a, nil }`, "f", true,
		"(0#64, (some (\"ErrX\", (a + 1#64))))"},
	{"error with offset, nil", `import "errors"
var ErrX = errors.New("x")
type E struct { err error; Off int }
func (e *E) Error() string { return "e" }
func f(a int) (int, error) { if a < 0 { return 0, &E{ErrX, a + 1} }; return a, nil }`, "f", true,
		"(a, (none : Option (String × BitVec 64)))"},
	{"error with offset, keyed", `import "errors"
var ErrX = errors.New("x")
type E struct { Off int; err error }
func (e E) Error() string { return "e" }
func f(a int) (int, error) { if a < 0 { return 0, &E{err: ErrX, Off: a} }; return a, nil }`, "f", true,
		"def f (a : BitVec 64) : BitVec 64 × Option (String × BitVec 64) :=\n  if (BitVec.slt a 0#64) then\n    (0#64, (some (\"ErrX\", a)))"},
	{"error with offset, mixed with a plain error", `import "errors"
var ErrX = errors.New("x")
type E struct { err error; Off int }
func (e *E) Error() string { return "e" }
func f(a int) (int, error) { if a < 0 { return 0, &E{ErrX, a} }; return a, ErrX }`, "f", true, "(a, (some (\"ErrX\", none)))"},
	{"error with offset, mixed: the positioned one", `import "errors"
var ErrX = errors.New("x")
type E struct { err error; Off int }
func (e *E) Error() string { return "e" }
func f(a int) (int, error) { if a < 0 { return 0, &E{ErrX, a} }; return a, ErrX }`, "f", true, "(0#64, (some (\"ErrX\", some a)))"},
	{"error of a callee converted, err != nil", `import ("errors"; "fmt")
var ErrX = errors.New("x")
type E struct { err error; Off int }
func (e *E) Error() string { return "e" }
func g(a int) error { if a < 0 { return &E{ErrX, a} }; return nil }
func f(a int) (int, error) { if err := g(a); err != nil { return 0, err }; if a == 7 { return 0, fmt.Errorf("%w: seven", ErrX) }; return a, nil }`, "g,f", true,
		"let err : Option (String × Option (BitVec 64)) := (Go.errOfAt (g a))\n  if (err).isSome then"},
	{"errors.As on the error of a callee", `import "errors"
var ErrX = errors.New("x")
type E struct { err error; Off int }
func (e *E) Error() string { return "e" }
func (e *E) Unwrap() error { return e.err }
type F struct { err error; Off int }
func (e *F) Error() string { return "f" }
func g(a int) error { if a < 0 { return &E{ErrX, a} }; return nil }
func f(a int) (int, error) { if err := g(a); err != nil { var e *E; if errors.As(err, &e) { return 0, &F{e.Unwrap(), e.Off + 1} }; return 0, err }; return a, nil }`, "g,f", true,
		"(some ((Go.errNameAt err), ((Go.errOffAt err) + 1#64)))"},
	{"errors.As with another target type", `import "errors"
var ErrX = errors.New("x")
type E struct { err error; Off int }
func (e *E) Error() string { return "e" }
type F struct { err error; Off int }
func (e *F) Error() string { return "f" }
func g(a int) error { if a < 0 { return &E{ErrX, a} }; return nil }
func f(a int) (int, error) { if err := g(a); err != nil { var e *F; if errors.As(err, &e) { return 1, err }; return 0, err }; return a, nil }`, "g,f", false, "is not the error type"},
	{"shadowed variable", `func f(a int) int { if a > 0 { a := 2; a++; return a }; return a }`, "f", true, "let a_2 : BitVec 64 := 2#64"},
	{"prefix reslice of a local", `func g(n int) []byte { return make([]byte, n) }
func f(n int) int { r := g(n); r = r[:2]; return len(r) }`, "g,f", true, "let r : List (BitVec 8) := (r.take 2)"},
	{"second upper bound on a cut local", `func g(n int) []byte { return make([]byte, n) }
func f(n int) int { r := g(n); r = r[:2]; r = r[:3]; return len(r) }`, "g,f", false, "checked against the capacity"},
	{"method of a package-level struct", `type T struct { tab [4]byte }
func newT() *T { e := new(T); e.tab[1] = 7; return e }
var v = newT()
func (e *T) get(i int) byte { return e.tab[i] }
func f(i int) byte { return v.get(i) + 1 }`, "newT,T.get,f", true, "def f (v_tab : List (BitVec 8)) (i : BitVec 64) : Option (BitVec 8) :="},
	{"package-level struct also used directly", `type T struct { tab [4]byte }
func newT() *T { e := new(T); e.tab[1] = 7; return e }
var v = newT()
func (e *T) get(i int) byte { return e.tab[i] }
func g() { v.tab[0] = 1 }
func f(i int) byte { return v.get(i) + 1 }`, "newT,T.get,f", false, "used other than as the receiver of a method call"},
	{"error with offset, not an error type", `import "errors"
var ErrX = errors.New("x")
type E struct { err error; Off int }
func f(a int) (int, *E) { return a, &E{ErrX, a} }`, "f", false, "outside the translated subset"},
	{"error with offset, wrapped error not a variable", `import "errors"
var ErrX = errors.New("x")
type E struct { err error; Off int }
func (e *E) Error() string { return "e" }
func f(a int) (int, error) { return a, &E{errors.New("y"), a} }`, "f", false, "is only supported in"},
	{"address of a variable", `func f(a int) bool { return &a == nil }`, "f", false, "is only supported in"},
	// output buffer with the element type of another parameter
	{"output buffer that may overlap, assumed disjoint", `func f(dst []byte, src []byte) int { for i := range src { dst[i] = src[i] }; return 0 }`, "f!disjoint", true,
		"ASSUMPTION (not checked here): the array of `dst` does not overlap the arrays of the other parameters"},
	// stage 4: methods, fields, tuple assignment, swaps, prefix reslicing, copy
	{"method with fields", `type T struct { a [4]uint; n int; unused []string }
func (c *T) m(i int) uint { c.n = i; return c.a[i] }`, "T.m", true,
		"def T_m (c_a : List (BitVec 64)) (c_n : BitVec 64) (i : BitVec 64) : Option (BitVec 64 × BitVec 64) :="},
	{"method, checked field index", `type T struct { a [4]uint }
func (c *T) m(i int) uint { return c.a[i] }`, "T.m", true, "if !(Go.inRangeS i 4) then Go.Flow.panic else"},
	{"method, field written", `type T struct { a [4]uint }
func (c *T) m(i uint) { c.a[i] |= 3 }`, "T.m", true, "let c_a : List (BitVec 64) := (c_a.set i.toNat ((c_a.getD i.toNat 0#64) ||| 3#64))\n  Go.Flow.done c_a"},
	{"method, receiver escapes", `type T struct { a [4]uint }
func g(c *T) uint { return 0 }
func (c *T) m() uint { return g(c) }`, "T.m", false, "used only as c.f"},
	{"method, method call on receiver", `type T struct { a [4]uint }
func (c *T) g() uint { return 0 }
func (c *T) m() uint { return c.g() }`, "T.m", false, "used only as c.f"},
	{"method, value receiver", `type T struct { a [4]uint }
func (c T) m() uint { return c.a[0] }`, "T.m", false, "must be `c *T`"},
	{"method, whole array field assigned", `type T struct { a [4]uint }
func (c *T) m() { var z [4]uint; c.a = z }`, "T.m", false, "array field a as a whole"},
	{"void function without effect", `func f(a int) { a++ }`, "f", false, "without result and without effect"},
	{"tuple assignment", `func f(a, b int) int { a, b = b, a+b; return a - b }`, "f", true,
		"let st_1 : BitVec 64 := b\n  let st_2 : BitVec 64 := (a + b)\n  let a : BitVec 64 := st_1\n  let b : BitVec 64 := st_2"},
	{"tuple definition", `func f(xs []byte) int { a, b := xs[0], xs[1]; return int(a) + int(b) }`, "f", true,
		"if !(decide (1 < xs.length)) then Go.Flow.panic else\n  let st_2 : BitVec 8 := (xs.getD 1 0#8)"},
	{"tuple assignment from a call", `func g(a uint) (uint, uint) { return a + 1, a + 2 }
func f(a uint) uint { x, y := g(a); return x ^ y }`, "g,f", true, "let st_1 : BitVec 64 × BitVec 64 := (g a)\n  let x : BitVec 64 := st_1.1\n  let y : BitVec 64 := st_1.2"},
	{"tuple assignment of slices", `func f(xs, ys []byte) int { a, b := xs, ys; return len(a) + len(b) }`, "f", false, "would alias"},
	{"op-assignment to an element", `func f(n int) []byte { r := make([]byte, 4); r[n] += 2; return r }`, "f", true, "(r.set n.toNat ((r.getD n.toNat 0#8) + 2#8))"},
	{"array pointer written, assumed disjoint", `func f(l *[4]uint) uint { l[0] = 1; return 0 }`, "f!disjoint", true, "def f (l : List (BitVec 64)) : Option (BitVec 64 × List (BitVec 64)) :="},
	{"array pointers swapped", `func f(p, q *[2]uint) { p[0] = 1; p, q = q, p; p[1] = 2 }`, "f!disjoint", true,
		"Go.Flow.done ((Go.byTag [p, q] 0), (Go.byTag [p, q] 1))"},
	{"array pointers swapped, initial tags", `func f(p, q *[2]uint) { p[0] = 1; p, q = q, p; p[1] = 2 }`, "f!disjoint", true,
		"let p : (Nat × List (BitVec 64)) := (0, p)\n  let q : (Nat × List (BitVec 64)) := (1, q)"},
	{"array pointers swapped, not assumed disjoint", `func f(p, q *[2]uint) { p[0] = 1; p, q = q, p; p[1] = 2 }`, "f", false, "only supported under the explicit assumption"},
	{"array pointer assigned", `func f(p, q *[2]uint) { p = q; p[1] = 2 }`, "f!disjoint", false, "assignment to the array pointer"},
	{"array pointers, not a permutation", `func f(p, q *[2]uint) { p, q = q, q; p[1] = 2 }`, "f!disjoint", false, "may only be assigned by a swap"},
	{"prefix reslice", `func f(xs []byte) int { xs = xs[:3]; return len(xs) }`, "f", true, "if !(decide (3 ≤ xs.length)) then Go.Flow.panic else\n  let xs : List (BitVec 8) := (xs.take 3)"},
	{"prefix reslice of an output buffer", `func f(dst []int8) { dst = dst[:2]; dst[1] = 5 }`, "f", true, "Go.Flow.done (dst ++ dst_rest)"},
	{"prefix reslice in a loop", `func f(xs []byte, n int) int { for i := 0; i < n; i++ { xs = xs[:3] }; return len(xs) }`, "f", false, "as a statement of the function body itself"},
	{"copy", `func f(dst []uint, a *[3]uint) { copy(dst, a[:]) }`, "f!disjoint", true, ": List (BitVec 64) :=\n  (Go.copy dst a)"},
	{"copy into a local", `func f(xs []byte) []byte { r := make([]byte, 2); copy(r, xs); return r }`, "f", true, "(Go.copy r xs)"},
	{"copy into a parameter that may overlap", `func f(dst, src []byte) { copy(dst, src) }`, "f", false, "may overlap"},
	{"local array", `func f(i int) byte { var a [4]byte; a[i] = 7; return a[0] }`, "f", true, "let a : List (BitVec 8) := (List.replicate 4 0#8)"},
	{"array parameter (stage 4 case)", `func f(l [4]uint) uint { return l[0] }`, "f", true, "the array parameter `l` (a [4]uint passed by value, read-only here) is a list of length 4"}, // rejected before stage 9
	// stage 7.1: bits.Len, bits.UintSize, uint(x-1), panic in a uint function, constant shifted by a variable
	{"bits.Len", `import "math/bits"
func f(a uint) int { return bits.Len(a) }`, "f", true, "(Go.bitsLen64 a)"},
	{"bits.Len8", `import "math/bits"
func f(a byte) int { return bits.Len8(a) }`, "f", false, "unsupported call"},
	{"bits.UintSize", `import "math/bits"
func f(a int) int { return a & (bits.UintSize - 1) }`, "f", true, "(a &&& 63#64)"},
	{"uint of an int difference", `func f(x int) uint { return uint(x-1) }`, "f", true, "def f (x : BitVec 64) : BitVec 64 :=\n  (x - 1#64)"},
	{"panic in a function returning uint", `func f(x int) uint { if x <= 1 { panic("invalid value") }; return uint(x) }`, "f", true,
		"def f (x : BitVec 64) : Option (BitVec 64) :=\n  Go.Flow.result (\n  if (BitVec.sle x 1#64) then\n    Go.Flow.panic"},
	{"panic with a computed argument", `func f(x int) uint { if x <= 1 { panic(x + 1) }; return uint(x) }`, "f", false, "panic with an argument that is not a constant or a variable"},
	{"constant shifted by a variable, typed by the result", `import "math/bits"
func f(n int) uint { return 1 << (n & (bits.UintSize - 1)) }`, "f", true, "(1#64 <<< (n &&& 63#64).toNat)"},
	{"constant shifted by a variable, typed byte", `func f(n uint) byte { return 1 << n }`, "f", false, "from the context: only the 64-bit integer types are supported there"},
	{"typed constant shifted by a variable", `func f(n uint) byte { return byte(1) << n }`, "f", true, "(1#8 <<< n.toNat)"},
	{"constant shifted by a variable, typed int32", `func f(n uint) int32 { var r int32 = 1 << n; return r }`, "f", false, "from the context: only the 64-bit integer types are supported there"},
	{"largestPowerOfTwo", `import "math/bits"
func f(x int) uint { if x <= 1 { panic("invalid value") }; log := bits.Len(uint(x-1)) - 1; return 1 << (log & (bits.UintSize - 1)) }`, "f", true,
		"let log : BitVec 64 := ((Go.bitsLen64 (x - 1#64)) - 1#64)\n  if !(Go.nonneg (log &&& 63#64)) then Go.Flow.panic else\n  Go.Flow.done (1#64 <<< (log &&& 63#64).toNat))"},
	// stage 7.2: hash.Hash locals made by c.f.New() on a crypto.Hash field
	{"hash object", `import "crypto"
type T struct { hash crypto.Hash }
func (t *T) m(l, r []byte) []byte { h := t.hash.New(); h.Write([]byte{1}); h.Write(l); h.Write(r); return h.Sum(nil) }`, "T.m", true,
		"def T_m (hash_sum : List (BitVec 8) → List (BitVec 8)) (l : List (BitVec 8)) (r : List (BitVec 8)) : List (BitVec 8) :=\n  let h : List (BitVec 8) := ([] : List (BitVec 8))\n  let h : List (BitVec 8) := (h ++ ([1#8] : List (BitVec 8)))\n  let h : List (BitVec 8) := (h ++ l)\n  let h : List (BitVec 8) := (h ++ r)\n  (hash_sum h)"},
	{"hash of nothing", `import "crypto"
type T struct { hash crypto.Hash }
func (t *T) e() []byte { return t.hash.New().Sum(nil) }`, "T.e", true, "def T_e (hash_sum : List (BitVec 8) → List (BitVec 8)) : List (BitVec 8) :=\n  (hash_sum ([] : List (BitVec 8)))"},
	{"hash parameter passed on by the caller", `import "crypto"
type T struct { hash crypto.Hash }
func (t *T) e() []byte { return t.hash.New().Sum(nil) }
func (t *T) g() int { return len(t.e()) }`, "T.e,T.g", true, "def T_g (hash_sum : List (BitVec 8) → List (BitVec 8)) : BitVec 64 :=\n  let st_1 : List (BitVec 8) := (T_e hash_sum)\n  (BitVec.ofNat 64 st_1.length)"},
	{"hash written in a loop", `import "crypto"
type T struct { hash crypto.Hash }
func (t *T) m(xs []byte) []byte { h := t.hash.New(); for _, x := range xs { h.Write([]byte{x}) }; return h.Sum(nil) }`, "T.m", true,
		"List.foldl (fun (h : List (BitVec 8)) (x : BitVec 8) =>\n      (h ++ ([x] : List (BitVec 8)))) h xs"},
	{"hash written with a window", `import "crypto"
type T struct { hash crypto.Hash }
func (t *T) m(xs []byte, n int) []byte { h := t.hash.New(); h.Write(xs[n:]); return h.Sum(nil) }`, "T.m", true,
		"if !(Go.sliceFromS n xs.length) then Go.Flow.panic else\n  let h : List (BitVec 8) := (h ++ (xs.drop n.toNat))"},
	{"two hash fields", `import "crypto"
type T struct { a, b crypto.Hash }
func (t *T) m(x []byte) []byte { h := t.a.New(); h.Write(x); g := t.b.New(); g.Write(h.Sum(nil)); return g.Sum(nil) }`, "T.m", true,
		"def T_m (a_sum : List (BitVec 8) → List (BitVec 8)) (b_sum : List (BitVec 8) → List (BitVec 8)) (x : List (BitVec 8)) : List (BitVec 8) :="},
	{"two hash fields, which is which", `import "crypto"
type T struct { a, b crypto.Hash }
func (t *T) m(x []byte) []byte { h := t.a.New(); h.Write(x); g := t.b.New(); g.Write(h.Sum(nil)); return g.Sum(nil) }`, "T.m", true,
		"let g : List (BitVec 8) := (g ++ (a_sum h))\n  (b_sum g)"},
	{"hash object from either of two fields", `import "crypto"
type T struct { a, b crypto.Hash }
func (t *T) m(x []byte) []byte { h := t.a.New(); if len(x) > 3 { h = t.b.New() }; h.Write(x); return h.Sum(nil) }`, "T.m", false, "is defined or assigned in another way"},
	{"hash Reset", `import "crypto"
type T struct { hash crypto.Hash }
func (t *T) m(x []byte) []byte { h := t.hash.New(); h.Write(x); h.Reset(); return h.Sum(nil) }`, "T.m", false, "hash.Hash.Reset is not supported"},
	{"hash Size", `import "crypto"
type T struct { hash crypto.Hash }
func (t *T) m(x []byte) int { h := t.hash.New(); return h.Size() }`, "T.m", false, "hash.Hash.Size is not supported"},
	{"hash Sum with an argument", `import "crypto"
type T struct { hash crypto.Hash }
func (t *T) m(x []byte) []byte { h := t.hash.New(); h.Write(x); return h.Sum(x) }`, "T.m", false, "only supported with the literal argument nil"},
	{"hash Write, results used", `import "crypto"
type T struct { hash crypto.Hash }
func (t *T) m(x []byte) int { h := t.hash.New(); n, _ := h.Write(x); return n }`, "T.m", false, "only supported as a statement of its own"},
	{"hash Write, error used", `import "crypto"
type T struct { hash crypto.Hash }
func (t *T) m(x []byte) bool { h := t.hash.New(); if _, err := h.Write(x); err != nil { return false }; return true }`, "T.m", false, "only supported as a statement of its own"},
	{"hash object copied", `import "crypto"
type T struct { hash crypto.Hash }
func (t *T) m(x []byte) []byte { h := t.hash.New(); g := h; g.Write(x); return h.Sum(nil) }`, "T.m", false, "used in another way"},
	{"hash object passed on", `import ("crypto"; "fmt")
type T struct { hash crypto.Hash }
func (t *T) m(x []byte) []byte { h := t.hash.New(); fmt.Fprintf(h, "x"); return h.Sum(nil) }`, "T.m", false, "unsupported statement"},
	{"hash object as an operand", `import "crypto"
type T struct { hash crypto.Hash }
func (t *T) m(x []byte) bool { h := t.hash.New(); return h == nil }`, "T.m", false, "used in another way"},
	{"hash parameter", `import "hash"
func g(h hash.Hash, x []byte) []byte { h.Write(x); return h.Sum(nil) }`, "g", false, "a parameter of type hash.Hash is not supported"},
	{"hash variable without a value", `import ("crypto"; "hash")
type T struct { hash crypto.Hash }
func (t *T) m(x []byte) []byte { var h hash.Hash; h.Write(x); return h.Sum(nil) }`, "T.m", false, "without an initial value"},
	{"hash object returned", `import ("crypto"; "hash")
type T struct { hash crypto.Hash }
func (t *T) m() hash.Hash { return t.hash.New() }`, "T.m", false, "a result of type hash.Hash is not supported"},
	{"hash field used in another way", `import "crypto"
type T struct { hash crypto.Hash }
func (t *T) m() int { return t.hash.Size() }`, "T.m", false, "it may only be used as c.hash.New()"},
	{"hash field as a number", `import "crypto"
type T struct { hash crypto.Hash }
func (t *T) m() uint { return uint(t.hash) }`, "T.m", false, "it may only be used as c.hash.New()"},
	{"hash field assigned", `import "crypto"
type T struct { hash crypto.Hash }
func (t *T) m(x []byte) []byte { t.hash = crypto.SHA256; h := t.hash.New(); h.Write(x); return h.Sum(nil) }`, "T.m", false, "it may only be used as c.hash.New()"},
	{"hash made from a parameter", `import "crypto"
func f(c crypto.Hash, x []byte) []byte { h := c.New(); h.Write(x); return h.Sum(nil) }`, "f", false, "unsupported call"},
	// stage 7.3 / 7.4: encoding.BinaryMarshaler values, read-only slices of them, their errors
	{"MarshalBinary", `import "encoding"
func f(d encoding.BinaryMarshaler) ([]byte, error) { b, err := d.MarshalBinary(); if err != nil { return nil, err }; return append([]byte{1}, b...), nil }`, "f", true,
		"def f (d : (List (BitVec 8) × Option String)) : List (BitVec 8) × Option String :=\n  let st_1 : List (BitVec 8) × Option String := d\n  let b : List (BitVec 8) := st_1.1\n  let err : Option String := st_1.2\n  if (err).isSome then\n    (([] : List (BitVec 8)), err)"},
	{"marshaler slice, indexed and measured", `import "encoding"
func f(ds []encoding.BinaryMarshaler, i int) int { b, _ := ds[i].MarshalBinary(); return len(b) + len(ds) }`, "f", true,
		"def f (ds : List (List (BitVec 8) × Option String)) (i : BitVec 64) : Option (BitVec 64) :=\n  Go.Flow.result (\n  if !(Go.inRangeS i ds.length) then Go.Flow.panic else\n  let st_1 : List (BitVec 8) × Option String := (ds.getD i.toNat (([] : List (BitVec 8)), (none : Option String)))"},
	{"marshaler slice, element as an argument", `import "encoding"
func g(d encoding.BinaryMarshaler) int { b, _ := d.MarshalBinary(); return len(b) }
func f(ds []encoding.BinaryMarshaler) int { return g(ds[0]) }`, "g,f", true,
		"if !(decide (0 < ds.length)) then Go.Flow.panic else\n  Go.Flow.done (g (ds.getD 0 (([] : List (BitVec 8)), (none : Option String))))"},
	{"marshaler slice, windows as arguments", `import "encoding"
func g(ds []encoding.BinaryMarshaler) int { return len(ds) }
func f(ds []encoding.BinaryMarshaler, k uint) int { return g(ds[:k]) - g(ds[k:]) }`, "g,f", true,
		"if !(Go.sliceFromU k ds.length) then Go.Flow.panic else\n  Go.Flow.done ((g (ds.take k.toNat)) - (g (ds.drop k.toNat)))"},
	{"marshaler slice, window with an int bound", `import "encoding"
func g(ds []encoding.BinaryMarshaler) int { return len(ds) }
func f(ds []encoding.BinaryMarshaler, j int) int { return g(ds[:j]) }`, "g,f", true, "if !(Go.sliceOK 0#64 j ds.length) then Go.Flow.panic else\n  Go.Flow.done (g (ds.take j.toNat))"},
	{"marshaler slice, window with a byte bound", `import "encoding"
func g(ds []encoding.BinaryMarshaler) int { return len(ds) }
func f(ds []encoding.BinaryMarshaler, j byte) int { return g(ds[:j]) }`, "g,f", false, "slice bound of type"},
	{"error of MarshalBinary in a function with positioned errors", `import ("encoding"; "errors")
var ErrX = errors.New("x")
type E struct { err error; Off int }
func (e *E) Error() string { return "e" }
func f(d encoding.BinaryMarshaler, a int) (int, error) { b, err := d.MarshalBinary(); if err != nil { return 0, err }; if a < 0 { return 0, &E{ErrX, a} }; return len(b), nil }`, "f", true,
		"let err : Option (String × Option (BitVec 64)) := (Go.errOfPlain st_1.2)"},
	{"comparison of two errors", `import "encoding"
func f(d, e encoding.BinaryMarshaler) bool { _, e1 := d.MarshalBinary(); _, e2 := e.MarshalBinary(); return e1 == e2 }`, "f", false, "comparison of errors is not supported"},
	{"marshalled bytes returned", `import "encoding"
func f(d encoding.BinaryMarshaler) []byte { b, _ := d.MarshalBinary(); return b }`, "f", false, "would alias memory of the element"},
	{"marshalled bytes appended to", `import "encoding"
func f(d encoding.BinaryMarshaler) int { b, _ := d.MarshalBinary(); b = append(b, 1); return len(b) }`, "f", false, "they may share memory with the element"},
	{"marshalled bytes written into", `import "encoding"
func f(d encoding.BinaryMarshaler) int { b, _ := d.MarshalBinary(); b[0] = 1; return len(b) }`, "f", false, "not a local slice created once by make"},
	{"range over marshalers", `import "encoding"
func f(ds []encoding.BinaryMarshaler) int { n := 0; for _, d := range ds { b, _ := d.MarshalBinary(); n += len(b) }; return n }`, "f", false, "range over []encoding.BinaryMarshaler is not supported"},
	{"marshaler slice as a value", `import "encoding"
func f(ds []encoding.BinaryMarshaler) int { x := ds[1:]; return len(x) }`, "f", false, "unsupported expression"},
	{"marshaler slice written", `import "encoding"
func f(ds []encoding.BinaryMarshaler) int { ds[0] = ds[1]; return len(ds) }`, "f", false, "such slices are read-only"},
	{"marshaler slice appended to", `import "encoding"
func f(ds []encoding.BinaryMarshaler) int { ds = append(ds, ds[0]); return len(ds) }`, "f", false, "append to"},
	{"marshaler as a result", `import "encoding"
func f(ds []encoding.BinaryMarshaler) encoding.BinaryMarshaler { return ds[0] }`, "f", false, "a result of type encoding.BinaryMarshaler is not supported"},
	{"marshaler compared", `import "encoding"
func f(d encoding.BinaryMarshaler) bool { return d == nil }`, "f", false, "operands of different types"},
	{"marshalers compared", `import "encoding"
func f(d, e encoding.BinaryMarshaler) bool { return d == e }`, "f", false, "unsupported operator"},
	{"MarshalBinary of a concrete type", `type X struct{}
func (X) MarshalBinary() ([]byte, error) { return nil, nil }
func f(x X) int { b, _ := x.MarshalBinary(); return len(b) }`, "f", false, "outside the translated subset"},
	{"another interface", `import "encoding"
func f(d encoding.TextMarshaler) int { b, _ := d.MarshalText(); return len(b) }`, "f", false, "outside the translated subset"},
	// stage 7.5: return f(…)
	{"return of a call with two results", `func g(xs []byte) (byte, bool) { return xs[0], true }
func f(xs []byte) (byte, bool) { return g(xs[1:]) }`, "g,f", true,
		"if !(decide (1 ≤ xs.length)) then Go.Flow.panic else\n  Go.Flow.bind (Go.call (g (xs.drop 1))) (fun (st_1 : BitVec 8 × Bool) =>\n  Go.Flow.done (st_1.1, st_1.2))"},
	{"return of a call that cannot panic", `func g(a uint) (uint, uint) { return a + 1, a + 2 }
func f(a uint) (uint, uint) { if a > 5 { return g(a - 5) }; return g(a) }`, "g,f", true,
		"if (BitVec.ult 5#64 a) then\n    let st_1 : BitVec 64 × BitVec 64 := (g (a - 5#64))\n    (st_1.1, st_1.2)\n  else\n    let st_2 : BitVec 64 × BitVec 64 := (g a)\n    (st_2.1, st_2.2)"},
	{"return of a method call", `import "encoding"
type T struct { n int }
func (t *T) leaf(d encoding.BinaryMarshaler) ([]byte, error) { b, err := d.MarshalBinary(); if err != nil { return nil, err }; return append([]byte{byte(t.n)}, b...), nil }
func (t *T) m(ds []encoding.BinaryMarshaler) ([]byte, error) { return t.leaf(ds[0]) }`, "T.leaf,T.m", true,
		"let st_1 : List (BitVec 8) × Option String := (T_leaf t_n (ds.getD 0 (([] : List (BitVec 8)), (none : Option String))))\n  Go.Flow.done (st_1.1, st_1.2))"},
	{"return of a call, error converted", `import "errors"
var ErrX = errors.New("x")
type E struct { err error; Off int }
func (e *E) Error() string { return "e" }
func g(a int) (int, error) { if a == 0 { return 0, ErrX }; return a, nil }
func f(a int) (int, error) { if a < 0 { return 0, &E{ErrX, a} }; return g(a) }`, "g,f", true, "(st_1.1, (Go.errOfPlain st_1.2))"},
	{"return of a call that writes into a parameter", `func g(dst []int8) (int, int) { dst[0] = 1; return 1, 2 }
func f(dst []int8) (int, int) { return g(dst) }`, "g,f", false, "only supported for a function that does not write into a parameter or a field"},
	{"return of a call that is not translated", `func g(a int) (int, int) { return a, a }
func f(a int) (int, int) { return g(a) }`, "f", false, "return arity"},
	// stage 7.6: recursion
	{"recursion", `func f(n uint) uint { if n == 0 { return 0 }; return f(n-1) + 2 }`, "f", true,
		"def f (fuel : Nat) (n : BitVec 64) : Option (BitVec 64) :=\n  match fuel with\n  | 0 => none\n  | fuel + 1 =>\n    Go.Flow.result (\n    if (n == 0#64) then\n      Go.Flow.done 0#64\n    else\n    Go.Flow.bind (Go.call (f fuel (n - 1#64))) (fun (st_1 : BitVec 64) =>\n    Go.Flow.done (st_1 + 2#64)))"},
	{"recursion, doc comment", `func f(n uint) uint { if n == 0 { return 0 }; return f(n-1) + 2 }`, "f", true, "none = run-time panic OR fuel exhausted"},
	{"recursive method with a field and a hash parameter", `import "crypto"
type T struct { hash crypto.Hash; n int }
func (t *T) m(xs []byte, d uint) []byte { if d > 0 { r := t.m(xs, d-1); return append([]byte{byte(t.n)}, r...) }; h := t.hash.New(); h.Write(xs); return h.Sum(nil) }`, "T.m", true,
		"def T_m (hash_sum : List (BitVec 8) → List (BitVec 8)) (fuel : Nat) (t_n : BitVec 64) (xs : List (BitVec 8)) (d : BitVec 64) : Option (List (BitVec 8)) :="},
	{"recursive method, the call of itself", `import "crypto"
type T struct { hash crypto.Hash; n int }
func (t *T) m(xs []byte, d uint) []byte { if d > 0 { r := t.m(xs, d-1); return append([]byte{byte(t.n)}, r...) }; h := t.hash.New(); h.Write(xs); return h.Sum(nil) }`, "T.m", true,
		"Go.Flow.bind (Go.call (T_m hash_sum fuel t_n xs (d - 1#64))) (fun (st_1 : List (BitVec 8)) =>"},
	{"recursion over a slice of marshalers", `import "encoding"
func f(ds []encoding.BinaryMarshaler) ([]byte, error) { if len(ds) == 0 { return nil, nil }; if len(ds) == 1 { b, err := ds[0].MarshalBinary(); if err != nil { return nil, err }; return append([]byte{0}, b...), nil }; l, err := f(ds[:1]); if err != nil { return nil, err }; r, err := f(ds[1:]); if err != nil { return nil, err }; return append(l, r...), nil }`, "f", true,
		"Go.Flow.bind (Go.call (f fuel (ds.take 1))) (fun (st_2 : List (BitVec 8) × Option String) =>"},
	{"recursion, capacity caveat", `import "encoding"
func f(ds []encoding.BinaryMarshaler) ([]byte, error) { if len(ds) == 0 { return nil, nil }; if len(ds) == 1 { b, err := ds[0].MarshalBinary(); if err != nil { return nil, err }; return append([]byte{0}, b...), nil }; l, err := f(ds[:1]); if err != nil { return nil, err }; r, err := f(ds[1:]); if err != nil { return nil, err }; return append(l, r...), nil }`, "f", true,
		"NOTE: it passes windows x[:hi] of `ds` to itself and slices that parameter with an upper bound"},
	{"recursion, no capacity caveat for suffix windows", `func f(xs []byte) int { if len(xs) == 0 { return 0 }; return f(xs[1:]) + 1 }`, "f", true,
		"none = run-time panic OR fuel exhausted (the translation says nothing about termination) -/\ndef f (fuel : Nat) (xs : List (BitVec 8)) : Option (BitVec 64) :="},
	{"return of a call of itself", `func f(xs []byte, n int) (int, bool) { if len(xs) == 0 { return n, true }; return f(xs[1:], n+1) }`, "f", true,
		"Go.Flow.bind (Go.call (f fuel (xs.drop 1) (n + 1#64))) (fun (st_1 : BitVec 64 × Bool) =>\n    Go.Flow.done (st_1.1, st_1.2))"},
	{"mutual recursion", `func g(n uint) uint { if n == 0 { return 0 }; return f(n-1) }
func f(n uint) uint { if n == 0 { return 1 }; return g(n-1) }`, "g,f", false, "mutual recursion (g → f → g) is not supported"},
	{"mutual recursion of methods", `type T struct { n int }
func (t *T) a(n uint) uint { if n == 0 { return 0 }; return t.b(n-1) }
func (t *T) b(n uint) uint { if n == 0 { return 1 }; return t.a(n-1) }`, "T.a,T.b", false, "mutual recursion (a → b → a) is not supported"},
	{"recursive function called from another function", `func f(n uint) uint { if n == 0 { return 0 }; return f(n-1) + 2 }
func h(n uint) uint { return f(n) + 1 }`, "f,h", false, "call of the recursive function f from another function is not supported"},
	{"recursive function called from another function as a statement", `func f(n uint) uint { if n == 0 { return 0 }; return f(n-1) + 2 }
func h(n uint) uint { x := f(n); return x + 1 }`, "f,h", false, "call of the recursive function f from another function is not supported"},
	{"recursive function writing into a parameter", `func f(dst []int8, n int) int { if n == 0 { return 0 }; dst[0] = 1; return f(dst[1:], n-1) }`, "f", false,
		"a recursive function that writes into a parameter or assigns a field of its receiver is not supported"},
	{"recursive method assigning a field", `type T struct { n int }
func (t *T) m(d uint) uint { if d == 0 { return 0 }; t.n++; return t.m(d-1) }`, "T.m", false,
		"a recursive function that writes into a parameter or assigns a field of its receiver is not supported"},
	{"recursion, variable called fuel", `func f(fuel uint) uint { if fuel == 0 { return 0 }; return f(fuel-1) + 2 }`, "f", false, "clashes with the recursion parameter"},
	{"recursion under ||", `func f(n uint) bool { return n == 0 || f(n-1) }`, "f", false, "evaluated conditionally"},
	// stage 8.1: uint32, []uint32, named slice types, value receivers of a named slice type
	{"uint32", `const hardened uint32 = 1 << 31
func f(a uint32, b uint64) uint32 { if a >= hardened { return a &^ hardened | uint32(b) }; return a }`, "f", true,
		"def f (a : BitVec 32) (b : BitVec 64) : BitVec 32 :=\n  if (BitVec.ule 2147483648#32 a) then\n    ((a &&& ~~~2147483648#32) ||| (BitVec.setWidth 32 b))"},
	{"uint32 conversions", `func f(a uint32, b byte) uint64 { return uint64(a>>3) + uint64(uint32(b)) + uint64(byte(a)) }`, "f", true,
		"(((BitVec.setWidth 64 (a >>> 3)) + (BitVec.setWidth 64 (BitVec.setWidth 32 b))) + (BitVec.setWidth 64 (BitVec.setWidth 8 a)))"},
	{"uint32, comparison is unsigned", `func f(a, b uint32) bool { return a < b }`, "f", true, "(BitVec.ult a b)"},
	{"uint32 mixed with uint64", `func f(a uint32, b uint64) uint64 { return a + b }`, "f", false, "mismatched types"},
	{"uint32 converted to int8 via int16", `func f(a uint32) int16 { return int16(a) }`, "f", false, "outside the translated subset"},
	{"uint32 from int8", `func f(a int8) uint32 { return uint32(a) }`, "f", false, "unsupported conversion"},
	{"uint32 slice built by append, named slice type", `type Path []uint32
func f(p Path, x uint32) Path { var r []uint32; for _, v := range p { r = append(r, v|x) }; if len(r) == 0 { return Path{} }; return r }`, "f", true,
		"def f (p : List (BitVec 32)) (x : BitVec 32) : List (BitVec 32) :=\n  let r : List (BitVec 32) := ([] : List (BitVec 32))\n  let r : List (BitVec 32) := List.foldl (fun (r : List (BitVec 32)) (v : BitVec 32) =>\n      (r ++ [(v ||| x)])) r p"},
	{"uint32 slice, checked index", `func f(xs []uint32, i int) uint32 { return xs[i] }`, "f", true, "Go.Flow.done (xs.getD i.toNat 0#32))"},
	{"named slice type returned as such", `type Path []uint32
func f(p Path) Path { return p }`, "f", false, "would alias a parameter"},
	{"value receiver of a named slice type", `type Path []uint32
func (p Path) Sum() uint32 { var s uint32; for _, v := range p { s += v }; return s }`, "Path.Sum", true,
		"the receiver `p` (a value of a named slice type) is the first parameter -/\ndef Path_Sum (p : List (BitVec 32)) : BitVec 32 :="},
	{"value receiver written into", `type Path []uint32
func (p Path) Set() int { p[0] = 1; return 0 }`, "Path.Set", false, "not a local slice created once by make"},
	{"value receiver returned", `type Path []uint32
func (p Path) Ret() Path { return p }`, "Path.Ret", false, "would alias a parameter"},
	{"method with a slice receiver called", `type Path []uint32
func (p Path) Len() int { return len(p) }
func f(p Path) int { return p.Len() }`, "Path.Len,f", false, "a method call is only supported on the pointer receiver"},
	{"method with a slice receiver called on a package variable", `type Path []uint32
func (p Path) Len() int { return len(p) }
var P = Path{1}
func f() int { return P.Len() }`, "Path.Len,f", false, "which has a value receiver of a slice type: not supported"},
	{"recursive method with a slice receiver", `type Path []uint32
func (p Path) Rec(n uint) int { if n == 0 { return 0 }; return p.Rec(n-1) }`, "Path.Rec", false, "a recursive method with a value receiver of a slice type is not supported"},
	{"value receiver of a struct type", `type T struct { a uint32 }
func (c T) m() uint32 { return c.a }`, "T.m", false, "must be `c *T`"},
	// stage 8.2: []string as the read-only result of a library call
	{"string slice: len, index, range with key and value", `import "strings"
func f(s string) int { m := strings.Split(s, "/"); n := len(m[0]); for i, key := range m { if key == m[i] { n += i } }; return n + len(m) }`, "f", true,
		"let m : List (List (BitVec 8)) := (Go.splitByte s 47#8)\n  if !(decide (0 < m.length)) then Go.Flow.panic else\n  let n : BitVec 64 := (BitVec.ofNat 64 (m.getD 0 ([] : List (BitVec 8))).length)\n  let n : BitVec 64 := List.foldl (fun (n : BitVec 64) (rk_1 : BitVec 64 × List (BitVec 8)) =>\n      let i : BitVec 64 := rk_1.1\n      let key : List (BitVec 8) := rk_1.2\n      (if (key == (m.getD i.toNat ([] : List (BitVec 8)))) then (n + i) else n)) n (Go.indexed m)"},
	{"string slice: variable index", `import "strings"
func f(s string, j int) string { m := strings.Split(s, ","); return m[j] }`, "f", true,
		"if !(Go.inRangeS j m.length) then Go.Flow.panic else\n  Go.Flow.done (m.getD j.toNat ([] : List (BitVec 8))))"},
	{"string slice: comparison of an element", `import "strings"
func f(s, key string) bool { m := strings.Split(s, "/"); return len(m) < 2 || m[0] != key }`, "f", true,
		"if !((BitVec.slt (BitVec.ofNat 64 m.length) 2#64) || (decide (0 < m.length))) then Go.Flow.panic else\n  Go.Flow.done ((BitVec.slt (BitVec.ofNat 64 m.length) 2#64) || ((m.getD 0 ([] : List (BitVec 8))) != key)))"},
	{"string slice: ranged over directly", `import "strings"
func f(s string) int { n := 0; for _, k := range strings.Split(s, ",") { n += len(k) }; for i := range strings.Split(s, ";") { n += i }; return n }`, "f", true,
		"(n + (BitVec.ofNat 64 k.length))) n (Go.splitByte s 44#8)\n  List.foldl (fun (n : BitVec 64) (i : BitVec 64) =>\n      (n + i)) n ((List.range (Go.splitByte s 59#8).length).map (BitVec.ofNat 64))"},
	{"string slice: return in a loop with key and value", `import "strings"
func f(s string) int { for i, key := range strings.Split(s, "/") { if key == "" { return i } }; return -1 }`, "f", true,
		"Go.Flow.bind (Go.forIn (Go.indexed (Go.splitByte s 47#8)) () (fun (_ : Unit) (rk_1 : BitVec 64 × List (BitVec 8)) =>\n      let i : BitVec 64 := rk_1.1\n      let key : List (BitVec 8) := rk_1.2"},
	{"string slice as a result", `import "strings"
func f(s string) []string { return strings.Split(s, "/") }`, "f", false, "a result of type []string is not supported"},
	{"string slice as a parameter", `func f(m []string) int { return len(m) }`, "f", false, "a parameter of type []string is not supported"},
	{"string slice written", `import "strings"
func f(s string) int { m := strings.Split(s, "/"); m[0] = "x"; return len(m) }`, "f", false, "index assignment to a []string: such slices are read-only"},
	{"string slice appended to", `import "strings"
func f(s string) int { m := strings.Split(s, "/"); m = append(m, "x"); return len(m) }`, "f", false, "append to List (List (BitVec 8))"},
	{"string slice copied", `import "strings"
func f(s string) int { m := strings.Split(s, "/"); k := m; return len(k) }`, "f", false, "would alias"},
	{"string slice sliced", `import "strings"
func f(s string) int { m := strings.Split(s, "/"); return len(m[1:]) }`, "f", false, "unsupported expression"},
	{"string slice cut", `import "strings"
func f(s string) int { m := strings.Split(s, "/"); m = m[:1]; return len(m) }`, "f", false, "reslicing a variable of type []string is not supported"},
	{"string slice declared", `func f(s string) int { var m []string; return len(m) }`, "f", false, "a variable without an initial value of type []string is not supported"},
	{"string slice literal", `func f(s string) int { m := []string{s}; return len(m) }`, "f", false, "unsupported composite literal"},
	{"byte of an element of a string slice", `import "strings"
func f(s string) byte { m := strings.Split(s, "/"); return m[0][0] }`, "f", false, "only T[i][j] on a package-level array of arrays"},
	{"range with key and value, range variable assigned", `import "strings"
func f(s string) int { n := 0; for i, key := range strings.Split(s, "/") { key = s; n += i + len(key) }; return n }`, "f", false, "the loop body assigns the range variable key"},
	{"range with key and value over bytes", `func f(xs []byte) int { n := 0; for i, v := range xs { n += i + int(v) }; return n }`, "f", false, "range with both key and value is not supported"},
	// stage 8.3: library functions defined in GoBits.lean
	{"strings.TrimPrefix, assigned to a string parameter", `import "strings"
func f(s, p string) string { if s == "" || s == "m" { return p }; s = strings.TrimPrefix(s, "m/"); return strings.TrimPrefix(s, p) }`, "f", true,
		"if ((s == ([] : List (BitVec 8))) || (s == ([109#8] : List (BitVec 8)))) then\n    p\n  else\n    let s : List (BitVec 8) := (Go.trimPrefix s ([109#8, 47#8] : List (BitVec 8)))\n    (Go.trimPrefix s p)"},
	{"strings.TrimSuffix", `import "strings"
func f(s string) string { return strings.TrimSuffix(s, "m/") }`, "f", true, "(Go.trimSuffix s ([109#8, 47#8] : List (BitVec 8)))"}, // rejected before stage 9
	{"strings.TrimLeft", `import "strings"
func f(s string) string { return strings.TrimLeft(s, "m/") }`, "f", false, "unsupported call"},
	{"strings.TrimPrefix of bytes", `import "strings"
func f(s string, b byte) string { return strings.TrimPrefix(s, b) }`, "f", false, "cannot use b"},
	{"strings.Split, variable separator", `import "strings"
func f(s, sep string) int { return len(strings.Split(s, sep)) }`, "f", false, "only supported with a constant separator that is a single byte"},
	{"strings.Split, two-byte separator", `import "strings"
func f(s string) int { return len(strings.Split(s, "ab")) }`, "f", false, "only supported with a constant separator that is a single byte"},
	{"strings.Split, empty separator", `import "strings"
func f(s string) int { return len(strings.Split(s, "")) }`, "f", false, "only supported with a constant separator that is a single byte"},
	{"strings.Split, non-ASCII separator", `import "strings"
func f(s string) int { return len(strings.Split(s, "é")) }`, "f", false, "only supported with a constant separator that is a single byte"},
	{"fmt.Sprintf %d", `import ("fmt"; "strings")
func f(a uint32, b byte, c uint64, d uint) string { var sb strings.Builder; sb.WriteString(fmt.Sprintf("/%d", a&^3)); sb.WriteString(fmt.Sprintf("%d%%", b)); sb.WriteString(fmt.Sprintf("<%d>", c+uint64(d))); return sb.String() }`, "f", true,
		"let sb : List (BitVec 8) := (sb ++ (([47#8] : List (BitVec 8)) ++ Go.decimal (a &&& ~~~3#32).toNat))\n  let sb : List (BitVec 8) := (sb ++ (Go.decimal b.toNat ++ ([37#8] : List (BitVec 8))))\n  (sb ++ (([60#8] : List (BitVec 8)) ++ Go.decimal (c + d).toNat ++ ([62#8] : List (BitVec 8))))"},
	{"fmt.Sprintf %d alone", `import "fmt"
func f(d uint) string { return fmt.Sprintf("%d", d) }`, "f", true, "(Go.decimal d.toNat)"},
	{"fmt.Sprintf of a signed integer", `import "fmt"
func f(a int) string { return fmt.Sprintf("%d", a) }`, "f", false, "(the argument has type int)"},
	{"fmt.Sprintf of a constant", `import "fmt"
func f() string { return fmt.Sprintf("%d", 5) }`, "f", false, "(the argument has type int)"},
	{"fmt.Sprintf of a named type", `import "fmt"
type U uint32
func f(a U) string { return fmt.Sprintf("%d", a) }`, "f", false, "which could implement fmt.Formatter"},
	{"fmt.Sprintf %x", `import "fmt"
func f(a uint32) string { return fmt.Sprintf("%x", a) }`, "f", false, "unsupported verb in \"%x\""},
	{"fmt.Sprintf with a width", `import "fmt"
func f(a uint32) string { return fmt.Sprintf("%05d", a) }`, "f", false, "unsupported verb in \"%05d\""},
	{"fmt.Sprintf with two verbs", `import "fmt"
func f(a uint32) string { return fmt.Sprintf("%d %d", a, a) }`, "f", false, "fmt.Sprintf is only supported as fmt.Sprintf(f, x)"},
	{"fmt.Sprintf without a verb", `import "fmt"
func f(a uint32) string { return fmt.Sprintf("abc", a) }`, "f", false, "no verb in \"abc\""},
	{"fmt.Sprintf with a variable format", `import "fmt"
func f(a uint32, s string) string { return fmt.Sprintf(s, a) }`, "f", false, "fmt.Sprintf is only supported as fmt.Sprintf(f, x)"},
	// stage 8.4: library functions as parameters: several results, methods of package-level variables
	{"strconv.ParseUint as a parameter", `import "strconv"
func g(s string) (uint32, error) { n, err := strconv.ParseUint(s, 10, 31); if err != nil { return 0, err }; return uint32(n), nil }
func f(s string) (uint32, error) { v, err := g(s); if err != nil { return 1, err }; return v + 1, nil }`, "g,f", true,
		"def g (strconv_ParseUint : List (BitVec 8) → BitVec 64 → BitVec 64 → (BitVec 64 × Option String)) (s : List (BitVec 8)) : BitVec 32 × Option String :=\n  let st_1 : BitVec 64 × Option String := (strconv_ParseUint s 10#64 31#64)\n  let n : BitVec 64 := st_1.1\n  let err : Option String := st_1.2\n  if (err).isSome then\n    (0#32, err)\n  else\n    ((BitVec.setWidth 32 n), (none : Option String))"},
	{"strconv.ParseUint, passed on by the caller", `import "strconv"
func g(s string) (uint32, error) { n, err := strconv.ParseUint(s, 10, 31); if err != nil { return 0, err }; return uint32(n), nil }
func f(s string) (uint32, error) { v, err := g(s); if err != nil { return 1, err }; return v + 1, nil }`, "g,f", true,
		"def f (strconv_ParseUint : List (BitVec 8) → BitVec 64 → BitVec 64 → (BitVec 64 × Option String)) (s : List (BitVec 8)) : BitVec 32 × Option String :=\n  let st_1 : BitVec 32 × Option String := (g strconv_ParseUint s)"},
	{"strconv.ParseUint, variable base, error ignored", `import "strconv"
func f(s string, b int) uint64 { n, _ := strconv.ParseUint(s, b, 64); return n }`, "f", true, "let st_1 : BitVec 64 × Option String := (strconv_ParseUint s b 64#64)\n  st_1.1"},
	{"strconv.ParseUint in a function with positioned errors", `import ("strconv"; "errors")
var ErrX = errors.New("x")
type E struct { err error; Off int }
func (e *E) Error() string { return "e" }
func f(s string) (uint64, error) { n, err := strconv.ParseUint(s, 10, 64); if err != nil { return 0, err }; if n == 0 { return 0, &E{ErrX, 1} }; return n, nil }`, "f", true,
		"let err : Option (String × Option (BitVec 64)) := (Go.errOfPlain st_1.2)"},
	{"strconv.ParseUint returned directly", `import "strconv"
func f(s string) (uint64, error) { return strconv.ParseUint(s, 10, 64) }`, "f", false, "return arity"},
	{"strconv.ParseUint with a byte base", `import "strconv"
func f(s string, b byte) uint64 { n, _ := strconv.ParseUint(s, int(b), 64); return n }`, "f", true, "(strconv_ParseUint s (BitVec.setWidth 64 b) 64#64)"},
	{"strconv.Atoi", `import "strconv"
func f(s string) int { n, err := strconv.Atoi(s); if err != nil { return 0 }; return n }`, "f", false, "unsupported call"},
	{"method of a package-level regexp", `import "regexp"
var re = regexp.MustCompile("a+")
func f(s string) int { m := re.FindStringSubmatch(s); if len(m) == 0 { return 0 }; return len(m[0]) }`, "f", true,
		"def f (re_FindStringSubmatch : List (BitVec 8) → List (List (BitVec 8))) (s : List (BitVec 8)) : Option (BitVec 64) :=\n  Go.Flow.result (\n  let m : List (List (BitVec 8)) := (re_FindStringSubmatch s)"},
	{"method of a package-level regexp, doc comment", `import "regexp"
var re = regexp.MustCompile("a+")
func f(s string) int { return len(re.FindStringSubmatch(s)) }`, "f", true,
		"PARAMETER re_FindStringSubmatch: the method FindStringSubmatch of the package-level variable `re` (a *regexp.Regexp initialised by regexp.MustCompile and never assigned)"},
	{"package-level regexp reassigned", `import "regexp"
var re = regexp.MustCompile("a+")
func g() { re = nil }
func f(s string) int { return len(re.FindStringSubmatch(s)) }`, "f", false, "used other than as the receiver of a method call"},
	{"package-level regexp without initialiser", `import "regexp"
var re *regexp.Regexp
func f(s string) int { return len(re.FindStringSubmatch(s)) }`, "f", false, "(the variable re is not initialised that way)"},
	{"package-level regexp from a variable pattern", `import "regexp"
var pat = "a+"
var re = regexp.MustCompile(pat)
func f(s string) int { return len(re.FindStringSubmatch(s)) }`, "f", false, "(the variable re is initialised with a non-constant argument)"},
	{"package-level regexp made by another constructor", `import "regexp"
var re = regexp.MustCompilePOSIX("a+")
func f(s string) int { return len(re.FindStringSubmatch(s)) }`, "f", false, "(the variable re is not initialised that way)"},
	{"package-level regexp modified by another method", `import "regexp"
var re = regexp.MustCompile("a+")
func g() { re.Longest() }
func f(s string) int { return len(re.FindStringSubmatch(s)) }`, "f", false, "it is not known to leave the variable unchanged"},
	{"regexp parameter", `import "regexp"
func f(re *regexp.Regexp, s string) int { return len(re.FindStringSubmatch(s)) }`, "f", false, "outside the translated subset"},
	{"local regexp", `import "regexp"
func f(s string) int { re := regexp.MustCompile("a+"); return len(re.FindStringSubmatch(s)) }`, "f", false, "outside the translated subset"},
	{"another method of a regexp", `import "regexp"
var re = regexp.MustCompile("a+")
func f(s string) bool { return re.MatchString(s) }`, "f", false, "(a method of a library type)"},
	{"variable called like the parameter for a method", `import "regexp"
var re = regexp.MustCompile("a+")
func f(s string, re_FindStringSubmatch int) int { return len(re.FindStringSubmatch(s)) + re_FindStringSubmatch }`, "f", false, "clashes with the parameter that stands for re.FindStringSubmatch"},
	{"variable called like a Lean keyword", `func f(matches int) int { matches++; return matches }`, "f", true, "def f (matches_2 : BitVec 64) : BitVec 64 :=\n  (matches_2 + 1#64)"},
	// stage 8.5: fmt.Errorf with %w of a local error variable
	{"Errorf wrapping a local error", `import ("fmt"; "strconv")
func f(s string) (uint64, error) { n, err := strconv.ParseUint(s, 10, 64); if err != nil { return 0, fmt.Errorf("bad %q: %w", s, err) }; return n, nil }`, "f", true,
		"if (err).isSome then\n    (0#64, (Go.errWrap err))"},
	{"Errorf wrapping a local error in a function with positioned errors", `import ("fmt"; "strconv"; "errors")
var ErrX = errors.New("x")
type E struct { err error; Off int }
func (e *E) Error() string { return "e" }
func f(s string) (uint64, error) { n, err := strconv.ParseUint(s, 10, 64); if err != nil { return 0, fmt.Errorf("bad: %w", err) }; if n == 0 { return 0, &E{ErrX, 1} }; return n, nil }`, "f", false,
		"only supported in a function whose errors are all plain"},
	{"Errorf wrapping a string", `import "fmt"
func f(s string) error { return fmt.Errorf("bad: %w", s) }`, "f", false, "must be a package-level error variable or a local error variable"},
	{"Errorf wrapping a new error", `import ("fmt"; "errors")
func f(s string) error { return fmt.Errorf("bad: %w", errors.New(s)) }`, "f", false, "must be a package-level error variable or a local error variable"},
	// stage 8.6: the three functions of pkg/bip32path together
	{"bip32path", `import ("errors"; "fmt"; "regexp"; "strconv"; "strings")
var ErrInvalidPathFormat = errors.New("invalid path format")
const hardened uint32 = 1 << 31
var keyReg = regexp.MustCompile("(\\d+)([H']?)")
type Path []uint32
func parseUint31(s string) (uint32, error) { n, err := strconv.ParseUint(s, 10, 31); if err != nil { return 0, err }; return uint32(n), nil }
func ParsePath(s string) (Path, error) {
	if s == "" || s == "m" { return Path{}, nil }
	s = strings.TrimPrefix(s, "m/")
	var path []uint32
	for i, key := range strings.Split(s, "/") {
		matches := keyReg.FindStringSubmatch(key)
		if len(matches) < 2 || matches[0] != key { return nil, fmt.Errorf("invalid key %d: %w", i, ErrInvalidPathFormat) }
		v, err := parseUint31(matches[1])
		if err != nil { return nil, fmt.Errorf("invalid key %d: %w", i, err) }
		if len(matches) > 2 && len(matches[2]) > 0 { v |= hardened }
		path = append(path, v)
	}
	return path, nil
}`, "parseUint31,ParsePath", true,
		"def ParsePath (keyReg_FindStringSubmatch : List (BitVec 8) → List (List (BitVec 8))) (strconv_ParseUint : List (BitVec 8) → BitVec 64 → BitVec 64 → (BitVec 64 × Option String)) (s : List (BitVec 8)) : Option (List (BitVec 32) × Option String) :="},
	// stage 9.1: library functions that are defined, string concatenation, named string types
	{"strings.HasPrefix", `import "strings"
func f(s string) bool { return !strings.HasPrefix(s, "ab") }`, "f", true, "(!(Go.hasPrefix s ([97#8, 98#8] : List (BitVec 8))))"},
	{"strings.HasSuffix", `import "strings"
func f(s, p string) bool { return strings.HasSuffix(s[1:], p) }`, "f", true, "if !(decide (1 ≤ s.length)) then Go.Flow.panic else\n  Go.Flow.done (Go.hasSuffix (s.drop 1) p)"},
	{"strings.Contains", `import "strings"
func f(s string) bool { return strings.Contains(s, "ab") }`, "f", false, "unsupported call"},
	{"bytes.HasPrefix", `import "bytes"
func f(s, p []byte) bool { return bytes.HasPrefix(s, p) }`, "f", false, "unsupported call"},
	{"bytes.Equal", `import "bytes"
func f(a, b []byte, n int) bool { return bytes.Equal(a, b[:n]) }`, "f", true, "if !(Go.sliceOK 0#64 n b.length) then Go.Flow.panic else\n  Go.Flow.done (Go.bytesEqual a (b.take n.toNat))"},
	{"bytes.Equal with nil", `import "bytes"
func f(a []byte) bool { return bytes.Equal(a, nil) }`, "f", true, "(Go.bytesEqual a ([] : List (BitVec 8)))"},
	{"bytes.Compare", `import "bytes"
func f(a, b []byte) int { return bytes.Compare(a, b) }`, "f", false, "unsupported call"},
	{"bytes.Equal of int8 slices", `import "bytes"
func f(a []byte, b []int8) bool { return bytes.Equal(a, b) }`, "f", false, "cannot use b"},
	{"string concatenation", `func f(a, b string) string { return a + "-" + b }`, "f", true, "((a ++ ([45#8] : List (BitVec 8))) ++ b)"},
	{"string +=", `func f(a, b string) string { s := a; s += b; return s }`, "f", true, "let s : List (BitVec 8) := a\n  (s ++ b)"},
	{"string comparison <", `func f(a, b string) bool { return a < b }`, "f", false, "unsupported operator <"},
	{"concatenation of byte slices", `func f(a, b []byte) []byte { return a + b }`, "f", false, "operator + not defined"},
	{"named string type", `type T string
const P = T("TR")
func f(s string, t T) T { return P + T(s) + t }`, "f", true, "((([84#8, 82#8] : List (BitVec 8)) ++ s) ++ t)"},
	{"named string type to string", `type T string
func g(s string) int { return len(s) }
func f(t T) int { return g(string(t)) }`, "g,f", true, "(g t)"},
	{"string of a byte slice", `func f(b []byte) string { return string(b) }`, "f", false, "would alias the backing array"},
	{"string of a made byte slice", `func f(n int) string { return string(make([]byte, n)) }`, "f", false, "unsupported conversion"},
	{"string of an integer", `func f(b int) string { return string(rune(b)) }`, "f", false, "unsupported conversion"},
	// stage 9.2: blake2b.Sum256 as a parameter, its [32]byte result as a local
	{"blake2b.Sum256 as a parameter", `import "golang.org/x/crypto/blake2b"
func f(b []byte) byte { h := blake2b.Sum256(b); return h[31] }`, "f", true,
		"def f (blake2b_Sum256 : List (BitVec 8) → List (BitVec 8)) (b : List (BitVec 8)) : Option (BitVec 8) :=\n  Go.Flow.result (\n  let h : List (BitVec 8) := (blake2b_Sum256 b)\n  if !(decide (31 < 32)) then Go.Flow.panic else\n  Go.Flow.done (h.getD 31 0#8))"},
	{"blake2b.Sum256, doc comment and caller", `import "golang.org/x/crypto/blake2b"
func g(b []byte) int { h := blake2b.Sum256(b[1:]); return len(h) }
func f(b []byte) int { return g(b) + 1 }`, "g,f", true,
		"ASSUMED total, pure and to return a list of length 32, see the header, stage 9; passed in by the caller; none = run-time panic -/\ndef f (blake2b_Sum256 : List (BitVec 8) → List (BitVec 8)) (b : List (BitVec 8)) : Option (BitVec 64) :=\n  Go.Flow.result (\n  Go.Flow.bind (Go.call (g blake2b_Sum256 b))"},
	{"blake2b.Sum256, len is the constant", `import "golang.org/x/crypto/blake2b"
func f(b []byte) int { h := blake2b.Sum256(b); return len(h) }`, "f", true, "let h : List (BitVec 8) := (blake2b_Sum256 b)\n  32#64"},
	{"blake2b.Sum512", `import "golang.org/x/crypto/blake2b"
func f(b []byte) byte { h := blake2b.Sum512(b); return h[0] }`, "f", false, "unsupported call"},
	{"sha256.Sum256", `import "crypto/sha256"
func f(b []byte) byte { h := sha256.Sum256(b); return h[0] }`, "f", true, "def f (sha256_Sum256 : List (BitVec 8) → List (BitVec 8)) (b : List (BitVec 8)) : Option (BitVec 8) :="}, // a PARAMETER since stage 12
	{"blake2b.New256", `import "golang.org/x/crypto/blake2b"
func f(b []byte) int { h, _ := blake2b.New256(nil); h.Write(b); return h.Size() }`, "f", false, "unsupported call blake2b.New256(nil)"},
	{"variable called like the parameter for blake2b.Sum256", `import "golang.org/x/crypto/blake2b"
func f(b []byte, blake2b_Sum256 int) int { h := blake2b.Sum256(b); return len(h) + blake2b_Sum256 }`, "f", false, "clashes with the parameter that stands for blake2b.Sum256"},
	// stage 9.3: arrays as values
	{"window of an array local, bound checked against N", `import "golang.org/x/crypto/blake2b"
func g(b []byte) int { return len(b) }
func f(b []byte, n int) int { h := blake2b.Sum256(b); return g(h[:4]) + g(h[:n]) + g(h[n:]) + g(h[2:n]) }`, "g,f", true,
		"if !(Go.sliceOK 0#64 4#64 32) then Go.Flow.panic else\n  if !(Go.sliceOK 0#64 n 32) then Go.Flow.panic else\n  if !(Go.sliceFromS n 32) then Go.Flow.panic else\n  if !(Go.sliceOK 2#64 n 32) then Go.Flow.panic else\n  Go.Flow.done ((((g (h.take 4)) + (g (h.take n.toNat))) + (g (h.drop n.toNat))) + (g ((h.drop 2).take (n.toNat - 2))))"},
	{"window of a zero-valued array local", `func g(b []byte) int { return len(b) }
func f(n int) int { var a [4]byte; return g(a[:n]) }`, "g,f", true, "if !(Go.sliceOK 0#64 n 4) then Go.Flow.panic else"},
	{"window of an array field keeps the check against its list", `type T struct { a [4]byte }
func g(b []byte) int { return len(b) }
func (c *T) f(n int) int { return g(c.a[:n]) }`, "g,T.f", true, "if !(Go.sliceOK 0#64 n c_a.length) then Go.Flow.panic else"},
	{"array slice as a value", `import "golang.org/x/crypto/blake2b"
func f(b []byte) []byte { h := blake2b.Sum256(b); return h[:4] }`, "f", false, "returning a slice expression"},
	{"array slice bound to a variable", `import "golang.org/x/crypto/blake2b"
func f(b []byte) int { h := blake2b.Sum256(b); x := h[:4]; return len(x) }`, "f", false, "unsupported expression h[:4]"},
	{"array parameter", `func f(a [4]byte, i int) byte { return a[i] + a[0] }`, "f", true,
		"ASSUMPTION (not checked here): the array parameter `a` (a [4]byte passed by value, read-only here) is a list of length 4; none = run-time panic -/\ndef f (a : List (BitVec 8)) (i : BitVec 64) : Option (BitVec 8) :=\n  Go.Flow.result (\n  if !(Go.inRangeS i 4) then Go.Flow.panic else\n  if !(decide (0 < 4)) then Go.Flow.panic else"},
	{"array parameter, range and len", `func f(a [4]uint) uint { var s uint; for _, v := range a { s += v }; return s + uint(len(a)) }`, "f", true, "s a\n  (s + 4#64)"},
	{"array parameter, window as an argument", `func g(b []byte) int { return len(b) }
func f(a [4]byte, n int) int { return g(a[:]) + g(a[n:]) }`, "g,f", true, "if !(Go.sliceFromS n 4) then Go.Flow.panic else\n  Go.Flow.done ((g a) + (g (a.drop n.toNat)))"},
	{"array parameter passed on", `func g(a [4]byte) byte { return a[1] }
func f(x []byte) byte { var a [4]byte; copy(a[:], x); return g(a) }`, "g,f", true, "let a : List (BitVec 8) := (Go.copy a x)\n  Go.Flow.bind (Go.call (g a)) (fun (st_1 : BitVec 8) =>"},
	{"array parameter written", `func f(a [4]byte) byte { a[0] = 1; return a[0] }`, "f", false, "the array parameter `a` is written in the function"},
	{"array parameter written, !disjoint", `func f(a [4]byte) byte { a[0] = 1; return a[0] }`, "f!disjoint", false, "the array parameter `a` is written in the function"},
	{"array parameter assigned", `func f(a, b [4]byte) byte { a = b; return a[0] }`, "f", false, "the array parameter `a` is written in the function"},
	{"array parameter copied into", `func f(a [4]byte, x []byte) byte { copy(a[:], x); return a[0] }`, "f", false, "the array parameter `a` is written in the function"},
	{"array parameter returned as a slice", `func f(a [4]byte) []byte { return a[:] }`, "f", false, "returning a slice expression"},
	{"array parameter passed to a callee that writes", `func g(dst []byte) { dst[0] = 1 }
func f(a [4]byte) byte { g(a[:]); return a[0] }`, "g,f", false, "the array parameter `a` is written in the function"},
	{"array of strings as a parameter", `func f(a [2]string) int { return len(a[0]) }`, "f", false, "outside the translated subset"},
	{"array of arrays as a parameter", `func f(a [2][2]byte) byte { return a[0][0] }`, "f", false, "outside the translated subset"},
	{"address of an array parameter", `func g(p *[4]byte) byte { return p[0] }
func f(a [4]byte) byte { return g(&a) }`, "g,f", false, "`&` is only supported in"},
	{"append to the full slice of an array parameter", `import "golang.org/x/crypto/blake2b"
func f(a [32]byte) []byte { h := blake2b.Sum256(a[:]); return append(a[:], h[:4]...) }`, "f", true,
		"let h : List (BitVec 8) := (blake2b_Sum256 a)\n  if !(Go.sliceOK 0#64 4#64 32) then Go.Flow.panic else\n  Go.Flow.done (a ++ (h.take 4))"},
	{"append of elements to the full slice of an array local", `func f(x byte) []byte { var a [2]byte; r := append(a[:], x, 1); r = append(r, 2); return r }`, "f", true, "let r : List (BitVec 8) := (a ++ [x, 1#8])\n  (r ++ [2#8])"},
	{"append to a window of an array", `func f(a [4]byte, x []byte) []byte { return append(a[:2], x...) }`, "f", false, "only the full slice `a[:]` is supported as the first argument of append"},
	{"append to the slice of an array that is written", `func f(x []byte) []byte { var a [4]byte; a[0] = 1; return append(a[:], x...) }`, "f", false, "the array `a` is written in this function"},
	{"append to the slice of an array that is copied into", `func f(x []byte) []byte { var a [4]byte; r := append(a[:], x...); copy(a[:], x); return r }`, "f", false, "the array `a` is written in this function"},
	{"append to the slice of an array pointer", `func f(p *[4]byte, x []byte) []byte { return append(p[:], x...) }`, "f", false, "unsupported expression p[:]"},
	{"append to a window of a slice", `func f(x []byte) []byte { r := make([]byte, 4); return append(r[:2], x...) }`, "f", false, "unsupported expression r[:2]"},
	{"append with a window as the spread argument", `func f(x []byte, n int) []byte { r := []byte{1}; r = append(r, x[n:]...); return r }`, "f", true, "if !(Go.sliceFromS n x.length) then Go.Flow.panic else\n  let r : List (BitVec 8) := (r ++ (x.drop n.toNat))"},
	{"named results", `import "errors"
var ErrX = errors.New("x")
func f(x []byte) (a [4]byte, err error) { if len(x) != 4 { return a, ErrX }; copy(a[:], x); return a, nil }`, "f", true,
		"the named results `a`, `err` start with the zero value of their type -/\ndef f (x : List (BitVec 8)) : List (BitVec 8) × Option String :=\n  let a : List (BitVec 8) := (List.replicate 4 0#8)\n  let err : Option String := none\n  if ((BitVec.ofNat 64 x.length) != 4#64) then\n    (a, (some \"ErrX\"))\n  else\n    let a : List (BitVec 8) := (Go.copy a x)\n    (a, (none : Option String))"},
	{"named results, scalars and a slice", `func f(x int) (n int, ok bool, r []byte, s string) { if x > 0 { n = x; ok = true; r = append(r, 1) }; return n, ok, r, s }`, "f", true,
		"let n : BitVec 64 := 0#64\n  let ok : Bool := false\n  let r : List (BitVec 8) := ([] : List (BitVec 8))\n  let s : List (BitVec 8) := ([] : List (BitVec 8))"},
	{"named result assigned by a call", `import "errors"
var ErrX = errors.New("x")
func g(x []byte) (byte, error) { if len(x) == 0 { return 0, ErrX }; return x[0], nil }
func f(x []byte) (n int, err error) { b, err := g(x); if err != nil { return n, err }; n = int(b); return n, nil }`, "g,f", true,
		"let n : BitVec 64 := 0#64\n  let err : Option String := none\n  Go.Flow.bind (Go.call (g x)) (fun (st_1 : BitVec 8 × Option String) =>\n  let b : BitVec 8 := st_1.1\n  let err : Option String := st_1.2"},
	{"bare return", `func f(x int) (n int) { n = x + 1; return }`, "f", false, "a bare return in a function with named results is not supported (write `return n`)"},
	{"blank named result", `func f(x int) (_ int, ok bool) { return x, true }`, "f", false, "a blank named result is not supported"},
	{"named result of an unsupported type", `func f(x int) (m map[int]int) { return nil }`, "f", false, "outside the translated subset"},
	{"named result called like a Lean keyword", `func f(x int) (at int) { return x }`, "f", false, "clashes with a name used by the generated Lean text"},
	// stage 9.4: fmt.Errorf without %w
	{"Errorf without %w and without operands", `import "fmt"
func f(a int) error { if a > 0 { return fmt.Errorf("too \"big\"") }; return nil }`, "f", true, `(some "fmt.Errorf(\"too \\\"big\\\"\")")`},
	{"Errorf without %w, operands are evaluated", `import "fmt"
func f(xs []byte, i int) error { return fmt.Errorf("bad byte %d of '%s'", xs[i], "q") }`, "f", true,
		"if !(Go.inRangeS i xs.length) then Go.Flow.panic else\n  Go.Flow.done (some \"fmt.Errorf(\\\"bad byte %d of '%s'\\\")\")"},
	{"Errorf without %w in a function with positioned errors", `import ("fmt"; "errors")
var ErrX = errors.New("x")
type E struct { err error; Off int }
func (e *E) Error() string { return "e" }
func f(n int) error { if n == 0 { return &E{ErrX, 1} }; return fmt.Errorf("bad %d", n) }`, "f", true, `(some ("fmt.Errorf(\"bad %d\")", none))`},
	{"Errorf without %w as the wrapped error of a positioned error", `import ("fmt"; "errors")
var ErrX = errors.New("x")
type E struct { err error; Off int }
func (e *E) Error() string { return "e" }
func f(n int) error { if n == 0 { return &E{ErrX, 1} }; if n == 1 { return ErrX }; return &E{fmt.Errorf("bad %d", n), 2} }`, "f", false, "fmt.Errorf without %w as the wrapped error of &T{…} is not supported"},
	{"Errorf with a variable format", `import "fmt"
func f(s string) error { return fmt.Errorf(s) }`, "f", false, "fmt.Errorf with a non-constant format"},
	{"Errorf with more verbs than operands", `import "fmt"
func f(a int) error { return fmt.Errorf("bad %d %d", a) }`, "f", false, "more verbs than arguments"},
	{"Errorf with more operands than verbs", `import "fmt"
func f(a int) error { return fmt.Errorf("bad %d", a, a) }`, "f", false, "as many verbs as arguments are required"},
	{"errors.New in a function", `import "errors"
func f(a int) error { return errors.New("bad") }`, "f", false, "unsupported call"},
	// stage 9.5: constants and error variables of imported packages
	{"constants and errors of an imported package", `import "github.com/iotaledger/iota.go/consts"
func f(n int) (int, error) { if n != consts.HashTrytesSize { return n / consts.TritsPerTryte, consts.ErrInvalidTrytesLength }; return consts.HashTrytesSize / consts.TritsPerTryte, nil }`, "f", true,
		"if (n != 81#64) then\n    ((BitVec.sdiv n 3#64), (some \"consts.ErrInvalidTrytesLength\"))\n  else\n    (27#64, (none : Option String))"},
	{"typed constant of an imported package", `import "time"
func f(n int64) int64 { return n*int64(time.Second) + int64(time.Millisecond) }`, "f", true, "((n * 1000000000#64) + 1000000#64)"},
	{"byte-typed use of an imported constant", `import "github.com/iotaledger/iota.go/consts"
func f(b byte) byte { return b + consts.TritsPerTryte }`, "f", true, "(b + 3#8)"},
	{"variable of an imported package", `import "github.com/iotaledger/iota.go/consts"
func f() int { return len(consts.NullHashTrytes) }`, "f", false, "unsupported expression consts.NullHashTrytes"},
	{"division by an imported constant that is zero", `import "github.com/iotaledger/iota.go/consts"
func f(n int) int { return n / (consts.TritsPerTryte - 3) }`, "f", false, "division by zero"},
	{"error variable of a package outside the module and iota.go", `import "io"
func f(n int) error { if n > 0 { return io.EOF }; return nil }`, "f", false, "only packages of the module and of iota.go are supported"},
	// stage 9.6: pkg/migration and what it calls in iota.go, together
	{"migration", `import ("bytes"; "fmt"; "strings"
	"github.com/iotaledger/iota.go/consts"; "github.com/iotaledger/iota.go/trinary"; "golang.org/x/crypto/blake2b")
const (
	Ed25519AddressSize = blake2b.Size256
	ChecksumSize       = 4
	Prefix             = trinary.Trytes("TRANSFER")
	Suffix             = "9"
)
func isTrytes(trytes trinary.Trytes, length int) bool {
	if len(trytes) != length || len(trytes) == 0 { return false }
	for _, runeVal := range trytes { if (runeVal < 'A' || runeVal > 'Z') && runeVal != '9' { return false } }
	return true
}
func enc(src []byte) trinary.Trytes { var dst strings.Builder; for i := range src { dst.WriteByte('A' + src[i]&15); dst.WriteByte('A' + src[i]>>4) }; return dst.String() }
func dec(src trinary.Trytes) ([]byte, error) {
	dst := make([]byte, len(src)/2)
	for i := range dst { dst[i] = (src[2*i] - 'A') | (src[2*i+1]-'A')<<4 }
	if len(src)%2 != 0 { return nil, consts.ErrInvalidTrytesLength }
	return dst, nil
}
func Encode(addr [Ed25519AddressSize]byte) trinary.Trytes {
	hash := blake2b.Sum256(addr[:])
	return Prefix + enc(append(addr[:], hash[:ChecksumSize]...)) + Suffix
}
func Decode(trytes trinary.Hash) (addr [Ed25519AddressSize]byte, err error) {
	if !isTrytes(trytes, consts.HashTrytesSize) { return addr, consts.ErrInvalidTrytesLength }
	if !strings.HasPrefix(trytes, Prefix) { return addr, fmt.Errorf("expected prefix '%s'", Prefix) }
	trytes = strings.TrimPrefix(trytes, Prefix)
	if !strings.HasSuffix(trytes, Suffix) { return addr, fmt.Errorf("expected suffix '%s'", Suffix) }
	trytes = strings.TrimSuffix(trytes, Suffix)
	addrTrytesLen := 2 * Ed25519AddressSize * 3 / consts.TritsPerTryte
	addrBytes, err := dec(trytes[:addrTrytesLen])
	if err != nil { return addr, fmt.Errorf("invalid address encoding: %w", err) }
	checksumBytes, err := dec(trytes[addrTrytesLen:])
	if err != nil { return addr, fmt.Errorf("invalid checksum encoding: %w", err) }
	hash := blake2b.Sum256(addrBytes)
	if !bytes.Equal(checksumBytes, hash[:len(checksumBytes)]) { return addr, consts.ErrInvalidChecksum }
	copy(addr[:], addrBytes)
	return addr, nil
}`, "isTrytes,enc,dec,Encode,Decode", true,
		"def Decode (blake2b_Sum256 : List (BitVec 8) → List (BitVec 8)) (trytes : List (BitVec 8)) : Option (List (BitVec 8) × Option String) :=\n  Go.Flow.result (\n  let addr : List (BitVec 8) := (List.replicate 32 0#8)\n  let err : Option String := none\n"},
}

func TestLoopTranslator(t *testing.T) {
	tmp := t.TempDir()
	bin := filepath.Join(tmp, "extract")
	if out, err := exec.Command("go", "build", "-o", bin, ".").CombinedOutput(); err != nil {
		t.Fatalf("build: %v\n%s", err, out)
	}
	for i, c := range loopCases {
		dir := filepath.Join(tmp, "case", string(rune('a'+i/26))+string(rune('a'+i%26)))
		if err := os.MkdirAll(dir, 0o755); err != nil {
			t.Fatal(err)
		}
		if err := os.WriteFile(filepath.Join(dir, "x.go"), []byte("package x\n\n"+c.src+"\n"), 0o644); err != nil {
			t.Fatal(err)
		}
		out, err := exec.Command(bin, "-translate", dir+":"+c.fns).CombinedOutput()
		switch {
		case c.ok && err != nil:
			t.Errorf("%s: rejected: %s", c.name, out)
		case !c.ok && err == nil:
			t.Errorf("%s: accepted:\n%s", c.name, out)
		case !strings.Contains(string(out), c.want):
			t.Errorf("%s: output does not contain %q:\n%s", c.name, c.want, out)
		}
	}
}
