package main

import (
	"os"
	"os/exec"
	"path/filepath"
	"strings"
	"testing"
)

// Each case is a one-file package; want is a substring of the Lean text (ok) or of the
// error message (rejected).
var loopCases = []struct {
	name, src, fns string
	ok             bool
	want           string
}{
	{"sum", `func f(xs []byte) int { s := 0; for _, v := range xs { s += int(v) }; return s }`, "f", true,
		"List.foldl (fun (s : BitVec 64) (v : BitVec 8) =>"},
	{"two state variables", `func f(xs []byte) int { a := 0; b := 1; for _, v := range xs { a ^= int(v); b = b*3 + a }; return a - b }`, "f", true,
		"let st_1 : BitVec 64 × BitVec 64 := List.foldl (fun (st_1 : BitVec 64 × BitVec 64) (v : BitVec 8) =>"},
	{"if else", `func f(a int, b uint) uint { if a < 3 { b = b >> 2 } else { b <<= uint(a) }; return b }`, "f", true,
		"(if (BitVec.slt a 3#64) then (b >>> 2) else (b <<< a.toNat))"},
	{"if return", `func f(a int) int { if a >= 0 { return a }; return -a }`, "f", true, "if (BitVec.sle 0#64 a) then"},
	{"range int", `func f(n int) int { s := 0; for i := range n { s += i }; return s }`, "f", true, "(List.range n.toInt.toNat)"},
	{"make and set", `func f(xs []byte) []byte { r := make([]byte, len(xs)); for i := range r { r[i] = 7 }; return r }`, "f", true,
		"(r.set i.toNat 7#8)"},
	{"call", `func g(x byte) byte { return x &^ 3 }
func f(x byte) byte { return g(x) + 1 }`, "g,f", true, "((g x) + 1#8)"},
	{"negative constant", `func f(a int) int { return a * -5 }`, "f", true, "(BitVec.ofInt 64 (-5))"},

	{"return in loop", `func f(xs []byte) int { s := 0; for _, v := range xs { s++; if v == 0 { return 1 } }; return s }`, "f", false, "in tail position"},
	{"return in loop, direct", `func f(xs []byte) int { s := 0; for _, v := range xs { s += int(v); return s }; return s }`, "f", false, "return inside a loop"},
	{"goto", `func f(a int) int { goto L; L: return a }`, "f", false, "unsupported"},
	{"break", `func f(xs []byte) int { s := 0; for _, v := range xs { s += int(v); break }; return s }`, "f", false, "unsupported statement"},
	{"three-clause for", `func f(n int) int { s := 0; for i := 0; i < n; i++ { s += i }; return s }`, "f", false, "only `for … := range …` loops"},
	{"closure", `func f(a int) int { g := func() int { return a }; return g() }`, "f", false, "closures are not supported"},
	{"map", `func f(a int) int { m := map[int]int{}; m[a] = 1; return len(m) }`, "f", false, "outside the translated subset"},
	{"index assignment to parameter", `func f(xs []byte) []byte { for i := range xs { xs[i] = 0 }; return make([]byte, 1) }`, "f", false,
		"not a local slice created once by make"},
	{"index assignment to appended slice", `func f(xs []byte) []byte { r := append([]byte{1}, xs...); for i := range r { r[i] = 0 }; return r }`, "f", false,
		"not a local slice created once by make"},
	{"slice alias", `func f(xs []byte) []byte { r := make([]byte, 2); q := r; for i := range r { r[i] = 1 }; return q }`, "f", false, "would alias"},
	{"return parameter", `func f(xs []byte) []byte { return xs }`, "f", false, "would alias a parameter"},
	{"append to parameter", `func f(xs []byte) []byte { xs = append(xs, 1); return make([]byte, 1) }`, "f", false, "not a local variable"},
	{"two appends to one slice", `func f(x byte) int { a := []byte{x}; b := append(a, 1); c := append(a, 2); return len(b) + len(c) }`, "f", false,
		"used again later"},
	{"append in loop to outer slice", `func f(xs []byte) int { a := []byte{1}; n := 0; for _, v := range xs { b := append(a, v); n += len(b) }; return n }`, "f", false,
		"inside a loop that does not declare"},
	{"slice expression", `func f(xs []byte) int { return len(xs[1:]) }`, "f", false, "unsupported expression"},
	{"unchecked index", `func f(xs []byte, i int) byte { return xs[i] }`, "f", false, "cannot establish that the index"},
	{"index after reassignment", `func f(xs []byte) byte { var r byte; for i := range xs { i = i + 1; r = xs[i] }; return r }`, "f", false,
		"cannot establish that the index"},
	{"constant index", `func f(xs []byte) byte { return xs[0] }`, "f", false, "only variable[variable]"},
	{"modified package variable", `var tab = []int{1, 2}
func g() { tab[0] = 5 }
func f() int { s := 0; for i := range tab { s += tab[i] }; return s }`, "f", false, "may be modified or aliased"},
	{"escaping package variable", `var tab = []int{1, 2}
func g() []int { return tab }
func f() int { s := 0; for i := range tab { s += tab[i] }; return s }`, "f", false, "may be modified or aliased"},
	{"shadowing", `func f(a int) int { if a > 0 { a := 2; a++ }; return a }`, "f", false, "shadowing is not supported"},
	{"division", `func f(a int) int { return a / 3 }`, "f", false, "unsupported operator"},
	{"int32", `func f(a int32) int32 { return a }`, "f", false, "outside the translated subset"},
	{"range over string", `func f(s string) int { n := 0; for range s { n++ }; return n }`, "f", false, "range over string"},
	{"range by value over assigned slice", `func f(x byte) int { r := []byte{x}; s := 0; for _, v := range r { r = append(r, v); s += int(v) }; return s }`, "f", false,
		"over which it ranges by value"},
	{"callee not translated", `func g(x byte) byte { return x }
func f(x byte) byte { return g(x) }`, "f", false, "has not been translated"},
	{"pointer", `func f(a *int) int { return *a }`, "f", false, "outside the translated subset"},
	{"switch", `func f(a int) int { switch a { case 1: return 2 }; return a }`, "f", false, "unsupported statement"},
}

func TestLoopTranslator(t *testing.T) {
	tmp := t.TempDir()
	bin := filepath.Join(tmp, "extract")
	if out, err := exec.Command("go", "build", "-o", bin, ".").CombinedOutput(); err != nil {
		t.Fatalf("build: %v\n%s", err, out)
	}
	for i, c := range loopCases {
		dir := filepath.Join(tmp, "case", string(rune('a'+i/26))+string(rune('a'+i%26)))
		if err := os.MkdirAll(dir, 0o755); err != nil {
			t.Fatal(err)
		}
		if err := os.WriteFile(filepath.Join(dir, "x.go"), []byte("package x\n\n"+c.src+"\n"), 0o644); err != nil {
			t.Fatal(err)
		}
		out, err := exec.Command(bin, "-translate", dir+":"+c.fns).CombinedOutput()
		switch {
		case c.ok && err != nil:
			t.Errorf("%s: rejected: %s", c.name, out)
		case !c.ok && err == nil:
			t.Errorf("%s: accepted:\n%s", c.name, out)
		case !strings.Contains(string(out), c.want):
			t.Errorf("%s: output does not contain %q:\n%s", c.name, c.want, out)
		}
	}
}
