package main

// Panics, early returns, three-clause and condition loops, output buffers (see loops.go).

import (
	"fmt"
	"go/ast"
	"go/constant"
	"go/token"
	"go/types"
	"math/big"
	"regexp"
	"strings"
)

// flowHeaderText is appended to loopHeaderText in generated files whose translated code needs Iota/Model/GoBits.lean.
const flowHeaderText = `/-
Additional semantics (definitions in Iota/Model/GoBits.lean):
* A function that can panic at run time is translated with result type Option: none = panic.  The sources of
  panics that are modelled: an index expression a[i] that is not in range by construction (see above) is
  checked against the length (Go.inRangeS for an int index, Go.inRangeU for a uint index, decide (c < len) for a
  constant) before the statement that evaluates it; "_ = x[c]" is only that check; "x = x[k:]" checks k ≤ len;
  in such a function a non-constant int shift count is checked to be non-negative (Go.nonneg).
  NOT modelled: nil array pointers, negative make lengths, negative shift counts in functions with a plain result.
* The body of such a function, and of a function with a return inside a loop or a conditional that is not last, is a
  Go.Flow ρ σ (run st = reached the end with state st, done r = returned r, panic); Go.forIn is the loop over a
  list that stops at the first done / panic; Go.Flow.bind continues after a normal end; Go.Flow.result is the
  outcome of the function.  A statement "if c { …; return e }" is "if c then … else <what follows>".
* "for i := a; i < b; i++" (also <=, += k, and downwards > >= -- -= k) with i not assigned in the body and b not
  modified by it is a loop over Go.forUp / Go.forDown signed incl a b k, the list a, a±k, … computed in 64-bit
  arithmetic as long as the condition holds; forms in which i ± k could wrap around are rejected (under that side
  condition Iota/Tie/GoFlow.lean proves forUp_sound / forDown_sound: the list is what the header computes step by step).
* "for len(x) >= c { …; x = x[k:]; … }" (c, k ≥ 1 constants, the reslicing unconditional) is Go.whileFuel with
  fuel = the length of x on entry (never the reason the loop ends).  x = x[k:] on a slice parameter is List.drop.
* p *[N]T parameters that are only read by index ↦ List of the element carrier; indices are checked against N.
  The tie theorems assume the list has length N.  int8 ↦ BitVec 8 read as two's complement (conversions to
  64 bits sign-extend: BitVec.signExtend); []int8 ↦ List (BitVec 8), []uint ↦ List (BitVec 64).
* A slice parameter the function writes into by index (an output buffer; accepted only when its element type
  differs from that of every other slice / array parameter, so the arrays cannot overlap) stays a list; the result
  gets one more component: the content on return of the whole slice that was passed.  When such a parameter is
  also resliced, its variable is the pair (part already passed, current window).  (Where another parameter has the
  same element type the function is only translated under the ASSUMPTION, repeated in its doc comment, that the
  arrays do not overlap; cmd/extract then checks that every caller passes a freshly made buffer.)
* error ↦ Option String: none = nil, some "ErrX" = an error e with errors.Is(e, ErrX) for the package variable
  ErrX = errors.New(…) (fmt.Errorf with %w of ErrX is some "ErrX"; the message text is not modelled).
  In a function that builds its errors as &T{ErrX, off} (T a struct type of the package with an error field and an
  int field, *T an error): error ↦ Option (String × BitVec 64), some ("ErrX", off) = a *T with these two fields.
* math/bits.TrailingZeros(x) ↦ Go.trailingZeros64 x.
* x / c and x % c (c a non-zero constant, so no division panic): BitVec.sdiv / BitVec.srem on int, int8 (truncated
  towards zero, the remainder has the sign of x, as in Go), / and % on the unsigned types.
* "switch tag { … }" (integer tag, constant case values): the tag is evaluated once (let sw_k := tag); the clauses
  become consecutive conditionals in source order, the condition of a clause being "the tag selects this clause or
  a clause from which control falls through to it" ("default" = none of the case values); a clause that ends
  with "fallthrough" simply has no effect on the conditions of the others, so a chain
  "default: A; fallthrough; case 4: B; fallthrough; case 3: C" is
  "if tag ∉ {4,3} then A; if tag ∉ {4,3} ∨ tag = 4 then B; if tag ∉ {4,3} ∨ tag = 4 ∨ tag = 3 then C".
  "switch { case c1: A; case c2: B; default: D }" is "if c1 { A } else if c2 { B } else { D }" (a clause that ends
  with return is "if c1 { A }" followed by the others).
* "break" leaves the innermost loop: the body of a loop that contains one yields (true, state) after break and
  (false, state) at its normal end; the loop is then Go.whileFuelB / Go.forInB, which stop at the first true.
  As the last statement of a switch clause "break" does nothing; elsewhere inside a clause it is rejected.
-/
`

func (t *loopTr) takeChecks() []string {
	c := t.checks
	t.checks = nil
	return c
}

func (t *loopTr) addCheck(c string) {
	for _, d := range t.checks {
		if d == c {
			return
		}
	}
	t.checks = append(t.checks, c)
}

// guards renders the pending bounds checks: `if !c then panic else` in front of what follows.
func (t *loopTr) guards(at ast.Node, ind string, m blockMode) string {
	cs := t.takeChecks()
	if len(cs) != 0 && !m.flow {
		t.fail(at, "internal error: bounds check outside a flow block")
	}
	var b strings.Builder
	for _, c := range cs {
		fmt.Fprintf(&b, "%sif !%s then Go.Flow.panic else\n", ind, c)
	}
	return b.String()
}

// ---------------------------------------------------------------- output buffers

func (t *loopTr) isOutBuf(o types.Object) bool {
	for _, b := range t.outBufs {
		if b == o {
			return true
		}
	}
	return false
}

func elemType(ty types.Type) types.Type {
	switch u := ty.Underlying().(type) {
	case *types.Slice:
		return u.Elem()
	case *types.Pointer:
		if a, ok := u.Elem().Underlying().(*types.Array); ok {
			return a.Elem()
		}
	}
	return nil
}

// elemTypeOrArray is elemType extended to array types (fields of the receiver).
func elemTypeOrArray(ty types.Type) types.Type {
	if a, ok := ty.Underlying().(*types.Array); ok {
		return a.Elem()
	}
	return elemType(ty)
}

// findOutBufs determines the slice parameters the function writes into by index.
func (t *loopTr) findOutBufs() {
	var params []types.Object
	for _, f := range t.fd.Type.Params.List {
		for _, id := range f.Names {
			params = append(params, t.info.Defs[id])
		}
	}
	for _, o := range params {
		_, isSlice := o.Type().Underlying().(*types.Slice)
		if t.facts.resliced[o] && !isSlice {
			t.fail(t.fd, "reslicing of %s, which is not a slice", o.Name())
		}
		swapped := isArrayPtr(o.Type()) && t.facts.plain[o] > 0
		if !t.facts.indexed[o] && !swapped {
			continue
		}
		if !isSlice && !t.set.disjoint[t.name] {
			t.fail(t.fd, "index assignment to `%s`, which is not a slice (writing through an array pointer is only supported under the explicit assumption `%s!disjoint`)", o.Name(), t.fd.Name.Name)
		}
		if swapped {
			t.tagged[o] = len(t.tagged)
		}
		for _, k := range t.rets {
			if k.isSlice() {
				t.fail(t.fd, "index assignment to `%s`, which is not a local slice created once by make in this function (aliasing-sensitive); "+
					"a parameter is accepted as an output buffer only in a function that returns no slice", o.Name())
			}
		}
		others := append([]types.Object{}, params...)
		if !t.ctor {
			others = append(others, t.fields...) // the caller may pass a slice of a field array of the receiver
		}
		for _, q := range others {
			if e := elemTypeOrArray(q.Type()); q != o && e != nil && types.Identical(e, elemType(o.Type())) {
				if !t.set.disjoint[t.name] {
					t.fail(t.fd, "index assignment to the parameter `%s`: its array may overlap that of `%s` (same element type); "+
						"accepted only under the explicit assumption `%s!disjoint`", o.Name(), q.Name(), t.fd.Name.Name)
				}
				if n := "`" + o.Name() + "`"; len(t.mayOverlap) == 0 || t.mayOverlap[len(t.mayOverlap)-1] != n {
					t.mayOverlap = append(t.mayOverlap, n)
				}
			}
		}
		t.outBufs = append(t.outBufs, o)
		if t.facts.resliced[o] {
			t.pairBuf[o] = true
		}
	}
}

// ---------------------------------------------------------------- classification

// classify records which index expressions are in range by construction.
func (t *loopTr) classify() {
	var stack []*loopCtx
	var walk func(n ast.Node)
	walk = func(n ast.Node) {
		ast.Inspect(n, func(m ast.Node) bool {
			switch x := m.(type) {
			case *ast.RangeStmt:
				walk(x.X)
				stack = append(stack, t.rangeCtx(x))
				walk(x.Body)
				stack = stack[:len(stack)-1]
				return false
			case *ast.IndexExpr:
				aid, ok1 := unparen(x.X).(*ast.Ident)
				iid, ok2 := unparen(x.Index).(*ast.Ident)
				if ok1 && ok2 {
					for _, l := range stack {
						if l.safeIn(t.info.Uses[aid], t.info.Uses[iid]) {
							t.safe[x] = true
						}
					}
				}
			}
			return true
		})
	}
	for _, st := range t.fd.Body.List {
		walk(st)
	}
}

// signedCount: y is a non-constant shift count of a signed type (a negative value panics).
func (t *loopTr) signedCount(y ast.Expr) bool {
	tv, ok := t.info.Types[y]
	if !ok || tv.Value != nil {
		return false
	}
	b, ok := tv.Type.Underlying().(*types.Basic)
	return ok && b.Info()&types.IsInteger != 0 && b.Info()&types.IsUnsigned == 0
}

// needsFlow: n contains something that can panic (or, with returns, a return statement).  A negative shift count
// is only checked in functions that are built as a Go.Flow for another reason (t.flowFn is set after that decision):
// by itself it does not turn a plain-valued function into an Option-valued one (there it stays unmodelled, as documented).
func (t *loopTr) needsFlow(n ast.Node, returns bool) bool {
	found := false
	var noop *ast.BranchStmt // a `break` at the end of a switch clause does nothing
	ast.Inspect(n, func(m ast.Node) bool {
		switch x := m.(type) {
		case *ast.ReturnStmt:
			found = found || returns
		case *ast.CaseClause:
			if k := len(x.Body); k > 0 {
				if br, ok := x.Body[k-1].(*ast.BranchStmt); ok && br.Tok == token.BREAK && br.Label == nil {
					noop = br
				}
			}
		case *ast.BranchStmt:
			if x.Tok == token.BREAK && x != noop {
				found = true
			}
		case *ast.IndexExpr:
			if tv, ok := t.info.Types[x]; !t.safe[x] && !(ok && tv.Value != nil) {
				found = true
			}
		case *ast.SliceExpr:
			if x.Low != nil || x.High != nil || x.Slice3 {
				found = true
			}
		case *ast.ForStmt:
			if x.Init == nil && x.Post == nil {
				found = true
			}
		case *ast.CallExpr:
			if sig, _ := t.sigOf(x); sig != nil && sig.flow {
				found = true
			}
			if t.isPanicCall(x) || t.bigPanics(x) {
				found = true
			}
			if id, ok := unparen(x.Fun).(*ast.Ident); ok && t.flowFn && len(x.Args) >= 2 {
				// make with a non-constant length: a negative length panics (checked in functions that can panic anyway)
				if b, ok := t.info.Uses[id].(*types.Builtin); ok && b.Name() == "make" {
					if tv, ok := t.info.Types[x.Args[1]]; ok && tv.Value == nil {
						found = true
					}
				}
			}
		case *ast.BinaryExpr:
			if (x.Op == token.QUO || x.Op == token.REM) && t.unsignedDivisor(x.Y) {
				found = true // stage 14: a zero divisor panics
			}
			if t.flowFn && (x.Op == token.SHL || x.Op == token.SHR) && t.signedCount(x.Y) {
				found = true
			}
		case *ast.AssignStmt:
			if t.flowFn && (x.Tok == token.SHL_ASSIGN || x.Tok == token.SHR_ASSIGN) && len(x.Rhs) == 1 && t.signedCount(x.Rhs[0]) {
				found = true
			}
		}
		return !found
	})
	return found
}

// pureTailOK: every return of the statement list is where the plain-value translation accepts it
// (last statement, or last statement of an else-less `if` in tail position).
func (t *loopTr) pureTailOK(list []ast.Stmt) bool {
	for i, s := range list {
		switch s := s.(type) {
		case *ast.ReturnStmt:
			if i != len(list)-1 {
				return false
			}
		case *ast.BlockStmt:
			return t.pureTailOK(append(append([]ast.Stmt{}, s.List...), list[i+1:]...))
		case *ast.IfStmt:
			if hasReturn(s) && (s.Else != nil || !endsWithReturn(s.Body) || !t.pureTailOK(s.Body.List)) {
				return false
			}
		default:
			if hasReturn(s) {
				return false
			}
		}
	}
	return true
}

// ---------------------------------------------------------------- reslicing

// resliceOf recognises `x = x[lo:]` and returns the object of x and lo.
func (t *loopTr) resliceOf(s *ast.AssignStmt) (types.Object, ast.Expr) {
	if s.Tok != token.ASSIGN || len(s.Lhs) != 1 || len(s.Rhs) != 1 {
		return nil, nil
	}
	l, ok1 := unparen(s.Lhs[0]).(*ast.Ident)
	se, ok2 := unparen(s.Rhs[0]).(*ast.SliceExpr)
	if !ok1 || !ok2 || se.Low == nil || se.High != nil || se.Max != nil || se.Slice3 {
		return nil, nil
	}
	r, ok := unparen(se.X).(*ast.Ident)
	if !ok || t.objOf(l) == nil || t.objOf(l) != t.objOf(r) {
		return nil, nil
	}
	return t.objOf(l), se.Low
}

func (t *loopTr) reslice(s *ast.AssignStmt, o types.Object, lo ast.Expr) []binding {
	if bs, ok := t.ifaceLocalReslice(s, o, lo); ok { // stage 11 (loops_iface.go): a local slice
		return bs
	}
	name, ok := t.vars[o]
	if !ok || !t.params[o] {
		t.fail(s, "reslicing `%s = %s[k:]` is supported for slice parameters only", o.Name(), o.Name())
	}
	k := t.kindOf(o.Type(), s)
	if !k.isSlice() {
		t.fail(s, "reslicing of %s", k.lean())
	}
	list := name
	if t.pairBuf[o] {
		list = name + ".2"
	}
	var n string
	if tv := t.typeOf(lo); tv.Value != nil {
		c := constant.ToInt(tv.Value)
		if c.Kind() != constant.Int || constant.Sign(c) < 0 {
			t.fail(lo, "bad constant slice bound")
		}
		n = c.ExactString()
		t.addCheck(fmt.Sprintf("(decide (%s ≤ %s.length))", n, list))
	} else {
		e, ek := t.expr(lo)
		switch ek {
		case kInt:
			t.addCheck(fmt.Sprintf("(Go.sliceFromS %s %s.length)", e, list))
		case kUint:
			t.addCheck(fmt.Sprintf("(Go.sliceFromU %s %s.length)", e, list))
		default:
			t.fail(lo, "slice bound of type %s", t.typeOf(lo).Type)
		}
		n = e + ".toNat"
	}
	b := binding{name: name, kind: k, val: fmt.Sprintf("(%s.drop %s)", list, n), checks: t.takeChecks()}
	if t.pairBuf[o] {
		b.val = fmt.Sprintf("(%s.1 ++ %s.2.take %s, %s.2.drop %s)", name, name, n, name, n)
		b.ty = t.objType(o)
	}
	return []binding{b}
}

// ---------------------------------------------------------------- three-clause loops

func intBounds(k lkind) (min, max *big.Int) {
	one := big.NewInt(1)
	if k == kInt {
		max = new(big.Int).Sub(new(big.Int).Lsh(one, 63), one)
		min = new(big.Int).Neg(new(big.Int).Lsh(one, 63))
		return
	}
	return big.NewInt(0), new(big.Int).Sub(new(big.Int).Lsh(one, 64), one)
}

func (t *loopTr) constInt(e ast.Expr) (*big.Int, bool) {
	tv, ok := t.info.Types[e]
	if !ok || tv.Value == nil {
		return nil, false
	}
	c := constant.ToInt(tv.Value)
	if c.Kind() != constant.Int {
		return nil, false
	}
	v, ok := new(big.Int).SetString(c.ExactString(), 10)
	return v, ok
}

func (t *loopTr) forStmt(s *ast.ForStmt, ind string, m blockMode, rest func(string) string) string {
	const shape = "only `for i := a; i < b; i++` (also <=, > and >= with i--, i += k, i -= k) is supported"
	init, ok := s.Init.(*ast.AssignStmt)
	if !ok || init.Tok != token.DEFINE || len(init.Lhs) < 1 || len(init.Rhs) != len(init.Lhs) || s.Cond == nil || s.Post == nil {
		t.fail(s, "three-clause loop: %s", shape)
	}
	// stage 14: `for i, v, … := a, c, …; …` — the first variable is the loop variable; the others are ordinary locals of
	// the loop statement, initialised with CONSTANTS (so the order of evaluation of the initialisers cannot matter)
	// before the loop starts and part of the loop state when the body assigns them.
	extraInit := ""
	for j := 1; j < len(init.Lhs); j++ {
		id, ok := init.Lhs[j].(*ast.Ident)
		if !ok || id.Name == "_" || t.info.Defs[id] == nil {
			t.fail(s, "three-clause loop: %s; further variables of the init statement must be new named variables", shape)
		}
		if tv, ok := t.info.Types[init.Rhs[j]]; !ok || tv.Value == nil {
			t.fail(s, "three-clause loop: the initialiser of the additional variable %s must be a constant", id.Name)
		}
		_, en, ek := t.localVar(id)
		if ek != kInt && ek != kUint {
			t.fail(s, "three-clause loop: the additional variable %s must be an int, uint or uint64", id.Name)
		}
		ev, evk := t.expr(init.Rhs[j])
		if evk != ek || len(t.checks) != 0 {
			t.fail(s, "three-clause loop: the initialiser of the additional variable %s", id.Name)
		}
		extraInit += fmt.Sprintf("%slet %s : %s := %s\n", ind, en, ek.lean(), ev)
	}
	vid, ok := init.Lhs[0].(*ast.Ident)
	if !ok || vid.Name == "_" {
		t.fail(s, "three-clause loop: %s", shape)
	}
	vo, name, k := t.localVar(vid)
	if k != kInt && k != kUint {
		t.fail(s, "three-clause loop: the loop variable must be an int or a uint")
	}
	isVar := func(e ast.Expr) bool {
		id, ok := unparen(e).(*ast.Ident)
		return ok && t.info.Uses[id] == vo
	}
	cond, ok := unparen(s.Cond).(*ast.BinaryExpr)
	if !ok || !isVar(cond.X) {
		t.fail(s, "three-clause loop: %s", shape)
	}
	var up, incl bool
	switch cond.Op {
	case token.LSS:
		up = true
	case token.LEQ:
		up, incl = true, true
	case token.GTR:
	case token.GEQ:
		incl = true
	default:
		t.fail(s, "three-clause loop: %s", shape)
	}
	step := big.NewInt(1)
	var postUp bool
	switch p := s.Post.(type) {
	case *ast.IncDecStmt:
		if !isVar(p.X) {
			t.fail(s, "three-clause loop: %s", shape)
		}
		postUp = p.Tok == token.INC
	case *ast.AssignStmt:
		c, isConst := (*big.Int)(nil), false
		if len(p.Rhs) == 1 {
			c, isConst = t.constInt(p.Rhs[0])
		}
		if len(p.Lhs) != 1 || !isVar(p.Lhs[0]) || (p.Tok != token.ADD_ASSIGN && p.Tok != token.SUB_ASSIGN) || !isConst || c.Sign() <= 0 {
			t.fail(s, "three-clause loop: %s, with a positive constant k", shape)
		}
		step, postUp = c, p.Tok == token.ADD_ASSIGN
	default:
		t.fail(s, "three-clause loop: %s", shape)
	}
	if up != postUp {
		t.fail(s, "three-clause loop: the loop variable moves away from the bound (termination is not established)")
	}
	// the loop variable must not wrap around before the condition fails
	min, max := intBounds(k)
	bound, boundConst := t.constInt(cond.Y)
	one := big.NewInt(1)
	safe := !incl && step.Cmp(one) == 0
	if !safe && boundConst {
		last := new(big.Int).Set(bound) // the last value for which the body can run
		if !incl {
			if up {
				last.Sub(last, one)
			} else {
				last.Add(last, one)
			}
		}
		if up {
			safe = last.Add(last, step).Cmp(max) <= 0
		} else {
			safe = last.Sub(last, step).Cmp(min) >= 0
		}
	}
	if !safe && up && k == kInt {
		// `i <= len(x) - c` (`i < len(x) - c`) with a constant c ≥ k (c ≥ k-1): len(x) ≤ MaxInt, so the bound is at most
		// MaxInt - c and the last value for which the body runs plus k does not exceed MaxInt
		if be, ok := unparen(cond.Y).(*ast.BinaryExpr); ok && be.Op == token.SUB {
			if c, isConst := t.constInt(be.Y); isConst {
				if lc, ok := unparen(be.X).(*ast.CallExpr); ok && len(lc.Args) == 1 {
					if id, ok := unparen(lc.Fun).(*ast.Ident); ok {
						if bi, ok := t.info.Uses[id].(*types.Builtin); ok && bi.Name() == "len" {
							need := new(big.Int).Set(step)
							if !incl {
								need.Sub(need, one)
							}
							safe = c.Cmp(need) >= 0
						}
					}
				}
			}
		}
	}
	if !safe && t.set.nowrap[t.name] && up && !incl {
		safe = true
		t.assumedNoWrap = true
	}
	if !safe {
		t.fail(s, "three-clause loop: the loop variable could wrap around before the condition fails (termination is not established); "+
			"accepted are `<` / `>` with step 1, and constant bounds far enough from the largest / smallest value")
	}
	plain, indexed := t.assignedIn(s.Body)
	if plain[vo] {
		t.fail(s, "three-clause loop: the loop variable %s is assigned in the body", name)
	}
	ast.Inspect(cond.Y, func(n ast.Node) bool {
		if boundConst {
			return false // a constant (e.g. the length of an array) depends on nothing
		}
		switch x := n.(type) {
		case *ast.Ident:
			if o := t.info.Uses[x]; o != nil && (plain[o] || indexed[o]) {
				t.fail(s, "three-clause loop: the bound depends on %s, which the body assigns", x.Name)
			}
		case *ast.CallExpr:
			if tv, ok := t.info.Types[x]; !(ok && tv.Value != nil) {
				if id, ok := unparen(x.Fun).(*ast.Ident); !ok || id.Name != "len" {
					if ftv, ok := t.info.Types[x.Fun]; !ok || !ftv.IsType() {
						t.fail(s, "three-clause loop: call in the bound")
					}
				}
			}
		}
		return true
	})
	a, ak := t.expr(init.Rhs[0])
	b, bk := t.expr(cond.Y)
	if ak != k || bk != k {
		t.fail(s, "three-clause loop: types of the bounds")
	}
	fn := "Go.forDown"
	if up {
		fn = "Go.forUp"
	}
	list := fmt.Sprintf("(%s %s %s %s %s %s)", fn, boolLean(k == kInt), boolLean(incl), a, b, step.String())
	if extraInit != "" {
		// the additional variables are declared inside the loop statement: the scope that decides what is loop state is the body
		for j := 1; j < len(init.Lhs); j++ {
			if id := init.Lhs[j].(*ast.Ident); usedIn(s.Post, t.info.Defs[id], t.info) || usedIn(s.Cond, t.info.Defs[id], t.info) ||
				usedIn(init.Rhs[0], t.info.Defs[id], t.info) {
				t.fail(s, "three-clause loop: the additional variable %s in the condition or the post statement", id.Name)
			}
		}
		return extraInit + t.loopOverScope(s, s.Body, s.Body, list, fmt.Sprintf("(%s : BitVec 64)", name), ind, m, rest)
	}
	return t.loopOver(s, s.Body, list, fmt.Sprintf("(%s : BitVec 64)", name), ind, m, rest)
}

// usedIn: the object o is mentioned in n.
func usedIn(n ast.Node, o types.Object, info *types.Info) bool {
	found := false
	if n == nil || o == nil {
		return false
	}
	ast.Inspect(n, func(m ast.Node) bool {
		if id, ok := m.(*ast.Ident); ok && info.Uses[id] == o {
			found = true
		}
		return !found
	})
	return found
}

// ---------------------------------------------------------------- `for len(x) >= c { …; x = x[k:]; … }`

func (t *loopTr) whileStmt(s *ast.ForStmt, ind string, m blockMode, rest func(string) string) string {
	const shape = "a loop with only a condition must be `for len(x) >= c { … x = x[k:] … }` (or `len(x) > c`) with constants c ≥ 1 (c ≥ 0), k ≥ 1 " +
		"and the reslicing of the parameter x a statement of the loop body itself (termination is not established otherwise)"
	if !m.flow {
		t.fail(s, "internal error: condition loop outside a flow block")
	}
	cond, ok := unparen(s.Cond).(*ast.BinaryExpr)
	if s.Cond == nil || !ok || (cond.Op != token.GEQ && cond.Op != token.GTR) {
		t.fail(s, "%s", shape)
	}
	var xo types.Object
	if c, ok := unparen(cond.X).(*ast.CallExpr); ok && len(c.Args) == 1 {
		f, ok1 := unparen(c.Fun).(*ast.Ident)
		x, ok2 := unparen(c.Args[0]).(*ast.Ident)
		if ok1 && ok2 {
			if b, ok := t.info.Uses[f].(*types.Builtin); ok && b.Name() == "len" {
				xo = t.info.Uses[x]
			}
		}
	}
	cv, isConst := t.constInt(cond.Y)
	if xo == nil || !isConst || cv.Sign() < 0 || (cond.Op == token.GEQ && cv.Sign() == 0) {
		t.fail(s, "%s", shape)
	}
	assigns, reslices := 0, 0
	for _, st := range s.Body.List {
		if as, ok := st.(*ast.AssignStmt); ok {
			if o, lo := t.resliceOf(as); o == xo {
				if kv, ok := t.constInt(lo); ok && kv.Sign() > 0 {
					reslices++
				}
			}
		}
	}
	ast.Inspect(s.Body, func(n ast.Node) bool {
		if as, ok := n.(*ast.AssignStmt); ok {
			for _, l := range as.Lhs {
				if id, ok := unparen(l).(*ast.Ident); ok && t.objOf(id) == xo {
					assigns++
				}
			}
		}
		return true
	})
	if reslices != 1 || assigns != 1 || !t.params[xo] {
		t.fail(s, "%s", shape)
	}
	c, ck := t.expr(s.Cond)
	if ck != kBool || len(t.checks) != 0 {
		t.fail(s, "%s", shape)
	}
	fuel, _ := t.ident(unparen(unparen(cond.X).(*ast.CallExpr).Args[0]).(*ast.Ident))
	objs := t.stateOf(s.Body, s)
	tup, ty := t.tuple(objs)
	st := t.stateName(objs)
	in := ind + "    "
	fn, bm, end := "Go.whileFuel", m.noBreak(""), "Go.Flow.run "+tup
	if breaksOut(s.Body) {
		// the body yields (true, state) after `break`, (false, state) at its normal end
		fn, end = "Go.whileFuelB", "Go.Flow.run (false, "+tup+")"
		bm.brk = func(ind string) string { return ind + "Go.Flow.run (true, " + tup + ")" }
	}
	body := t.unpack(in, st, objs) + t.block(s.Body.List, in, bm, func(ind string) string { return ind + end })
	// the condition only needs the variables it mentions
	var used []string
	for _, l := range strings.SplitAfter(t.unpack(in, st, objs), "\n") {
		if f := strings.Fields(l); len(f) > 1 && regexp.MustCompile(`\b`+regexp.QuoteMeta(f[1])+`\b`).MatchString(c) {
			used = append(used, l)
		}
	}
	return fmt.Sprintf("%sGo.Flow.bind (%s (fun (%s : %s) =>\n%s%s%s) (fun (%s : %s) =>\n%s) %s.length %s) (fun (%s : %s) =>\n%s%s)",
		ind, fn, st, ty, strings.Join(used, ""), in, c, st, ty, body, fuel, tup, st, ty, t.unpack(ind, st, objs), rest(ind))
}

// ---------------------------------------------------------------- break

// breaksOut: the loop body contains an unlabeled `break` that leaves this loop (not one that belongs to an inner
// loop or switch).
func breaksOut(body *ast.BlockStmt) bool {
	found := false
	ast.Inspect(body, func(n ast.Node) bool {
		switch x := n.(type) {
		case *ast.ForStmt, *ast.RangeStmt, *ast.SwitchStmt, *ast.TypeSwitchStmt, *ast.SelectStmt:
			return false
		case *ast.BranchStmt:
			if x.Tok == token.BREAK && x.Label == nil {
				found = true
			}
		}
		return !found
	})
	return found
}

// ---------------------------------------------------------------- switch

// switchStmt turns the clauses of a switch into conditionals (see flowHeaderText) and translates them together with
// the statements `after` the switch.
func (t *loopTr) switchStmt(s *ast.SwitchStmt, after []ast.Stmt, ind string, m blockMode, k func(string) string) string {
	if s.Init != nil {
		t.fail(s, "switch with an init statement is not supported")
	}
	type clause struct {
		cc   *ast.CaseClause
		body []ast.Stmt
		ft   bool // ends with fallthrough
	}
	var cls []clause
	def := -1
	for i, st := range s.Body.List {
		cc, ok := st.(*ast.CaseClause)
		if !ok {
			t.fail(st, "unsupported switch clause")
		}
		c := clause{cc: cc, body: cc.Body}
		if n := len(c.body); n > 0 {
			if br, ok := c.body[n-1].(*ast.BranchStmt); ok && br.Label == nil {
				switch br.Tok {
				case token.FALLTHROUGH:
					c.ft, c.body = true, c.body[:n-1]
				case token.BREAK: // leaves the switch at the end of the clause: no effect
					c.body = c.body[:n-1]
				}
			}
		}
		if cc.List == nil {
			if def >= 0 {
				t.fail(cc, "switch with two default clauses")
			}
			def = i
		}
		cls = append(cls, c)
	}
	if n := len(cls); n > 0 && cls[n-1].ft {
		t.fail(cls[n-1].cc, "fallthrough in the last clause")
	}
	block := func(c clause) *ast.BlockStmt { return &ast.BlockStmt{Lbrace: c.cc.Colon, List: c.body} }
	var synth []ast.Stmt
	if s.Tag == nil {
		// switch { case c1: …; case c2: …; default: … }  =  if c1 { … } else if c2 { … } else { … }
		var tail []ast.Stmt
		for i := len(cls) - 1; i >= 0; i-- {
			c := cls[i]
			switch {
			case c.ft:
				t.fail(c.cc, "fallthrough in a switch without tag is not supported")
			case i == def && i != len(cls)-1:
				t.fail(c.cc, "in a switch without tag the default clause must be the last one")
			case i == def:
				tail = c.body
				continue
			case len(c.cc.List) != 1:
				t.fail(c.cc, "in a switch without tag every case must have a single condition")
			}
			is := &ast.IfStmt{If: c.cc.Pos(), Cond: c.cc.List[0], Body: block(c)}
			t.synthCond[is] = ""
			if endsWithReturn(is.Body) || len(tail) == 0 {
				// the end of the clause is not reached: the other clauses are what follows it
				tail = append([]ast.Stmt{is}, tail...)
			} else {
				is.Else = &ast.BlockStmt{Lbrace: tail[0].Pos(), List: tail}
				tail = []ast.Stmt{is}
			}
		}
		synth = tail
		if def >= 0 && len(cls) == 1 {
			// only a default clause: its body, as a block
			synth = []ast.Stmt{&ast.BlockStmt{Lbrace: cls[0].cc.Colon, List: cls[0].body}}
		}
		return t.block(append(synth, after...), ind, m, k)
	}
	tag, tk := t.expr(s.Tag)
	if !tk.isNum() {
		t.fail(s.Tag, "switch on %s (only integer tags with constant case values are supported)", t.typeOf(s.Tag).Type)
	}
	pre := t.guards(s, ind, m)
	t.fresh++
	sw := fmt.Sprintf("sw_%d", t.fresh)
	// match[i]: the tag selects clause i
	var all []string
	var seen []constant.Value
	match := make([]string, len(cls))
	for i, c := range cls {
		var eqs []string
		for _, e := range c.cc.List {
			tv := t.typeOf(e)
			if tv.Value == nil {
				t.fail(e, "switch: only constant case values are supported")
			}
			for _, v := range seen {
				if constant.Compare(v, token.EQL, tv.Value) {
					t.fail(e, "switch: duplicate case value")
				}
			}
			seen = append(seen, tv.Value)
			eqs = append(eqs, "("+sw+" == "+t.constLit(e, tv.Value, tk)+")")
		}
		all = append(all, eqs...)
		match[i] = orText(eqs)
	}
	if def >= 0 {
		match[def] = "true"
		if len(all) > 0 {
			match[def] = "(!" + orText(all) + ")"
		}
	}
	// a clause runs when the tag selects it or a clause from which control falls through to it
	start := 0
	for i, c := range cls {
		if i > 0 && !cls[i-1].ft {
			start = i
		}
		if len(c.body) == 0 {
			continue
		}
		is := &ast.IfStmt{If: c.cc.Pos(), Cond: &ast.Ident{NamePos: c.cc.Pos(), Name: "_"}, Body: block(c)}
		t.synthCond[is] = orText(match[start : i+1])
		synth = append(synth, is)
	}
	return pre + fmt.Sprintf("%slet %s : %s := %s\n", ind, sw, tk.lean(), tag) + t.block(append(synth, after...), ind, m, k)
}

// orText renders the disjunction of Bool texts.
func orText(cs []string) string {
	switch len(cs) {
	case 0:
		return "false"
	case 1:
		return cs[0]
	}
	return "(" + strings.Join(cs, " || ") + ")"
}

// ---------------------------------------------------------------- &T{ErrX, off}

// errAtType: T is a struct type of the translated package with exactly an error field and an int field (returned:
// their indices), and *T is an error.
func (t *loopTr) errAtType(ty types.Type) (errField, offField int, ok bool) {
	named, isNamed := ty.(*types.Named)
	if !isNamed || named.Obj().Pkg() != t.set.tp.tpkg {
		return 0, 0, false
	}
	st, isStruct := named.Underlying().(*types.Struct)
	if !isStruct || st.NumFields() != 2 {
		return 0, 0, false
	}
	errTy := types.Universe.Lookup("error").Type()
	errField, offField = -1, -1
	for i := 0; i < 2; i++ {
		ft := st.Field(i).Type()
		if b, isBasic := ft.Underlying().(*types.Basic); types.Identical(ft, errTy) {
			errField = i
		} else if isBasic && b.Kind() == types.Int {
			offField = i
		}
	}
	if errField < 0 || offField < 0 || !types.Implements(types.NewPointer(named), errTy.Underlying().(*types.Interface)) {
		return 0, 0, false
	}
	return errField, offField, true
}

// buildsErrAt: the function contains an expression &T{…} with T as in errAtType.
func (t *loopTr) buildsErrAt() bool {
	found := false
	ast.Inspect(t.fd.Body, func(n ast.Node) bool {
		if u, ok := n.(*ast.UnaryExpr); ok && u.Op == token.AND {
			if cl, ok := unparen(u.X).(*ast.CompositeLit); ok {
				if tv, ok := t.info.Types[cl]; ok {
					if _, _, ok := t.errAtType(tv.Type); ok {
						found = true
					}
				}
			}
		}
		return !found
	})
	return found
}

// errLit translates &T{ErrX, off}.
func (t *loopTr) errLit(x *ast.UnaryExpr) (string, lkind) {
	const shape = "`&` is only supported in `&T{ErrX, off}` with T a struct type of the package that has an error field and an int field, " +
		"*T an error, ErrX a package-level errors.New variable"
	cl, ok := unparen(x.X).(*ast.CompositeLit)
	if !ok {
		t.fail(x, "%s", shape)
	}
	ei, oi, ok := t.errAtType(t.typeOf(cl).Type)
	if !ok || len(cl.Elts) != 2 || !t.errAt {
		t.fail(x, "%s", shape)
	}
	t.inErrLit++
	defer func() { t.inErrLit-- }()
	st := t.typeOf(cl).Type.Underlying().(*types.Struct)
	elts := make([]ast.Expr, 2)
	for i, el := range cl.Elts {
		if kv, keyed := el.(*ast.KeyValueExpr); keyed {
			id, isId := kv.Key.(*ast.Ident)
			if !isId {
				t.fail(x, "%s", shape)
			}
			for j := 0; j < 2; j++ {
				if st.Field(j).Name() == id.Name {
					elts[j] = kv.Value
				}
			}
		} else {
			elts[i] = el
		}
	}
	if elts[0] == nil || elts[1] == nil {
		t.fail(x, "%s", shape)
	}
	name := t.errNameExpr(elts[ei], shape)
	off, ok2 := t.expr(elts[oi])
	if ok2 != kInt {
		t.fail(x, "%s", shape)
	}
	if t.errOpt {
		return fmt.Sprintf("(some (%s, some %s))", name, off), kErrOpt
	}
	return fmt.Sprintf("(some (%s, %s))", name, off), kErrAt
}

// errNameExpr renders, as a Lean String, the name of the error variable wrapped by the error operand of &T{err, off}:
// ErrX itself, fmt.Errorf("…%w…", …, ErrX, …), or e.Unwrap() for an e bound by errors.As (the name the callee gave).
func (t *loopTr) errNameExpr(e ast.Expr, shape string) string {
	e = unparen(e)
	if id, isId := e.(*ast.Ident); isId {
		if v, isVar := t.info.Uses[id].(*types.Var); isVar && v.Parent() == t.set.tp.tpkg.Scope() {
			return leanString(t.set.errVarName(t, v, e))
		}
	}
	if c, isCall := e.(*ast.CallExpr); isCall {
		if sel, isSel := unparen(c.Fun).(*ast.SelectorExpr); isSel {
			if f, ok := t.info.Uses[sel.Sel].(*types.Func); ok && f.Pkg() != nil && f.Pkg().Path() == "fmt" && f.Name() == "Errorf" {
				// evaluate the other operands for their checks; the name is that of the %w operand
				val, _ := t.libCall(c, sel)
				m := regexp.MustCompile(`"((?:[^"\\]|\\.)*)"`).FindString(val)
				if m == "" {
					t.fail(e, "%s", shape)
				}
				return m
			}
			if sel.Sel.Name == "Unwrap" && len(c.Args) == 0 {
				if id, ok := unparen(sel.X).(*ast.Ident); ok {
					if src := t.asBound[t.objOf(id)]; src != nil {
						if t.errOpt {
							return "(Go.errName " + t.vars[src] + ")"
						}
						return "(Go.errNameAt " + t.vars[src] + ")"
					}
				}
			}
		}
	}
	t.fail(e, "%s", shape)
	return ""
}
