package main

// Panics, early returns, three-clause and condition loops, output buffers (see loops.go).

import (
	"fmt"
	"go/ast"
	"go/constant"
	"go/token"
	"go/types"
	"math/big"
	"regexp"
	"strings"
)

// flowHeaderText is appended to loopHeaderText in generated files whose translated code needs Iota/Model/GoBits.lean.
const flowHeaderText = `/-
Additional semantics (definitions in Iota/Model/GoBits.lean):
* A function that can panic at run time is translated with result type Option: none = panic.  The sources of
  panics that are modelled: an index expression a[i] that is not in range by construction (see above) is
  checked against the length (Go.inRangeS for an int index, Go.inRangeU for a uint index, decide (c < len) for a
  constant) before the statement that evaluates it; "_ = x[c]" is only that check; "x = x[k:]" checks k ≤ len;
  in such a function a non-constant int shift count is checked to be non-negative (Go.nonneg).
  NOT modelled: nil array pointers, negative make lengths, negative shift counts in functions with a plain result.
* The body of such a function, and of a function with a return inside a loop or a conditional that is not last, is a
  Go.Flow ρ σ (run st = reached the end with state st, done r = returned r, panic); Go.forIn is the loop over a
  list that stops at the first done / panic; Go.Flow.bind continues after a normal end; Go.Flow.result is the
  outcome of the function.  A statement "if c { …; return e }" is "if c then … else <what follows>".
* "for i := a; i < b; i++" (also <=, += k, and downwards > >= -- -= k) with i not assigned in the body and b not
  modified by it is a loop over Go.forUp / Go.forDown signed incl a b k, the list a, a±k, … computed in 64-bit
  arithmetic as long as the condition holds; forms in which i ± k could wrap around are rejected (under that side
  condition Iota/Tie/GoFlow.lean proves forUp_sound / forDown_sound: the list is what the header computes step by step).
* "for len(x) >= c { …; x = x[k:]; … }" (c, k ≥ 1 constants, the reslicing unconditional) is Go.whileFuel with
  fuel = the length of x on entry (never the reason the loop ends).  x = x[k:] on a slice parameter is List.drop.
* p *[N]T parameters that are only read by index ↦ List of the element carrier; indices are checked against N.
  The tie theorems assume the list has length N.  int8 ↦ BitVec 8 read as two's complement (conversions to
  64 bits sign-extend: BitVec.signExtend); []int8 ↦ List (BitVec 8), []uint ↦ List (BitVec 64).
* A slice parameter the function writes into by index (an output buffer; accepted only when its element type
  differs from that of every other slice / array parameter, so the arrays cannot overlap) stays a list; the result
  gets one more component: the content on return of the whole slice that was passed.  When such a parameter is
  also resliced, its variable is the pair (part already passed, current window).
* error ↦ Option String: none = nil, some "ErrX" = an error e with errors.Is(e, ErrX) for the package variable
  ErrX = errors.New(…) (fmt.Errorf with %w of ErrX is some "ErrX"; the message text is not modelled).
* math/bits.TrailingZeros(x) ↦ Go.trailingZeros64 x.
-/
`

func (t *loopTr) takeChecks() []string {
	c := t.checks
	t.checks = nil
	return c
}

func (t *loopTr) addCheck(c string) {
	for _, d := range t.checks {
		if d == c {
			return
		}
	}
	t.checks = append(t.checks, c)
}

// guards renders the pending bounds checks: `if !c then panic else` in front of what follows.
func (t *loopTr) guards(at ast.Node, ind string, m blockMode) string {
	cs := t.takeChecks()
	if len(cs) != 0 && !m.flow {
		t.fail(at, "internal error: bounds check outside a flow block")
	}
	var b strings.Builder
	for _, c := range cs {
		fmt.Fprintf(&b, "%sif !%s then Go.Flow.panic else\n", ind, c)
	}
	return b.String()
}

// ---------------------------------------------------------------- output buffers

func (t *loopTr) isOutBuf(o types.Object) bool {
	for _, b := range t.outBufs {
		if b == o {
			return true
		}
	}
	return false
}

func elemType(ty types.Type) types.Type {
	switch u := ty.Underlying().(type) {
	case *types.Slice:
		return u.Elem()
	case *types.Pointer:
		if a, ok := u.Elem().Underlying().(*types.Array); ok {
			return a.Elem()
		}
	}
	return nil
}

// findOutBufs determines the slice parameters the function writes into by index.
func (t *loopTr) findOutBufs() {
	var params []types.Object
	for _, f := range t.fd.Type.Params.List {
		for _, id := range f.Names {
			params = append(params, t.info.Defs[id])
		}
	}
	for _, o := range params {
		_, isSlice := o.Type().Underlying().(*types.Slice)
		if t.facts.resliced[o] && !isSlice {
			t.fail(t.fd, "reslicing of %s, which is not a slice", o.Name())
		}
		if !t.facts.indexed[o] {
			continue
		}
		if !isSlice {
			t.fail(t.fd, "index assignment to `%s`, which is not a slice (writing through an array pointer is not supported)", o.Name())
		}
		for _, k := range t.rets {
			if k.isSlice() {
				t.fail(t.fd, "index assignment to `%s`, which is not a local slice created once by make in this function (aliasing-sensitive); "+
					"a parameter is accepted as an output buffer only in a function that returns no slice", o.Name())
			}
		}
		for _, q := range params {
			if e := elemType(q.Type()); q != o && e != nil && types.Identical(e, elemType(o.Type())) {
				t.fail(t.fd, "index assignment to the parameter `%s`: its array may overlap that of `%s` (same element type)", o.Name(), q.Name())
			}
		}
		t.outBufs = append(t.outBufs, o)
		if t.facts.resliced[o] {
			t.pairBuf[o] = true
		}
	}
}

// ---------------------------------------------------------------- classification

// classify records which index expressions are in range by construction.
func (t *loopTr) classify() {
	var stack []*loopCtx
	var walk func(n ast.Node)
	walk = func(n ast.Node) {
		ast.Inspect(n, func(m ast.Node) bool {
			switch x := m.(type) {
			case *ast.RangeStmt:
				walk(x.X)
				stack = append(stack, t.rangeCtx(x))
				walk(x.Body)
				stack = stack[:len(stack)-1]
				return false
			case *ast.IndexExpr:
				aid, ok1 := unparen(x.X).(*ast.Ident)
				iid, ok2 := unparen(x.Index).(*ast.Ident)
				if ok1 && ok2 {
					for _, l := range stack {
						if l.safeIn(t.info.Uses[aid], t.info.Uses[iid]) {
							t.safe[x] = true
						}
					}
				}
			}
			return true
		})
	}
	for _, st := range t.fd.Body.List {
		walk(st)
	}
}

// signedCount: y is a non-constant shift count of a signed type (a negative value panics).
func (t *loopTr) signedCount(y ast.Expr) bool {
	tv, ok := t.info.Types[y]
	if !ok || tv.Value != nil {
		return false
	}
	b, ok := tv.Type.Underlying().(*types.Basic)
	return ok && b.Info()&types.IsInteger != 0 && b.Info()&types.IsUnsigned == 0
}

// needsFlow: n contains something that can panic (or, with returns, a return statement).  A negative shift count
// is only checked in functions that are built as a Go.Flow for another reason (t.flowFn is set after that decision):
// by itself it does not turn a plain-valued function into an Option-valued one (there it stays unmodelled, as documented).
func (t *loopTr) needsFlow(n ast.Node, returns bool) bool {
	found := false
	ast.Inspect(n, func(m ast.Node) bool {
		switch x := m.(type) {
		case *ast.ReturnStmt:
			found = found || returns
		case *ast.IndexExpr:
			if tv, ok := t.info.Types[x]; !t.safe[x] && !(ok && tv.Value != nil) {
				found = true
			}
		case *ast.SliceExpr:
			found = true
		case *ast.ForStmt:
			if x.Init == nil && x.Post == nil {
				found = true
			}
		case *ast.BinaryExpr:
			if t.flowFn && (x.Op == token.SHL || x.Op == token.SHR) && t.signedCount(x.Y) {
				found = true
			}
		case *ast.AssignStmt:
			if t.flowFn && (x.Tok == token.SHL_ASSIGN || x.Tok == token.SHR_ASSIGN) && len(x.Rhs) == 1 && t.signedCount(x.Rhs[0]) {
				found = true
			}
		}
		return !found
	})
	return found
}

// pureTailOK: every return of the statement list is where the plain-value translation accepts it
// (last statement, or last statement of an else-less `if` in tail position).
func (t *loopTr) pureTailOK(list []ast.Stmt) bool {
	for i, s := range list {
		switch s := s.(type) {
		case *ast.ReturnStmt:
			if i != len(list)-1 {
				return false
			}
		case *ast.BlockStmt:
			return t.pureTailOK(append(append([]ast.Stmt{}, s.List...), list[i+1:]...))
		case *ast.IfStmt:
			if hasReturn(s) && (s.Else != nil || !endsWithReturn(s.Body) || !t.pureTailOK(s.Body.List)) {
				return false
			}
		default:
			if hasReturn(s) {
				return false
			}
		}
	}
	return true
}

// ---------------------------------------------------------------- reslicing

// resliceOf recognises `x = x[lo:]` and returns the object of x and lo.
func (t *loopTr) resliceOf(s *ast.AssignStmt) (types.Object, ast.Expr) {
	if s.Tok != token.ASSIGN || len(s.Lhs) != 1 || len(s.Rhs) != 1 {
		return nil, nil
	}
	l, ok1 := unparen(s.Lhs[0]).(*ast.Ident)
	se, ok2 := unparen(s.Rhs[0]).(*ast.SliceExpr)
	if !ok1 || !ok2 || se.Low == nil || se.High != nil || se.Max != nil || se.Slice3 {
		return nil, nil
	}
	r, ok := unparen(se.X).(*ast.Ident)
	if !ok || t.objOf(l) == nil || t.objOf(l) != t.objOf(r) {
		return nil, nil
	}
	return t.objOf(l), se.Low
}

func (t *loopTr) reslice(s *ast.AssignStmt, o types.Object, lo ast.Expr) []binding {
	name, ok := t.vars[o]
	if !ok || !t.params[o] {
		t.fail(s, "reslicing `%s = %s[k:]` is supported for slice parameters only", o.Name(), o.Name())
	}
	k := t.kindOf(o.Type(), s)
	if !k.isSlice() {
		t.fail(s, "reslicing of %s", k.lean())
	}
	list := name
	if t.pairBuf[o] {
		list = name + ".2"
	}
	var n string
	if tv := t.typeOf(lo); tv.Value != nil {
		c := constant.ToInt(tv.Value)
		if c.Kind() != constant.Int || constant.Sign(c) < 0 {
			t.fail(lo, "bad constant slice bound")
		}
		n = c.ExactString()
		t.addCheck(fmt.Sprintf("(decide (%s ≤ %s.length))", n, list))
	} else {
		e, ek := t.expr(lo)
		switch ek {
		case kInt:
			t.addCheck(fmt.Sprintf("(Go.sliceFromS %s %s.length)", e, list))
		case kUint:
			t.addCheck(fmt.Sprintf("(Go.sliceFromU %s %s.length)", e, list))
		default:
			t.fail(lo, "slice bound of type %s", t.typeOf(lo).Type)
		}
		n = e + ".toNat"
	}
	b := binding{name: name, kind: k, val: fmt.Sprintf("(%s.drop %s)", list, n), checks: t.takeChecks()}
	if t.pairBuf[o] {
		b.val = fmt.Sprintf("(%s.1 ++ %s.2.take %s, %s.2.drop %s)", name, name, n, name, n)
		b.ty = t.objType(o)
	}
	return []binding{b}
}

// ---------------------------------------------------------------- three-clause loops

func intBounds(k lkind) (min, max *big.Int) {
	one := big.NewInt(1)
	if k == kInt {
		max = new(big.Int).Sub(new(big.Int).Lsh(one, 63), one)
		min = new(big.Int).Neg(new(big.Int).Lsh(one, 63))
		return
	}
	return big.NewInt(0), new(big.Int).Sub(new(big.Int).Lsh(one, 64), one)
}

func (t *loopTr) constInt(e ast.Expr) (*big.Int, bool) {
	tv, ok := t.info.Types[e]
	if !ok || tv.Value == nil {
		return nil, false
	}
	c := constant.ToInt(tv.Value)
	if c.Kind() != constant.Int {
		return nil, false
	}
	v, ok := new(big.Int).SetString(c.ExactString(), 10)
	return v, ok
}

func (t *loopTr) forStmt(s *ast.ForStmt, ind string, m blockMode, rest func(string) string) string {
	const shape = "only `for i := a; i < b; i++` (also <=, > and >= with i--, i += k, i -= k) is supported"
	init, ok := s.Init.(*ast.AssignStmt)
	if !ok || init.Tok != token.DEFINE || len(init.Lhs) != 1 || len(init.Rhs) != 1 || s.Cond == nil || s.Post == nil {
		t.fail(s, "three-clause loop: %s", shape)
	}
	vid, ok := init.Lhs[0].(*ast.Ident)
	if !ok || vid.Name == "_" {
		t.fail(s, "three-clause loop: %s", shape)
	}
	vo, name, k := t.localVar(vid)
	if k != kInt && k != kUint {
		t.fail(s, "three-clause loop: the loop variable must be an int or a uint")
	}
	isVar := func(e ast.Expr) bool {
		id, ok := unparen(e).(*ast.Ident)
		return ok && t.info.Uses[id] == vo
	}
	cond, ok := unparen(s.Cond).(*ast.BinaryExpr)
	if !ok || !isVar(cond.X) {
		t.fail(s, "three-clause loop: %s", shape)
	}
	var up, incl bool
	switch cond.Op {
	case token.LSS:
		up = true
	case token.LEQ:
		up, incl = true, true
	case token.GTR:
	case token.GEQ:
		incl = true
	default:
		t.fail(s, "three-clause loop: %s", shape)
	}
	step := big.NewInt(1)
	var postUp bool
	switch p := s.Post.(type) {
	case *ast.IncDecStmt:
		if !isVar(p.X) {
			t.fail(s, "three-clause loop: %s", shape)
		}
		postUp = p.Tok == token.INC
	case *ast.AssignStmt:
		c, isConst := (*big.Int)(nil), false
		if len(p.Rhs) == 1 {
			c, isConst = t.constInt(p.Rhs[0])
		}
		if len(p.Lhs) != 1 || !isVar(p.Lhs[0]) || (p.Tok != token.ADD_ASSIGN && p.Tok != token.SUB_ASSIGN) || !isConst || c.Sign() <= 0 {
			t.fail(s, "three-clause loop: %s, with a positive constant k", shape)
		}
		step, postUp = c, p.Tok == token.ADD_ASSIGN
	default:
		t.fail(s, "three-clause loop: %s", shape)
	}
	if up != postUp {
		t.fail(s, "three-clause loop: the loop variable moves away from the bound (termination is not established)")
	}
	// the loop variable must not wrap around before the condition fails
	min, max := intBounds(k)
	bound, boundConst := t.constInt(cond.Y)
	one := big.NewInt(1)
	safe := !incl && step.Cmp(one) == 0
	if !safe && boundConst {
		last := new(big.Int).Set(bound) // the last value for which the body can run
		if !incl {
			if up {
				last.Sub(last, one)
			} else {
				last.Add(last, one)
			}
		}
		if up {
			safe = last.Add(last, step).Cmp(max) <= 0
		} else {
			safe = last.Sub(last, step).Cmp(min) >= 0
		}
	}
	if !safe {
		t.fail(s, "three-clause loop: the loop variable could wrap around before the condition fails (termination is not established); "+
			"accepted are `<` / `>` with step 1, and constant bounds far enough from the largest / smallest value")
	}
	plain, indexed := t.assignedIn(s.Body)
	if plain[vo] {
		t.fail(s, "three-clause loop: the loop variable %s is assigned in the body", name)
	}
	ast.Inspect(cond.Y, func(n ast.Node) bool {
		switch x := n.(type) {
		case *ast.Ident:
			if o := t.info.Uses[x]; o != nil && (plain[o] || indexed[o]) {
				t.fail(s, "three-clause loop: the bound depends on %s, which the body assigns", x.Name)
			}
		case *ast.CallExpr:
			if tv, ok := t.info.Types[x]; !(ok && tv.Value != nil) {
				if id, ok := unparen(x.Fun).(*ast.Ident); !ok || id.Name != "len" {
					if ftv, ok := t.info.Types[x.Fun]; !ok || !ftv.IsType() {
						t.fail(s, "three-clause loop: call in the bound")
					}
				}
			}
		}
		return true
	})
	a, ak := t.expr(init.Rhs[0])
	b, bk := t.expr(cond.Y)
	if ak != k || bk != k {
		t.fail(s, "three-clause loop: types of the bounds")
	}
	fn := "Go.forDown"
	if up {
		fn = "Go.forUp"
	}
	list := fmt.Sprintf("(%s %s %s %s %s %s)", fn, boolLean(k == kInt), boolLean(incl), a, b, step.String())
	return t.loopOver(s, s.Body, list, fmt.Sprintf("(%s : BitVec 64)", name), ind, m, rest)
}

// ---------------------------------------------------------------- `for len(x) >= c { …; x = x[k:]; … }`

func (t *loopTr) whileStmt(s *ast.ForStmt, ind string, m blockMode, rest func(string) string) string {
	const shape = "a loop with only a condition must be `for len(x) >= c { … x = x[k:] … }` (or `len(x) > c`) with constants c ≥ 1 (c ≥ 0), k ≥ 1 " +
		"and the reslicing of the parameter x a statement of the loop body itself (termination is not established otherwise)"
	if !m.flow {
		t.fail(s, "internal error: condition loop outside a flow block")
	}
	cond, ok := unparen(s.Cond).(*ast.BinaryExpr)
	if s.Cond == nil || !ok || (cond.Op != token.GEQ && cond.Op != token.GTR) {
		t.fail(s, "%s", shape)
	}
	var xo types.Object
	if c, ok := unparen(cond.X).(*ast.CallExpr); ok && len(c.Args) == 1 {
		f, ok1 := unparen(c.Fun).(*ast.Ident)
		x, ok2 := unparen(c.Args[0]).(*ast.Ident)
		if ok1 && ok2 {
			if b, ok := t.info.Uses[f].(*types.Builtin); ok && b.Name() == "len" {
				xo = t.info.Uses[x]
			}
		}
	}
	cv, isConst := t.constInt(cond.Y)
	if xo == nil || !isConst || cv.Sign() < 0 || (cond.Op == token.GEQ && cv.Sign() == 0) {
		t.fail(s, "%s", shape)
	}
	assigns, reslices := 0, 0
	for _, st := range s.Body.List {
		if as, ok := st.(*ast.AssignStmt); ok {
			if o, lo := t.resliceOf(as); o == xo {
				if kv, ok := t.constInt(lo); ok && kv.Sign() > 0 {
					reslices++
				}
			}
		}
	}
	ast.Inspect(s.Body, func(n ast.Node) bool {
		if as, ok := n.(*ast.AssignStmt); ok {
			for _, l := range as.Lhs {
				if id, ok := unparen(l).(*ast.Ident); ok && t.objOf(id) == xo {
					assigns++
				}
			}
		}
		return true
	})
	if reslices != 1 || assigns != 1 || !t.params[xo] {
		t.fail(s, "%s", shape)
	}
	c, ck := t.expr(s.Cond)
	if ck != kBool || len(t.checks) != 0 {
		t.fail(s, "%s", shape)
	}
	fuel, _ := t.ident(unparen(unparen(cond.X).(*ast.CallExpr).Args[0]).(*ast.Ident))
	objs := t.stateOf(s.Body, s)
	tup, ty := t.tuple(objs)
	st := t.stateName(objs)
	in := ind + "    "
	body := t.unpack(in, st, objs) + t.block(s.Body.List, in, m, func(ind string) string { return ind + "Go.Flow.run " + tup })
	// the condition only needs the variables it mentions
	var used []string
	for _, l := range strings.SplitAfter(t.unpack(in, st, objs), "\n") {
		if f := strings.Fields(l); len(f) > 1 && regexp.MustCompile(`\b`+regexp.QuoteMeta(f[1])+`\b`).MatchString(c) {
			used = append(used, l)
		}
	}
	return fmt.Sprintf("%sGo.Flow.bind (Go.whileFuel (fun (%s : %s) =>\n%s%s%s) (fun (%s : %s) =>\n%s) %s.length %s) (fun (%s : %s) =>\n%s%s)",
		ind, st, ty, strings.Join(used, ""), in, c, st, ty, body, fuel, tup, st, ty, t.unpack(ind, st, objs), rest(ind))
}
