package main

import (
	"os"
	"os/exec"
	"path/filepath"
	"strings"
	"testing"
)

// Stage 10 (loops_big.go): *big.Int as Int under the ownership discipline.  As in loops_test.go each case is a one-file
// package; want is a substring of the Lean text (ok) or of the error message (rejected).
const bigPre = "import \"math/big\"\n"
const bigCurve = "import (\"crypto/elliptic\"; \"math/big\")\ntype C struct { *elliptic.CurveParams }\n"

var bigCases = []struct {
	name, src, fns string
	ok             bool
	want           string
}{
	// accepted
	{"Mul and Mod", bigPre + `func f(x, m *big.Int) *big.Int { v := new(big.Int).Mul(x, x); v.Mod(v, m); return v }`, "f", true,
		"let v : Int := (x * x)\n  if !(decide (m ≠ 0)) then Go.Flow.panic else\n  let v : Int := (v % m)"},
	{"Mod makes the function Option-valued", bigPre + `func f(x, m *big.Int) *big.Int { return new(big.Int).Mod(x, m) }`, "f", true,
		"def f (x : Int) (m : Int) : Option (Int) :="},
	{"Add and Sub stay plain", bigPre + `func f(x, y *big.Int) *big.Int { v := new(big.Int).Add(x, y); v.Sub(v, x); return v }`, "f", true,
		"def f (x : Int) (y : Int) : Int :=\n  let v : Int := (x + y)\n  (v - x)"},
	{"receiver is an operand", bigPre + `func f(x *big.Int) *big.Int { v := new(big.Int).Set(x); v.Sub(x, v); return v }`, "f", true,
		"let v : Int := x\n  (x - v)"},
	{"Lsh by a constant", bigPre + `func f(x *big.Int) *big.Int { v := new(big.Int).Lsh(x, 3); v.Lsh(v, 1); return v }`, "f", true,
		"let v : Int := (Go.bigLsh x 3)\n  (Go.bigLsh v 1)"},
	{"NewInt and SetInt64 with constants", bigPre + `func f(x *big.Int) *big.Int { v := big.NewInt(-7); v.Mul(v, x); w := new(big.Int); w.SetInt64(5); v.Add(v, w); return v }`, "f", true,
		"let v : Int := (-7 : Int)\n  let v : Int := (v * x)\n  let w : Int := (0 : Int)\n  let w : Int := (5 : Int)"},
	{"NewInt of an int64 expression", bigPre + `func f(n int64) *big.Int { return big.NewInt(n + 1) }`, "f", true, "(BitVec.toInt (n + 1#64))"},
	{"SetInt64 of a variable", bigPre + `func f(n int64) *big.Int { v := new(big.Int); v.SetInt64(n); return v }`, "f", true, "let v : Int := (0 : Int)\n  (BitVec.toInt n)"},
	{"Sign and Cmp", bigPre + `func f(x, y *big.Int) int { if x.Sign() == -1 { return x.Cmp(y) }; return y.Sign() }`, "f", true,
		"if ((Go.bigSign x) == (BitVec.ofInt 64 (-1))) then\n    (Go.bigCmp x y)\n  else\n    (Go.bigSign y)"},
	{"conditional modification", bigPre + `func f(x, m *big.Int) *big.Int { v := new(big.Int).Sub(x, m); if v.Sign() == -1 { v.Add(v, m) }; return v }`, "f", true,
		"let v : Int := (x - m)\n  (if ((Go.bigSign v) == (BitVec.ofInt 64 (-1))) then (v + m) else v)"},
	{"operand that is a fresh expression", bigPre + `func f(x, c *big.Int) *big.Int { v := new(big.Int).Set(x); v.Sub(v, new(big.Int).Mul(big.NewInt(8), c)); return v }`, "f", true,
		"let v : Int := x\n  (v - ((8 : Int) * c))"},
	{"chain on a fresh receiver", bigPre + `func f(x, y, m *big.Int) *big.Int { return new(big.Int).Mod(x, m).Add(x, y) }`, "f", true,
		"if !(decide (m ≠ 0)) then Go.Flow.panic else\n  Go.Flow.done (x + y)"},
	{"tuple definition from fresh values", bigPre + `func f(a *big.Int) (*big.Int, *big.Int) { x, y := new(big.Int), big.NewInt(1); x.Add(a, y); return x, y }`, "f", true,
		"let st_1 : Int := (0 : Int)\n  let st_2 : Int := (1 : Int)\n  let x : Int := st_1\n  let y : Int := st_2\n  let x : Int := (a + y)\n  (x, y)"},
	{"modification in a loop", bigPre + `func f(k []byte) *big.Int { v := new(big.Int); for _, b := range k { v.Lsh(v, 8); v.Add(v, big.NewInt(int64(b))) }; return v }`, "f", true,
		"List.foldl (fun (v : Int) (b : BitVec 8) =>\n      let v : Int := (Go.bigLsh v 8)\n      (v + (BitVec.toInt (BitVec.setWidth 64 b)))) v k"},
	{"ModInverse", bigPre + `func f(x, z, m *big.Int) *big.Int { zinv := new(big.Int).ModInverse(z, m); r := new(big.Int).Mul(x, zinv); return r }`, "f", true,
		"def f (big_ModInverse : Int → Int → Option Int) (x : Int) (z : Int) (m : Int) : Option (Int) :=\n  Go.Flow.result (\n  Go.Flow.bind (Go.call (big_ModInverse z m)) (fun (zinv : Int) =>\n  let r : Int := (x * zinv)"},
	{"ModInverse, dereferenced as the receiver of Sign", bigPre + `func f(z, m *big.Int) int { zinv := new(big.Int).ModInverse(z, m); s := zinv.Sign(); return s }`, "f", true,
		"Go.Flow.bind (Go.call (big_ModInverse z m)) (fun (zinv : Int) =>\n  let s : BitVec 64 := (Go.bigSign zinv)"},
	{"ModInverse is passed on by the callers", bigPre + `func f(x, z, m *big.Int) *big.Int { zinv := new(big.Int).ModInverse(z, m); r := new(big.Int).Mul(x, zinv); return r }
func g(x, m *big.Int) *big.Int { r := f(x, x, m); r.Add(r, x); return r }`, "f,g", true,
		"def g (big_ModInverse : Int → Int → Option Int) (x : Int) (m : Int) : Option (Int) :=\n  Go.Flow.result (\n  Go.Flow.bind (Go.call (f big_ModInverse x x m)) (fun (st_1 : Int) =>"},
	{"value receiver that embeds CurveParams", bigCurve + `func (curve C) f(x *big.Int) bool { v := new(big.Int).Add(x, curve.B); v.Mod(v, curve.P); return v.Sign() == 0 }`, "C.f", true,
		"def C_f (curve_P : Int) (curve_B : Int) (x : Int) : Option (Bool) :="},
	{"methods on the receiver, tuple reassignment in nested loops, a loop variable called byte", bigCurve + `func (curve C) dbl(x, y *big.Int) (*big.Int, *big.Int) { a := new(big.Int).Mul(x, y); a.Mod(a, curve.P); return a, new(big.Int).Set(x) }
func (curve C) mul(bx *big.Int, k []byte) *big.Int {
	x, y := new(big.Int), new(big.Int)
	for _, byte := range k { for i := 0; i < 8; i++ { x, y = curve.dbl(x, y); if byte&0x80 == 0x80 { x, y = curve.dbl(bx, x) }; byte <<= 1 } }
	return x
}`, "C.dbl,C.mul", true,
		"Go.Flow.bind (Go.forIn (Go.forUp true false 0#64 8#64 1) (x, y, byte) (fun (st_4 : Int × Int × BitVec 8) (i : BitVec 64) =>"},
	{"a loop variable called byte that the inner loop shifts", `func f(k []byte) int { n := 0; for _, byte := range k { for i := 0; i < 8; i++ { if byte&0x80 == 0x80 { n++ }; byte <<= 1 } }; return n }`, "f", true,
		"let byte : BitVec 8 := (byte <<< 1)"},
	{"named results and a bare return", bigPre + `func f(x, m *big.Int) (a, b *big.Int) { if x.Sign() == 0 { return new(big.Int), new(big.Int) }; a = new(big.Int).Mul(x, x); a.Mod(a, m); b = new(big.Int).Set(a); return }`, "f", true,
		"let b : Int := a\n  Go.Flow.done (a, b)"},
	{"return f(g(…))", bigCurve + `func (curve C) g(x *big.Int) (*big.Int, *big.Int) { a := new(big.Int).Mod(x, curve.P); return a, new(big.Int) }
func (curve C) h(x, y *big.Int) (*big.Int, *big.Int) { return new(big.Int).Add(x, y), new(big.Int).Sub(x, y) }
func (curve C) f(x *big.Int) (*big.Int, *big.Int) { return curve.h(curve.g(x)) }`, "C.g,C.h,C.f", true,
		"Go.Flow.bind (Go.call (C_g curve_P x)) (fun (st_1 : Int × Int) =>\n  let st_2 : Int × Int := (C_h st_1.1 st_1.2)\n  Go.Flow.done (st_2.1, st_2.2))"},
	{"Mod in the right operand of &&", bigPre + `func f(x, m *big.Int) bool { return x.Sign() != 0 && new(big.Int).Mod(x, m).Sign() == 0 }`, "f", true,
		"if !(!((Go.bigSign x) != 0#64) || (decide (m ≠ 0))) then Go.Flow.panic else"},
	{"a fresh value passed to a translated function", bigPre + `func g(x, y *big.Int) *big.Int { return new(big.Int).Mul(x, y) }
func f(x *big.Int) *big.Int { v := g(x, big.NewInt(3)); v.Add(v, x); return v }`, "g,f", true, "let v : Int := (g x (3 : Int))\n  (v + x)"},

	// rejected: the ownership discipline
	{"parameter modified", bigPre + `func f(x, y *big.Int) *big.Int { x.Add(x, y); return new(big.Int).Set(x) }`, "f", false, "parameters and fields are read-only"},
	{"field modified", bigCurve + `func (curve C) f(x *big.Int) *big.Int { curve.P.Add(curve.P, x); return new(big.Int).Set(x) }`, "C.f", false, "parameters and fields are read-only"},
	{"parameter assigned", bigPre + `func f(x *big.Int) *big.Int { x = new(big.Int); return new(big.Int).Set(x) }`, "f", false, "only local *big.Int variables may be assigned"},
	{"field assigned", bigCurve + `func (curve C) f(x *big.Int) *big.Int { curve.P = new(big.Int); return new(big.Int).Set(x) }`, "C.f", false, "assignment to the field P of the receiver: the fields reached through the embedded *elliptic.CurveParams are read-only"},
	{"int field of the receiver assigned", bigCurve + `func (curve C) f(x *big.Int) *big.Int { curve.BitSize = 3; return new(big.Int).Set(x) }`, "C.f", false, "are read-only in the translated subset"},
	{"pointer copy by definition", bigPre + `func f(x *big.Int) *big.Int { a := x; return new(big.Int).Set(a) }`, "f", false, "a pointer copy of the *big.Int x"},
	{"pointer copy between locals", bigPre + `func f(x *big.Int) *big.Int { a := new(big.Int); b := new(big.Int).Set(x); a = b; b.Add(b, x); return a }`, "f", false, "a pointer copy of the *big.Int b"},
	{"pointer copy in a var declaration", bigPre + `func f(x *big.Int) *big.Int { var a = x; return new(big.Int).Set(a) }`, "f", false, "a pointer copy of the *big.Int x"},
	{"pointer copy in a tuple assignment", bigPre + `func f(x, y *big.Int) *big.Int { a, b := new(big.Int), new(big.Int); a, b = b, a; return a }`, "f", false, "a pointer copy"},
	{"nil variable", bigPre + `func f(x *big.Int) *big.Int { var a *big.Int; a = new(big.Int).Set(x); return a }`, "f", false, "is a nil pointer, which is not representable"},
	{"comparison with nil", bigPre + `func f(x *big.Int) *big.Int { if x == nil { return new(big.Int) }; return new(big.Int).Set(x) }`, "f", false, "comparing a *big.Int with nil"},
	{"comparison of pointers", bigPre + `func f(x, y *big.Int) bool { return x != y }`, "f", false, "comparing a *big.Int with nil or with another pointer"},
	{"nil as an operand", bigPre + `func f(x *big.Int) int { return x.Cmp(nil) }`, "f", false, "where a *big.Int is expected"},
	{"returning a parameter", bigPre + `func f(x *big.Int) *big.Int { return x }`, "f", false, "must return fresh *big.Int values"},
	{"returning a field", bigCurve + `func (curve C) f() *big.Int { return curve.P }`, "C.f", false, "must return fresh *big.Int values"},
	{"modifying the result of a function that returns its parameter", bigPre + `func id(x *big.Int) *big.Int { return x }
func f(x *big.Int) *big.Int { v := id(x); v.Add(v, v); return v }`, "id,f", false, "translate id (x.go:4): returning the parameter or field x"},
	{"the same local returned twice", bigPre + `func f(x *big.Int) (*big.Int, *big.Int) { v := new(big.Int).Set(x); return v, v }`, "f", false, "returning `v` twice"},
	{"result of a modifying method used as a value", bigPre + `func f(x *big.Int) *big.Int { v := new(big.Int).Set(x); w := v.Add(v, x); return w }`, "f", false, "would alias v"},
	{"result of a modifying method returned", bigPre + `func f(x *big.Int) *big.Int { v := new(big.Int).Set(x); return v.Add(v, x) }`, "f", true, "let v : Int := x\n  (v + x)"}, // accepted since stage 12: v.Add(…); return v
	{"ModInverse result not dereferenced by the next statement", bigPre + `func f(x, z, m *big.Int) *big.Int { zinv := new(big.Int).ModInverse(z, m); w := new(big.Int).Set(x); w.Mul(w, zinv); return w }`, "f", false,
		"the statement that follows immediately must dereference `zinv`"},
	{"ModInverse result compared with itself (nil.Cmp(nil) does not dereference)", bigPre + `func f(z, m *big.Int) int { zinv := new(big.Int).ModInverse(z, m); c := zinv.Cmp(zinv); return c }`, "f", false, "must dereference `zinv`"},
	{"ModInverse result set to itself (nil.Set(nil) does not dereference)", bigPre + `func f(z, m *big.Int) int { zinv := new(big.Int).ModInverse(z, m); zinv.Set(zinv); return 5 }`, "f", false, "must dereference `zinv`"},
	{"ModInverse result as an operand of Cmp", bigPre + `func f(x, z, m *big.Int) int { zinv := new(big.Int).ModInverse(z, m); c := x.Cmp(zinv); return c }`, "f", false, "must dereference `zinv`"},
	{"ModInverse as the last statement", bigPre + `func f(z, m *big.Int) *big.Int { zinv := new(big.Int).ModInverse(z, m); return zinv }`, "f", false, "must dereference `zinv`"},
	{"ModInverse result passed to a function", bigPre + `func g(x *big.Int) *big.Int { return new(big.Int).Set(x) }
func f(z, m *big.Int) *big.Int { zinv := new(big.Int).ModInverse(z, m); r := g(zinv); return r }`, "g,f", false, "must dereference `zinv`"},
	{"ModInverse result only under a nested operand", bigPre + `func f(x, z, m *big.Int) *big.Int { zinv := new(big.Int).ModInverse(z, m); r := new(big.Int).Mul(x, new(big.Int).Set(zinv)); return r }`, "f", false, "must dereference `zinv`"},
	{"ModInverse returned", bigPre + `func f(z, m *big.Int) *big.Int { return new(big.Int).ModInverse(z, m) }`, "f", false, "ModInverse is only supported in the statement"},
	{"ModInverse on a local", bigPre + `func f(z, m *big.Int) *big.Int { v := new(big.Int); v.ModInverse(z, m); return v }`, "f", false, "ModInverse is only supported in the statement"},
	{"ModInverse assigned to an existing variable", bigPre + `func f(z, m *big.Int) *big.Int { v := new(big.Int); v = new(big.Int).ModInverse(z, m); v.Add(v, z); return v }`, "f", false, "ModInverse is only supported in the statement"},
	{"ModInverse nested", bigPre + `func f(x, z, m *big.Int) *big.Int { return new(big.Int).Mul(x, new(big.Int).ModInverse(z, m)) }`, "f", false, "ModInverse is only supported in the statement"},
	{"stored into a slice", bigPre + `func f(x *big.Int) int { xs := []*big.Int{x}; return len(xs) }`, "f", false, "storing the *big.Int x into a struct, slice, map or channel"},
	{"passed to an untranslated function", bigPre + `func h(x *big.Int) *big.Int { return new(big.Int).Set(x) }
func f(x *big.Int) *big.Int { return h(x) }`, "f", false, "has not been translated before this function"},
	{"passed to a library function", "import (\"fmt\"; \"math/big\")\n" + `func f(x *big.Int) string { return fmt.Sprint(x) }`, "f", false, "is not a translated function (it could retain or modify it)"},
	{"unsupported method with a *big.Int result", bigPre + `func f(x, y, m *big.Int) *big.Int { return new(big.Int).Exp(x, y, m) }`, "f", false, "the method Exp of *big.Int is not supported"},
	{"unsupported method with another result", bigPre + `func f(x *big.Int) int { return x.BitLen() }`, "f", false, "the method BitLen of *big.Int is not supported"},
	{"Lsh by a variable", bigPre + `func f(x *big.Int, n uint) *big.Int { return new(big.Int).Lsh(x, n) }`, "f", true, "(Go.bigLsh x n.toNat)"}, // accepted since stage 12
	{"address of a *big.Int variable", bigPre + `func f(x *big.Int) *big.Int { p := &x; return new(big.Int).Set(*p) }`, "f", false, "address-of / dereference of the *big.Int"},
	{"big.Int by value", bigPre + `func f(x, y *big.Int) *big.Int { var n big.Int; n.Add(x, y); return new(big.Int).Set(&n) }`, "f", false, "translate f"},
	{"package-level variable", bigPre + `var one = big.NewInt(1)
func f(x *big.Int) *big.Int { return new(big.Int).Add(x, one) }`, "f", true, "(x + (1 : Int))"}, // a constant since stage 12 (every use in the package is read-only)
	{"method expression", bigPre + `func f(x, y *big.Int) *big.Int { v := new(big.Int); (*big.Int).Add(v, x, y); return v }`, "f", false, "is not a translated function"},
	{"deferred modification", bigPre + `func f(x *big.Int) *big.Int { v := new(big.Int); defer v.Add(v, x); return v }`, "f", false, "translate f"},
	{"closure", bigPre + `func f(x *big.Int) *big.Int { g := func() *big.Int { return new(big.Int).Set(x) }; return g() }`, "f", false, "closures are not supported"},
	{"statement without effect", bigPre + `func f(x, y *big.Int) *big.Int { new(big.Int).Mul(x, y); return new(big.Int) }`, "f", false, "has no effect that the translation models"},
	{"named result read before it is assigned", bigPre + `func f(x *big.Int) (r *big.Int) { r.Add(x, x); return }`, "f", false, "is not assigned a fresh value by a statement of the function body itself"},
	{"named result used before its assignment", bigPre + `func f(x *big.Int) (r *big.Int) { s := new(big.Int).Set(r); r = new(big.Int).Add(x, s); return }`, "f", false, "is used before it is assigned"},
	{"bare return before the named result is assigned", bigPre + `func f(x *big.Int) (r *big.Int) { if x.Sign() == 0 { return }; r = new(big.Int).Set(x); return }`, "f", false, "a bare return before the named *big.Int results are assigned"},
	{"receiver copied", bigCurve + `func (curve C) f(x *big.Int) *big.Int { c := curve; return new(big.Int).Add(x, c.P) }`, "C.f", false, "may only be used as curve.F"},
	{"receiver's embedded pointer used", "import \"crypto/elliptic\"\ntype C struct { *elliptic.CurveParams }\n" + `func (curve C) f() int { return curve.CurveParams.BitSize }`, "C.f", false, "may only be used as curve.F"},
	{"untranslated method on the receiver", bigCurve + `func (curve C) f(x *big.Int) bool { return curve.IsOnCurve(x, x) }`, "C.f", false, "may only be used as curve.F"},
	{"return f(g(…)) with an untranslated g", bigPre + `func g(x *big.Int) (*big.Int, *big.Int) { return new(big.Int).Set(x), new(big.Int) }
func h(x, y *big.Int) (*big.Int, *big.Int) { return new(big.Int).Add(x, y), new(big.Int) }
func f(x *big.Int) (*big.Int, *big.Int) { return h(g(x)) }`, "h,f", false, "translate f"},
}

func TestBigTranslator(t *testing.T) {
	tmp := t.TempDir()
	bin := filepath.Join(tmp, "extract")
	if out, err := exec.Command("go", "build", "-o", bin, ".").CombinedOutput(); err != nil {
		t.Fatalf("build: %v\n%s", err, out)
	}
	for i, c := range bigCases {
		dir := filepath.Join(tmp, "case", string(rune('a'+i/26))+string(rune('a'+i%26)))
		if err := os.MkdirAll(dir, 0o755); err != nil {
			t.Fatal(err)
		}
		if err := os.WriteFile(filepath.Join(dir, "x.go"), []byte("package x\n\n"+c.src+"\n"), 0o644); err != nil {
			t.Fatal(err)
		}
		out, err := exec.Command(bin, "-translate", dir+":"+c.fns).CombinedOutput()
		switch {
		case c.ok && err != nil:
			t.Errorf("%s: rejected: %s", c.name, out)
		case !c.ok && err == nil:
			t.Errorf("%s: accepted:\n%s", c.name, out)
		case !strings.Contains(string(out), c.want):
			t.Errorf("%s: output does not contain %q:\n%s", c.name, c.want, out)
		}
	}
}
