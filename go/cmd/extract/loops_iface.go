package main

// Stage 11 of the loop translator (see loops.go): named integer types with methods on a value receiver, a package-level
// read-only array of strings, struct values with ONE array field, and a CLOSED interface of the package as a sum of the
// struct types of the package that implement it.  ifaceHeaderText states all of it.  Everything here is reached through
// one-line hooks in the other loops*.go files (every hook is called ifaceXxx).

import (
	"fmt"
	"go/ast"
	"go/constant"
	"go/token"
	"go/types"
	"sort"
	"strings"
)

// ifaceHeaderText is appended to the header of generated files whose translated code uses stage 11.
const ifaceHeaderText = `/-
Additional semantics, stage 11:
* NAMED INTEGER TYPES ("type Prefix int", "type Version byte") are their underlying integer type; typed constants are the
  values go/types computes; T(x) is the conversion between the underlying types.  A method with a VALUE receiver of such a
  type (or of a struct type, below) is translated as a function whose first parameter is the receiver (a copy, as in Go);
  an unnamed receiver "func (T) m()" is the parameter _recv, which the body cannot mention.  A call x.m() with x a
  variable (or parameter) of such a type is the call of that function with x as first argument; like every call of a
  translated method it is bound in front of the statement that contains it (a panic of the callee is a panic of the
  caller).  A call of a method that has not been translated is REJECTED.
* A package-level ARRAY OF STRINGS "var t = [...]string{…}" (every element a constant, all N elements listed, never
  assigned, never address-taken, never sliced anywhere in its package: every use in the package is "range t", an rvalue
  "t[i]" or "len(t)") ↦ var_t : List (List (BitVec 8)).  "for i := range t" ranges over 0 … N-1, "t[i]" inside such a loop
  is in range by construction; any other index "t[p]" is checked against N before the statement that evaluates it
  (Go.inRangeS for an int: a negative p panics as well), none = the Go run-time panic "index out of range".
* A STRUCT VALUE WITH ONE ARRAY FIELD "type T struct { f [N]byte }" (T a type of the package being translated) ↦ the list
  of the N bytes of the field, ASSUMED to have length N where it comes in as a parameter or receiver (the tie theorems
  state that hypothesis; the doc comment repeats it).  Struct values are VALUES (assignment, parameter passing and
  conversion to an interface copy them; the field is an array, not a slice): no aliasing can be observed.
  "var x T" ↦ List.replicate N 0; "copy(x.f[:], src)" on such a LOCAL x ↦ Go.copy x src; "x.f[:]" as an argument that is
  only read (append(…, x.f[:]...), a read-only parameter of a callee) ↦ x.  Everything else on a struct value — x.f[i],
  windows x.f[lo:hi], x.f as a value, composite literals T{…}, &x, writing into a parameter or receiver of struct type,
  structs with more than one field or with a field that is not an array of bytes — is REJECTED.
* A CLOSED INTERFACE.  An interface type I declared in the package being translated ↦ Option (Nat × List (BitVec 8)):
  none = the nil interface; some (k, h) = a value of the k-th struct type of the package that implements I (counted from
  0 in the order of declaration in the package; every such type must be a struct with one byte-array field and
  implement I with value receivers) whose field holds the bytes h.
  CLOSED-WORLD ASSUMPTION (not checked, it is a statement about the callers): an interface value that reaches translated
  code holds nil or a VALUE of one of these struct types of the package itself.  An implementation declared in another
  package, and a POINTER *T to one of the package's own struct types (which also implements I), are outside the
  translation: what the generated functions say about Bech32(hrp, addr) holds for nil and for the package's own three
  address types, nothing is claimed for a foreign Address.
  - Converting a struct value to the interface is the constructor: "return …, x, …" with x a variable of struct type T in
    the position of a result of type I ↦ some (k, x); "nil" in that position ↦ none; a variable of type I ↦ itself.
    (Conversion anywhere else — assignment, call argument — is rejected.)
  - A method call "a.m()" on a variable a of type I is the call of the dispatch function I_m, generated from the request
    "I.m": match a with none ↦ none (Go panics: nil pointer dereference on a nil interface) | some (k, h) ↦ the
    translated method T_k.m applied to h | some (k ≥ number of implementations, _) ↦ none (not a value of the
    translation).  I_m is Option-valued; none = run-time panic.  A method of I for which no dispatch function was
    requested (here: String, whose implementations use encoding/hex and stay untranslated) cannot be called: REJECTED.
  - Type switches, type assertions, comparison of interface values (also with nil), interface types of other packages,
    embedding, methods with parameters are REJECTED.
* "x = x[k:]" on a LOCAL slice or string x that is not made by make (not a parameter: that case is older; typically the
  result of a call, "hrp, data, err := f(…); data = data[1:]") ↦ x.drop k with the check k ≤ len(x).  Sound because a
  local slice owns its backing array (ownership discipline, loops.go) and the window only shrinks; such a local is never
  written by index (index assignment is only accepted for a local made once by make and never reassigned).  Only as a
  statement of the loop body (or function body) that declares x.
* fmt.Errorf("…%w…", …, err, …) with err a LOCAL error variable in a function whose error carrier has an optional
  position (Option (String × Option (BitVec 64)): it gets plain and positioned errors from its callees, e.g. because it
  calls bech32.Decode; a function that builds &T{ErrX, off} values itself stays rejected) ↦ Go.errWrapOpt err: the result is never nil and wraps exactly what err wraps — errors.Is / errors.As
  see the same variable name (qualified by the package it comes from, stage 6) and the same offset; for err == nil it
  wraps nothing (the name "").  %w may stand anywhere in the format; the other operands (%d, %s …) are only evaluated;
  the message text is not modelled.
-/
`

// the carriers of stage 11 (values far from the iota block of loops.go, which other stages extend)
const (
	kStructArr lkind = 100 + iota // a struct value with one [N]byte field: the list of the bytes of the field
	kIface                        // a closed interface of the package: Option (Nat × List (BitVec 8)), see ifaceHeaderText
)

const ifaceLeanType = "Option (Nat × List (BitVec 8))"

// ifaceLean is the hook of lkind.lean.
func ifaceLean(k lkind) (string, bool) {
	switch k {
	case kStructArr:
		return "List (BitVec 8)", true
	case kIface:
		return ifaceLeanType, true
	}
	return "", false
}

// ---------------------------------------------------------------- types

// structArrLen returns (N, field) when ty is a named struct type with exactly one field, of type [N]byte.
func structArrLen(ty types.Type) (int64, *types.Var, bool) {
	n, ok := ty.(*types.Named)
	if !ok {
		return 0, nil, false
	}
	st, ok := n.Underlying().(*types.Struct)
	if !ok || st.NumFields() != 1 || st.Field(0).Embedded() {
		return 0, nil, false
	}
	a, ok := st.Field(0).Type().Underlying().(*types.Array)
	if !ok {
		return 0, nil, false
	}
	if b, ok := a.Elem().Underlying().(*types.Basic); !ok || b.Kind() != types.Uint8 {
		return 0, nil, false
	}
	return a.Len(), st.Field(0), true
}

// isNamedInt: ty is a named type of package p whose underlying type is an integer type of the subset.
func isNamedInt(ty types.Type, p *types.Package) bool {
	n, ok := ty.(*types.Named)
	if !ok || n.Obj().Pkg() != p {
		return false
	}
	b, ok := n.Underlying().(*types.Basic)
	if !ok {
		return false
	}
	switch b.Kind() {
	case types.Int, types.Int64, types.Uint, types.Uint64, types.Uint8, types.Int8, types.Int32, types.Uint32:
		return true
	}
	return false
}

// ifaceKindOf is the hook of kindOf: the carriers of stage 11 (ok = false: not a type of this stage).
func (t *loopTr) ifaceKindOf(ty types.Type, at ast.Node) (lkind, bool) {
	if a, ok := ty.Underlying().(*types.Array); ok {
		if b, ok := a.Elem().(*types.Basic); ok && b.Kind() == types.String {
			return kStrings, true // [N]string: only a package-level table passes the checks where it is used
		}
		return 0, false
	}
	n, ok := ty.(*types.Named)
	if !ok {
		if _, isIface := ty.Underlying().(*types.Interface); isIface {
			t.fail(at, "type %s is outside the translated subset (an interface value is only supported for a named interface type declared in the package being translated, and for error)", ty)
		}
		if _, isStruct := ty.Underlying().(*types.Struct); isStruct {
			t.fail(at, "type %s is outside the translated subset (only named struct types of the package with one byte-array field are supported as values)", ty)
		}
		return 0, false
	}
	switch u := n.Underlying().(type) {
	case *types.Struct:
		if n.Obj().Pkg() != t.set.tp.tpkg {
			t.fail(at, "type %s is outside the translated subset (a struct value of a type of another package)", ty)
		}
		if _, _, ok := structArrLen(n); !ok {
			t.fail(at, "type %s is outside the translated subset (a struct VALUE is only supported for a struct with exactly one field, of type [N]byte; this one has %d field(s))", ty, u.NumFields())
		}
		if n.TypeParams() != nil {
			t.fail(at, "type %s is outside the translated subset (generic)", ty)
		}
		return kStructArr, true
	case *types.Interface:
		if n.Obj().Pkg() == nil || n.Obj().Pkg() != t.set.tp.tpkg {
			t.fail(at, "type %s is outside the translated subset (an interface type of another package: its implementations are not known; only an interface declared in the package being translated is modelled, as the sum of the package's own implementations)", ty)
		}
		t.ifaceImpls(n, at)
		return kIface, true
	}
	return 0, false
}

var ifaceImplCache = map[*types.Named][]*types.Named{}

// ifaceImpls returns the struct types of the package that implement the interface type n, in order of declaration, and
// checks the conditions of the translation (see ifaceHeaderText).
func (t *loopTr) ifaceImpls(n *types.Named, at ast.Node) []*types.Named {
	if r, ok := ifaceImplCache[n]; ok {
		return r
	}
	it := n.Underlying().(*types.Interface)
	if n.TypeParams() != nil {
		t.fail(at, "interface %s: generic interfaces are not supported", n.Obj().Name())
	}
	if it.NumEmbeddeds() != 0 {
		t.fail(at, "interface %s: embedding is not supported", n.Obj().Name())
	}
	if it.NumMethods() == 0 {
		t.fail(at, "interface %s has no methods: every type implements it, it cannot be modelled as a closed sum", n.Obj().Name())
	}
	sc := t.set.tp.tpkg.Scope()
	var impls []*types.Named
	for _, name := range sc.Names() {
		tn, ok := sc.Lookup(name).(*types.TypeName)
		if !ok || tn.IsAlias() {
			continue
		}
		c, ok := tn.Type().(*types.Named)
		if !ok || c == n {
			continue
		}
		if _, isIface := c.Underlying().(*types.Interface); isIface {
			continue
		}
		byValue := types.Implements(c, it)
		byPtr := types.Implements(types.NewPointer(c), it)
		if !byValue && !byPtr {
			continue
		}
		if !byValue {
			t.fail(at, "interface %s: the type %s implements it with pointer receivers only; only implementations with value receivers are supported", n.Obj().Name(), c.Obj().Name())
		}
		if _, _, ok := structArrLen(c); !ok {
			t.fail(at, "interface %s: its implementation %s is not a struct with exactly one field of type [N]byte (only such implementations are supported: struct with two fields, named integers … are rejected)", n.Obj().Name(), c.Obj().Name())
		}
		impls = append(impls, c)
	}
	if len(impls) == 0 {
		t.fail(at, "interface %s: no type of the package implements it", n.Obj().Name())
	}
	sort.Slice(impls, func(i, j int) bool { return impls[i].Obj().Pos() < impls[j].Obj().Pos() })
	ifaceImplCache[n] = impls
	return impls
}

// ifaceTag returns the constructor index of the struct type c in the interface type n.
func (t *loopTr) ifaceTag(n *types.Named, c types.Type, at ast.Node) int {
	for i, im := range t.ifaceImpls(n, at) {
		if types.Identical(im, c) {
			return i
		}
	}
	t.fail(at, "a value of type %s converted to the interface %s: it is not one of the package's struct types that implement it", c, n.Obj().Name())
	return 0
}

// ---------------------------------------------------------------- per-function state (kept here: loopTr is shared)

type ifaceFn struct {
	anonRecv     types.Type // the type of an unnamed value receiver
	structParams []string   // doc: parameters / receivers of struct type (assumed length)
}

var ifaceFns = map[*loopTr]*ifaceFn{}

func (t *loopTr) ifaceSt() *ifaceFn {
	s := ifaceFns[t]
	if s == nil {
		s = &ifaceFn{}
		ifaceFns[t] = s
	}
	return s
}

// ---------------------------------------------------------------- value receivers

// ifaceSetupRecv is the hook of setupRecv: a method with a value receiver of a named integer type or of a struct type
// with one array field (both of the package).  The receiver becomes the first parameter.
func (t *loopTr) ifaceSetupRecv() bool {
	fd := t.fd
	if fd.Recv == nil || len(fd.Recv.List) != 1 {
		return false
	}
	rtv, ok := t.info.Types[fd.Recv.List[0].Type]
	if !ok {
		return false
	}
	rt := rtv.Type
	if _, isPtr := rt.(*types.Pointer); isPtr {
		return false
	}
	_, _, isStruct := structArrLen(rt)
	if isStruct {
		if rt.(*types.Named).Obj().Pkg() != t.set.tp.tpkg {
			return false
		}
	} else if !isNamedInt(rt, t.set.tp.tpkg) {
		return false // (a value receiver of any other struct type is rejected by setupRecv, as before)
	}
	if t.recursive {
		t.fail(fd, "a recursive method with a value receiver is not supported")
	}
	names := fd.Recv.List[0].Names
	if len(names) == 1 && names[0].Name != "_" {
		rid := names[0]
		o := t.info.Defs[rid]
		if isStruct {
			t.ifaceNoStructWrites(o)
			t.ifaceSt().structParams = append(t.ifaceSt().structParams, rid.Name)
		}
		t.recvParam = rid
		return true
	}
	t.ifaceSt().anonRecv = rt
	return true
}

// ifaceAnonRecv is the hook of translate for the parameter list: the unnamed value receiver.
func (t *loopTr) ifaceAnonRecv() []string {
	s := ifaceFns[t]
	if s == nil || s.anonRecv == nil {
		return nil
	}
	if t.set.all["_recv"] {
		t.fail(t.fd, "the name _recv clashes with a function of the translation")
	}
	ast.Inspect(t.fd, func(n ast.Node) bool {
		if id, ok := n.(*ast.Ident); ok && id.Name == "_recv" {
			t.fail(id, "variable name _recv clashes with the name of the unnamed receiver in the generated Lean text")
		}
		return true
	})
	if _, _, isStruct := structArrLen(s.anonRecv); isStruct {
		s.structParams = append(s.structParams, "_recv")
	}
	return []string{fmt.Sprintf("(_recv : %s)", t.kindOf(s.anonRecv, t.fd).lean())}
}

// ifaceDoc is the hook of translate for the doc comment.
func (t *loopTr) ifaceDoc() string {
	s := ifaceFns[t]
	doc := ""
	if s != nil && s.anonRecv != nil {
		doc += "; the unnamed value receiver is the first parameter `_recv`"
	} else if t.recvParam != nil && t.sliceRecv() == nil {
		doc += "; the value receiver `" + t.recvParam.Name + "` is the first parameter"
	}
	// parameters of struct / interface type
	for _, f := range t.fd.Type.Params.List {
		for _, id := range f.Names {
			o := t.info.Defs[id]
			if o == nil {
				continue
			}
			if n, ok := o.Type().(*types.Named); ok {
				if _, isI := n.Underlying().(*types.Interface); isI && n.Obj().Pkg() == t.set.tp.tpkg && !isNamedType(n, "hash", "Hash") {
					var ns []string
					for i, im := range t.ifaceImpls(n, id) {
						ns = append(ns, fmt.Sprintf("%d = %s", i, im.Obj().Name()))
					}
					doc += fmt.Sprintf("; `%s` (interface %s) is none for nil, some (k, bytes of the array field) for a value of the k-th implementation (%s) — CLOSED WORLD, see the header", id.Name, n.Obj().Name(), strings.Join(ns, ", "))
				}
			}
		}
	}
	if s = ifaceFns[t]; s != nil {
		for _, p := range s.structParams {
			doc += fmt.Sprintf("; ASSUMPTION (not checked here): `%s` (a struct value with one array field, passed by value) is the list of the bytes of that field and has its length", p)
		}
	}
	delete(ifaceFns, t)
	return doc
}

// ifaceNoStructWrites rejects writes into the parameter / receiver o of struct type (it is a copy; read-only here).
func (t *loopTr) ifaceNoStructWrites(o types.Object) {
	ast.Inspect(t.fd.Body, func(n ast.Node) bool {
		switch x := n.(type) {
		case *ast.AssignStmt:
			for _, l := range x.Lhs {
				if t.ifaceMentions(l, o) {
					t.fail(x, "assignment to (a part of) `%s`, a parameter or receiver of struct type: it is a copy and is read-only in the translated subset", o.Name())
				}
			}
		case *ast.IncDecStmt:
			if t.ifaceMentions(x.X, o) {
				t.fail(x, "assignment to (a part of) `%s`, a parameter or receiver of struct type: it is a copy and is read-only in the translated subset", o.Name())
			}
		case *ast.UnaryExpr:
			if x.Op == token.AND && t.ifaceMentions(x.X, o) {
				t.fail(x, "the address of (a part of) `%s`, a parameter or receiver of struct type, is not supported", o.Name())
			}
		case *ast.CallExpr:
			if id, ok := unparen(x.Fun).(*ast.Ident); ok && len(x.Args) == 2 {
				if b, ok := t.info.Uses[id].(*types.Builtin); ok && b.Name() == "copy" && t.ifaceMentions(x.Args[0], o) {
					t.fail(x, "copy into `%s`, a parameter or receiver of struct type: it is a copy and is read-only in the translated subset", o.Name())
				}
			}
		}
		return true
	})
}

// ifaceMentions: the root variable of the expression e (through selectors, indices, slices, parentheses) is o.
func (t *loopTr) ifaceMentions(e ast.Expr, o types.Object) bool {
	for {
		switch x := unparen(e).(type) {
		case *ast.Ident:
			return t.info.Uses[x] == o
		case *ast.SelectorExpr:
			e = x.X
		case *ast.IndexExpr:
			e = x.X
		case *ast.SliceExpr:
			e = x.X
		case *ast.StarExpr:
			e = x.X
		default:
			return false
		}
	}
}

// ---------------------------------------------------------------- method calls x.m()

// ifaceRecvExpr returns the receiver x of a call x.m() whose receiver is a variable of a named integer type, of a struct
// type with one array field or of an interface type — all declared in the package being translated (nil otherwise).
func (t *loopTr) ifaceRecvExpr(c *ast.CallExpr) (*ast.Ident, *types.Func) {
	f, ok := unparen(c.Fun).(*ast.SelectorExpr)
	if !ok {
		return nil, nil
	}
	fn, ok := t.info.Uses[f.Sel].(*types.Func)
	if !ok || fn.Pkg() == nil || fn.Pkg() != t.set.tp.tpkg {
		return nil, nil
	}
	sig, _ := fn.Type().(*types.Signature)
	if sig == nil || sig.Recv() == nil {
		return nil, nil
	}
	xtv, ok := t.info.Types[f.X]
	if !ok || xtv.IsType() {
		return nil, nil
	}
	n, ok := xtv.Type.(*types.Named)
	if !ok || n.Obj().Pkg() != t.set.tp.tpkg {
		return nil, nil
	}
	_, _, isStruct := structArrLen(n)
	_, isIface := n.Underlying().(*types.Interface)
	if !isStruct && !isIface && !isNamedInt(n, t.set.tp.tpkg) {
		return nil, nil
	}
	x, ok := unparen(f.X).(*ast.Ident)
	if !ok {
		t.fail(c, "method call %s: the receiver must be a variable", t.p.src(c))
	}
	if v, isVar := t.info.Uses[x].(*types.Var); !isVar || v.IsField() || v.Parent() == t.set.tp.tpkg.Scope() {
		return nil, nil // a package-level variable: the older path (methods of a package-level struct variable)
	}
	if t.recv != nil && t.info.Uses[x] == t.recv {
		return nil, nil // c.m() on the pointer receiver of the method being translated: the older path
	}
	return x, fn
}

// ifaceMethodSig is the hook of sigOf: the signature of the translated method (or dispatch function) that x.m() calls.
// A method that has not been translated is rejected here: nothing about it may be guessed.
func (t *loopTr) ifaceMethodSig(c *ast.CallExpr) (*fnSig, *types.Func) {
	x, fn := t.ifaceRecvExpr(c)
	if x == nil {
		return nil, nil
	}
	n := t.info.Types[x].Type.(*types.Named)
	key := n.Obj().Name() + "." + fn.Name()
	sig := loopSigs[sigKey(fn.Pkg().Path(), key)]
	if sig == nil {
		if _, isIface := n.Underlying().(*types.Interface); isIface {
			t.fail(c, "call of the interface method %s, for which no dispatch function has been generated (request `%s` after the methods of all implementations; an untranslated method cannot be called)", key, key)
		}
		t.fail(c, "call of the method %s, which has not been translated before this function (an untranslated method cannot be called)", key)
	}
	if sig.recursive {
		t.fail(c, "call of the recursive method %s is not supported", key)
	}
	return sig, fn
}

// ifaceRecvArgs is the hook of readOnlyRecvArgs and flowCall: the receiver argument of a call x.m() of this stage.
func (t *loopTr) ifaceRecvArgs(c *ast.CallExpr) []string {
	x, _ := t.ifaceRecvExpr(c)
	if x == nil {
		return nil
	}
	v, _ := t.ident(x)
	return []string{v}
}

// ---------------------------------------------------------------- dispatch functions of an interface

// ifaceDispatch is the hook of translateLoopFuncsNS: the request "I.m" with I an interface type of the package generates
// the dispatch function I_m over the translated methods T.m of the implementations (see ifaceHeaderText).
func (s *loopSet) ifaceDispatch(name string) (string, bool) {
	i := strings.Index(name, ".")
	if i < 0 {
		return "", false
	}
	tn, ok := s.tp.tpkg.Scope().Lookup(name[:i]).(*types.TypeName)
	if !ok {
		return "", false
	}
	n, ok := tn.Type().(*types.Named)
	if !ok {
		return "", false
	}
	it, ok := n.Underlying().(*types.Interface)
	if !ok {
		return "", false
	}
	mname := name[i+1:]
	// a translator state only for messages and the checks of the interface
	fd := &ast.FuncDecl{Name: &ast.Ident{Name: name, NamePos: tn.Pos()}, Type: &ast.FuncType{Params: &ast.FieldList{}}}
	t := &loopTr{name: name, set: s, p: s.p, info: s.tp.info, fd: fd, vars: map[types.Object]string{}}
	var m *types.Func
	for j := 0; j < it.NumMethods(); j++ {
		if it.Method(j).Name() == mname {
			m = it.Method(j)
		}
	}
	if m == nil {
		t.fail(fd, "interface %s has no method %s", tn.Name(), mname)
	}
	msig := m.Type().(*types.Signature)
	if msig.Params().Len() != 0 || msig.Variadic() {
		t.fail(fd, "interface method %s: methods with parameters are not supported", name)
	}
	if msig.Results().Len() == 0 {
		t.fail(fd, "interface method %s: a method without result is not supported", name)
	}
	impls := t.ifaceImpls(n, fd)
	leanName := strings.ReplaceAll(name, ".", "_")
	var rets []lkind
	var arms []string
	var implNames []string
	for k, im := range impls {
		key := im.Obj().Name() + "." + mname
		sig := loopSigs[sigKey(s.tp.tpkg.Path(), key)]
		if sig == nil || !s.done[key] {
			t.fail(fd, "dispatch of the interface method %s: the method %s has not been translated before it (an untranslated method cannot be called)", name, key)
		}
		if len(sig.deps) != 0 || len(sig.fieldsIn) != 0 || len(sig.fieldsOut) != 0 || len(sig.outIdx) != 0 || len(sig.params) != 0 || sig.recursive || sig.abstract {
			t.fail(fd, "dispatch of the interface method %s: the translated method %s has parameters, dependencies or effects, which is not supported here", name, key)
		}
		if k == 0 {
			rets = sig.rets
		} else if fmt.Sprint(rets) != fmt.Sprint(sig.rets) {
			t.fail(fd, "dispatch of the interface method %s: the translated methods have different result carriers", name)
		}
		for _, r := range sig.rets {
			if isErrKind(r) {
				t.fail(fd, "dispatch of the interface method %s: error results are not supported", name)
			}
		}
		call := sigName(sig) + " h"
		if !sig.flow {
			call = "some (" + call + ")"
		}
		arms = append(arms, fmt.Sprintf("  | some (%d, h) => %s\n", k, call))
		implNames = append(implNames, fmt.Sprintf("%d = %s", k, im.Obj().Name()))
	}
	var tys []string
	for _, r := range rets {
		tys = append(tys, r.lean())
	}
	sig := &fnSig{lean: leanName, rets: rets, flow: true, method: true, pkg: s.tp.tpkg}
	if s.ns != "" {
		sig.lean = s.ns + "." + leanName
	}
	loopSigs[sigKey(s.tp.tpkg.Path(), name)] = sig
	s.flowFns[name] = true
	doc := fmt.Sprintf("dispatch (loops) of the method `%s` of the interface `%s` in %s over the struct types of the package that implement it (%s): "+
		"CLOSED WORLD — a value of a type of another package, or a pointer to one of these types, is outside the translation; "+
		"none = run-time panic: a method call on the nil interface (Go: nil pointer dereference); a tag that names no implementation is not a value of the translation (none)",
		mname, tn.Name(), rel(s.p.dir), strings.Join(implNames, ", "))
	return fmt.Sprintf("/-- %s -/\ndef %s (a : %s) : Option (%s) :=\n  match a with\n  | none => none\n%s  | some _ => none\n",
		doc, leanName, ifaceLeanType, strings.Join(tys, " × "), strings.Join(arms, "")), true
}

// ---------------------------------------------------------------- package-level array of strings

// ifacePkgVar is the hook of pkgVar: a package-level `var t = [N]string{…}` of constants that nothing modifies.
func (s *loopSet) ifacePkgVar(t *loopTr, v *types.Var, at ast.Node) (string, bool) {
	a, ok := v.Type().Underlying().(*types.Array)
	if !ok {
		return "", false
	}
	if b, ok := a.Elem().(*types.Basic); !ok || b.Kind() != types.String {
		return "", false
	}
	name := "var_" + v.Name()
	if _, done := s.varText[v]; done {
		return name, true
	}
	init, _, ok := s.p.valueSpec(v.Name())
	if !ok || init == nil {
		t.fail(at, "package variable %s has no initialiser", v.Name())
	}
	cl, ok := init.(*ast.CompositeLit)
	if !ok {
		t.fail(at, "package variable %s is not initialised by an array literal", v.Name())
	}
	if int64(len(cl.Elts)) != a.Len() {
		t.fail(at, "package variable %s: the array literal does not list all %d elements", v.Name(), a.Len())
	}
	var parts []string
	for _, el := range cl.Elts {
		tv, ok := s.tp.info.Types[el]
		if _, keyed := el.(*ast.KeyValueExpr); keyed || !ok || tv.Value == nil || tv.Value.Kind() != constant.String {
			t.fail(at, "package variable %s: non-constant or keyed element", v.Name())
		}
		parts = append(parts, t.constLit(el, tv.Value, kString))
	}
	if v.Exported() {
		// an exported table can be modified by any importing package (fourth audit, finding 2)
		t.fail(at, "package variable %s is exported: other packages can modify it, so it is not a constant table", v.Name())
	}
	s.checkReadOnly(t, v, at)
	s.varText[v] = fmt.Sprintf("/-- package variable `%s` of %s (an array of %d constant strings; never modified: every use in the package is `range %s`, `%s[i]` read or `len(%s)`) -/\ndef %s : List (List (BitVec 8)) := [%s]\n",
		v.Name(), rel(s.p.dir), a.Len(), v.Name(), v.Name(), v.Name(), name, strings.Join(parts, ", "))
	s.pkgVars = append(s.pkgVars, v)
	return name, true
}

// ---------------------------------------------------------------- struct values

// ifaceStructVar returns the variable x (and its Lean name) when e is `x.f` with x a local variable, parameter or value
// receiver of a struct type with one array field f.
func (t *loopTr) ifaceStructVar(e ast.Expr) (types.Object, string) {
	sel, ok := unparen(e).(*ast.SelectorExpr)
	if !ok {
		return nil, ""
	}
	id, ok := unparen(sel.X).(*ast.Ident)
	if !ok {
		return nil, ""
	}
	o := t.info.Uses[id]
	if o == nil {
		return nil, ""
	}
	_, f, ok := structArrLen(o.Type())
	if !ok || t.info.Uses[sel.Sel] != types.Object(f) {
		return nil, ""
	}
	name, local := t.vars[o]
	if !local {
		return o, ""
	}
	return o, name
}

// ifaceFieldOwner is the hook of copyTarget: the struct variable x for the destination x.f (of copy(x.f[:], …)).
func (t *loopTr) ifaceFieldOwner(dst ast.Expr) types.Object {
	sel, ok := unparen(dst).(*ast.SelectorExpr)
	if !ok {
		return nil
	}
	id, ok := unparen(sel.X).(*ast.Ident)
	if !ok {
		return nil
	}
	o := t.objOf(id)
	if o == nil {
		return nil
	}
	if _, f, ok := structArrLen(o.Type()); ok && t.info.Uses[sel.Sel] == types.Object(f) {
		return o
	}
	return nil
}

// ifaceFieldSlice is the hook of argValue: `x.f[:]` of a struct value, read-only ↦ x.
func (t *loopTr) ifaceFieldSlice(se *ast.SliceExpr) (string, lkind, bool) {
	o, name := t.ifaceStructVar(se.X)
	if o == nil {
		return "", 0, false
	}
	if name == "" {
		t.fail(se, "slice expression %s: `%s` is not a local variable, parameter or receiver of the function", t.p.src(se), o.Name())
	}
	if se.Low != nil || se.High != nil || se.Slice3 {
		t.fail(se, "slice expression %s: of the array field of a struct value only the full slice `x.f[:]` is supported", t.p.src(se))
	}
	return name, kBytes, true
}

// ifaceCopyStmt is the hook of copyStmt: copy(x.f[:], src) with x a LOCAL struct value.
func (t *loopTr) ifaceCopyStmt(s *ast.ExprStmt) ([]binding, bool) {
	c, ok := unparen(s.X).(*ast.CallExpr)
	if !ok || len(c.Args) != 2 {
		return nil, false
	}
	se, ok := unparen(c.Args[0]).(*ast.SliceExpr)
	if !ok {
		return nil, false
	}
	o, name := t.ifaceStructVar(se.X)
	if o == nil {
		return nil, false
	}
	if se.Low != nil || se.High != nil || se.Slice3 {
		t.fail(s, "copy into %s: of the array field of a struct value only the full slice `x.f[:]` is supported as destination", t.p.src(c.Args[0]))
	}
	if name == "" || t.params[o] || (t.recvParam != nil && t.info.Defs[t.recvParam] == o) {
		t.fail(s, "copy into `%s`, a parameter or receiver of struct type: it is a copy and is read-only in the translated subset", o.Name())
	}
	src, sk := t.listArg(c.Args[1])
	if sk != kBytes && sk != kString {
		t.fail(s, "copy of %s into a byte array", sk.lean())
	}
	return []binding{{name: name, kind: kStructArr, val: fmt.Sprintf("(Go.copy %s %s)", name, src), checks: t.takeChecks()}}, true
}

// ifaceZero is the hook of the declaration `var x T` without initial value (ok = false: not a carrier of this stage).
func (t *loopTr) ifaceZero(k lkind, ty types.Type) (string, bool) {
	switch k {
	case kStructArr:
		n, _, _ := structArrLen(ty)
		return fmt.Sprintf("(List.replicate %d 0#8)", n), true
	case kIface:
		return "(none : " + ifaceLeanType + ")", true
	}
	return "", false
}

// ifaceRetValue is the hook of `return`: the value of the i-th result when its declared type is a closed interface.
func (t *loopTr) ifaceRetValue(r ast.Expr, i int) (string, bool) {
	if i >= len(t.rets) || t.rets[i] != kIface || t.selfFn == nil {
		return "", false
	}
	res := t.selfFn.Type().(*types.Signature).Results()
	if i >= res.Len() {
		return "", false
	}
	n, ok := res.At(i).Type().(*types.Named)
	if !ok {
		return "", false
	}
	if id, ok := unparen(r).(*ast.Ident); ok {
		if _, isNil := t.info.Uses[id].(*types.Nil); isNil {
			return "(none : " + ifaceLeanType + ")", true
		}
	}
	rtv := t.typeOf(r)
	if types.Identical(rtv.Type, n) {
		id, ok := unparen(r).(*ast.Ident)
		if !ok {
			t.fail(r, "an interface value returned must be a variable or nil")
		}
		v, _ := t.ident(id)
		return v, true
	}
	if _, isPtr := rtv.Type.(*types.Pointer); isPtr {
		t.fail(r, "a pointer %s returned as the interface %s: only VALUES of the package's struct types are modelled (closed world)", rtv.Type, n.Obj().Name())
	}
	if _, _, ok := structArrLen(rtv.Type); !ok {
		t.fail(r, "a value of type %s returned as the interface %s: only values of the package's struct types with one byte-array field are supported", rtv.Type, n.Obj().Name())
	}
	id, ok := unparen(r).(*ast.Ident)
	if !ok {
		t.fail(r, "a struct value returned as an interface must be a variable (composite literals and calls are not supported here)")
	}
	tag := t.ifaceTag(n, rtv.Type, r)
	v, _ := t.ident(id)
	return fmt.Sprintf("(some (%d, %s))", tag, v), true
}

// ---------------------------------------------------------------- x = x[k:] on a local slice or string

// ifaceLocalReslice is the hook of reslice: `x = x[k:]` with x a local slice or string (see ifaceHeaderText).
func (t *loopTr) ifaceLocalReslice(s *ast.AssignStmt, o types.Object, lo ast.Expr) ([]binding, bool) {
	name, ok := t.vars[o]
	if !ok || t.params[o] || t.isOutBuf(o) || t.isField(o) || t.pairBuf[o] || t.isTagged(o) {
		return nil, false
	}
	if _, isVar := o.(*types.Var); !isVar {
		return nil, false
	}
	k := t.kindOf(o.Type(), s)
	if k != kBytes && k != kString && k != kInts && k != kInt8s && k != kUints && k != kUint32s {
		return nil, false
	}
	if _, isArr := arrayLen(o.Type()); isArr {
		return nil, false
	}
	for _, d := range t.facts.defs[o] {
		if d != nil && t.isMake(d) {
			return nil, false // a local made by make (it may be written by index): rejected as before
		}
	}
	if t.facts.indexed[o] {
		t.fail(s, "reslicing `%s = %s[k:]` of a local slice that is also written by index is not supported (aliasing-sensitive)", name, name)
	}
	if t.innermostLoop(s.Pos()) != t.facts.declLoop[o] {
		t.fail(s, "reslicing `%s = %s[k:]` of a local slice inside a loop that does not declare it is not supported", name, name)
	}
	n := t.sliceBound(lo, name)
	return []binding{{name: name, kind: k, val: fmt.Sprintf("(%s.drop %s)", name, n), checks: t.takeChecks()}}, true
}

// ---------------------------------------------------------------- fmt.Errorf("…%w…", err) with an optional-position carrier

// ifaceWrapLocalErrOpt is the hook of wrapLocalErr: %w of a local error variable in a function whose error carrier is
// Option (String × Option (BitVec 64)).
func (t *loopTr) ifaceWrapLocalErrOpt(name string, wv *types.Var) (string, bool) {
	if !t.errOpt || t.inErrLit > 0 || t.asBound[wv] != nil || t.buildsErrAt() {
		return "", false // (in a function that builds &T{ErrX, off} errors itself it stays rejected, as before)
	}
	return "(Go.errWrapOpt " + name + ")", true
}

// ---------------------------------------------------------------- constructs that are rejected with a message of their own

// ifaceCheckBody is the hook at the start of translate: the constructs around interfaces and struct values that the
// translation does not model are rejected here, by name.
func (t *loopTr) ifaceCheckBody() {
	if leanReserved["prefix"] || !leanRenamed["prefix"] {
		die("internal error: the init function of loops_iface.go ran before that of loops.go")
	}
	// parameters of struct type are copies: read-only in the translated subset
	for _, f := range t.fd.Type.Params.List {
		for _, id := range f.Names {
			if o := t.info.Defs[id]; o != nil {
				if _, _, ok := structArrLen(o.Type()); ok {
					t.ifaceNoStructWrites(o)
					t.ifaceSt().structParams = append(t.ifaceSt().structParams, id.Name)
				}
			}
		}
	}
	own := func(ty types.Type) (*types.Named, bool) {
		n, ok := ty.(*types.Named)
		if !ok || n.Obj().Pkg() == nil || n.Obj().Pkg() != t.set.tp.tpkg {
			return nil, false
		}
		_, isI := n.Underlying().(*types.Interface)
		return n, isI
	}
	ast.Inspect(t.fd.Body, func(n ast.Node) bool {
		switch x := n.(type) {
		case *ast.TypeSwitchStmt:
			t.fail(x, "type switch: outside the translated subset (an interface value is only passed on, returned, or used as the receiver of a translated method)")
		case *ast.TypeAssertExpr:
			t.fail(x, "type assertion: outside the translated subset (an interface value is only passed on, returned, or used as the receiver of a translated method)")
		case *ast.BinaryExpr:
			if x.Op == token.EQL || x.Op == token.NEQ {
				for _, e := range []ast.Expr{x.X, x.Y} {
					if tv, ok := t.info.Types[e]; ok {
						if in, isI := own(tv.Type); isI {
							t.fail(x, "comparison of a value of the interface type %s (also with nil) is not supported: a nil interface is only modelled as a value that is passed on or returned", in.Obj().Name())
						}
					}
				}
			}
		case *ast.UnaryExpr:
			if _, isLit := unparen(x.X).(*ast.CompositeLit); isLit && x.Op == token.AND {
				return false // &T{…}: the older stages (error values, constructors) accept or reject it
			}
		case *ast.CompositeLit:
			if tv, ok := t.info.Types[x]; ok {
				if _, _, isSt := structArrLen(tv.Type); isSt {
					t.fail(x, "composite literal of the struct type %s is not supported (struct values are only made by `var x T` and copy(x.f[:], …))", tv.Type)
				}
			}
		}
		return true
	})
}

// ---------------------------------------------------------------- the generator of Gen/AddressCode.lean

// the functions of pkg/bech32/address that genAddressCode translates as code, in translation order (callees first;
// "Address.Version" / "Address.Bytes" request the dispatch functions of the interface methods)
var addressCodeFns = []string{"Prefix.String", "ParsePrefix",
	"Ed25519Address.Version", "AliasAddress.Version", "NFTAddress.Version",
	"Ed25519Address.Bytes", "AliasAddress.Bytes", "NFTAddress.Bytes",
	"Address.Version", "Address.Bytes", "ParseBech32", "Bech32"}

// genAddressCode: pkg/bech32/address/address.go translated as code (to be tied to the model in Iota/Tie/AddressCode.lean).
// ParseBech32 and Bech32 call bech32.Decode / bech32.Encode of pkg/bech32: these are the translations in
// Gen/Bech32.lean (namespace api there); they are not generated a second time, the file imports Gen/Bech32.lean and opens
// exactly these two names.  The translation calls below are the ones genBech32 makes: they register the signatures of
// the callees (the text they return is the one in Gen/Bech32.lean and is not written again), so that this generator does
// not depend on genBech32 having run in the same process.  ParseVersion / versionStrings (a map), blake2bSum160,
// AddressFromPublicKey, the *FromOutputID constructors and the String methods are NOT translated: they stay pinned by
// text (Gen/Address.lean, which also keeps the text of the functions translated here — genAddress is unchanged).
func genAddressCode() {
	p := repoPkg("pkg/bech32")
	b := repoPkg("pkg/bech32/internal/base32")
	a := repoPkg("pkg/bech32/address")
	g := newGenHdr("AddressCode", loopHeaderText+flowHeaderText+recvHeaderText+callHeaderText+strsHeaderText+arrHeaderText+ifaceHeaderText, "Iota.Model.GoBits", "Iota.Gen.Bech32")
	translateLoopFuncs(p, "bech32Polymod", "bech32HrpExpand", "bech32CreateChecksum", "bech32VerifyChecksum")
	checkFreshDst(p, "base32", "Encode", "Decode")
	translateLoopFuncsNS(b, "base32", "EncodedLen", "DecodedLen", "Encode!disjoint", "Decode!disjoint")
	translateLoopFuncsNS(p, "chars", "newEncoding", "encoding.encode", "encoding.decode")
	translateLoopFuncsNS(p, "api", "isValidHRPChar", "firstUpper", "firstLower", "validateCase", "Encode", "Decode")
	g.raw("-- bech32.Encode / bech32.Decode of pkg/bech32: the translations in Iota/Gen/Bech32.lean\n")
	g.raw("open Iota.Gen.Bech32 (api.Encode api.Decode)\n\n")
	g.raw(translateLoopFuncsNS(a, "address", addressCodeFns...))
	g.write()
}

// `prefix` is a Lean keyword (reserved in loops.go) but an ordinary Go identifier that address.go uses: like `matches`
// (stage 8) such a variable is renamed (prefix ↦ prefix_2) instead of rejected.  The init functions of a package run in
// file-name order (loops.go before loops_iface.go); ifaceCheckBody verifies that this one took effect.
func init() {
	delete(leanReserved, "prefix")
	leanRenamed["prefix"] = true
}
