package main

// Expressions of the loop translator (see loops.go for the subset and its semantics).

import (
	"fmt"
	"go/ast"
	"go/constant"
	"go/token"
	"go/types"
	"strings"
)

// expr translates e and returns the Lean text together with its carrier.
func (t *loopTr) expr(e ast.Expr) (string, lkind) {
	tv := t.typeOf(e)
	if tv.IsType() {
		t.fail(e, "type used as a value")
	}
	if tv.Value != nil {
		k := t.kindOf(tv.Type, e)
		return t.constLit(e, tv.Value, k), k
	}
	switch x := e.(type) {
	case *ast.ParenExpr:
		return t.expr(x.X)
	case *ast.Ident:
		return t.ident(x)
	case *ast.UnaryExpr:
		s, k := t.expr(x.X)
		switch {
		case x.Op == token.ADD && k.isNum():
			return s, k
		case x.Op == token.SUB && k.isNum():
			return "(-" + s + ")", k
		case x.Op == token.XOR && k.isNum():
			return "(~~~" + s + ")", k
		case x.Op == token.NOT && k == kBool:
			return "(!" + s + ")", kBool
		}
		t.fail(e, "unsupported unary operator %s", x.Op)
	case *ast.BinaryExpr:
		a, ak := t.expr(x.X)
		if x.Op == token.SHL || x.Op == token.SHR {
			return t.shift(e, x.Op, a, ak, x.Y), ak
		}
		b, bk := t.expr(x.Y)
		return t.binop(e, x.Op, a, ak, b, bk)
	case *ast.IndexExpr:
		a, i, ak := t.index(x)
		ek := ak.elem()
		return fmt.Sprintf("(%s.getD %s.toNat 0#%d)", a, i, ek.width()), ek
	case *ast.CompositeLit:
		k := t.kindOf(tv.Type, e)
		if !k.isSlice() {
			t.fail(e, "unsupported composite literal")
		}
		var parts []string
		for _, el := range x.Elts {
			if _, ok := el.(*ast.KeyValueExpr); ok {
				t.fail(el, "keyed elements are not supported")
			}
			s, ek := t.expr(el)
			if ek != k.elem() {
				t.fail(el, "element type")
			}
			parts = append(parts, s)
		}
		return "([" + strings.Join(parts, ", ") + "] : " + k.lean() + ")", k
	case *ast.CallExpr:
		return t.call(x)
	}
	t.fail(e, "unsupported expression %s (%T)", t.p.src(e), e)
	return "", 0
}

func (t *loopTr) ident(x *ast.Ident) (string, lkind) {
	o := t.info.Uses[x]
	v, ok := o.(*types.Var)
	if !ok {
		t.fail(x, "unsupported identifier %s", x.Name)
	}
	k := t.kindOf(v.Type(), x)
	if name, ok := t.vars[o]; ok {
		return name, k
	}
	if v.Parent() == t.set.tp.tpkg.Scope() {
		return t.set.pkgVar(t, v, x), k
	}
	t.fail(x, "unknown variable %s", x.Name)
	return "", 0
}

// shiftCount renders a shift count as a Nat.
func (t *loopTr) shiftCount(y ast.Expr) string {
	tv := t.typeOf(y)
	if tv.Value != nil {
		iv := constant.ToInt(tv.Value)
		if iv.Kind() != constant.Int || constant.Sign(iv) < 0 {
			t.fail(y, "bad constant shift count")
		}
		return iv.ExactString()
	}
	s, k := t.expr(y)
	if !k.isNum() {
		t.fail(y, "shift count is not an integer")
	}
	return s + ".toNat"
}

func (t *loopTr) shift(at ast.Node, op token.Token, a string, ak lkind, y ast.Expr) string {
	if !ak.isNum() {
		t.fail(at, "shift of a non-integer")
	}
	n := t.shiftCount(y)
	switch {
	case op == token.SHL:
		return "(" + a + " <<< " + n + ")"
	case ak == kInt:
		return "(BitVec.sshiftRight " + a + " " + n + ")"
	}
	return "(" + a + " >>> " + n + ")"
}

func (t *loopTr) binop(at ast.Node, op token.Token, a string, ak lkind, b string, bk lkind) (string, lkind) {
	if ak != bk {
		t.fail(at, "operands of different types")
	}
	if ak == kBool {
		switch op {
		case token.LAND:
			return "(" + a + " && " + b + ")", kBool
		case token.LOR:
			return "(" + a + " || " + b + ")", kBool
		case token.EQL:
			return "(" + a + " == " + b + ")", kBool
		case token.NEQ:
			return "(" + a + " != " + b + ")", kBool
		}
	}
	if ak.isNum() {
		infix := map[token.Token]string{token.ADD: "+", token.SUB: "-", token.MUL: "*",
			token.AND: "&&&", token.OR: "|||", token.XOR: "^^^"}
		if s, ok := infix[op]; ok {
			return "(" + a + " " + s + " " + b + ")", ak
		}
		lt, le := "BitVec.ult", "BitVec.ule"
		if ak == kInt {
			lt, le = "BitVec.slt", "BitVec.sle"
		}
		switch op {
		case token.AND_NOT:
			return "(" + a + " &&& ~~~" + b + ")", ak
		case token.EQL:
			return "(" + a + " == " + b + ")", kBool
		case token.NEQ:
			return "(" + a + " != " + b + ")", kBool
		case token.LSS:
			return "(" + lt + " " + a + " " + b + ")", kBool
		case token.LEQ:
			return "(" + le + " " + a + " " + b + ")", kBool
		case token.GTR:
			return "(" + lt + " " + b + " " + a + ")", kBool
		case token.GEQ:
			return "(" + le + " " + b + " " + a + ")", kBool
		}
	}
	t.fail(at, "unsupported operator %s on %s", op, ak.lean())
	return "", 0
}

// index checks that a[i] is in range by construction and returns the texts of a and i.
func (t *loopTr) index(x *ast.IndexExpr) (string, string, lkind) {
	aid, ok1 := unparen(x.X).(*ast.Ident)
	iid, ok2 := unparen(x.Index).(*ast.Ident)
	if !ok1 || !ok2 {
		t.fail(x, "index expression %s: only variable[variable] is supported", t.p.src(x))
	}
	ao, io := t.info.Uses[aid], t.info.Uses[iid]
	ok := false
	for _, l := range t.loops {
		if l.key != nil && l.key == io && l.rng == ao && !l.plain[io] && !l.plain[ao] {
			ok = true
		}
	}
	if !ok {
		t.fail(x, "cannot establish that the index of %s is in range: %s must be the key of an enclosing `for %s := range %s` in which neither is reassigned",
			t.p.src(x), iid.Name, iid.Name, aid.Name)
	}
	a, ak := t.ident(aid)
	i, _ := t.ident(iid)
	if !ak.isSlice() {
		t.fail(x, "indexing of %s", ak.lean())
	}
	return a, i, ak
}

// noAlias rejects a bare slice variable where a second reference to its backing array would be created.
func (t *loopTr) noAlias(e ast.Expr, what string) {
	if id, ok := unparen(e).(*ast.Ident); ok {
		if tv := t.typeOf(e); tv.Value == nil {
			if _, isSlice := tv.Type.Underlying().(*types.Slice); isSlice {
				t.fail(e, "%s: `%s` would alias the backing array of a slice variable (aliasing-sensitive, outside the subset)", what, id.Name)
			}
		}
	}
}

func (t *loopTr) call(x *ast.CallExpr) (string, lkind) {
	ftv := t.typeOf(x.Fun)
	if ftv.IsType() { // conversion
		if len(x.Args) != 1 {
			t.fail(x, "conversion arity")
		}
		to := t.kindOf(ftv.Type, x)
		t.noAlias(x.Args[0], "conversion")
		s, from := t.expr(x.Args[0])
		return t.convert(x, s, from, to), to
	}
	id, ok := unparen(x.Fun).(*ast.Ident)
	if !ok {
		t.fail(x, "unsupported call %s", t.p.src(x))
	}
	switch o := t.info.Uses[id].(type) {
	case *types.Builtin:
		switch o.Name() {
		case "len":
			s, k := t.expr(x.Args[0])
			if !k.isSlice() && k != kString {
				t.fail(x, "len of %s", k.lean())
			}
			return "(BitVec.ofNat 64 " + s + ".length)", kInt
		case "append":
			return t.appendCall(x)
		case "make":
			return t.makeCall(x)
		}
		t.fail(x, "unsupported builtin %s", o.Name())
	case *types.Func:
		if o.Pkg() != t.set.tp.tpkg || o.Parent() != t.set.tp.tpkg.Scope() {
			t.fail(x, "call of %s: only functions of the same package are supported", t.p.src(x.Fun))
		}
		if !t.set.done[o.Name()] {
			t.fail(x, "call of %s, which has not been translated before this function", o.Name())
		}
		if x.Ellipsis.IsValid() {
			t.fail(x, "variadic call")
		}
		sig := o.Type().(*types.Signature)
		if sig.Results().Len() != 1 {
			t.fail(x, "call of a function with %d results", sig.Results().Len())
		}
		parts := []string{o.Name()}
		for _, a := range x.Args {
			s, _ := t.expr(a)
			parts = append(parts, s)
		}
		return "(" + strings.Join(parts, " ") + ")", t.kindOf(sig.Results().At(0).Type(), x)
	}
	t.fail(x, "unsupported call %s", t.p.src(x))
	return "", 0
}

func (t *loopTr) convert(at ast.Node, s string, from, to lkind) string {
	switch {
	case from == to, from == kInt && to == kUint, from == kUint && to == kInt:
		return s // same bits
	case from == kString && to == kBytes:
		return s // the bytes of the string (a copy in Go)
	case from == kByte && (to == kInt || to == kUint):
		return "(BitVec.setWidth 64 " + s + ")" // zero extension
	case (from == kInt || from == kUint) && to == kByte:
		return "(BitVec.setWidth 8 " + s + ")" // truncation
	}
	t.fail(at, "unsupported conversion %s -> %s", from.lean(), to.lean())
	return ""
}

func (t *loopTr) appendCall(x *ast.CallExpr) (string, lkind) {
	if len(x.Args) < 2 {
		t.fail(x, "append with a single argument aliases its argument")
	}
	if id, ok := unparen(x.Args[0]).(*ast.Ident); ok {
		t.checkAppendTo(x, id)
	}
	a, ak := t.expr(x.Args[0])
	if !ak.isSlice() {
		t.fail(x, "append to %s", ak.lean())
	}
	if x.Ellipsis.IsValid() {
		if len(x.Args) != 2 {
			t.fail(x, "append arity")
		}
		b, bk := t.expr(x.Args[1])
		if bk != ak && !(ak == kBytes && bk == kString) {
			t.fail(x, "append of %s to %s", bk.lean(), ak.lean())
		}
		return "(" + a + " ++ " + b + ")", ak
	}
	var parts []string
	for _, el := range x.Args[1:] {
		s, ek := t.expr(el)
		if ek != ak.elem() {
			t.fail(el, "element type")
		}
		parts = append(parts, s)
	}
	return "(" + a + " ++ [" + strings.Join(parts, ", ") + "])", ak
}

// checkAppendTo enforces the ownership discipline for append(x, …) with x a variable.
func (t *loopTr) checkAppendTo(call *ast.CallExpr, id *ast.Ident) {
	o := t.info.Uses[id]
	_, local := t.vars[o]
	f := t.facts
	switch {
	case !local || t.params[o]:
		t.fail(call, "append to `%s`, which is not a local variable: it may write into an array shared with the caller", id.Name)
	case f.indexed[o]:
		t.fail(call, "append to `%s`, which is also assigned by index", id.Name)
	case call == t.selfAppend:
		return
	case len(f.defs[o]) != 1 || f.plain[o] != 0:
		t.fail(call, "append(%s, …) not assigned back to %s, and %s is assigned more than once", id.Name, id.Name, id.Name)
	case f.lastRef[o] != id.Pos():
		t.fail(call, "append(%s, …) not assigned back to %s, and %s is used again later (aliasing-sensitive)", id.Name, id.Name, id.Name)
	case t.innermostLoop(id.Pos()) != f.declLoop[o]:
		t.fail(call, "append(%s, …) not assigned back to %s inside a loop that does not declare %s", id.Name, id.Name, id.Name)
	}
}

func (t *loopTr) makeCall(x *ast.CallExpr) (string, lkind) {
	if len(x.Args) < 2 || len(x.Args) > 3 {
		t.fail(x, "make needs a length")
	}
	ttv := t.typeOf(x.Args[0])
	if !ttv.IsType() {
		t.fail(x, "make of a non-type")
	}
	k := t.kindOf(ttv.Type, x)
	if !k.isSlice() {
		t.fail(x, "make of %s", ttv.Type)
	}
	if len(x.Args) == 3 {
		t.expr(x.Args[2]) // the capacity does not influence the value; it must still be in the subset
	}
	zero := fmt.Sprintf("0#%d", k.elem().width())
	if ltv := t.typeOf(x.Args[1]); ltv.Value != nil {
		n := constant.ToInt(ltv.Value)
		if n.Kind() != constant.Int || constant.Sign(n) < 0 {
			t.fail(x, "bad constant length")
		}
		if constant.Sign(n) == 0 {
			return "([] : " + k.lean() + ")", k
		}
		return "(List.replicate " + n.ExactString() + " " + zero + ")", k
	}
	n, nk := t.expr(x.Args[1])
	if !nk.isNum() {
		t.fail(x, "length is not an integer")
	}
	return "(List.replicate " + n + ".toNat " + zero + ")", k
}

// pkgVar returns the Lean name of package variable v, checking that it is a slice literal of
// constants which nothing in the package ever modifies.
func (s *loopSet) pkgVar(t *loopTr, v *types.Var, at ast.Node) string {
	name := "var_" + v.Name()
	if _, ok := s.varText[v]; ok {
		return name
	}
	init, _, ok := s.p.valueSpec(v.Name())
	if !ok || init == nil {
		t.fail(at, "package variable %s has no initialiser", v.Name())
	}
	cl, ok := init.(*ast.CompositeLit)
	k := t.kindOf(v.Type(), at)
	if !ok || !k.isSlice() {
		t.fail(at, "package variable %s is not initialised by a slice literal", v.Name())
	}
	var parts []string
	for _, el := range cl.Elts {
		tv, ok := s.tp.info.Types[el]
		if _, keyed := el.(*ast.KeyValueExpr); keyed || !ok || tv.Value == nil {
			t.fail(at, "package variable %s: non-constant or keyed element", v.Name())
		}
		parts = append(parts, t.constLit(el, tv.Value, k.elem()))
	}
	s.checkReadOnly(t, v, at)
	s.varText[v] = fmt.Sprintf("/-- package variable `%s` of %s (never modified: every use in the package is `range %s`, `%s[i]` read or `len(%s)`) -/\ndef %s : %s := [%s]\n",
		v.Name(), rel(s.p.dir), v.Name(), v.Name(), v.Name(), name, k.lean(), strings.Join(parts, ", "))
	s.pkgVars = append(s.pkgVars, v)
	return name
}

// checkReadOnly: every use of v in the package is `range v`, an rvalue `v[i]`, or `len(v)`.
func (s *loopSet) checkReadOnly(t *loopTr, v *types.Var, at ast.Node) {
	allowed := map[*ast.Ident]bool{}
	written := map[ast.Expr]bool{}
	for _, fn := range s.p.sortedFiles() {
		ast.Inspect(s.p.files[fn], func(n ast.Node) bool {
			switch x := n.(type) {
			case *ast.AssignStmt:
				for _, l := range x.Lhs {
					written[unparen(l)] = true
				}
			case *ast.IncDecStmt:
				written[unparen(x.X)] = true
			case *ast.UnaryExpr:
				if x.Op == token.AND {
					written[unparen(x.X)] = true
				}
			case *ast.RangeStmt:
				if id, ok := unparen(x.X).(*ast.Ident); ok {
					allowed[id] = true
				}
			case *ast.IndexExpr:
				if id, ok := unparen(x.X).(*ast.Ident); ok && !written[x] {
					allowed[id] = true
				}
			case *ast.CallExpr:
				if f, ok := unparen(x.Fun).(*ast.Ident); ok && len(x.Args) == 1 {
					if b, ok := s.tp.info.Uses[f].(*types.Builtin); ok && b.Name() == "len" {
						if id, ok := unparen(x.Args[0]).(*ast.Ident); ok {
							allowed[id] = true
						}
					}
				}
			}
			return true
		})
	}
	for id, o := range s.tp.info.Uses {
		if o == v && !allowed[id] {
			pos := s.p.fset.Position(id.Pos())
			t.fail(at, "package variable %s may be modified or aliased at %s:%d; it cannot be treated as a constant", v.Name(), pos.Filename, pos.Line)
		}
	}
}
