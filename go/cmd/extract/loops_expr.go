package main

// Expressions of the loop translator (see loops.go for the subset and its semantics).

import (
	"fmt"
	"go/ast"
	"go/constant"
	"go/token"
	"go/types"
	"os"
	"regexp"
	"strings"
)

// expr translates e and returns the Lean text together with its carrier.
func (t *loopTr) expr(e ast.Expr) (string, lkind) {
	tv := t.typeOf(e)
	if tv.IsType() {
		t.fail(e, "type used as a value")
	}
	if tv.Value != nil {
		k := t.kindOf(tv.Type, e)
		return t.constLit(e, tv.Value, k), k
	}
	switch x := e.(type) {
	case *ast.ParenExpr:
		return t.expr(x.X)
	case *ast.Ident:
		return t.ident(x)
	case *ast.SelectorExpr:
		if v, k, ok := t.keyExpr(x); ok {
			return v, k // stage 13 (loops_key.go): X.Params().N
		}
		// e.Offset for an e bound by errors.As
		if id, ok := unparen(x.X).(*ast.Ident); ok {
			if src := t.asBound[t.objOf(id)]; src != nil {
				if fv, isF := t.info.Uses[x.Sel].(*types.Var); isF && fv.IsField() && t.kindOf(fv.Type(), x) == kInt {
					if t.errOpt {
						return "(Go.errOff " + t.vars[src] + ")", kInt
					}
					return "(Go.errOffAt " + t.vars[src] + ")", kInt
				}
			}
		}
		if v, ok := t.info.Uses[x.Sel].(*types.Var); ok && !v.IsField() && v.Pkg() != nil && v.Pkg() != t.set.tp.tpkg &&
			types.Identical(v.Type(), types.Universe.Lookup("error").Type()) {
			if t.errOpt {
				return "(some (" + leanString(t.importedErrVar(x, v)) + ", none))", kErrOpt
			}
			if t.errAt {
				t.fail(x, "an imported error variable in a function that also builds &T{ErrX, off} errors is not supported")
			}
			return "(some " + leanString(t.importedErrVar(x, v)) + ")", kErr
		}
		if o := t.fieldOf(x); o != nil {
			if _, isArr := arrayLen(o.Type()); isArr {
				t.fail(x, "the array field %s may only be indexed (c.f[i]), measured or copied from (c.f[:])", o.Name())
			}
			return t.vars[o], t.kindOf(o.Type(), x)
		}
	case *ast.UnaryExpr:
		if x.Op == token.AND {
			return t.errLit(x)
		}
		s, k := t.expr(x.X)
		switch {
		case x.Op == token.ADD && k.isNum():
			return s, k
		case x.Op == token.SUB && k.isNum():
			return "(-" + s + ")", k
		case x.Op == token.XOR && k.isNum():
			return "(~~~" + s + ")", k
		case x.Op == token.NOT && k == kBool:
			return "(!" + s + ")", kBool
		}
		t.fail(e, "unsupported unary operator %s", x.Op)
	case *ast.BinaryExpr:
		a, ak := t.expr(x.X)
		if x.Op == token.SHL || x.Op == token.SHR {
			if ltv := t.typeOf(x.X); ltv.Value != nil && ak != kInt && ak != kUint && !t.selfTyped(x.X) {
				// a non-constant shift of an untyped constant: the constant has the type go/types recorded for it from the context
				t.fail(e, "non-constant shift of a constant that gets its type %s from the context: only the 64-bit integer types are supported there", ltv.Type)
			}
			return t.shift(e, x.Op, a, ak, x.Y), ak
		}
		varDiv := false
		if x.Op == token.QUO || x.Op == token.REM {
			// a zero divisor panics: non-zero constants, and (stage 14) a non-constant divisor of a 64-bit unsigned type
			// in a function that is built as a Go.Flow (the check `divisor != 0` precedes the statement)
			varDiv = t.divisorCheck(e, x.Op, x.Y)
		}
		n := len(t.checks)
		b, bk := t.expr(x.Y)
		if varDiv {
			if ak != kUint || bk != kUint {
				t.fail(e, "%s by a non-constant divisor is supported for uint / uint64 operands only", x.Op)
			}
			// the operands are evaluated (and can panic) before the division does
			t.addCheck("(" + b + " != 0#64)")
		}
		if x.Op == token.LAND || x.Op == token.LOR {
			// the right operand is only evaluated (and can only panic) when the left one does not decide
			for i := n; i < len(t.checks); i++ {
				if x.Op == token.LAND {
					t.checks[i] = "(!" + a + " || " + t.checks[i] + ")"
				} else {
					t.checks[i] = "(" + a + " || " + t.checks[i] + ")"
				}
			}
		}
		return t.binop(e, x.Op, a, ak, b, bk)
	case *ast.IndexExpr:
		if inner, ok := unparen(x.X).(*ast.IndexExpr); ok {
			return t.index2D(x, inner)
		}
		a, i, ak, _ := t.index(x)
		if ak == kMarshs {
			return fmt.Sprintf("(%s.getD %s %s)", a, i, marshDefault), kMarsh
		}
		if ak == kStrings {
			return fmt.Sprintf("(%s.getD %s ([] : List (BitVec 8)))", a, i), kString
		}
		ek := ak.elem()
		if ek.isSlice() {
			t.fail(x, "a row of a slice of slices may only be used as an argument x[j][lo:] or be assigned `x[j] = make(…)` (aliasing-sensitive)")
		}
		return fmt.Sprintf("(%s.getD %s 0#%d)", a, i, ek.width()), ek
	case *ast.CompositeLit:
		k := t.kindOf(tv.Type, e)
		if !k.isSlice() {
			t.fail(e, "unsupported composite literal")
		}
		var parts []string
		for _, el := range x.Elts {
			if _, ok := el.(*ast.KeyValueExpr); ok {
				t.fail(el, "keyed elements are not supported")
			}
			s, ek := t.expr(el)
			if ek != k.elem() {
				t.fail(el, "element type")
			}
			parts = append(parts, s)
		}
		return "([" + strings.Join(parts, ", ") + "] : " + k.lean() + ")", k
	case *ast.CallExpr:
		return t.call(x)
	case *ast.SliceExpr:
		// strings are immutable: a substring is a value (slices of slices stay restricted to arguments)
		if btv, ok := t.info.Types[x.X]; ok {
			if b, ok := btv.Type.Underlying().(*types.Basic); ok && b.Kind() == types.String {
				return t.argValue(x)
			}
		}
	}
	t.fail(e, "unsupported expression %s (%T)", t.p.src(e), e)
	return "", 0
}

func (t *loopTr) ident(x *ast.Ident) (string, lkind) {
	s, k := t.listIdent(x)
	if isArrayPtr(t.info.Uses[x].Type()) {
		t.fail(x, "the array pointer %s may only be indexed (p[i]) or measured (len(p))", x.Name)
	}
	return s, k
}

// listIdent is ident without the restriction on array pointers (for the operand of an index expression).
func (t *loopTr) listIdent(x *ast.Ident) (string, lkind) {
	o := t.info.Uses[x]
	if s, ok := t.big2PkgVar(x); ok {
		return s, kBig // stage 12 (loops_big2.go): a package-level *big.Int constant
	}
	if _, isNil := o.(*types.Nil); isNil {
		return "(none : " + t.errKind().lean() + ")", t.errKind()
	}
	v, ok := o.(*types.Var)
	if !ok {
		t.fail(x, "unsupported identifier %s", x.Name)
	}
	k := t.kindOf(v.Type(), x)
	if k == kHash {
		t.fail(x, "%s (here `%s` is used in another way: as an operand, an argument or a result)", hashShape, x.Name)
	}
	if name, ok := t.vars[o]; ok {
		if t.pairBuf[o] || t.isTagged(o) {
			return name + ".2", k
		}
		return name, k
	}
	if v.Parent() == t.set.tp.tpkg.Scope() {
		if k == kErr {
			return t.set.errVar(t, v, x), k
		}
		if k == kErrOpt {
			return "(some (" + leanString(t.set.errVarName(t, v, x)) + ", none))", k
		}
		if k == kErrAt {
			t.fail(x, "the error variable %s as a value in a function that also builds &T{ErrX, off} errors is not supported", x.Name)
		}
		return t.set.pkgVar(t, v, x), k
	}
	t.fail(x, "unknown variable %s", x.Name)
	return "", 0
}

// shiftCount renders a shift count as a Nat.
func (t *loopTr) shiftCount(y ast.Expr) string {
	tv := t.typeOf(y)
	if tv.Value != nil {
		iv := constant.ToInt(tv.Value)
		if iv.Kind() != constant.Int || constant.Sign(iv) < 0 {
			t.fail(y, "bad constant shift count")
		}
		return iv.ExactString()
	}
	s, k := t.expr(y)
	if !k.isNum() {
		t.fail(y, "shift count is not an integer")
	}
	if k.isSigned() && t.flowFn {
		// a negative count panics
		if k != kInt {
			t.fail(y, "shift count of type %s", tv.Type)
		}
		t.addCheck("(Go.nonneg " + s + ")")
	}
	return s + ".toNat"
}

func (t *loopTr) shift(at ast.Node, op token.Token, a string, ak lkind, y ast.Expr) string {
	if !ak.isNum() {
		t.fail(at, "shift of a non-integer")
	}
	n := t.shiftCount(y)
	switch {
	case op == token.SHL:
		if os.Getenv("EXTRACT_SAFE_SHL") != "" {
			// same value (Go.shl_eq), evaluated without the huge intermediate Nat; only for the translator's own test
			return "(Go.shl " + a + " " + n + ")"
		}
		return "(" + a + " <<< " + n + ")"
	case ak.isSigned():
		return "(BitVec.sshiftRight " + a + " " + n + ")"
	}
	return "(" + a + " >>> " + n + ")"
}

// divisorCheck: the divisor y of `x / y`, `x % y`.  A non-zero constant: nothing to check
// (false).  Not a constant (stage 14): accepted when its type is uint or uint64 and the function is built as a
// Go.Flow (needsFlow makes it one); the caller then adds the check `y != 0` (true): division by zero is a run-time
// panic, BitVec.udiv / BitVec.umod give the value otherwise.  Signed non-constant division (MinInt / -1 wraps, the
// remainder has the sign of the dividend) and every other shape is rejected.
func (t *loopTr) divisorCheck(at ast.Node, op token.Token, y ast.Expr) bool {
	if c, isConst := t.constInt(y); isConst {
		if c.Sign() == 0 {
			t.fail(at, "%s by the constant zero is not supported (it does not compile)", op)
		}
		return false
	}
	if !t.unsignedDivisor(y) {
		t.fail(at, "%s by a non-constant or zero divisor is not supported (a zero divisor panics; only x %s c with a non-zero constant c, "+
			"and x %s y with y of type uint or uint64)", op, op, op)
	}
	if !t.flowFn {
		t.fail(at, "internal error: %s by a non-constant divisor outside a function that can panic", op)
	}
	return true
}

// unsignedDivisor: y is a non-constant expression of type uint or uint64 (uintptr and the narrower types are not modelled).
func (t *loopTr) unsignedDivisor(y ast.Expr) bool {
	tv, ok := t.info.Types[y]
	if !ok || tv.Value != nil || tv.Type == nil {
		return false
	}
	b, ok := tv.Type.Underlying().(*types.Basic)
	return ok && (b.Kind() == types.Uint || b.Kind() == types.Uint64)
}

func (t *loopTr) binop(at ast.Node, op token.Token, a string, ak lkind, b string, bk lkind) (string, lkind) {
	if ak != bk {
		t.fail(at, "operands of different types")
	}
	if ak == kBool {
		switch op {
		case token.LAND:
			return "(" + a + " && " + b + ")", kBool
		case token.LOR:
			return "(" + a + " || " + b + ")", kBool
		case token.EQL:
			return "(" + a + " == " + b + ")", kBool
		case token.NEQ:
			return "(" + a + " != " + b + ")", kBool
		}
	}
	if ak.isNum() {
		infix := map[token.Token]string{token.ADD: "+", token.SUB: "-", token.MUL: "*",
			token.AND: "&&&", token.OR: "|||", token.XOR: "^^^"}
		if s, ok := infix[op]; ok {
			return "(" + a + " " + s + " " + b + ")", ak
		}
		lt, le := "BitVec.ult", "BitVec.ule"
		if ak.isSigned() {
			lt, le = "BitVec.slt", "BitVec.sle"
		}
		switch op {
		case token.QUO: // the caller has checked the divisor (divisorCheck): a non-zero constant, or guarded by the check b != 0
			if ak.isSigned() {
				return "(BitVec.sdiv " + a + " " + b + ")", ak
			}
			return "(" + a + " / " + b + ")", ak
		case token.REM:
			if ak.isSigned() {
				return "(BitVec.srem " + a + " " + b + ")", ak
			}
			return "(" + a + " % " + b + ")", ak
		case token.AND_NOT:
			return "(" + a + " &&& ~~~" + b + ")", ak
		case token.EQL:
			return "(" + a + " == " + b + ")", kBool
		case token.NEQ:
			return "(" + a + " != " + b + ")", kBool
		case token.LSS:
			return "(" + lt + " " + a + " " + b + ")", kBool
		case token.LEQ:
			return "(" + le + " " + a + " " + b + ")", kBool
		case token.GTR:
			return "(" + lt + " " + b + " " + a + ")", kBool
		case token.GEQ:
			return "(" + le + " " + b + " " + a + ")", kBool
		}
	}
	if ak == kString {
		switch op {
		case token.ADD: // concatenation (strings are immutable values)
			return "(" + a + " ++ " + b + ")", kString
		case token.EQL:
			return "(" + a + " == " + b + ")", kBool
		case token.NEQ:
			return "(" + a + " != " + b + ")", kBool
		}
	}
	if isErrKind(ak) {
		// err != nil / err == nil (comparison of two error values is not supported)
		be, isBin := at.(*ast.BinaryExpr)
		if isBin && (op == token.NEQ || op == token.EQL) {
			isNil := func(e ast.Expr) bool {
				id, ok := unparen(e).(*ast.Ident)
				if !ok {
					return false
				}
				_, n := t.info.Uses[id].(*types.Nil)
				return n
			}
			val := ""
			switch {
			case isNil(be.Y):
				val = a
			case isNil(be.X):
				val = b
			}
			if val != "" {
				if op == token.NEQ {
					return "(" + val + ").isSome", kBool
				}
				return "(" + val + ").isNone", kBool
			}
		}
		t.fail(at, "comparison of errors is not supported (only err != nil / err == nil)")
	}
	t.fail(at, "unsupported operator %s on %s", op, ak.lean())
	return "", 0
}

// index returns the texts of the list a and of the index (a Nat) of a[i], its carrier and the object of a.
// Unless the index is in range by construction (i is the key of an enclosing `for i := range a` in which
// neither is reassigned), the bounds check is registered.
func (t *loopTr) index(x *ast.IndexExpr) (string, string, lkind, types.Object) {
	var ao types.Object
	var a string
	var ak lkind
	if aid, ok := unparen(x.X).(*ast.Ident); ok {
		ao = t.info.Uses[aid]
		a, ak = t.listIdent(aid)
	} else if f := t.fieldOf(x.X); f != nil {
		ao, a, ak = f, t.vars[f], t.kindOf(f.Type(), x)
	} else {
		t.fail(x, "index expression %s: only variable[index] is supported", t.p.src(x))
	}
	if !ak.isSlice() && ak != kString && ak != kMarshs && ak != kStrings {
		t.fail(x, "indexing of %s", ak.lean())
	}
	if t.safe[x] {
		i, _ := t.ident(unparen(x.Index).(*ast.Ident))
		return a, i + ".toNat", ak, ao
	}
	length := a + ".length"
	if n, isArr := arrayLen(ao.Type()); isArr {
		length = fmt.Sprint(n)
	}
	return a, t.checkedIndex(x.Index, length), ak, ao
}

// noAlias rejects a bare slice variable where a second reference to its backing array would be created.
func (t *loopTr) noAlias(e ast.Expr, what string) {
	if id, ok := unparen(e).(*ast.Ident); ok {
		if tv := t.typeOf(e); tv.Value == nil {
			if _, isSlice := tv.Type.Underlying().(*types.Slice); isSlice {
				t.fail(e, "%s: `%s` would alias the backing array of a slice variable (aliasing-sensitive, outside the subset)", what, id.Name)
			}
		}
	}
}

func (t *loopTr) call(x *ast.CallExpr) (string, lkind) {
	if h, ok := t.hoisted[x]; ok {
		return h.name, h.kind
	}
	if v, k, ok := t.bigCall(x); ok {
		return v, k // stage 10 (loops_big.go)
	}
	ftv := t.typeOf(x.Fun)
	if ftv.IsType() { // conversion
		if len(x.Args) != 1 {
			t.fail(x, "conversion arity")
		}
		to := t.kindOf(ftv.Type, x)
		t.noAlias(x.Args[0], "conversion")
		s, from := t.expr(x.Args[0])
		return t.convert(x, s, from, to), to
	}
	if o, m := t.builderCall(x); o != nil {
		if m != "String" || len(x.Args) != 0 {
			t.fail(x, "strings.Builder.%s is only supported as a statement", m)
		}
		return t.vars[o], kBytes
	}
	if v, k, ok := t.hashExpr(x); ok {
		return v, k
	}
	if t.isMarshalCall(x) {
		t.fail(x, "MarshalBinary() is only supported in the statement `b, err := d.MarshalBinary()`")
	}
	if sig, _ := t.sigOf(x); sig != nil {
		if _, isSel := unparen(x.Fun).(*ast.SelectorExpr); isSel || !t.set.done[sigName(sig)] {
			return t.sigCall(x, sig)
		}
	}
	if sel, ok := unparen(x.Fun).(*ast.SelectorExpr); ok {
		return t.libCall(x, sel)
	}
	id, ok := unparen(x.Fun).(*ast.Ident)
	if !ok {
		t.fail(x, "unsupported call %s", t.p.src(x))
	}
	switch o := t.info.Uses[id].(type) {
	case *types.Builtin:
		switch o.Name() {
		case "len":
			s, k := t.expr(x.Args[0])
			if !k.isSlice() && k != kString && k != kMarshs && k != kStrings {
				t.fail(x, "len of %s", k.lean())
			}
			return "(BitVec.ofNat 64 " + s + ".length)", kInt
		case "append":
			return t.appendCall(x)
		case "make":
			return t.makeCall(x)
		}
		t.fail(x, "unsupported builtin %s", o.Name())
	case *types.Func:
		if o.Pkg() != t.set.tp.tpkg || o.Parent() != t.set.tp.tpkg.Scope() {
			t.fail(x, "call of %s: only functions of the same package are supported", t.p.src(x.Fun))
		}
		if !t.set.done[o.Name()] {
			t.fail(x, "call of %s, which has not been translated before this function", o.Name())
		}
		if t.set.flowFns[o.Name()] {
			t.fail(x, "call of %s, which may panic or writes into a parameter: such calls are not supported", o.Name())
		}
		if x.Ellipsis.IsValid() {
			t.fail(x, "variadic call")
		}
		sig := o.Type().(*types.Signature)
		if sig.Results().Len() != 1 {
			t.fail(x, "call of a function with %d results", sig.Results().Len())
		}
		if csig := loopSigs[sigKey(o.Pkg().Path(), o.Name())]; csig != nil {
			t.checkCapArgs(x, csig)
		}
		parts := []string{o.Name()}
		if csig := loopSigs[sigKey(o.Pkg().Path(), o.Name())]; csig != nil {
			parts = append(parts, t.depArgs(csig)...)
		}
		for _, a := range x.Args {
			s, _ := t.argValue(a)
			parts = append(parts, s)
		}
		rk := t.kindOf(sig.Results().At(0).Type(), x)
		if csig := loopSigs[sigKey(o.Pkg().Path(), o.Name())]; csig != nil && len(csig.rets) == 1 && isErrKind(rk) {
			rk = csig.rets[0] // the callee's own error carrier
		}
		return "(" + strings.Join(parts, " ") + ")", rk
	}
	t.fail(x, "unsupported call %s", t.p.src(x))
	return "", 0
}

func (t *loopTr) convert(at ast.Node, s string, from, to lkind) string {
	switch {
	case from == to, from == kInt && to == kUint, from == kUint && to == kInt:
		return s // same bits
	case from == kString && to == kBytes:
		return s // the bytes of the string (a copy in Go)
	case from == kByte && to == kInt8, from == kInt8 && to == kByte:
		return s // same bits
	case from == kByte && (to == kInt || to == kUint):
		return "(BitVec.setWidth 64 " + s + ")" // zero extension
	case from == kInt8 && (to == kInt || to == kUint):
		return "(BitVec.signExtend 64 " + s + ")" // sign extension
	case (from == kInt || from == kUint) && (to == kByte || to == kInt8):
		return "(BitVec.setWidth 8 " + s + ")" // truncation
	case from == kRune && (to == kInt || to == kUint):
		return "(BitVec.signExtend 64 " + s + ")"
	case (from == kInt || from == kUint) && to == kRune:
		return "(BitVec.setWidth 32 " + s + ")"
	case from == kRune && (to == kByte || to == kInt8):
		return "(BitVec.setWidth 8 " + s + ")"
	case from == kByte && to == kRune:
		return "(BitVec.setWidth 32 " + s + ")"
	case from == kInt8 && to == kRune:
		return "(BitVec.signExtend 32 " + s + ")"
	case (from == kInt || from == kUint) && to == kUint32:
		return "(BitVec.setWidth 32 " + s + ")" // truncation
	case from == kUint32 && (to == kInt || to == kUint):
		return "(BitVec.setWidth 64 " + s + ")" // zero extension
	case from == kByte && to == kUint32:
		return "(BitVec.setWidth 32 " + s + ")" // zero extension
	case from == kUint32 && (to == kByte || to == kInt8):
		return "(BitVec.setWidth 8 " + s + ")" // truncation
	case from == kUint32 && to == kRune, from == kRune && to == kUint32:
		return s // same bits
	}
	t.fail(at, "unsupported conversion %s -> %s", from.lean(), to.lean())
	return ""
}

func (t *loopTr) appendCall(x *ast.CallExpr) (string, lkind) {
	if len(x.Args) < 2 {
		t.fail(x, "append with a single argument aliases its argument")
	}
	if id, ok := unparen(x.Args[0]).(*ast.Ident); ok {
		t.checkAppendTo(x, id)
	}
	a, ak, isArr := t.appendArrayBase(x, x.Args[0]) // `a[:]` of an array that is never written (loops_arr.go)
	if !isArr {
		a, ak = t.expr(x.Args[0])
	}
	if !ak.isSlice() {
		t.fail(x, "append to %s", ak.lean())
	}
	if x.Ellipsis.IsValid() {
		if len(x.Args) != 2 {
			t.fail(x, "append arity")
		}
		b, bk := t.argValue(x.Args[1]) // only read: may be a window x[lo:hi]
		if bk != ak && !(ak == kBytes && bk == kString) {
			t.fail(x, "append of %s to %s", bk.lean(), ak.lean())
		}
		return "(" + a + " ++ " + b + ")", ak
	}
	var parts []string
	for _, el := range x.Args[1:] {
		s, ek := t.expr(el)
		if ek != ak.elem() {
			t.fail(el, "element type")
		}
		parts = append(parts, s)
	}
	return "(" + a + " ++ [" + strings.Join(parts, ", ") + "])", ak
}

// checkAppendTo enforces the ownership discipline for append(x, …) with x a variable.
func (t *loopTr) checkAppendTo(call *ast.CallExpr, id *ast.Ident) {
	o := t.info.Uses[id]
	_, local := t.vars[o]
	f := t.facts
	switch {
	case !local || t.params[o]:
		t.fail(call, "append to `%s`, which is not a local variable: it may write into an array shared with the caller", id.Name)
	case f.indexed[o]:
		t.fail(call, "append to `%s`, which is also assigned by index", id.Name)
	case f.marshRes[o]:
		t.fail(call, "append to `%s`, which holds the bytes MarshalBinary() returned: they may share memory with the element (read-only)", id.Name)
	case call == t.selfAppend:
		return
	case len(f.defs[o]) != 1 || f.plain[o] != 0:
		t.fail(call, "append(%s, …) not assigned back to %s, and %s is assigned more than once", id.Name, id.Name, id.Name)
	case f.lastRef[o] != id.Pos():
		t.fail(call, "append(%s, …) not assigned back to %s, and %s is used again later (aliasing-sensitive)", id.Name, id.Name, id.Name)
	case t.innermostLoop(id.Pos()) != f.declLoop[o]:
		t.fail(call, "append(%s, …) not assigned back to %s inside a loop that does not declare %s", id.Name, id.Name, id.Name)
	}
}

func (t *loopTr) makeCall(x *ast.CallExpr) (string, lkind) {
	if len(x.Args) < 2 || len(x.Args) > 3 {
		t.fail(x, "make needs a length")
	}
	if s, k, ok := t.big2MakeStrings(x); ok {
		return s, k // stage 12 (loops_big2.go): make of a named []string type
	}
	ttv := t.typeOf(x.Args[0])
	if !ttv.IsType() {
		t.fail(x, "make of a non-type")
	}
	k := t.kindOf(ttv.Type, x)
	if !k.isSlice() {
		t.fail(x, "make of %s", ttv.Type)
	}
	if len(x.Args) == 3 {
		t.expr(x.Args[2]) // the capacity is not modelled (cap = len throughout, see the header); it must still be in the subset
	}
	zero := fmt.Sprintf("0#%d", k.elem().width())
	if ltv := t.typeOf(x.Args[1]); ltv.Value != nil {
		n := constant.ToInt(ltv.Value)
		if n.Kind() != constant.Int || constant.Sign(n) < 0 {
			t.fail(x, "bad constant length")
		}
		if constant.Sign(n) == 0 {
			return "([] : " + k.lean() + ")", k
		}
		return "(List.replicate " + n.ExactString() + " " + zero + ")", k
	}
	n, nk := t.expr(x.Args[1])
	if !nk.isNum() {
		t.fail(x, "length is not an integer")
	}
	if nk == kInt && t.flowFn {
		t.addCheck("(Go.nonneg " + n + ")") // a negative length panics (checked in functions that can panic anyway)
	}
	return "(List.replicate " + n + ".toNat " + zero + ")", k
}

// libCall translates the supported functions of the standard library.
func (t *loopTr) libCall(x *ast.CallExpr, sel *ast.SelectorExpr) (string, lkind) {
	f, ok := t.info.Uses[sel.Sel].(*types.Func)
	if !ok || f.Pkg() == nil {
		t.fail(x, "unsupported call %s", t.p.src(x))
	}
	if ex, ok := t.externOf(x, sel, f); ok {
		if len(ex.rets) != 0 {
			t.fail(x, "%s has %d results: it is only supported in the statement `x, y := %s(…)`", ex.param, len(ex.rets), t.p.src(x.Fun))
		}
		return t.externCall(x, ex), ex.ret
	}
	if f.Type().(*types.Signature).Recv() != nil {
		if f.Pkg() == t.set.tp.tpkg {
			t.fail(x, "unsupported call %s (a method call is only supported on the pointer receiver of the method being translated and on a package-level variable)", t.p.src(x))
		}
		t.fail(x, "unsupported call %s (a method of a library type)", t.p.src(x))
	}
	if s, k, ok := t.strsLibCall(x, f); ok {
		return s, k
	}
	if s, k, ok := t.arrLibCall(x, f); ok {
		return s, k
	}
	switch f.Pkg().Path() + "." + f.Name() {
	case "math/bits.TrailingZeros":
		if len(x.Args) != 1 {
			t.fail(x, "arity")
		}
		s, k := t.expr(x.Args[0])
		if k != kUint {
			t.fail(x, "argument type")
		}
		return "(Go.trailingZeros64 " + s + ")", kInt
	case "math/bits.Len":
		if len(x.Args) != 1 {
			t.fail(x, "arity")
		}
		s, k := t.expr(x.Args[0])
		if k != kUint {
			t.fail(x, "argument type")
		}
		return "(Go.bitsLen64 " + s + ")", kInt
	case "fmt.Errorf":
		if t.errAt && !t.errOpt {
			t.fail(x, "fmt.Errorf in a function that also builds &T{ErrX, off} errors is not supported")
		}
		// fmt.Errorf("…%w…", …, ErrX, …): an error that wraps the package variable ErrX; the text is not modelled,
		// the other arguments are only evaluated
		if len(x.Args) < 1 || x.Ellipsis.IsValid() {
			t.fail(x, "unsupported call %s", t.p.src(x))
		}
		tv := t.typeOf(x.Args[0])
		if tv.Value == nil || tv.Value.Kind() != constant.String {
			t.fail(x, "fmt.Errorf with a non-constant format")
		}
		verbs := regexp.MustCompile(`%[-+# 0]*[0-9]*(?:\.[0-9]+)?[a-zA-Z%]`).FindAllString(constant.StringVal(tv.Value), -1)
		arg, res := 1, ""
		for _, v := range verbs {
			if v == "%%" {
				continue
			}
			if arg >= len(x.Args) {
				t.fail(x, "fmt.Errorf: more verbs than arguments")
			}
			if v == "%w" {
				if res != "" {
					t.fail(x, "fmt.Errorf with more than one %%w")
				}
				wid, isId := unparen(x.Args[arg]).(*ast.Ident)
				wv, isVar := (*types.Var)(nil), false
				if isId {
					wv, isVar = t.info.Uses[wid].(*types.Var)
				}
				if isId && isVar {
					if r, ok := t.wrapLocalErr(x, wid, wv); ok {
						res = r
						arg++
						continue
					}
				}
				if !isId || !isVar || wv.Parent() != t.set.tp.tpkg.Scope() || !isErrKind(t.kindOf(wv.Type(), x)) {
					t.fail(x, "fmt.Errorf: the operand of %%w must be a package-level error variable or a local error variable")
				}
				wname := leanString(t.set.errVarName(t, wv, x))
				if t.errOpt {
					res = "(some (" + wname + ", none))"
				} else {
					res = "(some " + wname + ")"
				}
			} else {
				t.argValue(x.Args[arg])
			}
			arg++
		}
		if arg != len(x.Args) {
			t.fail(x, "fmt.Errorf: as many verbs as arguments are required")
		}
		if res == "" {
			// no %w: a new error that wraps nothing, named after its format (loops_arr.go)
			if t.inErrLit > 0 {
				t.fail(x, "fmt.Errorf without %%w as the wrapped error of &T{…} is not supported")
			}
			res = t.errorfNew(constant.StringVal(tv.Value))
		}
		return res, t.errKind()
	}
	t.fail(x, "unsupported call %s", t.p.src(x))
	return "", 0
}

// errVar returns the value of the package-level error variable v = errors.New(…), which nothing in the package
// assigns or takes the address of.
func (s *loopSet) errVar(t *loopTr, v *types.Var, at ast.Node) string {
	return "(some " + leanString(s.errVarName(t, v, at)) + ")"
}

// errVarName checks that the package-level variable v is an errors.New value that nothing assigns or takes the
// address of, and returns its name.
func (s *loopSet) errVarName(t *loopTr, v *types.Var, at ast.Node) string {
	init, _, ok := s.p.valueSpec(v.Name())
	c, isCall := init.(*ast.CallExpr)
	if !ok || !isCall {
		t.fail(at, "package variable %s is not initialised by errors.New", v.Name())
	}
	sel, isSel := unparen(c.Fun).(*ast.SelectorExpr)
	if !isSel {
		t.fail(at, "package variable %s is not initialised by errors.New", v.Name())
	}
	if f, ok := s.tp.info.Uses[sel.Sel].(*types.Func); !ok || f.Pkg() == nil || f.Pkg().Path() != "errors" || f.Name() != "New" {
		t.fail(at, "package variable %s is not initialised by errors.New", v.Name())
	}
	for _, fn := range s.p.sortedFiles() {
		ast.Inspect(s.p.files[fn], func(n ast.Node) bool {
			var written []ast.Expr
			switch x := n.(type) {
			case *ast.AssignStmt:
				written = x.Lhs
			case *ast.IncDecStmt:
				written = []ast.Expr{x.X}
			case *ast.UnaryExpr:
				if x.Op == token.AND {
					written = []ast.Expr{x.X}
				}
			}
			for _, w := range written {
				if id, ok := unparen(w).(*ast.Ident); ok && s.tp.info.Uses[id] == v {
					pos := s.p.fset.Position(id.Pos())
					t.fail(at, "package variable %s may be modified at %s:%d; it cannot be treated as a constant", v.Name(), pos.Filename, pos.Line)
				}
			}
			return true
		})
	}
	return v.Name()
}

// pkgVar returns the Lean name of package variable v, checking that it is a slice literal of
// constants which nothing in the package ever modifies.
func (s *loopSet) pkgVar(t *loopTr, v *types.Var, at ast.Node) string {
	if n, ok := s.ifacePkgVar(t, v, at); ok { // stage 11 (loops_iface.go): an array of constant strings
		return n
	}
	name := "var_" + v.Name()
	if _, ok := s.varText[v]; ok {
		return name
	}
	init, _, ok := s.p.valueSpec(v.Name())
	if !ok || init == nil {
		t.fail(at, "package variable %s has no initialiser", v.Name())
	}
	cl, ok := init.(*ast.CompositeLit)
	k := t.kindOf(v.Type(), at)
	if !ok || !k.isSlice() {
		t.fail(at, "package variable %s is not initialised by a slice literal", v.Name())
	}
	if n, isArr := arrayLen(v.Type()); isArr && int64(len(cl.Elts)) != n {
		t.fail(at, "package variable %s: the array literal does not list all %d elements", v.Name(), n)
	}
	var parts []string
	for _, el := range cl.Elts {
		tv, ok := s.tp.info.Types[el]
		if _, keyed := el.(*ast.KeyValueExpr); keyed || !ok || tv.Value == nil {
			t.fail(at, "package variable %s: non-constant or keyed element", v.Name())
		}
		parts = append(parts, t.constLit(el, tv.Value, k.elem()))
	}
	s.checkReadOnly(t, v, at)
	s.varText[v] = fmt.Sprintf("/-- package variable `%s` of %s (never modified: every use in the package is `range %s`, `%s[i]` read or `len(%s)`) -/\ndef %s : %s := [%s]\n",
		v.Name(), rel(s.p.dir), v.Name(), v.Name(), v.Name(), name, k.lean(), strings.Join(parts, ", "))
	s.pkgVars = append(s.pkgVars, v)
	return name
}

// checkReadOnly: every use of v in the package is `range v`, an rvalue `v[i]`, or `len(v)`.
func (s *loopSet) checkReadOnly(t *loopTr, v *types.Var, at ast.Node) {
	allowed := map[*ast.Ident]bool{}
	written := map[ast.Expr]bool{}
	for _, fn := range s.p.sortedFiles() {
		ast.Inspect(s.p.files[fn], func(n ast.Node) bool {
			// an element of an element: T[i][j] = e, &T[i][j], T[i][:] also write / alias T[i]
			mark := func(e ast.Expr) {
				for {
					e = unparen(e)
					written[e] = true
					ie, ok := e.(*ast.IndexExpr)
					if !ok {
						return
					}
					e = ie.X
				}
			}
			switch x := n.(type) {
			case *ast.AssignStmt:
				for _, l := range x.Lhs {
					mark(l)
				}
			case *ast.IncDecStmt:
				mark(x.X)
			case *ast.UnaryExpr:
				if x.Op == token.AND {
					mark(x.X)
				}
			case *ast.SliceExpr:
				if _, nested := unparen(x.X).(*ast.IndexExpr); nested {
					mark(x.X)
				}
			case *ast.RangeStmt:
				if id, ok := unparen(x.X).(*ast.Ident); ok {
					allowed[id] = true
				}
			case *ast.IndexExpr:
				if id, ok := unparen(x.X).(*ast.Ident); ok && !written[x] {
					allowed[id] = true
				}
			case *ast.CallExpr:
				if f, ok := unparen(x.Fun).(*ast.Ident); ok && len(x.Args) == 1 {
					if b, ok := s.tp.info.Uses[f].(*types.Builtin); ok && b.Name() == "len" {
						if id, ok := unparen(x.Args[0]).(*ast.Ident); ok {
							allowed[id] = true
						}
					}
				}
			}
			return true
		})
	}
	for id, o := range s.tp.info.Uses {
		if o == v && !allowed[id] {
			pos := s.p.fset.Position(id.Pos())
			t.fail(at, "package variable %s may be modified or aliased at %s:%d; it cannot be treated as a constant", v.Name(), pos.Filename, pos.Line)
		}
	}
}
