package main

import (
	"bufio"
	"crypto/sha256"
	"fmt"
	"go/ast"
	"go/constant"
	"go/token"
	"os"
	"path/filepath"
	"regexp"
	"sort"
	"strconv"
	"strings"
)

func repoPkg(rel string) *pkg { return load(filepath.Join(*repo, rel)) }

func genB1T6() {
	p := repoPkg("pkg/encoding/b1t6")
	tri := load(filepath.Join(iotaGoDir(), "trinary"))
	g := newGenHdr("B1T6", loopHeaderText+flowHeaderText+recvHeaderText+callHeaderText, "Iota.Model.GoBits")
	g.def("tritsPerByte", "Int", p.intConst("tritsPerByte"))
	g.def("trytesPerByte", "Int", p.intConst("trytesPerByte"))
	g.raw(translateFunc(p, "encodeGroup"))
	g.raw(translateFunc(p, "decodeGroup"))
	g.def("tryteValueToTritsLUT", "List (List Int)", tri.compositeInts(tri.varExpr("TryteValueToTritsLUT")))
	g.def("tryteValueToTryteLUT", "List Int", tri.compositeInts(tri.varExpr("TryteValueToTyteLUT")))
	g.def("tryteToTryteValueLUT", "List Int", tri.compositeInts(tri.varExpr("TryteToTryteValueLUT")))
	g.def("minTryteValue", "Int", load(filepath.Join(iotaGoDir(), "consts")).intConst("MinTryteValue"))
	// loop shape of Decode: `for j := 0; j <= len(src)-tritsPerByte; j += tritsPerByte`, then the length test
	// b1t6.go, and the four functions of iota.go's trinary package it calls (at the version go.mod pins), translated as
	// code (tied to the model in Iota/Tie/B1T6Code.lean); not pinned by text.  The three lookup tables of trinary are
	// exported variables: nothing in trinary modifies them (checked by the translator) and nothing in the repository
	// mentions them (checked here).
	triFns := []string{"MustPutTryteTrits", "MustTritsToTryteValue", "MustTryteValueToTryte", "MustTryteToTryteValue"}
	g.raw(translateLoopFuncsNS(tri, "trinary", triFns...))
	checkNoRepoUse("trinary", "TryteValueToTritsLUT", "TryteValueToTyteLUT", "TryteToTryteValueLUT")
	b1t6Fns := []string{"EncodedLen", "DecodedLen", "encodeGroup", "decodeGroup", "Encode", "EncodeToTrytes", "Decode", "DecodeTrytes"}
	g.raw(translateLoopFuncsNS(p, "b1t6", b1t6Fns...))
	for _, n := range b1t6Fns {
		pinnedFns[p.method(n)] = true
	}
	g.rest(p, "b1t6")
	// the iota.go copy used by pow and migration must be the same code
	ig := load(filepath.Join(iotaGoDir(), "encoding", "b1t6"))
	ok, why := sameFuncs(normalizedFuncs(p, "b1t6.go"), normalizedFuncs(ig, "b1t6.go"),
		"Encode", "EncodeToTrytes", "Decode", "DecodeTrytes", "encodeGroup", "decodeGroup", "EncodedLen", "DecodedLen")
	g.def("iotaGoCopyIdentical", "Bool", boolLean(ok))
	g.raw("-- " + why + "\n")

	q := repoPkg("pkg/encoding/b1t8")
	g.def("b1t8TritsPerByte", "Int", q.intConst("tritsPerByte"))
	// masks and shifts of b1t8.Encode, in statement order
	var masks, shifts []string
	ast.Inspect(q.funcDecl("Encode"), func(n ast.Node) bool {
		as, ok := n.(*ast.AssignStmt)
		if !ok || len(as.Rhs) != 1 {
			return true
		}
		c, ok := as.Rhs[0].(*ast.CallExpr)
		if !ok || len(c.Args) != 1 {
			return true
		}
		// int8(b & m >> s)  parses as  (b & m) >> s  ... in Go, & and >> have the same precedence, left-assoc
		be, ok := c.Args[0].(*ast.BinaryExpr)
		if !ok || be.Op != token.SHR {
			return true
		}
		inner, ok := be.X.(*ast.BinaryExpr)
		if !ok || inner.Op != token.AND {
			return true
		}
		masks = append(masks, constant.ToInt(q.eval(inner.Y, 0)).ExactString())
		shifts = append(shifts, constant.ToInt(q.eval(be.Y, 0)).ExactString())
		return true
	})
	g.def("b1t8Masks", "List Nat", "["+strings.Join(masks, ", ")+"]")
	g.def("b1t8Shifts", "List Nat", "["+strings.Join(shifts, ", ")+"]")
	// b1t8.go translated as code (tied to the model in Iota/Tie/B1T8Code.lean); not pinned by text
	g.raw("namespace b1t8\n" + translateLoopFuncs(q, "EncodedLen", "DecodedLen", "Encode", "Decode") + "end b1t8\n")
	for _, n := range []string{"EncodedLen", "DecodedLen", "Encode", "Decode"} {
		pinnedFns[q.method(n)] = true
	}
	g.rest(q, "b1t8")
	g.write()
}

// loopHeader prints the first `for` header of a function (normalised source text).
func loopHeader(p *pkg, fn string) string {
	var res string
	ast.Inspect(p.funcDecl(fn), func(n ast.Node) bool {
		if res != "" {
			return false
		}
		if f, ok := n.(*ast.ForStmt); ok {
			h := ""
			if f.Init != nil {
				h += p.src(f.Init)
			}
			h += "; "
			if f.Cond != nil {
				h += p.src(f.Cond)
			}
			h += "; "
			if f.Post != nil {
				h += p.src(f.Post)
			}
			res = h
			return false
		}
		return true
	})
	return res
}

func genBip32Path() {
	p := repoPkg("pkg/bip32path")
	g := newGenHdr("Bip32Path", loopHeaderText+flowHeaderText+recvHeaderText+callHeaderText+strsHeaderText, "Iota.Model.GoBits")
	g.def("hardened", "Int", p.intConst("hardened"))
	// regexp literal
	args := p.callArgsIn(p.varExpr("keyReg"), "regexp", "MustCompile")
	re, _ := strconv.Unquote(args[0].(*ast.BasicLit).Value)
	g.def("keyRegexp", "List Nat", leanBytes(re))
	pa := p.callArgs("parseUint31", "strconv", "ParseUint")
	g.def("parseBase", "Int", leanInt(constant.ToInt(p.eval(pa[1], 0)).ExactString()))
	g.def("parseBitSize", "Int", leanInt(constant.ToInt(p.eval(pa[2], 0)).ExactString()))
	// format verb used by String
	fa := p.callArgs("String", "fmt", "Sprintf")
	fs, _ := strconv.Unquote(fa[0].(*ast.BasicLit).Value)
	g.def("printFormat", "List Nat", leanBytes(fs))
	g.def("printArg", "List Nat", leanBytes(p.src(fa[1])))
	tp := p.callArgs("ParsePath", "strings", "TrimPrefix")
	ts, _ := strconv.Unquote(tp[1].(*ast.BasicLit).Value)
	g.def("trimPrefix", "List Nat", leanBytes(ts))
	sp := p.callArgs("ParsePath", "strings", "Split")
	ss, _ := strconv.Unquote(sp[1].(*ast.BasicLit).Value)
	g.def("splitSep", "List Nat", leanBytes(ss))
	// path.go translated as code (callees first; to be tied to the model in Iota/Tie); not pinned by text.  What the
	// translation does not define is a PARAMETER of the generated functions (strsHeaderText: nothing is assumed about them
	// here, the tie states what it assumes): strconv_ParseUint, the library function strconv.ParseUint with its error as an
	// opaque name, and keyReg_FindStringSubmatch, the method FindStringSubmatch of the package variable keyReg (whose regular
	// expression is recorded above as keyRegexp and in rest_bip32path).  strings.TrimPrefix, strings.Split with the
	// one-byte separator and fmt.Sprintf("/%d", …) are defined in Iota/Model/GoBits.lean.  MarshalText and UnmarshalText
	// are not translated: they stay pinned by their text.
	codeFns := []string{"parseUint31", "ParsePath", "Path.String"}
	g.raw(translateLoopFuncsNS(p, "code", codeFns...))
	for _, n := range codeFns {
		pinnedFns[p.method(n)] = true
	}
	g.src(p, "Path.MarshalText", "Path.UnmarshalText")
	g.rest(p, "bip32path")
	g.write()
}

func (p *pkg) callArgsIn(root ast.Node, recv, fn string) []ast.Expr {
	var res []ast.Expr
	ast.Inspect(root, func(n ast.Node) bool {
		c, ok := n.(*ast.CallExpr)
		if !ok {
			return true
		}
		if id, ok := c.Fun.(*ast.Ident); ok && recv == "" && id.Name == fn && res == nil {
			res = c.Args
		}
		if f, ok := c.Fun.(*ast.SelectorExpr); ok {
			if id, ok := f.X.(*ast.Ident); ok && id.Name == recv && f.Sel.Name == fn && res == nil {
				res = c.Args
			}
		}
		return true
	})
	if res == nil {
		die("call %s.%s not found", recv, fn)
	}
	return res
}

func genMerkle() {
	p := repoPkg("pkg/merkle")
	g := newGenHdr("Merkle", loopHeaderText+flowHeaderText+recvHeaderText+callHeaderText+recHeaderText, "Iota.Model.GoBits")
	g.def("leafHashPrefix", "Int", p.intConst("LeafHashPrefix"))
	g.def("nodeHashPrefix", "Int", p.intConst("NodeHashPrefix"))
	// merkle.go translated as code (callees first; to be tied to the model in Iota/Tie); not pinned by text.  What the
	// translation does not define is a PARAMETER of the generated functions: hash_sum, the hash function in the field
	// Hasher.hash as a function from the bytes written to the digest (recHeaderText states the assumptions), and — for the
	// recursive Hash — the fuel.  An encoding.BinaryMarshaler leaf is the (bytes, error) result of its MarshalBinary().
	// NewHasher and Size are not translated: they stay in rest_merkle.
	codeFns := []string{"largestPowerOfTwo", "Hasher.hashNode", "Hasher.hashLeaf", "Hasher.EmptyRoot", "Hasher.Hash"}
	g.raw(translateLoopFuncsNS(p, "code", codeFns...))
	for _, n := range codeFns {
		pinnedFns[p.method(n)] = true
	}
	g.rest(p, "merkle")
	g.write()
}

func normWS(s string) string {
	return strings.Join(strings.Fields(s), " ")
}

func genBech32() {
	p := repoPkg("pkg/bech32")
	b := repoPkg("pkg/bech32/internal/base32")
	g := newGenHdr("Bech32", loopHeaderText+flowHeaderText+recvHeaderText+callHeaderText, "Iota.Model.GoBits")
	g.def("maxStringLength", "Int", p.intConst("maxStringLength"))
	g.def("checksumLength", "Int", p.intConst("checksumLength"))
	g.def("separator", "Int", p.intConst("separator"))
	ca := p.callArgsIn(p.varExpr("charset"), "", "newEncoding")
	g.def("charset", "List Nat", leanBytes(constant.StringVal(p.eval(ca[0], 0))))
	g.def("gen", "List Int", p.compositeInts(p.varExpr("gen")))
	g.raw(translateFunc(p, "isValidHRPChar"))
	g.raw(translateFunc(b, "EncodedLen"))
	g.raw(translateFunc(b, "DecodedLen"))
	// checksum.go translated as code, loops included (tied to the model in Iota/Tie/Bech32Code.lean)
	g.raw(translateLoopFuncs(p, "bech32Polymod", "bech32HrpExpand", "bech32CreateChecksum", "bech32VerifyChecksum"))
	// functions translated as code (with loops) are tied by the theorems about the translation, not by their text: a
	// rewrite that leaves the meaning unchanged (renamed locals, reformatting) then raises no alarm
	for _, n := range []string{"bech32CreateChecksum", "bech32Polymod", "bech32HrpExpand", "bech32VerifyChecksum"} {
		pinnedFns[p.method(n)] = true
	}
	// internal/base32 translated as code (tied to the model in Iota/Tie/Base32Code.lean); not pinned by text.
	// Encode and Decode write into dst, which has the element type of src: they are translated under the assumption
	// that the two arrays do not overlap.  The package is internal to pkg/bech32, so checkFreshDst sees every caller.
	checkFreshDst(p, "base32", "Encode", "Decode")
	g.raw(translateLoopFuncsNS(b, "base32", "EncodedLen", "DecodedLen", "Encode!disjoint", "Decode!disjoint"))
	for _, n := range []string{"Encode", "Decode", "EncodedLen", "DecodedLen"} {
		pinnedFns[b.method(n)] = true
	}
	// chars.go translated as code (tied to the model in Iota/Tie/Bech32CharsCode.lean); not pinned by text
	charFns := []string{"newEncoding", "encoding.encode", "encoding.decode"}
	g.raw(translateLoopFuncsNS(p, "chars", charFns...))
	for _, n := range charFns {
		pinnedFns[p.method(n)] = true
	}
	// bech32.go itself translated as code (tied to the model in Iota/Tie/Bech32ApiCode.lean); not pinned by text.  What the
	// translation does not define is a PARAMETER of the generated Encode / Decode: strings.ToLower, strings.ToUpper and
	// strings.LastIndex (the tie states what it assumes about them: ASCII case mapping on ASCII strings — they are only
	// reached after the input has been checked to be ASCII — and the last occurrence of a byte), and the two tables of the
	// package variable `charset` (the tie instantiates them with what the generated newEncoding returns).
	apiFns := []string{"isValidHRPChar", "firstUpper", "firstLower", "validateCase", "Encode", "Decode"}
	g.raw(translateLoopFuncsNS(p, "api", apiFns...))
	for _, n := range apiFns {
		pinnedFns[p.method(n)] = true
	}
	g.rest(b, "base32")
	g.rest(p, "bech32")
	g.write()
}

// checkFreshDst justifies the assumption under which fns of the imported package `imp` are translated (their first
// parameter, an output buffer, does not overlap the other arguments): in every non-test file of p, each call
// imp.F(dst, …) passes as dst a local variable that is defined exactly once in the calling function, by
// `dst := make(…)`, is never assigned again, and does not occur in the other arguments.  A freshly made array
// overlaps nothing that existed before it.
func checkFreshDst(p *pkg, imp string, fns ...string) {
	isFn := map[string]bool{}
	for _, f := range fns {
		isFn[f] = true
	}
	calls := 0
	for _, fn := range p.sortedFiles() {
		if strings.HasSuffix(fn, "_test.go") {
			continue
		}
		for _, d := range p.files[fn].Decls {
			fd, ok := d.(*ast.FuncDecl)
			if !ok || fd.Body == nil {
				continue
			}
			ast.Inspect(fd.Body, func(n ast.Node) bool {
				c, ok := n.(*ast.CallExpr)
				if !ok {
					return true
				}
				sel, ok := c.Fun.(*ast.SelectorExpr)
				if !ok || !isFn[sel.Sel.Name] {
					return true
				}
				if x, ok := sel.X.(*ast.Ident); !ok || x.Name != imp {
					return true
				}
				calls++
				bad := func(why string) {
					pos := p.fset.Position(c.Pos())
					die("%s:%d: call of %s.%s: %s; the translation of %s.%s assumes that its first argument overlaps no other argument",
						filepath.Base(pos.Filename), pos.Line, imp, sel.Sel.Name, why, imp, sel.Sel.Name)
				}
				if len(c.Args) < 2 {
					bad("too few arguments")
				}
				dst, ok := c.Args[0].(*ast.Ident)
				if !ok {
					bad("the first argument is not a variable")
				}
				defs, fresh := 0, false
				ast.Inspect(fd, func(m ast.Node) bool {
					switch s := m.(type) {
					case *ast.AssignStmt:
						for i, l := range s.Lhs {
							if id, ok := l.(*ast.Ident); ok && id.Name == dst.Name {
								defs++
								if s.Tok == token.DEFINE && len(s.Lhs) == len(s.Rhs) {
									if mk, ok := s.Rhs[i].(*ast.CallExpr); ok {
										if f, ok := mk.Fun.(*ast.Ident); ok && f.Name == "make" {
											fresh = true
										}
									}
								}
							}
						}
					case *ast.ValueSpec:
						for _, id := range s.Names {
							if id.Name == dst.Name {
								defs += 2
							}
						}
					case *ast.Field:
						for _, id := range s.Names {
							if id.Name == dst.Name {
								defs += 2
							}
						}
					case *ast.RangeStmt:
						for _, e := range []ast.Expr{s.Key, s.Value} {
							if id, ok := e.(*ast.Ident); ok && id.Name == dst.Name {
								defs += 2
							}
						}
					case *ast.UnaryExpr:
						if id, ok := s.X.(*ast.Ident); ok && s.Op == token.AND && id.Name == dst.Name {
							defs += 2
						}
					case *ast.Ident:
						if s.Name == "make" && s.Obj != nil {
							defs += 2 // `make` is redefined in this file
						}
					}
					return true
				})
				if defs != 1 || !fresh {
					bad("the first argument `" + dst.Name + "` is not a variable defined once by `" + dst.Name + " := make(…)` in the calling function")
				}
				for _, a := range c.Args[1:] {
					ast.Inspect(a, func(m ast.Node) bool {
						if id, ok := m.(*ast.Ident); ok && id.Name == dst.Name {
							bad("the first argument also occurs in another argument")
						}
						return true
					})
				}
				return true
			})
		}
	}
	if calls == 0 {
		die("%s: no call of %s.%v found", p.dir, imp, fns)
	}
}

func genBip39() {
	p := repoPkg("pkg/bip39")
	wl := repoPkg("pkg/bip39/wordlist")
	il := repoPkg("pkg/bip39/internal/wordlists")
	g := newGenHdr("Bip39", loopHeaderText+flowHeaderText+recvHeaderText+callHeaderText, "Iota.Model.GoBits")
	g.def("entropyMultiple", "Int", p.intConst("entropyMultiple"))
	g.def("entropyMinBits", "Int", p.intConst("entropyMinBits"))
	g.def("entropyMaxBits", "Int", p.intConst("entropyMaxBits"))
	g.def("seedSize", "Int", p.intConst("SeedSize"))
	g.def("indexBits", "Int", wl.intConst("IndexBits"))
	g.def("wordCount", "Int", wl.intConst("Count"))
	mask := p.callArgsIn(p.varExpr("wordIndexMask"), "big", "NewInt")
	g.def("wordIndexMask", "Int", leanInt(constant.ToInt(p.eval(mask[0], 0)).ExactString()))
	// pbkdf2.Key(password, salt, iter, keyLen, h)
	ka := p.callArgs("MnemonicToSeed", "pbkdf2", "Key")
	g.def("pbkdf2Iterations", "Int", leanInt(constant.ToInt(p.eval(ka[2], 0)).ExactString()))
	g.def("pbkdf2KeyLen", "Int", leanInt(constant.ToInt(p.eval(ka[3], 0)).ExactString()))
	g.def("pbkdf2Password", "String", leanString(p.src(ka[0])))
	g.def("pbkdf2Salt", "String", leanString(p.src(ka[1])))
	g.def("pbkdf2Hash", "String", leanString(p.src(ka[4])))
	g.def("defaultLanguage", "String", leanString(p.stringConst("defaultLanguage")))
	// the four helpers without library calls translated as code (tied to the model in Iota/Tie/Bip39Code.lean); not pinned by text
	bipFns := []string{"entropyBitsToWordCount", "wordCountToEntropyBits", "padBytes", "validateEntropy"}
	g.raw(translateLoopFuncsNS(p, "code", bipFns...))
	for _, n := range bipFns {
		pinnedFns[p.method(n)] = true
	}
	// EntropyToMnemonic, MnemonicToEntropy, computeChecksum, validateMnemonic are translated as code by genBip39Code (stage 12,
	// loops_big2.go) and tied in Iota/Tie/Bip39BigCode.lean: not pinned by text any more
	for _, n := range bip39CodeFns {
		pinnedFns[p.method(n)] = true
	}
	g.src(p, "MnemonicToSeed",
		"ParseMnemonic", "Mnemonic.String", "Mnemonic.MarshalText", "Mnemonic.UnmarshalText",
		"SetWordList", "RegisterWordList", "init")
	g.src(il, "newWordList", "wordList.Contains", "wordList.Word", "wordList.Index", "English", "Japanese")
	g.rest(p, "bip39")
	g.rest(il, "wordlists_glue")
	g.rest(wl, "wordlist")
	for _, lang := range []string{"english", "japanese"} {
		words := strings.Fields(il.stringConst(lang))
		body := strings.Join(words, "\n") + "\n"
		g.def(lang+"Sha256", "String", leanString(fmt.Sprintf("%x", sha256.Sum256([]byte(body)))))
		g.def(lang+"Count", "Nat", strconv.Itoa(len(words)))
		var chunks []string
		for c := 0; c*256 < len(words); c++ {
			end := (c + 1) * 256
			if end > len(words) {
				end = len(words)
			}
			var ws []string
			for _, w := range words[c*256 : end] {
				ws = append(ws, leanBytes(w))
			}
			name := fmt.Sprintf("%s%d", lang, c)
			g.def(name, "List (List Nat)", "[\n  "+strings.Join(ws, ",\n  ")+"]")
			chunks = append(chunks, name)
		}
		g.def(lang, "List (List Nat)", strings.Join(chunks, " ++ "))
	}
	g.write()
}
func genCurl() {
	p := repoPkg("pkg/curl")
	g := newGenHdr("Curl", loopHeaderText+flowHeaderText+recvHeaderText+callHeaderText, "Iota.Model.GoBits")
	g.def("stateSize", "Int", p.intConst("StateSize"))
	g.def("numRounds", "Int", p.intConst("NumRounds"))
	c := load(filepath.Join(iotaGoDir(), "consts"))
	g.def("hashTrinarySize", "Int", c.intConst("HashTrinarySize"))
	g.def("maxBatchSize", "Int", p.intConst("MaxBatchSize"))
	g.raw(translateFunc(p, "sBox"))
	g.raw(translateFunc(p, "bool2int"))
	// the per-lane packing, the reset, the state copy and the portable permutation translated as code (tied to the model in
	// Iota/Tie/CurlCodeLanes.lean, CurlCodePerm.lean, CurlCodeSponge.lean); not pinned by text.  `!disjoint`: CopyState(l, h) assumes that the caller's l and h do not
	// overlap (documented API assumption); transformGeneric assumes four pairwise distinct arrays, which
	// checkDistinctArrays establishes at its only call chain Curl.transform -> transform -> transformGeneric.
	// Absorb and Squeeze call c.transform(), whose body calls the build-dependent `transform` (assembly on amd64): it is
	// declared abstract — a parameter of the translated Absorb / Squeeze that reads and assigns c.l, c.h — and stays pinned
	// by text; the tie instantiates it with the model's transform, which C20 relates to the assembly.  `!nowrap`: the
	// loops `for i := 0; i < tritsCount; i += 243` are translated under the assumption that i += 243 does not wrap; the
	// tie proves it from the guard tritsCount % 243 == 0 that precedes them.  Squeeze replaces every row of dst by a
	// fresh make before anything is written into it, so the rows share nothing.
	codeFns := []string{"bool2int", "sBox", "Curl.in", "Curl.out", "Curl.Reset", "Curl.CopyState!disjoint", "transformGeneric!disjoint",
		"Curl.transform!abstract=l+h", "Curl.Absorb!nowrap", "Curl.Squeeze!nowrap"}
	g.raw(translateLoopFuncsNS(p, "code", codeFns...))
	for _, n := range codeFns {
		if !strings.Contains(n, "!abstract") {
			pinnedFns[p.method(strings.Split(n, "!")[0])] = true
		}
	}
	checkDistinctArrays(p)
	g.src(p, "NewCurlP81", "Curl.Clone", "Curl.transform")
	// build-tag selection of the permutation
	g.def("buildTagAsm", "String", leanString(buildConstraint(filepath.Join(*repo, "pkg/curl/transform_amd64.go"))))
	g.def("buildTagNoasm", "String", leanString(buildConstraint(filepath.Join(*repo, "pkg/curl/transform_noasm.go"))))
	g.def("buildTagAsmS", "String", leanString(buildConstraint(filepath.Join(*repo, "pkg/curl/transform_amd64.s"))))
	g.def("noasmBody", "String", leanString(normWS(stripComments(p.srcOfFile("transform_noasm.go", "transform")))))
	g.rest(p, "curl")
	g.write()

	a := newGen("CurlAsm", "Iota.Model.Asm")
	a.raw("open Iota.Asm in\ndef program : List Iota.Asm.Instr := [\n" + parseAsm(filepath.Join(*repo, "pkg/curl/transform_amd64.s")) + "]\n")
	a.write()
}

// checkDistinctArrays establishes the assumption under which transformGeneric is translated (its four array pointers
// point to pairwise distinct arrays): the only callers of transformGeneric / transform in the package are
// `transform` of transform_noasm.go, which passes its own four parameters on in order (pinned as noasmBody), and
// Curl.transform, which passes the addresses of two distinct local arrays and of two distinct fields of the receiver.
func checkDistinctArrays(p *pkg) {
	calls := 0
	for _, fn := range p.sortedFiles() {
		if strings.HasSuffix(fn, "_test.go") || strings.HasSuffix(fn, "_verif.go") {
			continue
		}
		for _, d := range p.files[fn].Decls {
			fd, ok := d.(*ast.FuncDecl)
			if !ok || fd.Body == nil {
				continue
			}
			ast.Inspect(fd.Body, func(n ast.Node) bool {
				c, ok := n.(*ast.CallExpr)
				if !ok {
					return true
				}
				id, ok := c.Fun.(*ast.Ident)
				if !ok || (id.Name != "transform" && id.Name != "transformGeneric") {
					return true
				}
				pos := p.fset.Position(c.Pos())
				bad := func(why string) {
					die("%s:%d: call of %s: %s; the translation of transformGeneric assumes four pairwise distinct arrays",
						filepath.Base(pos.Filename), pos.Line, id.Name, why)
				}
				if len(c.Args) != 4 {
					bad("not four arguments")
				}
				calls++
				if fd.Name.Name == "transform" && fd.Recv == nil {
					// the wrapper: its own parameters, in order
					var ps []string
					for _, f := range fd.Type.Params.List {
						for _, n := range f.Names {
							ps = append(ps, n.Name)
						}
					}
					for i, a := range c.Args {
						if x, ok := a.(*ast.Ident); !ok || i >= len(ps) || x.Name != ps[i] {
							bad("the wrapper does not pass its parameters on in order")
						}
					}
					return true
				}
				seen := map[string]bool{}
				for _, a := range c.Args {
					u, ok := a.(*ast.UnaryExpr)
					if !ok || u.Op != token.AND {
						bad("an argument is not the address of a variable")
					}
					key := p.src(u.X)
					switch x := u.X.(type) {
					case *ast.Ident:
					case *ast.SelectorExpr:
						if _, ok := x.X.(*ast.Ident); !ok {
							bad("an argument is not the address of a variable or of a field of a variable")
						}
					default:
						bad("an argument is not the address of a variable or of a field of a variable")
					}
					if seen[key] {
						bad("the same array is passed twice")
					}
					seen[key] = true
				}
				return true
			})
		}
	}
	if calls == 0 {
		die("pkg/curl: no call of transform / transformGeneric found")
	}
}

// checkNoRepoUse: no non-test Go file of the repository mentions pkg.Name for one of the names (exported variables of a
// dependency that the translation treats as constants).
func checkNoRepoUse(pkgName string, names ...string) {
	filepath.Walk(*repo, func(path string, info os.FileInfo, err error) error {
		if err != nil || info.IsDir() || !strings.HasSuffix(path, ".go") || strings.HasSuffix(path, "_test.go") {
			return nil
		}
		b, err := os.ReadFile(path)
		if err != nil {
			die("%v", err)
		}
		for _, n := range names {
			if strings.Contains(string(b), pkgName+"."+n) {
				die("%s mentions %s.%s, which the translation of %s treats as a constant", path, pkgName, n, pkgName)
			}
		}
		return nil
	})
}

func genPow() {
	p1 := repoPkg("pkg/pow")
	p2 := repoPkg("pkg/pow/v2")
	g := newGenHdr("Pow", loopHeaderText+flowHeaderText+recvHeaderText+callHeaderText+arrHeaderText+bigHeaderText+big2HeaderText+pow2HeaderText, "Iota.Model.GoBits")
	g.def("nonceBytesV1", "Int", p1.intConst("nonceBytes"))
	g.def("nonceBytesV2", "Int", p2.intConst("nonceBytes"))
	g.def("tritsPerUint64", "Int", p2.intConst("tritsPerUint64"))
	mh := p2.callArgsIn(p2.varExpr("maxHash"), "", "hexToInt")
	g.def("maxHashHex", "String", leanString(constant.StringVal(p2.eval(mh[0], 0))))
	g.def("uint64RadixSrc", "String", leanString(p2.src(p2.varExpr("uint64Radix"))))
	g.raw(translateFunc(p2, "tritToUint"))
	g.def("mineSkeletonV1", "List String", syncSkeleton(p1, "Worker.Mine"))
	g.def("mineSkeletonV2", "List String", syncSkeleton(p2, "Worker.Mine"))
	g.def("workerSkeletonV1", "List String", syncSkeleton(p1, "Worker.worker"))
	g.def("workerSkeletonV2", "List String", syncSkeleton(p2, "Worker.worker"))
	g.def("doneAccessesV1", "List String", identUses(p1, []string{"Worker.Mine", "Worker.worker"}, "done"))
	g.def("doneAccessesV2", "List String", identUses(p2, []string{"Worker.Mine", "Worker.worker"}, "done"))
	g.def("capturesV1", "List String", closureCaptures(p1, "Worker.Mine"))
	g.def("capturesV2", "List String", closureCaptures(p2, "Worker.Mine"))
	g.def("counterAccessesV1", "List String", identUses(p1, []string{"Worker.Mine", "Worker.worker"}, "counter"))
	g.def("counterAccessesV2", "List String", identUses(p2, []string{"Worker.Mine", "Worker.worker"}, "counter"))
	// v1 checkStateTrits translated as code (tied to the model in Iota/Tie/PowCode.lean); not pinned by text
	g.raw("namespace v1\n" + translateLoopFuncs(p1, "checkStateTrits") + "end v1\n")
	pinnedFns[p1.method("checkStateTrits")] = true
	g.src(p1, "Score", "trailingZeros", "encodeNonce", "New", "Worker.Mine", "Worker.worker")
	// stage 14: the integer core of v2 (sufficientTrailingZeros, targetHash, tritToUint, toInt, stateToInt) translated as code
	// (tied to the model for all inputs in Iota/Tie/PowV2Code.lean); not pinned by text any more.  hexToInt stays pinned: the
	// value of maxHash = hexToInt("…") is computed by the translator (pow2ConstInit accepts exactly that helper body).
	g.raw("namespace v2code\n" + translateLoopFuncs(p2, v2CodeFns...) + "end v2code\n")
	for _, n := range v2CodeFns {
		pinnedFns[p2.method(n)] = true
	}
	g.src(p2, "Score", "difficulty", "encodeNonce", "hexToInt", "New", "Worker.Mine",
		"Worker.worker", "checkStateTrits")
	g.rest(p1, "pow")
	g.rest(p2, "powv2")
	g.write()
}

// the functions of pkg/pow/v2 that genPow translates as code (stage 14, loops_pow2.go), callees first
var v2CodeFns = []string{"sufficientTrailingZeros", "targetHash", "tritToUint", "toInt", "stateToInt"}

func genSlip10() {
	p := repoPkg("pkg/slip10")
	el := repoPkg("pkg/slip10/elliptic")
	ed := repoPkg("pkg/slip10/eddsa")
	bt := repoPkg("pkg/slip10/elliptic/internal/btccurve")
	bt2 := repoPkg("pkg/slip10/btccurve")
	g := newGen("Slip10")
	g.def("hardened", "Int", p.intConst("Hardened"))
	g.def("fingerprintSize", "Int", p.intConst("FingerprintSize"))
	g.def("chainCodeSize", "Int", p.intConst("ChainCodeSize"))
	g.def("privateKeySize", "Int", p.intConst("PrivateKeySize"))
	g.def("publicKeySize", "Int", p.intConst("PublicKeySize"))
	g.src(p, "NewMasterKey", "DeriveKeyFromPath", "ExtendedKey.DeriveChild", "ExtendedKey.IsPrivate", "ExtendedKey.Public",
		"ExtendedKey.Fingerprint", "uint32Bytes", "hmacSHA512", "hash160")
	// Curve.NewPrivateKey, PrivateKey.Shift, PublicKey.Shift are translated as code by genEllipticKeyCode (stage 13,
	// loops_key.go) and tied in Iota/Tie/EllipticKeyCode.lean: not pinned by text any more
	for _, n := range []string{"Curve.NewPrivateKey", "PrivateKey.Shift", "PublicKey.Shift"} {
		pinnedFns[el.method(n)] = true
	}
	g.src(el, "secp256k1Curve.HmacKey", "nist256p1Curve.HmacKey", "PrivateKey.Bytes", "PrivateKey.IsPrivate",
		"PrivateKey.Public", "PublicKey.Bytes", "PublicKey.IsPrivate", "PublicKey.Public")
	g.src(ed, "ed25519Curve.NewPrivateKey", "ed25519Curve.HmacKey", "Seed.Bytes", "Seed.IsPrivate", "Seed.Public", "Seed.HardenedOnly",
		"Seed.Shift", "PublicKey.Bytes", "PublicKey.IsPrivate", "PublicKey.Public", "PublicKey.HardenedOnly", "PublicKey.Shift")
	g.rest(p, "slip10")
	g.rest(el, "elliptic")
	g.rest(ed, "eddsa")
	g.write()

	s := newGen("Secp256k1")
	for _, n := range []string{"P", "N", "B", "Gx", "Gy"} {
		args := bt.callArgsInFunc("init", "secp256k1."+n)
		s.def("hex"+n, "String", leanString(args))
	}
	// the nine curve functions are translated as code by genSecp256k1Code (stage 10) and tied in Iota/Tie/SecpCode.lean: not
	// pinned by text any more (a meaning-preserving rewrite re-proves); init() — the constants — stays pinned
	s.src(bt, "init")
	for _, n := range secpCodeFns {
		pinnedFns[bt.method(n)] = true
	}
	s.rest(bt, "btccurve")
	s.def("copiesIdentical", "Bool", boolLean(sameFile(filepath.Join(bt.dir, "secp256k1.go"), filepath.Join(bt2.dir, "secp256k1.go"))))
	s.write()
}

// the functions of btccurve/secp256k1.go that genSecp256k1Code translates as code, callees first
var secpCodeFns = []string{"koblitzCurve.IsOnCurve", "koblitzCurve.affineFromJacobian", "zForAffine", "koblitzCurve.doubleJacobian",
	"koblitzCurve.addJacobian", "koblitzCurve.Add", "koblitzCurve.Double", "koblitzCurve.ScalarMult", "koblitzCurve.ScalarBaseMult"}

// genSecp256k1Code: pkg/slip10/elliptic/internal/btccurve/secp256k1.go translated as code (stage 10, loops_big.go) into a
// file of its own, so that a translation failure is confined to the ties that import it; Gen/Secp256k1.lean (genSlip10)
// keeps the constants, the source pins and the fact that the exported twin pkg/slip10/btccurve is byte-identical.
func genSecp256k1Code() {
	bt := repoPkg("pkg/slip10/elliptic/internal/btccurve")
	g := newGenHdr("Secp256k1Code", loopHeaderText+flowHeaderText+recvHeaderText+callHeaderText+bigHeaderText, "Iota.Model.GoBits")
	g.raw(translateLoopFuncsNS(bt, "btccurve", secpCodeFns...))
	g.write()
}

// the functions of pkg/bip39 that genBip39Code translates as code (stage 12, loops_big2.go), callees first
var bip39CodeFns = []string{"computeChecksum", "validateMnemonic", "EntropyToMnemonic", "MnemonicToEntropy"}

// genBip39Code: EntropyToMnemonic / MnemonicToEntropy of pkg/bip39 with computeChecksum and validateMnemonic, translated as
// code into a file of its own.  The four helpers they call (entropyBitsToWordCount, wordCountToEntropyBits, padBytes,
// validateEntropy) are the translations in Gen/Bip39.lean (namespace code there): the same call as in genBip39 registers
// their signatures, the text it returns is not written again, the file imports Gen/Bip39.lean and opens these names.
// Parameters of the generated functions: sha256_Sum256, wordList_Contains, wordList_Word, wordList_Index (big2HeaderText).
func genBip39Code() {
	p := repoPkg("pkg/bip39")
	g := newGenHdr("Bip39Code", loopHeaderText+flowHeaderText+recvHeaderText+callHeaderText+strsHeaderText+arrHeaderText+bigHeaderText+big2HeaderText,
		"Iota.Model.GoBits", "Iota.Gen.Bip39")
	helpers := []string{"entropyBitsToWordCount", "wordCountToEntropyBits", "padBytes", "validateEntropy"}
	translateLoopFuncsNS(p, "code", helpers...)
	g.raw("-- the helpers of pkg/bip39 translated in Iota/Gen/Bip39.lean\n")
	g.raw("open Iota.Gen.Bip39 (code.entropyBitsToWordCount code.wordCountToEntropyBits code.padBytes code.validateEntropy)\n\n")
	g.raw(translateLoopFuncsNS(p, "big", bip39CodeFns...))
	g.write()
}

// callArgsInFunc finds `<lhs>, _ = new(big.Int).SetString("<hex>", 16)` in function fn and returns the hex literal.
func (p *pkg) callArgsInFunc(fn, lhs string) string {
	res := ""
	ast.Inspect(p.funcDecl(fn), func(n ast.Node) bool {
		as, ok := n.(*ast.AssignStmt)
		if !ok || len(as.Lhs) < 1 || p.src(as.Lhs[0]) != lhs {
			return true
		}
		ast.Inspect(as.Rhs[0], func(m ast.Node) bool {
			if bl, ok := m.(*ast.BasicLit); ok && bl.Kind == token.STRING && res == "" {
				res, _ = strconv.Unquote(bl.Value)
			}
			return true
		})
		return true
	})
	if res == "" {
		die("%s: assignment to %s not found in %s", p.dir, lhs, fn)
	}
	return res
}

func genEd() {
	p := repoPkg("pkg/ed25519")
	v := repoPkg("pkg/vrf")
	g := newGenHdr("Ed", loopHeaderText+flowHeaderText, "Iota.Model.GoBits")
	g.def("publicKeySize", "Int", p.intConst("PublicKeySize"))
	g.def("privateKeySize", "Int", p.intConst("PrivateKeySize"))
	g.def("signatureSize", "Int", p.intConst("SignatureSize"))
	g.def("seedSize", "Int", p.intConst("SeedSize"))
	g.src(p, "PrivateKey.Public", "PrivateKey.Seed", "PrivateKey.Sign", "GenerateKey", "NewKeyFromSeed", "newKeyFromSeed", "Sign", "sign", "Verify")
	g.def("vrfProofSize", "Int", v.intConst("ProofSize"))
	g.def("vrfPtLen", "Int", v.intConst("ptLen"))
	g.def("vrfCLen", "Int", v.intConst("cLen"))
	g.def("vrfQLen", "Int", v.intConst("qLen"))
	g.def("vrfSuiteString", "List Int", v.compositeInts(v.varExpr("suiteString")))
	g.def("vrfSeparators", "List (List Int)", "["+v.compositeInts(v.varExpr("encodeToCurveDomainSeparatorFront"))+", "+v.compositeInts(v.varExpr("encodeToCurveDomainSeparatorBack"))+", "+
		v.compositeInts(v.varExpr("challengeGenerationDomainSeparatorFront"))+", "+v.compositeInts(v.varExpr("challengeGenerationDomainSeparatorBack"))+", "+
		v.compositeInts(v.varExpr("proofToHashDomainSeparatorFront"))+", "+v.compositeInts(v.varExpr("proofToHashDomainSeparatorBack"))+"]")
	g.def("vrfNonCanonicalSignBytes", "List (List Int)", v.compositeInts(v.varExpr("nonCanonicalSignBytes")))
	g.src(v, "Prove", "ProofToHash", "Verify", "encodeToCurveTryAndIncrement", "challengeGeneration", "validateKey",
		"Proof.Hash", "Proof.Bytes", "Proof.SetBytes", "Proof.UnmarshalBinary", "newPointFromCanonicalBytes")
	// isCanonicalY translated as code (tied to the model in Iota/Tie/VrfCode.lean); not pinned by text
	g.raw("namespace vrf\n" + translateLoopFuncs(v, "isCanonicalY") + "end vrf\n")
	pinnedFns[v.method("isCanonicalY")] = true
	g.rest(p, "ed25519")
	g.rest(v, "vrf")
	g.write()
}

func genAddress() {
	p := repoPkg("pkg/bech32/address")
	g := newGen("Address")
	g.def("hrpStrings", "List (List Nat)", p.compositeStrings(p.varExpr("hrpStrings")))
	g.def("versionEd25519", "Int", p.intConst("Ed25519"))
	g.def("versionAlias", "Int", p.intConst("Alias"))
	g.def("versionNFT", "Int", p.intConst("NFT"))
	g.def("blake2b160Length", "Int", p.intConst("Blake2b160Length"))
	g.def("prefixConsts", "List Int", "["+p.intConst("IOTAMainnet")+", "+p.intConst("IOTADevnet")+", "+p.intConst("ShimmerMainnet")+", "+p.intConst("ShimmerDevnet")+"]")
	// Bech32, ParseBech32, ParsePrefix, Prefix.String and the Bytes / Version methods of the three address types are
	// translated as code by genAddressCode (stage 11, loops_iface.go) and tied in Iota/Tie/AddressCode.lean: not pinned by
	// text any more (and not part of rest_address)
	for _, n := range []string{"Bech32", "ParseBech32", "ParsePrefix", "Prefix.String",
		"Ed25519Address.Bytes", "AliasAddress.Bytes", "NFTAddress.Bytes",
		"Ed25519Address.Version", "AliasAddress.Version", "NFTAddress.Version"} {
		pinnedFns[p.method(n)] = true
	}
	m := repoPkg("pkg/migration")
	g.def("migPrefix", "List Nat", leanBytes(m.stringConst("Prefix")))
	g.def("migSuffix", "List Nat", leanBytes(m.stringConst("Suffix")))
	g.def("migChecksumSize", "Int", m.intConst("ChecksumSize"))
	g.def("migAddressSize", "Int", m.intConst("Ed25519AddressSize"))
	c := load(filepath.Join(iotaGoDir(), "consts"))
	g.def("hashTrytesSize", "Int", c.intConst("HashTrytesSize"))
	g.def("tritsPerTryte", "Int", c.intConst("TritsPerTryte"))
	// migration.Encode / Decode and guards.IsTrytesOfExactLength are translated as code (genMigration → Gen/Migration.lean),
	// not pinned by text; everything else pkg/migration declares stays in rest_migration
	for _, n := range migrationFns {
		pinnedFns[m.method(n)] = true
	}
	g.rest(p, "address")
	g.rest(m, "migration")
	g.write()
}

// the functions of pkg/migration that genMigration translates as code
var migrationFns = []string{"Encode", "Decode"}

// genMigration: pkg/migration/migration.go (Encode, Decode) translated as code together with what it calls in the pinned
// iota.go: guards.IsTrytesOfExactLength and, of encoding/b1t6, EncodedLen / EncodeToTrytes / DecodeTrytes with the
// functions of that package they call (to be tied to the model in Iota/Tie); none of them is pinned by text.  The two
// functions of iota.go's trinary package that b1t6 calls are the ones genB1T6 translates into Gen/B1T6.lean (namespace
// trinary there, with the lookup tables they read): they are not generated a second time, the file imports Gen/B1T6.lean
// and opens exactly these two names.  What the translation does not define is a PARAMETER of the generated functions:
// blake2b_Sum256, the library function golang.org/x/crypto/blake2b.Sum256 (arrHeaderText states what is assumed about it).
// The constants of pkg/migration and of consts that the code uses are compiled into it by go/types; they are also
// recorded in Gen/Address.lean (migPrefix, migSuffix, migChecksumSize, migAddressSize, hashTrytesSize, tritsPerTryte,
// rest_migration).
func genMigration() {
	m := repoPkg("pkg/migration")
	tri := load(filepath.Join(iotaGoDir(), "trinary"))
	ig := load(filepath.Join(iotaGoDir(), "encoding", "b1t6"))
	gd := load(filepath.Join(iotaGoDir(), "guards"))
	g := newGenHdr("Migration", loopHeaderText+flowHeaderText+recvHeaderText+callHeaderText+strsHeaderText+arrHeaderText, "Iota.Model.GoBits", "Iota.Gen.B1T6")
	// the same call as in genB1T6: it registers the signatures of the trinary functions for the callers below (the text it
	// returns is the one in Gen/B1T6.lean and is not written again)
	triFns := []string{"MustPutTryteTrits", "MustTritsToTryteValue", "MustTryteValueToTryte", "MustTryteToTryteValue"}
	translateLoopFuncsNS(tri, "trinary", triFns...)
	g.raw("-- iota.go's trinary.MustTryteValueToTryte / MustTryteToTryteValue: the translations in Iota/Gen/B1T6.lean\n")
	g.raw("open Iota.Gen.B1T6 (trinary.MustTryteValueToTryte trinary.MustTryteToTryteValue)\n\n")
	g.raw(translateLoopFuncsNS(gd, "guards", "IsTrytesOfExactLength"))
	// the iota.go copy of b1t6 (genB1T6 records in iotaGoCopyIdentical whether its text equals that of the repository's own copy)
	g.raw(translateLoopFuncsNS(ig, "iotago_b1t6", "EncodedLen", "DecodedLen", "encodeGroup", "decodeGroup", "EncodeToTrytes", "DecodeTrytes"))
	g.raw(translateLoopFuncsNS(m, "migration", migrationFns...))
	g.write()
}

func (p *pkg) srcOfFile(file, fn string) string {
	f := p.files[file]
	if f == nil {
		// files excluded by build constraints are still parsed by load(); a missing file is an error
		die("%s: file %s not found", p.dir, file)
	}
	for _, d := range f.Decls {
		if fd, ok := d.(*ast.FuncDecl); ok && fd.Name.Name == fn {
			fd2 := *fd
			fd2.Doc = nil
			return p.src(&fd2)
		}
	}
	die("%s: %s not in %s", p.dir, fn, file)
	return ""
}

// buildConstraint returns the //go:build or // +build lines of a file, normalised.
func buildConstraint(path string) string {
	f, err := os.Open(path)
	if err != nil {
		die("%v", err)
	}
	defer f.Close()
	var res []string
	sc := bufio.NewScanner(f)
	for sc.Scan() {
		l := strings.TrimSpace(sc.Text())
		if strings.HasPrefix(l, "//go:build") || strings.HasPrefix(l, "// +build") {
			res = append(res, normWS(l))
		}
		if strings.HasPrefix(l, "package ") || strings.HasPrefix(l, "TEXT") {
			break
		}
	}
	return strings.Join(res, " | ")
}

func sameFile(a, b string) bool {
	x, err1 := os.ReadFile(a)
	y, err2 := os.ReadFile(b)
	return err1 == nil && err2 == nil && string(x) == string(y)
}

var (
	reLabel = regexp.MustCompile(`^([A-Za-z_][A-Za-z0-9_]*):$`)
	reMem   = regexp.MustCompile(`^(-?\d+)?\(([A-Z0-9]+)\)(?:\(([A-Z0-9]+)\*(\d+)\))?$`)
	reArg   = regexp.MustCompile(`^[a-z_][A-Za-z0-9_]*\+(\d+)\(FP\)$`)
)

func asmOperand(s string) string {
	s = strings.TrimSpace(s)
	switch {
	case strings.HasPrefix(s, "$"):
		v, err := strconv.ParseInt(strings.TrimPrefix(s, "$"), 0, 64)
		if err != nil {
			die("asm: bad immediate %s", s)
		}
		return fmt.Sprintf("(.imm %s)", leanInt(strconv.FormatInt(v, 10)))
	case reArg.MatchString(s):
		return "(.arg " + reArg.FindStringSubmatch(s)[1] + ")"
	case reMem.MatchString(s):
		m := reMem.FindStringSubmatch(s)
		disp := m[1]
		if disp == "" {
			disp = "0"
		}
		idx, scale := "none", "1"
		if m[3] != "" {
			idx, scale = "(some ."+m[3]+")", m[4]
		}
		return fmt.Sprintf("(.mem %s .%s %s %s)", leanInt(disp), m[2], idx, scale)
	case regexp.MustCompile(`^[A-Z][A-Z0-9]*$`).MatchString(s):
		return "(.reg ." + s + ")"
	}
	die("asm: unsupported operand %q", s)
	return ""
}

// parseAsm renders the instructions of the (single) TEXT block as Lean `Instr` constructors.
func parseAsm(path string) string {
	f, err := os.Open(path)
	if err != nil {
		die("%v", err)
	}
	defer f.Close()
	labels := map[string]int{}
	var lines []string
	sc := bufio.NewScanner(f)
	inText := false
	for sc.Scan() {
		l := sc.Text()
		if i := strings.Index(l, "//"); i >= 0 {
			l = l[:i]
		}
		l = strings.TrimSpace(l)
		if l == "" || strings.HasPrefix(l, "#include") {
			continue
		}
		if strings.HasPrefix(l, "TEXT") {
			if inText {
				die("asm: more than one TEXT block")
			}
			inText = true
			if !strings.Contains(l, "transform(SB)") || !strings.Contains(l, "$0-32") {
				die("asm: unexpected TEXT header %q", l)
			}
			continue
		}
		if !inText {
			die("asm: instruction outside TEXT: %q", l)
		}
		lines = append(lines, l)
		if m := reLabel.FindStringSubmatch(l); m != nil {
			labels[m[1]] = len(labels)
		}
	}
	var out []string
	two := map[string]string{"MOVQ": "movq", "XORQ": "xorq", "ANDQ": "andq", "ORQ": "orq", "ADDQ": "addq", "SUBQ": "subq", "CMPQ": "cmpq", "XCHGQ": "xchgq"}
	one := map[string]string{"NOTQ": "notq", "DECQ": "decq"}
	for _, l := range lines {
		if m := reLabel.FindStringSubmatch(l); m != nil {
			out = append(out, fmt.Sprintf("  .label %d", labels[m[1]]))
			continue
		}
		fs := strings.Fields(l)
		op := fs[0]
		rest := strings.TrimSpace(strings.TrimPrefix(l, op))
		switch {
		case op == "RET":
			out = append(out, "  .ret")
		case op == "JL" || op == "JNZ":
			id, ok := labels[rest]
			if !ok {
				die("asm: unknown label %s", rest)
			}
			out = append(out, fmt.Sprintf("  .%s %d", strings.ToLower(op), id))
		case two[op] != "":
			ops := strings.Split(rest, ",")
			if len(ops) != 2 {
				die("asm: %q", l)
			}
			out = append(out, fmt.Sprintf("  .%s %s %s", two[op], asmOperand(ops[0]), asmOperand(ops[1])))
		case one[op] != "":
			out = append(out, fmt.Sprintf("  .%s %s", one[op], asmOperand(rest)))
		default:
			die("asm: unsupported instruction %q", l)
		}
	}
	return strings.Join(out, ",\n") + "\n"
}

// syncSkeleton lists, in source order, the synchronisation operations of a function: channel creation
// (with its capacity expression), go statements, select arms, atomic.* calls, WaitGroup calls, close,
// channel sends and receives, defer of any of these, and return statements of the outermost function.
func syncSkeleton(p *pkg, fn string) string {
	var out []string
	fd := p.method(fn)
	var walk func(n ast.Node, depth int)
	walk = func(n ast.Node, depth int) {
		ast.Inspect(n, func(m ast.Node) bool {
			switch x := m.(type) {
			case *ast.GoStmt:
				out = append(out, "go{")
				walk(x.Call.Fun, depth+1)
				out = append(out, "}")
				return false
			case *ast.DeferStmt:
				out = append(out, "defer "+normWS(p.src(x.Call)))
				return false
			case *ast.SelectStmt:
				out = append(out, "select{")
				for _, c := range x.Body.List {
					cc := c.(*ast.CommClause)
					if cc.Comm == nil {
						out = append(out, "default:")
					} else {
						out = append(out, "case "+normWS(p.src(cc.Comm))+":")
					}
					for _, st := range cc.Body {
						walk(st, depth)
					}
				}
				out = append(out, "}")
				return false
			case *ast.SendStmt:
				out = append(out, "send "+normWS(p.src(x)))
				return false
			case *ast.UnaryExpr:
				if x.Op == token.ARROW {
					out = append(out, "recv "+normWS(p.src(x)))
				}
			case *ast.CallExpr:
				src := normWS(p.src(x.Fun))
				switch {
				case src == "make":
					if len(x.Args) > 0 {
						if _, ok := x.Args[0].(*ast.ChanType); ok {
							out = append(out, "make "+normWS(p.src(x)))
						}
					}
				case strings.HasPrefix(src, "atomic."), src == "close", strings.HasPrefix(src, "wg."):
					out = append(out, "call "+normWS(p.src(x)))
				}
			case *ast.ReturnStmt:
				if depth == 0 {
					out = append(out, normWS(p.src(x)))
				}
			}
			return true
		})
	}
	walk(fd.Body, 0)
	var q []string
	for _, o := range out {
		// the verification hooks are not part of the protocol
		if strings.Contains(o, "verifEvent") {
			continue
		}
		q = append(q, leanString(o))
	}
	return "[" + strings.Join(q, ", ") + "]"
}

// identUses lists every syntactic context in which identifier `name` is used inside the given functions.
func identUses(p *pkg, fns []string, name string) string {
	var out []string
	for _, fn := range fns {
		fd := p.method(fn)
		var stack []ast.Node
		ast.Inspect(fd, func(n ast.Node) bool {
			if n == nil {
				stack = stack[:len(stack)-1]
				return true
			}
			if id, ok := n.(*ast.Ident); ok && id.Name == name {
				// innermost enclosing call or declaration
				ctx := ""
				for i := len(stack) - 1; i >= 0 && ctx == ""; i-- {
					switch y := stack[i].(type) {
					case *ast.CallExpr:
						ctx = normWS(p.src(y))
					case *ast.ValueSpec:
						ctx = "var " + normWS(p.src(y))
					case *ast.Field:
						ctx = "param " + normWS(p.src(y.Type))
					}
				}
				if strings.Contains(ctx, "verifEvent") {
					ctx = ""
				}
				if ctx != "" {
					out = append(out, leanString(ctx))
				}
			}
			stack = append(stack, n)
			return true
		})
	}
	return "[" + strings.Join(out, ", ") + "]"
}

// closureCaptures lists, for every `go func(){…}()` of a function (numbered in source order), the variables
// of the enclosing function the closure refers to and how (read / write / addr), and every assignment the
// enclosing function itself makes to a variable some closure captures, from the spawn of that closure on (from the
// start of the outermost loop around the go statement when there is one).
// Purely syntactic: names declared inside a closure are closure-local.
func closureCaptures(p *pkg, fn string) string {
	fd := p.method(fn)
	outer := map[string]bool{}
	if fd.Recv != nil {
		for _, f := range fd.Recv.List {
			for _, n := range f.Names {
				outer[n.Name] = true
			}
		}
	}
	for _, f := range fd.Type.Params.List {
		for _, n := range f.Names {
			outer[n.Name] = true
		}
	}
	var lits []*ast.FuncLit
	var litFrom []token.Pos // from where on the enclosing function runs concurrently with the closure
	{
		var stack []ast.Node
		ast.Inspect(fd.Body, func(n ast.Node) bool {
			if n == nil {
				stack = stack[:len(stack)-1]
				return true
			}
			if g, ok := n.(*ast.GoStmt); ok {
				if fl, ok := g.Call.Fun.(*ast.FuncLit); ok {
					from := g.Pos()
					for _, a := range stack { // outermost enclosing loop: later iterations run after the spawn
						switch a.(type) {
						case *ast.ForStmt, *ast.RangeStmt:
							if a.Pos() < from {
								from = a.Pos()
							}
						}
					}
					lits = append(lits, fl)
					litFrom = append(litFrom, from)
				}
			}
			stack = append(stack, n)
			return true
		})
	}
	inLit := func(pos token.Pos) bool {
		for _, l := range lits {
			if l.Pos() <= pos && pos < l.End() {
				return true
			}
		}
		return false
	}
	declared := func(root ast.Node, skipLits bool) map[string]bool {
		d := map[string]bool{}
		ast.Inspect(root, func(n ast.Node) bool {
			if n == nil {
				return true
			}
			if skipLits && n != root && inLit(n.Pos()) {
				if _, ok := n.(*ast.FuncLit); ok {
					return false
				}
			}
			switch x := n.(type) {
			case *ast.AssignStmt:
				if x.Tok == token.DEFINE {
					for _, l := range x.Lhs {
						if id, ok := l.(*ast.Ident); ok {
							d[id.Name] = true
						}
					}
				}
			case *ast.ValueSpec:
				for _, id := range x.Names {
					d[id.Name] = true
				}
			case *ast.RangeStmt:
				if x.Tok == token.DEFINE {
					for _, e := range []ast.Expr{x.Key, x.Value} {
						if id, ok := e.(*ast.Ident); ok {
							d[id.Name] = true
						}
					}
				}
			}
			return true
		})
		return d
	}
	for k := range declared(fd.Body, true) {
		outer[k] = true
	}
	set := map[string]bool{}
	captured := map[string]token.Pos{}
	for i, l := range lits {
		local := declared(l.Body, false)
		var stack []ast.Node
		ast.Inspect(l.Body, func(n ast.Node) bool {
			if n == nil {
				stack = stack[:len(stack)-1]
				return true
			}
			if id, ok := n.(*ast.Ident); ok && outer[id.Name] && !local[id.Name] {
				kind := "read"
				if len(stack) > 0 {
					switch y := stack[len(stack)-1].(type) {
					case *ast.UnaryExpr:
						if y.Op == token.AND {
							kind = "addr"
						}
					case *ast.AssignStmt:
						for _, lh := range y.Lhs {
							if lh == ast.Expr(id) {
								kind = "write"
							}
						}
					case *ast.IncDecStmt:
						kind = "write"
					case *ast.SelectorExpr:
						if y.Sel == id {
							kind = ""
						}
					case *ast.KeyValueExpr:
						if y.Key == ast.Expr(id) {
							kind = ""
						}
					}
				}
				if kind != "" {
					set[fmt.Sprintf("go%d %s %s", i+1, kind, id.Name)] = true
					if p0, ok := captured[id.Name]; !ok || litFrom[i] < p0 {
						captured[id.Name] = litFrom[i]
					}
				}
			}
			stack = append(stack, n)
			return true
		})
	}
	ast.Inspect(fd.Body, func(n ast.Node) bool {
		if n == nil {
			return true
		}
		if _, ok := n.(*ast.FuncLit); ok && inLit(n.Pos()) {
			return false
		}
		conc := func(id *ast.Ident) bool { p0, ok := captured[id.Name]; return ok && id.Pos() >= p0 }
		switch x := n.(type) {
		case *ast.AssignStmt:
			for _, lh := range x.Lhs {
				if id, ok := lh.(*ast.Ident); ok && conc(id) {
					k := "write"
					if x.Tok == token.DEFINE {
						k = "define"
					}
					set[fmt.Sprintf("main-after-go %s %s", k, id.Name)] = true
				}
			}
		case *ast.IncDecStmt:
			if id, ok := x.X.(*ast.Ident); ok && conc(id) {
				set["main-after-go write "+id.Name] = true
			}
		case *ast.UnaryExpr:
			if id, ok := x.X.(*ast.Ident); ok && x.Op == token.AND && conc(id) {
				set["main-after-go addr "+id.Name] = true
			}
		}
		return true
	})
	var keys []string
	for k := range set {
		keys = append(keys, leanString(k))
	}
	sort.Strings(keys)
	return "[" + strings.Join(keys, ", ") + "]"
}
