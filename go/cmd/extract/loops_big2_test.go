package main

import (
	"os"
	"os/exec"
	"path/filepath"
	"strings"
	"testing"
)

// Stage 12 (loops_big2.go).  As in loops_test.go each case is a one-file package; want is a substring of the Lean text
// (ok) or of the error message (rejected).
const big2WL = "import \"github.com/wollac/iota-crypto-demo/pkg/bip39/wordlist\"\nvar wordList wordlist.List\ntype Mnemonic []string\n"
const big2WLB = "import (\"math/big\"; \"github.com/wollac/iota-crypto-demo/pkg/bip39/wordlist\")\nvar wordList wordlist.List\ntype Mnemonic []string\n"

var big2Cases = []struct {
	name, src, fns string
	ok             bool
	want           string
}{
	// accepted
	{"SetBytes and Bytes", bigPre + `func f(b []byte) []byte { v := new(big.Int).SetBytes(b); v.Add(v, big.NewInt(1)); r := v.Bytes(); return r }`, "f", true,
		"let v : Int := (Go.bigSetBytes b)\n  let v : Int := (v + (1 : Int))\n  (Go.bigBytes v)"},
	{"SetBytes of a window", bigPre + `func f(b []byte) *big.Int { return new(big.Int).SetBytes(b[1:]) }`, "f", true,
		"if !(decide (1 ≤ b.length)) then Go.Flow.panic else\n  Go.Flow.done (Go.bigSetBytes (b.drop 1))"},
	{"And, Or", bigPre + `func f(x, y *big.Int) *big.Int { v := new(big.Int).And(x, y); v.Or(v, x); return v }`, "f", true,
		"let v : Int := (Go.bigAnd x y)\n  (Go.bigOr v x)"},
	{"Rsh by a constant", bigPre + `func f(x *big.Int) *big.Int { v := new(big.Int).Rsh(x, 11); return v }`, "f", true, "(Go.bigRsh x 11)"},
	{"Lsh and Rsh by a uint expression", bigPre + `func f(x *big.Int, n int) *big.Int { v := new(big.Int).Lsh(x, uint(n)); v.Rsh(v, uint(n-1)); return v }`, "f", true,
		"let v : Int := (Go.bigLsh x n.toNat)\n  (Go.bigRsh v (n - 1#64).toNat)"},
	{"Int64", bigPre + `func f(x *big.Int) int { return int(x.Int64()) + 1 }`, "f", true, "((Go.bigInt64 x) + 1#64)"},
	{"return of a modified local", bigPre + `func f(x *big.Int, n uint) *big.Int { c := new(big.Int).Set(x); return c.Rsh(c, n) }`, "f", true,
		"let c : Int := x\n  (Go.bigRsh c n.toNat)"},
	{"reader on the result of a modifying method", bigPre + `func f(x *big.Int, n uint) []byte { d := new(big.Int).Set(x); e := d.Rsh(d, n).Bytes(); e = append(e, 1); return e }`, "f", true,
		"let d : Int := (Go.bigRsh d n.toNat)\n  let e : List (BitVec 8) := (Go.bigBytes d)"},
	{"Sign of the result of a modifying method", bigPre + `func f(x, y *big.Int) int { d := new(big.Int); s := d.Sub(x, y).Sign(); return s }`, "f", true,
		"let d : Int := (x - y)\n  (Go.bigSign d)"},
	{"package-level constants", bigPre + `var mask = big.NewInt(1<<11 - 1)
var one = big.NewInt(1)
func g(x *big.Int) bool { return x.Cmp(one) == 0 }
func f(x *big.Int) *big.Int { v := new(big.Int).And(x, mask); v.Sub(v, one); return v }`, "g,f", true,
		"let v : Int := (Go.bigAnd x (2047 : Int))\n  (v - (1 : Int))"},
	{"package-level constant as the receiver of a reader", bigPre + `var one = big.NewInt(1)
func f(x *big.Int) int { return one.Cmp(x) + one.Sign() }`, "f", true, "((Go.bigCmp (1 : Int) x) + (Go.bigSign (1 : Int)))"},
	{"local constant", `func f(n int) int { const k = 4 * 8; if n > k { panic("x") }; return k - n }`, "f", true, "if (BitVec.slt 32#64 n) then\n    Go.Flow.panic"},
	{"sha256.Sum256 as a parameter", "import (\"crypto/sha256\"; \"math/big\")\n" + `func f(b []byte, n int) *big.Int { const bits = sha256.Size * 8; h := sha256.Sum256(b); c := new(big.Int).SetBytes(h[:]); return c.Rsh(c, uint(bits-n)) }`, "f", true,
		"def f (sha256_Sum256 : List (BitVec 8) → List (BitVec 8)) (b : List (BitVec 8)) (n : BitVec 64) : Int :=\n  let h : List (BitVec 8) := (sha256_Sum256 b)\n  let c : Int := (Go.bigSetBytes h)\n  (Go.bigRsh c (256#64 - n).toNat)"},
	{"named []string: made, written by index, returned", big2WL + `func f(n int, s string) (Mnemonic, error) { words := make(Mnemonic, n); words[0] = s; return words, nil }`, "f", true,
		"let words : List (List (BitVec 8)) := (List.replicate n.toNat ([] : List (BitVec 8)))\n  if !(decide (0 < words.length)) then Go.Flow.panic else\n  let words : List (List (BitVec 8)) := (words.set 0 s)"},
	{"named []string: nil result", big2WL + `func f(n int) (Mnemonic, error) { if n < 0 { return nil, nil }; return make(Mnemonic, 0), nil }`, "f", false, "only nil or a local variable made once by make"},
	{"named []string: nil result, local returned", big2WL + `func f(n int) Mnemonic { if n < 0 { return nil }; w := make(Mnemonic, 3); return w }`, "f", true, "([] : List (List (BitVec 8)))"},
	{"named []string as a read-only parameter", big2WL + `func f(m Mnemonic) int { n := len(m); for _, w := range m { n += len(w) }; return n }`, "f", true,
		"def f (m : List (List (BitVec 8))) : BitVec 64 :="},
	{"Contains is a total parameter", big2WL + `func f(m Mnemonic) bool { for _, w := range m { if !wordList.Contains(w) { return false } }; return true }`, "f", true,
		"def f (wordList_Contains : List (BitVec 8) → Bool) (m : List (List (BitVec 8))) : Option (Bool) :="},
	{"Index is an Option-valued parameter", big2WL + `func f(w string) int { i := wordList.Index(w); if i < 0 { panic("x") }; return i }`, "f", true,
		"Go.Flow.bind (Go.call (wordList_Index w)) (fun (st_1 : BitVec 64) =>\n  let i : BitVec 64 := st_1"},
	{"Word assigned to an element, down loop", big2WLB + `func f(x *big.Int, n int) Mnemonic {
	words := make(Mnemonic, n); v := new(big.Int).Set(x)
	for i := len(words) - 1; i >= 0; i-- { words[i] = wordList.Word(int(v.Int64())); v.Rsh(v, wordlist.IndexBits) }
	return words }`, "f", true,
		"Go.Flow.bind (Go.call (wordList_Word (Go.bigInt64 v))) (fun (st_2 : List (BitVec 8)) =>\n      if !(Go.inRangeS i words.length) then Go.Flow.panic else\n      let words : List (List (BitVec 8)) := (words.set i.toNat st_2)"},
	{"the parameters are passed on by callers", big2WL + `func g(w string) int { i := wordList.Index(w); return i }
func f(w string) int { k := g(w); return k + 1 }`, "g,f", true, "Go.Flow.bind (Go.call (g wordList_Index w)) (fun (st_1 : BitVec 64) =>"},
	{"if with init and a []string parameter", "import \"errors\"\ntype Mnemonic []string\n" + `var ErrBad = errors.New("bad")
func v(m Mnemonic) error { if len(m) == 0 { return ErrBad }; return nil }
func f(m Mnemonic) ([]byte, error) { if err := v(m); err != nil { return nil, err }; return make([]byte, 1), nil }`, "v,f", true,
		"let err : Option String := (v m)\n  if (err).isSome then"},

	// rejected
	{"shift count of type int", bigPre + `func f(x *big.Int, n int) *big.Int { return new(big.Int).Rsh(x, uint(n)).Lsh(x, 1) }`, "f", true, "(Go.bigLsh x 1)"},
	{"modified local used as a value in an expression", bigPre + `func f(x *big.Int, n uint) *big.Int { c := new(big.Int).Set(x); d := new(big.Int).Add(c.Rsh(c, n), x); return d }`, "f", false, "would alias c"},
	{"modified local returned together with itself", bigPre + `func f(x *big.Int, n uint) (*big.Int, *big.Int) { c := new(big.Int).Set(x); return c.Rsh(c, n), c }`, "f", false, "would alias c"},
	{"modified parameter returned", bigPre + `func f(x *big.Int, n uint) *big.Int { return x.Rsh(x, n) }`, "f", false, "parameters and fields are read-only"},
	{"reader with an argument on the result of a modifying method", bigPre + `func f(x, y *big.Int) int { d := new(big.Int); s := d.Sub(x, y).Cmp(x); return s }`, "f", false, "would alias d"},
	{"chain assigned to the modified variable itself", bigPre + `func f(x *big.Int, n uint) int64 { d := new(big.Int).Set(x); e := d.Rsh(d, n).Int64(); return e + d.Int64() }`, "f", true, "let d : Int := (Go.bigRsh d n.toNat)"},
	{"package-level variable that a function modifies", bigPre + `var acc = big.NewInt(0)
func g(x *big.Int) { acc.Add(acc, x) }
func f(x *big.Int) *big.Int { return new(big.Int).Add(x, acc) }`, "f", false, "acc is used in another way at"},
	{"package-level variable that is copied", bigPre + `var one = big.NewInt(1)
func g() *big.Int { p := one; return p }
func f(x *big.Int) *big.Int { return new(big.Int).Add(x, one) }`, "f", false, "one is used in another way at"},
	{"package-level variable that is assigned", bigPre + `var one = big.NewInt(1)
func g() { one = big.NewInt(2) }
func f(x *big.Int) *big.Int { return new(big.Int).Add(x, one) }`, "f", false, "one is used in another way at"},
	{"package-level variable not initialised by NewInt", bigPre + `var p, _ = new(big.Int).SetString("ff", 16)
func f(x *big.Int) *big.Int { return new(big.Int).Add(x, p) }`, "f", false, "is not initialised that way"},
	{"package-level variable initialised with a non-constant", bigPre + `var n int64 = 3
var c = big.NewInt(n)
func f(x *big.Int) *big.Int { return new(big.Int).Add(x, c) }`, "f", false, "non-constant argument"},
	{"package-level constant as the receiver of a modifying method", bigPre + `var one = big.NewInt(1)
func f(x *big.Int) *big.Int { one.Add(one, x); return new(big.Int).Set(x) }`, "f", false, "one is used in another way at"},
	{"exported package-level variable is not a constant (another package may modify it)", bigPre + `var One = big.NewInt(1)
func f(x *big.Int) bool { return x.Cmp(One) == 0 }`, "f", false, "One is exported"},
	{"returning a package-level constant", bigPre + `var one = big.NewInt(1)
func f() *big.Int { return one }`, "f", false, "one is used in another way at"},
	{"Lsh by a signed count", bigPre + `func f(x *big.Int, n int64) *big.Int { return new(big.Int).Lsh(x, uint(n)+uint(1)) }`, "f", true, "(Go.bigLsh x (n + 1#64).toNat)"},
	{"unsupported method Uint64", bigPre + `func f(x *big.Int) uint64 { return x.Uint64() }`, "f", false, "the method Uint64 of *big.Int is not supported"},
	{"SetBytes of a string", bigPre + `func f(s string) *big.Int { return new(big.Int).SetBytes([]byte(s)) }`, "f", true, "(Go.bigSetBytes s)"},
	{"plain []string parameter stays rejected", `func f(m []string) int { return len(m) }`, "f", false, "a parameter of type []string is not supported"},
	{"named []string parameter written", big2WL + `func f(m Mnemonic, s string) int { m[0] = s; return len(m) }`, "f", false, "a []string parameter is read-only"},
	{"named []string parameter returned", big2WL + `func f(m Mnemonic) Mnemonic { return m }`, "f", false, "only nil or a local variable made once by make"},
	{"named []string copied", big2WL + `func f(m Mnemonic) int { w := m; return len(w) }`, "f", false, "would alias"},
	{"named []string made twice", big2WL + `func f(n int, s string) Mnemonic { w := make(Mnemonic, n); w = make(Mnemonic, 2); w[0] = s; return w }`, "f", false, "not a local variable created once by make"},
	{"named []string appended to", big2WL + `func f(m Mnemonic, s string) int { w := append(m, s); return len(w) }`, "f", false, "translate f"},
	{"Index inside an expression", big2WL + `func f(w string) int { return wordList.Index(w) + 1 }`, "f", false, "may panic: the call is only supported as the whole right-hand side of an assignment"},
	{"Word in a condition", big2WL + `func f(i int) bool { if wordList.Word(i) == "x" { return true }; return false }`, "f", false, "may panic: the call is only supported as the whole right-hand side of an assignment"},
	{"interface variable used otherwise", big2WL + `func f() wordlist.List { return wordList }`, "f", false, "outside the translated subset"},
	{"method of another interface variable", "import \"fmt\"\nvar s fmt.Stringer\n" + `func f() string { return s.String() }`, "f", false, "unsupported call"},
	{"local variable declared without value in a const-like way", `func f(n int) int { const k = 3; var m = k + n; return m }`, "f", true, "(3#64 + n)"},
}

func TestBig2Translator(t *testing.T) {
	tmp := t.TempDir()
	bin := filepath.Join(tmp, "extract")
	if out, err := exec.Command("go", "build", "-o", bin, ".").CombinedOutput(); err != nil {
		t.Fatalf("build: %v\n%s", err, out)
	}
	for i, c := range big2Cases {
		dir := filepath.Join(tmp, "case", string(rune('a'+i/26))+string(rune('a'+i%26)))
		if err := os.MkdirAll(dir, 0o755); err != nil {
			t.Fatal(err)
		}
		if err := os.WriteFile(filepath.Join(dir, "x.go"), []byte("package x\n\n"+c.src+"\n"), 0o644); err != nil {
			t.Fatal(err)
		}
		out, err := exec.Command(bin, "-translate", dir+":"+c.fns).CombinedOutput()
		switch {
		case c.ok && err != nil:
			t.Errorf("%s: rejected: %s", c.name, out)
		case !c.ok && err == nil:
			t.Errorf("%s: accepted:\n%s", c.name, out)
		case !strings.Contains(string(out), c.want):
			t.Errorf("%s: output does not contain %q:\n%s", c.name, c.want, out)
		}
	}
}
