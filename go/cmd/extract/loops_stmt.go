package main

// Statements and the entry point of the loop translator (see loops.go).

import (
	"fmt"
	"go/ast"
	"go/token"
	"go/types"
	"strings"
)

// loopHeaderText is written at the top of a generated file that contains loop-translated code.
const loopHeaderText = `/-
Code below marked "translated (loops)" is produced by cmd/extract (loops*.go) from the Go source.
ASSUMPTION: 64-bit platform (GOARCH with 64-bit int, e.g. amd64/arm64).  Semantics used:
* int, int64 ↦ BitVec 64 read as two's complement: + - * << & | ^ wrap exactly like Go, x >> n is the
  arithmetic shift BitVec.sshiftRight, comparisons are BitVec.slt/sle; uint, uint64 ↦ BitVec 64 unsigned;
  byte ↦ BitVec 8; int(b) of a byte is zero extension, byte(i) is truncation (BitVec.setWidth).
* []byte and string ↦ List (BitVec 8) (a string is the list of its bytes), []int ↦ List (BitVec 64).
  Slices are values: the translator only accepts functions in which no sharing of backing arrays can be
  observed (ownership discipline documented in cmd/extract/loops.go) and fails on everything else.
* len(x) ↦ BitVec.ofNat 64 x.length (exact: Go lengths are below 2^63).
* a[i] is accepted only where i is the key of an enclosing "for i := range a" and neither is reassigned, so
  the index is in range by construction; it is rendered with the total List.getD / List.set.
* Only executions that do not panic are described: a negative shift count or make length panics in Go and
  is not modelled (the count is read with .toNat).
* "for _, v := range xs" is List.foldl over xs; "for i := range xs" is List.foldl over the indices
  0 … len-1 as BitVec 64; the loop state is the tuple of the variables assigned in the body and declared
  outside it.  "if c { x = e }" is "let x := if c then e else x".
-/
`

// translateLoopFuncs translates the named functions of p, in the given order (callees first),
// preceded by the package variables they read.
func translateLoopFuncs(p *pkg, names ...string) string {
	set := &loopSet{p: p, tp: typeCheck(p), done: map[string]bool{}, all: map[string]bool{}, varText: map[*types.Var]string{}}
	for _, n := range names {
		set.all[n] = true
	}
	var fns []string
	for _, n := range names {
		fns = append(fns, set.translate(n))
		set.done[n] = true
	}
	var b strings.Builder
	for _, v := range set.pkgVars {
		b.WriteString(set.varText[v])
	}
	for _, f := range fns {
		b.WriteString(f)
	}
	return b.String()
}

func (s *loopSet) translate(name string) string {
	fd := s.p.funcDecl(name)
	t := &loopTr{set: s, p: s.p, info: s.tp.info, fd: fd, vars: map[types.Object]string{}, params: map[types.Object]bool{}}
	if fd.Recv != nil || fd.Type.TypeParams != nil || fd.Body == nil {
		t.fail(fd, "methods, generic functions and bodyless functions are not supported")
	}
	ast.Inspect(fd.Body, func(n ast.Node) bool {
		if _, ok := n.(*ast.FuncLit); ok {
			t.fail(n, "closures are not supported")
		}
		return true
	})
	t.collectFacts()
	// variables: unique, usable names
	byName := map[string][]types.Object{}
	nested := func(a, b types.Object) bool { // the scope of a encloses the scope of b
		for sc := b.Parent(); sc != nil; sc = sc.Parent() {
			if sc == a.Parent() {
				return true
			}
		}
		return false
	}
	addVar := func(id *ast.Ident) {
		o := t.info.Defs[id]
		if o == nil || id.Name == "_" {
			return
		}
		if _, isVar := o.(*types.Var); !isVar {
			t.fail(id, "unsupported declaration of %s", id.Name)
		}
		for _, prev := range byName[id.Name] {
			if prev == o {
				return
			}
			if nested(prev, o) || nested(o, prev) {
				t.fail(id, "two variables called %s in nested scopes (shadowing is not supported)", id.Name)
			}
		}
		if leanReserved[id.Name] || strings.HasPrefix(id.Name, "st_") || strings.HasPrefix(id.Name, "var_") || s.all[id.Name] {
			t.fail(id, "variable name %s clashes with a name used by the generated Lean text", id.Name)
		}
		byName[id.Name] = append(byName[id.Name], o)
		t.vars[o] = id.Name
	}
	var params []string
	for _, f := range fd.Type.Params.List {
		if len(f.Names) == 0 {
			t.fail(f, "unnamed parameter")
		}
		for _, id := range f.Names {
			if id.Name == "_" {
				t.fail(f, "blank parameter")
			}
			addVar(id)
			o := t.info.Defs[id]
			t.params[o] = true
			params = append(params, fmt.Sprintf("(%s : %s)", id.Name, t.kindOf(o.Type(), id).lean()))
		}
	}
	if fd.Type.Results == nil {
		t.fail(fd, "function without result")
	}
	var rt []string
	for _, f := range fd.Type.Results.List {
		if len(f.Names) != 0 {
			t.fail(f, "named results are not supported")
		}
		k := t.kindOf(t.typeOf(f.Type).Type, f)
		t.rets = append(t.rets, k)
		rt = append(rt, k.lean())
	}
	ast.Inspect(fd.Body, func(n ast.Node) bool {
		if id, ok := n.(*ast.Ident); ok {
			addVar(id)
		}
		return true
	})
	body := t.block(fd.Body.List, "  ", true, func(string) string {
		t.fail(fd, "function falls off the end")
		return ""
	})
	return fmt.Sprintf("/-- translated (loops) from `%s` in %s -/\ndef %s %s : %s :=\n%s\n",
		name, rel(s.p.dir), name, strings.Join(params, " "), strings.Join(rt, " × "), body)
}

// ---------------------------------------------------------------- statements

type binding struct {
	name string
	kind lkind
	val  string
}

func (t *loopTr) freshName() string {
	t.fresh++
	return fmt.Sprintf("st_%d", t.fresh)
}

func proj(name string, i, n int) string {
	if n == 1 {
		return name
	}
	s := name + strings.Repeat(".2", i)
	if i < n-1 {
		s += ".1"
	}
	return s
}

func (t *loopTr) tuple(objs []types.Object) (expr, ty string) {
	var ns, ts []string
	for _, o := range objs {
		ns = append(ns, t.vars[o])
		ts = append(ts, t.kindOf(o.Type(), t.fd).lean())
	}
	if len(objs) == 1 {
		return ns[0], ts[0]
	}
	return "(" + strings.Join(ns, ", ") + ")", strings.Join(ts, " × ")
}

// unpack renders `let v1 := st.1 …` for a tuple-valued name (nothing for a single variable).
func (t *loopTr) unpack(ind, st string, objs []types.Object) string {
	if len(objs) == 1 {
		return ""
	}
	var b strings.Builder
	for i, o := range objs {
		fmt.Fprintf(&b, "%slet %s : %s := %s\n", ind, t.vars[o], t.kindOf(o.Type(), t.fd).lean(), proj(st, i, len(objs)))
	}
	return b.String()
}

// let renders `let name : T := val` followed by rest; `let x := e; x` is simplified to `e`.
func let(ind, name, ty, val, rest string) string {
	if strings.TrimSpace(rest) == name {
		return ind + val
	}
	return fmt.Sprintf("%slet %s : %s := %s\n%s", ind, name, ty, val, rest)
}

// block translates the statement list; k renders what follows it.  tail: the list is in tail
// position of the function, so `return` is allowed.
func (t *loopTr) block(list []ast.Stmt, ind string, tail bool, k func(ind string) string) string {
	if len(list) == 0 {
		return k(ind)
	}
	rest := func(ind string) string { return t.block(list[1:], ind, tail, k) }
	switch s := list[0].(type) {
	case *ast.EmptyStmt:
		return rest(ind)
	case *ast.BlockStmt:
		return t.block(append(append([]ast.Stmt{}, s.List...), list[1:]...), ind, tail, k)
	case *ast.ReturnStmt:
		if !tail {
			t.fail(s, "return inside a loop or a conditional that is not in tail position")
		}
		if len(list) > 1 {
			t.fail(list[1], "statement after return")
		}
		if len(s.Results) != len(t.rets) {
			t.fail(s, "return arity")
		}
		var vals []string
		for i, r := range s.Results {
			if id, ok := unparen(r).(*ast.Ident); ok {
				if o := t.info.Uses[id]; o != nil && t.rets[i].isSlice() {
					if _, local := t.vars[o]; !local || t.params[o] {
						t.fail(r, "returning `%s` would alias a parameter or package variable", id.Name)
					}
				}
			}
			v, vk := t.expr(r)
			if vk != t.rets[i] {
				t.fail(r, "return type")
			}
			vals = append(vals, v)
		}
		if len(vals) == 1 {
			return ind + vals[0]
		}
		return ind + "(" + strings.Join(vals, ", ") + ")"
	case *ast.AssignStmt, *ast.IncDecStmt, *ast.DeclStmt:
		bs := t.simple(s)
		out := rest(ind)
		for i := len(bs) - 1; i >= 0; i-- {
			out = let(ind, bs[i].name, bs[i].kind.lean(), bs[i].val, out)
		}
		return out
	case *ast.IfStmt:
		return t.ifStmt(s, ind, tail, rest)
	case *ast.RangeStmt:
		return t.rangeStmt(s, ind, rest)
	case *ast.ForStmt:
		t.fail(s, "only `for … := range …` loops are supported")
	}
	t.fail(list[0], "unsupported statement %s (%T)", t.p.src(list[0]), list[0])
	return ""
}

var assignOps = map[token.Token]token.Token{
	token.ADD_ASSIGN: token.ADD, token.SUB_ASSIGN: token.SUB, token.MUL_ASSIGN: token.MUL,
	token.AND_ASSIGN: token.AND, token.OR_ASSIGN: token.OR, token.XOR_ASSIGN: token.XOR,
	token.AND_NOT_ASSIGN: token.AND_NOT, token.SHL_ASSIGN: token.SHL, token.SHR_ASSIGN: token.SHR,
}

func (t *loopTr) localVar(id *ast.Ident) (types.Object, string, lkind) {
	o := t.objOf(id)
	name, ok := t.vars[o]
	if !ok || id.Name == "_" {
		t.fail(id, "assignment to %s, which is not a local variable", id.Name)
	}
	return o, name, t.kindOf(o.Type(), id)
}

// simple translates an assignment-like statement into let-bindings.
func (t *loopTr) simple(st ast.Stmt) []binding {
	switch s := st.(type) {
	case *ast.IncDecStmt:
		id, ok := unparen(s.X).(*ast.Ident)
		if !ok {
			t.fail(s, "unsupported operand of %s", s.Tok)
		}
		_, name, k := t.localVar(id)
		if !k.isNum() {
			t.fail(s, "%s on %s", s.Tok, k.lean())
		}
		op := "+"
		if s.Tok == token.DEC {
			op = "-"
		}
		return []binding{{name, k, fmt.Sprintf("(%s %s 1#%d)", name, op, k.width())}}
	case *ast.DeclStmt:
		gd, ok := s.Decl.(*ast.GenDecl)
		if !ok || gd.Tok != token.VAR {
			t.fail(s, "unsupported declaration")
		}
		var bs []binding
		for _, sp := range gd.Specs {
			vs := sp.(*ast.ValueSpec)
			if len(vs.Values) != 0 && len(vs.Values) != len(vs.Names) {
				t.fail(s, "unsupported declaration")
			}
			for i, id := range vs.Names {
				_, name, k := t.localVar(id)
				var val string
				switch {
				case len(vs.Values) != 0:
					t.noAlias(vs.Values[i], "declaration")
					v, vk := t.expr(vs.Values[i])
					if vk != k {
						t.fail(s, "declaration type")
					}
					val = v
				case k.isNum():
					val = fmt.Sprintf("0#%d", k.width())
				case k == kBool:
					val = "false"
				default:
					val = "([] : " + k.lean() + ")"
				}
				bs = append(bs, binding{name, k, val})
			}
		}
		return bs
	case *ast.AssignStmt:
		if len(s.Lhs) != 1 || len(s.Rhs) != 1 {
			t.fail(s, "multiple assignment is not supported")
		}
		switch l := unparen(s.Lhs[0]).(type) {
		case *ast.Ident:
			o, name, k := t.localVar(l)
			if s.Tok == token.DEFINE || s.Tok == token.ASSIGN {
				t.noAlias(s.Rhs[0], "assignment")
				t.selfAppend = nil
				if c, ok := unparen(s.Rhs[0]).(*ast.CallExpr); ok && s.Tok == token.ASSIGN && len(c.Args) > 0 {
					f, isId := unparen(c.Fun).(*ast.Ident)
					a, isArg := unparen(c.Args[0]).(*ast.Ident)
					if isId && isArg && t.info.Uses[a] == o {
						if b, ok := t.info.Uses[f].(*types.Builtin); ok && b.Name() == "append" {
							t.selfAppend = c
						}
					}
				}
				v, vk := t.expr(s.Rhs[0])
				t.selfAppend = nil
				if vk != k {
					t.fail(s, "assignment of %s to %s", vk.lean(), k.lean())
				}
				return []binding{{name, k, v}}
			}
			op, ok := assignOps[s.Tok]
			if !ok {
				t.fail(s, "unsupported assignment operator %s", s.Tok)
			}
			if op == token.SHL || op == token.SHR {
				return []binding{{name, k, t.shift(s, op, name, k, s.Rhs[0])}}
			}
			b, bk := t.expr(s.Rhs[0])
			v, _ := t.binop(s, op, name, k, b, bk)
			return []binding{{name, k, v}}
		case *ast.IndexExpr:
			if s.Tok != token.ASSIGN {
				t.fail(s, "only plain assignment to an element is supported")
			}
			a, i, ak := t.index(l)
			o := t.info.Uses[unparen(l.X).(*ast.Ident)]
			f := t.facts
			_, local := t.vars[o]
			if !local || t.params[o] || len(f.defs[o]) != 1 || f.plain[o] != 0 || !t.isMake(f.defs[o][0]) {
				t.fail(s, "index assignment to `%s`, which is not a local slice created once by make in this function (aliasing-sensitive)", a)
			}
			v, vk := t.expr(s.Rhs[0])
			if vk != ak.elem() {
				t.fail(s, "element type")
			}
			return []binding{{a, ak, fmt.Sprintf("(%s.set %s.toNat %s)", a, i, v)}}
		}
	}
	t.fail(st, "unsupported statement %s", t.p.src(st))
	return nil
}

func (t *loopTr) isMake(e ast.Expr) bool {
	c, ok := unparen(e).(*ast.CallExpr)
	if !ok || e == nil {
		return false
	}
	id, ok := unparen(c.Fun).(*ast.Ident)
	if !ok {
		return false
	}
	b, ok := t.info.Uses[id].(*types.Builtin)
	return ok && b.Name() == "make"
}

func (t *loopTr) ifStmt(s *ast.IfStmt, ind string, tail bool, rest func(string) string) string {
	if s.Init != nil {
		t.fail(s, "if with an init statement is not supported")
	}
	c, ck := t.expr(s.Cond)
	if ck != kBool {
		t.fail(s.Cond, "condition is not a bool")
	}
	if hasReturn(s) {
		n := len(s.Body.List)
		if !tail || s.Else != nil || n == 0 {
			t.fail(s, "a conditional containing return must be `if c { …; return e }` in tail position of the function")
		}
		if _, ok := s.Body.List[n-1].(*ast.ReturnStmt); !ok {
			t.fail(s, "a conditional containing return must end with it")
		}
		th := t.block(s.Body.List, ind+"  ", true, nil)
		return fmt.Sprintf("%sif %s then\n%s\n%selse\n%s", ind, c, th, ind, rest(ind+"  "))
	}
	objs := t.stateOf(s, s)
	if len(objs) == 0 {
		t.fail(s, "conditional without effect")
	}
	tup, ty := t.tuple(objs)
	ret := func(ind string) string { return ind + tup }
	th := t.block(s.Body.List, ind+"    ", false, ret)
	el := ind + "    " + tup
	switch e := s.Else.(type) {
	case *ast.BlockStmt:
		el = t.block(e.List, ind+"    ", false, ret)
	case *ast.IfStmt:
		el = t.block([]ast.Stmt{e}, ind+"    ", false, ret)
	}
	var val string
	if !strings.Contains(th, "\n") && !strings.Contains(el, "\n") {
		val = fmt.Sprintf("(if %s then %s else %s)", c, strings.TrimSpace(th), strings.TrimSpace(el))
	} else {
		val = fmt.Sprintf("if %s then\n%s\n%s  else\n%s", c, th, ind, el)
	}
	if len(objs) == 1 {
		return let(ind, tup, ty, val, rest(ind))
	}
	st := t.freshName()
	return fmt.Sprintf("%slet %s : %s := %s\n%s%s", ind, st, ty, val, t.unpack(ind, st, objs), rest(ind))
}

func (t *loopTr) rangeStmt(s *ast.RangeStmt, ind string, rest func(string) string) string {
	ident := func(e ast.Expr) *ast.Ident {
		if e == nil {
			return nil
		}
		id, ok := e.(*ast.Ident)
		if !ok || s.Tok != token.DEFINE {
			t.fail(s, "range variables must be declared by the loop (:=)")
		}
		if id.Name == "_" {
			return nil
		}
		return id
	}
	key, val := ident(s.Key), ident(s.Value)
	if key != nil && val != nil {
		t.fail(s, "range with both key and value is not supported")
	}
	plain, indexed := t.assignedIn(s.Body)
	ctx := &loopCtx{plain: plain, indexed: indexed}
	if key != nil {
		ctx.key = t.info.Defs[key]
	}
	if id, ok := unparen(s.X).(*ast.Ident); ok {
		ctx.rng = t.info.Uses[id]
	}
	if val != nil {
		ast.Inspect(s.X, func(n ast.Node) bool {
			if id, ok := n.(*ast.Ident); ok {
				if o := t.info.Uses[id]; o != nil && (plain[o] || indexed[o]) {
					t.fail(s, "the loop body assigns `%s`, over which it ranges by value", id.Name)
				}
			}
			return true
		})
	}
	xs, xk := t.expr(s.X)
	var list, binder string
	switch {
	case xk.isSlice() && val != nil:
		list, binder = xs, fmt.Sprintf("(%s : %s)", val.Name, xk.elem().lean())
	case xk.isSlice():
		list = "((List.range " + xs + ".length).map (BitVec.ofNat 64))"
	case xk == kInt && val == nil:
		list = "((List.range " + xs + ".toInt.toNat).map (BitVec.ofNat 64))"
	default:
		t.fail(s, "range over %s is not supported", t.typeOf(s.X).Type)
	}
	if binder == "" {
		n := "_"
		if key != nil {
			n = key.Name
		}
		binder = fmt.Sprintf("(%s : BitVec 64)", n)
	}
	objs := t.stateOf(s.Body, s)
	if len(objs) == 0 {
		t.fail(s, "loop without effect: its body assigns no variable declared outside it")
	}
	tup, ty := t.tuple(objs)
	st := tup
	if len(objs) > 1 {
		st = t.freshName()
	}
	t.loops = append(t.loops, ctx)
	in := ind + "    "
	body := t.unpack(in, st, objs) + t.block(s.Body.List, in, false, func(ind string) string { return ind + tup })
	t.loops = t.loops[:len(t.loops)-1]
	fold := fmt.Sprintf("List.foldl (fun (%s : %s) %s =>\n%s) %s %s", st, ty, binder, body, tup, list)
	if len(objs) == 1 {
		return let(ind, tup, ty, fold, rest(ind))
	}
	return fmt.Sprintf("%slet %s : %s := %s\n%s%s", ind, st, ty, fold, t.unpack(ind, st, objs), rest(ind))
}
