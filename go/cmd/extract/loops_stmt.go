package main

// Statements and the entry point of the loop translator (see loops.go).

import (
	"fmt"
	"go/ast"
	"go/token"
	"go/types"
	"sort"
	"strings"
)

// loopHeaderText is written at the top of a generated file that contains loop-translated code.
const loopHeaderText = `/-
Code below marked "translated (loops)" is produced by cmd/extract (loops*.go) from the Go source.
ASSUMPTION: 64-bit platform (GOARCH with 64-bit int, e.g. amd64/arm64).  Semantics used:
* int, int64 ↦ BitVec 64 read as two's complement: + - * << & | ^ wrap exactly like Go, x >> n is the
  arithmetic shift BitVec.sshiftRight, comparisons are BitVec.slt/sle; uint, uint64 ↦ BitVec 64 unsigned;
  byte ↦ BitVec 8; int(b) of a byte is zero extension, byte(i) is truncation (BitVec.setWidth).
* []byte and string ↦ List (BitVec 8) (a string is the list of its bytes), []int ↦ List (BitVec 64).
  Slices are values: the translator only accepts functions in which no sharing of backing arrays can be
  observed (ownership discipline documented in cmd/extract/loops.go) and fails on everything else.
* len(x) ↦ BitVec.ofNat 64 x.length (exact: Go lengths are below 2^63).
* a[i] where i is the key of an enclosing "for i := range a" and neither is reassigned is in range by
  construction; it is rendered with the total List.getD / List.set.  (Any other index expression makes the
  function Option-valued: see the additional semantics in the files that contain such functions.)
* In a function with a plain (non-Option) result only executions that do not panic are described: a negative
  shift count or make length panics in Go and is not modelled (the count is read with .toNat).
* "for _, v := range xs" is List.foldl over xs; "for i := range xs" is List.foldl over the indices
  0 … len-1 as BitVec 64; the loop state is the tuple of the variables assigned in the body and declared
  outside it.  "if c { x = e }" is "let x := if c then e else x".
-/
`

// translateLoopFuncs translates the named functions of p, in the given order (callees first),
// preceded by the package variables they read.
//
// A name with the suffix "!disjoint" is translated under the ASSUMPTION that the arrays of its slice / array
// parameters do not overlap: then a parameter written by index is accepted as an output buffer even when another
// parameter has the same element type.  The assumption is stated in the generated doc comment; whoever asks for it
// has to justify it (gen.go: checkFreshDst does so at the call sites).
func translateLoopFuncs(p *pkg, names ...string) string { return translateLoopFuncsNS(p, "", names...) }

// translateLoopFuncsNS is translateLoopFuncs for functions that are generated inside `namespace ns` (relative to the
// namespace of the generated file) and may be called from functions translated later, also of other packages.
func translateLoopFuncsNS(p *pkg, ns string, names ...string) string {
	set := &loopSet{p: p, tp: typeCheck(p), done: map[string]bool{}, flowFns: map[string]bool{}, all: map[string]bool{},
		varText: map[*types.Var]string{}, disjoint: map[string]bool{}, nowrap: map[string]bool{}, ns: ns}
	names = append([]string{}, names...)
	abstract := map[string][]string{}
	for i, n := range names {
		// name!flag!flag…: disjoint (see above); nowrap: loops `for i := a; i < b; i += k` are translated under the
		// ASSUMPTION that i += k does not wrap around (the tie proves it from the function's own guards)
		parts := strings.Split(n, "!")
		names[i], n = parts[0], parts[0]
		for _, f := range parts[1:] {
			switch f {
			case "disjoint":
				set.disjoint[n] = true
			case "nowrap":
				set.nowrap[n] = true
			case "abstract":
				die("translate %s: !abstract needs the fields it reads and assigns: !abstract=f+g", n)
			default:
				if fs := strings.TrimPrefix(f, "abstract="); fs != f {
					abstract[n] = strings.Split(fs, "+")
					continue
				}
				die("translate %s: unknown flag !%s", n, f)
			}
		}
		set.all[n] = true
		set.all[strings.ReplaceAll(n, ".", "_")] = true
	}
	var fns []string
	for _, n := range names {
		if fs, ok := abstract[n]; ok {
			set.registerAbstract(n, fs)
			continue
		}
		if txt, ok := set.ifaceDispatch(n); ok { // stage 11 (loops_iface.go): "I.m", the dispatch of an interface method
			fns = append(fns, txt)
			set.done[n] = true
			continue
		}
		fns = append(fns, set.translate(n))
		set.done[n] = true
	}
	var b strings.Builder
	for _, v := range set.pkgVars {
		b.WriteString(set.varText[v])
	}
	for _, f := range fns {
		b.WriteString(f)
	}
	if ns != "" {
		return "namespace " + ns + "\n" + b.String() + "end " + ns + "\n"
	}
	return b.String()
}

func (s *loopSet) translate(name string) string {
	fd := s.p.method(name) // "f" or "T.m"
	leanName := strings.ReplaceAll(name, ".", "_")
	t := &loopTr{name: name, set: s, p: s.p, info: s.tp.info, fd: fd, vars: map[types.Object]string{}, params: map[types.Object]bool{},
		safe: map[*ast.IndexExpr]bool{}, pairBuf: map[types.Object]bool{}, synthCond: map[*ast.IfStmt]string{},
		tagged: map[types.Object]int{}, restBuf: map[types.Object]bool{}, absDeps: map[string]string{}, capSens: map[types.Object]bool{}, spareCap: map[types.Object]bool{},
		hashNewSel: map[*ast.SelectorExpr]*types.Var{}}
	if fd.Type.TypeParams != nil || fd.Body == nil {
		t.fail(fd, "generic functions and bodyless functions are not supported")
	}
	t.setupRecursion(leanName)
	t.setupRecv()
	t.ifaceCheckBody() // stage 11 (loops_iface.go)
	ast.Inspect(fd.Body, func(n ast.Node) bool {
		if _, ok := n.(*ast.FuncLit); ok {
			t.fail(n, "closures are not supported")
		}
		return true
	})
	t.errAt, t.errOpt = t.mixesErrors()
	t.asBound = map[types.Object]types.Object{}
	t.errFrom = map[types.Object]*fnSig{}
	t.collectFacts()
	t.bigCheck() // stage 10 (loops_big.go): the ownership discipline for *big.Int
	// variables: unique, usable names
	byName := map[string][]types.Object{}
	usedNames := map[string]bool{}
	ast.Inspect(fd, func(n ast.Node) bool {
		if id, ok := n.(*ast.Ident); ok {
			usedNames[id.Name] = true
		}
		return true
	})
	nested := func(a, b types.Object) bool { // the scope of a encloses the scope of b
		for sc := b.Parent(); sc != nil; sc = sc.Parent() {
			if sc == a.Parent() {
				return true
			}
		}
		return false
	}
	addVar := func(id *ast.Ident) {
		o := t.info.Defs[id]
		if o == nil || id.Name == "_" {
			return
		}
		if _, isConst := o.(*types.Const); isConst {
			return // stage 12: a local constant is the value go/types computes for it
		}
		if _, isVar := o.(*types.Var); !isVar {
			t.fail(id, "unsupported declaration of %s", id.Name)
		}
		lname := id.Name
		for _, sg := range loopSigs {
			// a local called like a namespace of generated functions (`chars` vs chars.encoding_decode) would capture it
			if i := strings.Index(sg.lean, "."); i > 0 && sg.lean[:i] == id.Name {
				for k := 2; ; k++ {
					lname = fmt.Sprintf("%s_%d", id.Name, k)
					if !usedNames[lname] {
						break
					}
				}
				break
			}
		}
		if leanRenamed[id.Name] {
			// a Lean keyword that is an ordinary Go identifier: the variable gets another Lean name
			for k := 2; ; k++ {
				lname = fmt.Sprintf("%s_%d", id.Name, k)
				if !usedNames[lname] {
					break
				}
			}
		}
		for _, prev := range byName[id.Name] {
			if prev == o {
				return
			}
			if nested(prev, o) || nested(o, prev) {
				// two variables of the same name in nested scopes: the translation goes by object, so the second one only
				// needs a Lean name of its own
				for k := 2; ; k++ {
					lname = fmt.Sprintf("%s_%d", id.Name, k)
					if !usedNames[lname] {
						break
					}
				}
			}
		}
		usedNames[lname] = true
		if o == t.recv {
			return
		}
		if t.recursive && id.Name == "fuel" {
			t.fail(id, "variable name fuel clashes with the recursion parameter of the generated Lean text")
		}
		if leanReserved[id.Name] || strings.HasPrefix(id.Name, "st_") || strings.HasPrefix(id.Name, "sw_") || strings.HasPrefix(id.Name, "rk_") || strings.HasPrefix(id.Name, "var_") || s.all[id.Name] || id.Name == "nil" ||
			strings.HasSuffix(id.Name, "_rest") {
			t.fail(id, "variable name %s clashes with a name used by the generated Lean text", id.Name)
		}
		for _, f := range t.fields {
			if t.vars[f] == id.Name {
				t.fail(id, "variable name %s clashes with the name of a receiver field in the generated Lean text", id.Name)
			}
		}
		byName[id.Name] = append(byName[id.Name], o)
		t.vars[o] = lname
	}
	var params []string
	for _, f := range t.fields {
		if t.ctor {
			break // the fields of a constructed struct are not parameters
		}
		params = append(params, fmt.Sprintf("(%s : %s)", t.vars[f], t.kindOf(f.Type(), fd).lean()))
	}
	if id := t.recvParam; id != nil {
		// the value receiver of a named slice type: the first parameter
		addVar(id)
		o := t.info.Defs[id]
		t.params[o] = true
		params = append(params, fmt.Sprintf("(%s : %s)", t.vars[o], t.kindOf(o.Type(), id).lean()))
	}
	params = append(params, t.ifaceAnonRecv()...) // stage 11 (loops_iface.go): an unnamed value receiver
	for _, f := range fd.Type.Params.List {
		if len(f.Names) == 0 {
			t.fail(f, "unnamed parameter")
		}
		for _, id := range f.Names {
			if id.Name == "_" {
				t.fail(f, "blank parameter")
			}
			addVar(id)
			o := t.info.Defs[id]
			t.params[o] = true
			if t.isBuilder(o) {
				t.fail(id, "type %s is outside the translated subset (a strings.Builder parameter is not supported)", o.Type())
			}
			if isPlainArray(o.Type()) {
				t.arrayParam(id, o) // stage 9 (loops_arr.go): an array passed by value
			}
			if t.kindOf(o.Type(), id) == kHash {
				t.fail(id, "%s (a parameter of type hash.Hash is not supported)", hashShape)
			}
			t.noStrings(t.kindOf(o.Type(), id), id, "a parameter")
			params = append(params, fmt.Sprintf("(%s : %s)", t.vars[o], t.kindOf(o.Type(), id).lean()))
		}
	}
	var rt []string
	if fd.Type.Results != nil && !t.ctor {
		for _, f := range fd.Type.Results.List {
			k := t.kindOf(t.typeOf(f.Type).Type, f)
			if k == kHash || k == kMarsh || k == kMarshs {
				t.fail(f, "a result of type %s is not supported", t.typeOf(f.Type).Type)
			}
			t.noStrings(k, f, "a result")
			for _, id := range f.Names {
				// stage 9 (loops_arr.go): a named result is a local variable that starts with the zero value of its type
				addVar(id)
				t.namedResult(id, k)
				t.rets = append(t.rets, k)
				rt = append(rt, k.lean())
			}
			if len(f.Names) == 0 {
				t.rets = append(t.rets, k)
				rt = append(rt, k.lean())
			}
		}
	}
	ast.Inspect(fd.Body, func(n ast.Node) bool {
		if id, ok := n.(*ast.Ident); ok {
			addVar(id)
		}
		return true
	})
	for _, f := range t.fields {
		if t.ctor || t.facts.plain[f] > 0 || t.facts.indexed[f] {
			t.fieldOuts = append(t.fieldOuts, f)
			rt = append(rt, t.kindOf(f.Type(), fd).lean())
		}
	}
	t.findOutBufs()
	for _, o := range t.outBufs {
		rt = append(rt, t.kindOf(o.Type(), fd).lean())
	}
	if len(rt) == 0 {
		t.fail(fd, "function without result and without effect on a field or an output buffer")
	}
	t.retTy = strings.Join(rt, " × ")
	t.completeSelfSig()
	t.classify()
	t.flowFn = t.needsFlow(fd.Body, false) || !t.pureTailOK(fd.Body.List) || t.recursive
	bodyInd := "  "
	if t.recursive {
		bodyInd = "    " // inside `match fuel with | fuel + 1 =>`
	}
	body := t.block(fd.Body.List, bodyInd, blockMode{flow: t.flowFn, tail: true}, func(ind string) string {
		if len(t.rets) != 0 {
			t.fail(fd, "function falls off the end")
		}
		if t.flowFn {
			return ind + "Go.Flow.done " + atom(t.retValue(fd, nil))
		}
		return ind + t.retValue(fd, nil)
	})
	body = t.namedResultInit(bodyInd) + body
	for i := len(t.outBufs) - 1; i >= 0; i-- {
		o := t.outBufs[i]
		if t.pairBuf[o] {
			lt := t.kindOf(o.Type(), fd).lean()
			body = fmt.Sprintf("  let %s : %s := (([] : %s), %s)\n%s", t.vars[o], t.objType(o), lt, t.vars[o], body)
		}
		if tag, ok := t.tagged[o]; ok {
			body = fmt.Sprintf("  let %s : %s := (%d, %s)\n%s", t.vars[o], t.objType(o), tag, t.vars[o], body)
		}
	}
	doc := fmt.Sprintf("translated (loops) from `%s` in %s", name, rel(s.p.dir))
	if t.ctor {
		doc += "; a constructor: the result is the tuple of the fields of the struct it builds and returns"
	} else if len(t.fields) > 0 {
		var ns []string
		for _, f := range t.fields {
			ns = append(ns, "`"+t.vars[f]+"`")
		}
		doc += "; the receiver is represented by its fields " + strings.Join(ns, ", ")
		if len(t.fieldOuts) > 0 {
			ns = nil
			for _, f := range t.fieldOuts {
				ns = append(ns, "`"+t.vars[f]+"`")
			}
			doc += "; the fields it assigns (" + strings.Join(ns, ", ") + ") are returned after the declared results: their value on return"
		}
	}
	if t.recvParam != nil && t.sliceRecv() != nil {
		doc += "; the receiver `" + t.recvParam.Name + "` (a value of a named slice type) is the first parameter"
	}
	doc += t.ifaceDoc() // stage 11 (loops_iface.go)
	for _, o := range t.arrParams {
		n, _ := arrayLen(o.Type())
		doc += fmt.Sprintf("; ASSUMPTION (not checked here): the array parameter `%s` (a %s passed by value, read-only here) is a list of length %d", t.vars[o], o.Type(), n)
	}
	if len(t.namedRes) > 0 {
		var ns []string
		for _, o := range t.namedRes {
			ns = append(ns, "`"+t.vars[o]+"`")
		}
		doc += "; the named result" + map[bool]string{true: "s", false: ""}[len(ns) > 1] + " " + strings.Join(ns, ", ") + " start with the zero value of their type"
	}
	if len(t.outBufs) > 0 {
		var ns []string
		for _, o := range t.outBufs {
			ns = append(ns, "`"+t.vars[o]+"`")
		}
		doc += "; the function writes into the array of " + strings.Join(ns, ", ") + ": the last component" +
			map[bool]string{true: "s", false: ""}[len(ns) > 1] + " of the result is the content of that array (the whole slice / array that was passed) on return"
	}
	doc += t.bigDoc() // stage 10 (loops_big.go)
	if t.assumedNoWrap {
		doc += "; ASSUMPTION (not checked here): in its loops `for i := a; i < b; i += k` the addition does not wrap around before the condition fails"
	}
	if len(t.mayOverlap) > 0 {
		doc += "; ASSUMPTION (not checked here): the array of " + strings.Join(t.mayOverlap, ", ") + " does not overlap the arrays of the other parameters"
	}
	if t.recursive {
		body = t.resolveSelfDeps(body)
		params = append([]string{"(fuel : Nat)"}, params...)
		t.closeSelfCap()
	}
	if len(t.absDeps) > 0 {
		var ns, other, hashes, externs []string
		for n := range t.absDeps {
			ns = append(ns, n)
		}
		sort.Strings(ns)
		var ps []string
		for _, n := range ns {
			ps = append(ps, fmt.Sprintf("(%s : %s)", n, t.absDeps[n]))
			if f, isHash := hashDepNames[n]; isHash && t.absDeps[n] == hashSumType {
				hashes = append(hashes, fmt.Sprintf("%s: the hash function in the field `%s` of the receiver (a crypto.Hash) as the function from the bytes written to a hash object it makes to the digest Sum(nil) returns — see the assumptions in the header, stage 7; passed in by the caller", n, f))
			} else if note, isExt := externDepNotes[n]; isExt && t.absDeps[n] == note[0] {
				externs = append(externs, n+": "+note[1])
			} else {
				other = append(other, n)
			}
		}
		params = append(ps, params...)
		if len(other) > 0 {
			doc += "; PARAMETER " + strings.Join(other, ", ") + ": not translated — an abstract method (its fields in, its fields out, none = panic), a library function, or a field of a package-level struct; passed in by the caller"
		}
		for _, h := range hashes {
			doc += "; PARAMETER " + h
		}
		for _, e := range externs {
			doc += "; PARAMETER " + e
		}
	}
	t.register(leanName)
	if t.recursive {
		doc += "; RECURSIVE: defined by structural recursion on the additional parameter `fuel`, every call of the function itself passes fuel - 1; " +
			"none = run-time panic OR fuel exhausted (the translation says nothing about termination)"
		if len(t.capCaveat) > 0 {
			doc += "; NOTE: it passes windows x[:hi] of " + strings.Join(t.capCaveat, ", ") + " to itself and slices that parameter with an upper bound, which Go checks against the " +
				"capacity (not modelled: taken to be the length), so a none may also stand for an upper bound beyond the length of such a window; every `some r` is what Go computes"
		}
		s.flowFns[name] = true
		return fmt.Sprintf("/-- %s -/\ndef %s %s : Option (%s) :=\n  match fuel with\n  | 0 => none\n  | fuel + 1 =>\n    Go.Flow.result (\n%s)\n",
			doc, leanName, strings.Join(params, " "), t.retTy, body)
	}
	if t.flowFn {
		doc += "; none = run-time panic"
		s.flowFns[name] = true
		return fmt.Sprintf("/-- %s -/\ndef %s %s : Option (%s) :=\n  Go.Flow.result (\n%s)\n",
			doc, leanName, strings.Join(params, " "), t.retTy, body)
	}
	if len(t.outBufs) > 0 || len(t.fields) > 0 {
		s.flowFns[name] = true
	}
	return fmt.Sprintf("/-- %s -/\ndef %s %s : %s :=\n%s\n",
		doc, leanName, strings.Join(params, " "), t.retTy, body)
}

// ---------------------------------------------------------------- statements

type binding struct {
	name   string // "" : no variable is bound (bounds-check hint `_ = x[c]`)
	kind   lkind
	val    string
	ty     string   // Lean type when it is not kind.lean()
	checks []string // bounds checks to be made before the binding
}

func (b binding) leanType() string {
	if b.ty != "" {
		return b.ty
	}
	return b.kind.lean()
}

// blockMode: flow = the statement list is built as a Go.Flow (return and panics allowed anywhere);
// otherwise tail = the list is in tail position of a function built as a plain value, so `return` is allowed.
// brk renders what an unlabeled `break` at the end of the statement list does (leave the enclosing loop); nil where
// `break` is not supported, noBrk then says why.
type blockMode struct {
	flow, tail bool
	brk        func(ind string) string
	noBrk      string
}

// noBreak is m with `break` rejected for the given reason.
func (m blockMode) noBreak(why string) blockMode {
	m.brk, m.noBrk = nil, why
	return m
}

func (t *loopTr) freshName() string {
	t.fresh++
	return fmt.Sprintf("st_%d", t.fresh)
}

func proj(name string, i, n int) string {
	if n == 1 {
		return name
	}
	s := name + strings.Repeat(".2", i)
	if i < n-1 {
		s += ".1"
	}
	return s
}

// objType is the Lean type of the variable for o.
func (t *loopTr) objType(o types.Object) string {
	k := t.kindOf(o.Type(), t.fd).lean()
	if t.pairBuf[o] {
		return "(" + k + " × " + k + ")"
	}
	if t.isTagged(o) {
		return "(Nat × " + k + ")"
	}
	return k
}

func (t *loopTr) tuple(objs []types.Object) (expr, ty string) {
	var ns, ts []string
	for _, o := range objs {
		ns = append(ns, t.vars[o])
		ts = append(ts, t.objType(o))
	}
	switch len(objs) {
	case 0:
		return "()", "Unit"
	case 1:
		return ns[0], ts[0]
	}
	return "(" + strings.Join(ns, ", ") + ")", strings.Join(ts, " × ")
}

// unpack renders `let v1 := st.1 …` for a tuple-valued name (nothing for a single variable).
func (t *loopTr) unpack(ind, st string, objs []types.Object) string {
	if len(objs) <= 1 {
		return ""
	}
	var b strings.Builder
	for i, o := range objs {
		fmt.Fprintf(&b, "%slet %s : %s := %s\n", ind, t.vars[o], t.objType(o), proj(st, i, len(objs)))
	}
	return b.String()
}

// let renders `let name : T := val` followed by rest; `let x := e; x` is simplified to `e`.
func let(ind, name, ty, val, rest string) string {
	if strings.TrimSpace(rest) == name {
		return ind + val
	}
	return fmt.Sprintf("%slet %s : %s := %s\n%s", ind, name, ty, val, rest)
}

// block translates the statement list; k renders what follows it.
func (t *loopTr) block(list []ast.Stmt, ind string, m blockMode, k func(ind string) string) string {
	if len(list) == 0 {
		return k(ind)
	}
	rest := func(ind string) string { return t.block(list[1:], ind, m, k) }
	switch s := list[0].(type) {
	case *ast.EmptyStmt:
		return rest(ind)
	case *ast.BlockStmt:
		return t.block(append(append([]ast.Stmt{}, s.List...), list[1:]...), ind, m, k)
	case *ast.ReturnStmt:
		if out, ok := t.bigReturn(s, list, ind, m, k); ok {
			return out // stage 10 (loops_big.go): bare return, return f(g(…))
		}
		if c, sig := t.tupleRetCall(s); c != nil {
			return t.returnCall(s, c, sig, list, ind, m)
		}
		if hpre, hpost := t.hoistCalls(ind, m, nil, s); hpre != "" {
			out := t.block(list, ind, m, k)
			return hpre + out + hpost
		}
		if !m.flow && !m.tail {
			t.fail(s, "return inside a loop or a conditional that is not in tail position")
		}
		if len(list) > 1 {
			t.fail(list[1], "statement after return")
		}
		if t.ctor {
			// `return e`: the tuple of the fields
			if len(s.Results) != 1 || t.varOf(s.Results[0]) != t.recv {
				t.fail(s, "a constructor must return the struct it built")
			}
			val := t.retValue(s, nil)
			if m.flow {
				return ind + "Go.Flow.done " + atom(val)
			}
			return ind + val
		}
		if len(s.Results) == 0 && len(t.namedRes) != 0 {
			t.fail(s, "a bare return in a function with named results is not supported (write `return %s`)", t.namedResNames())
		}
		if len(s.Results) != len(t.rets) {
			t.fail(s, "return arity")
		}
		var vals []string
		retSlices := map[types.Object]bool{}
		for i, r := range s.Results {
			if v, ok := t.ifaceRetValue(r, i); ok { // stage 11 (loops_iface.go): a result of a closed interface type
				vals = append(vals, v)
				continue
			}
			if v, ok := t.big2RetStrings(r, t.rets[i]); ok {
				vals = append(vals, v) // stage 12 (loops_big2.go): nil as a []string result
				continue
			}
			if id, ok := unparen(r).(*ast.Ident); ok && t.rets[i].isSlice() {
				if o := t.info.Uses[id]; o != nil {
					if retSlices[o] {
						t.fail(r, "returning `%s` twice would make two results share a backing array", id.Name)
					}
					retSlices[o] = true
				}
			}
			if id, ok := unparen(r).(*ast.Ident); ok {
				if o := t.info.Uses[id]; o != nil && t.rets[i].isSlice() {
					if _, isNil := o.(*types.Nil); isNil {
						// below: a nil slice is []
					} else if _, local := t.vars[o]; !local || t.params[o] {
						t.fail(r, "returning `%s` would alias a parameter or package variable", id.Name)
					} else if t.facts.marshRes[o] {
						t.fail(r, "returning `%s`, which holds the bytes MarshalBinary() returned, would alias memory of the element", id.Name)
					}
				}
			}
			if id, ok := unparen(r).(*ast.Ident); ok && t.rets[i].isSlice() {
				if _, isNil := t.info.Uses[id].(*types.Nil); isNil {
					vals = append(vals, "([] : "+t.rets[i].lean()+")") // a nil slice and an empty slice are both []
					continue
				}
			}
			if se, ok := unparen(r).(*ast.SliceExpr); ok && t.rets[i].isSlice() {
				// `return x[:hi]` of a local slice this function made: its prefix (x is dead afterwards)
				id, isId := unparen(se.X).(*ast.Ident)
				if !isId || se.Low != nil || se.High == nil || se.Slice3 {
					t.fail(r, "returning a slice expression: only `x[:hi]` of a local slice created by make is supported")
				}
				o := t.info.Uses[id]
				f := t.facts
				if _, local := t.vars[o]; !local || t.params[o] || len(f.defs[o]) != 1 || f.plain[o] != 0 || !t.isMake(f.defs[o][0]) {
					t.fail(r, "returning a slice expression: only `x[:hi]` of a local slice created by make is supported")
				}
				v, vk := t.argValue(r)
				if vk != t.rets[i] {
					t.fail(r, "return type")
				}
				vals = append(vals, v)
				continue
			}
			v, vk := t.expr(r)
			if vk != t.rets[i] && !(t.rets[i] == kString && vk == kBytes && t.isBuilderString(r)) {
				t.fail(r, "return type")
			}
			vals = append(vals, v)
		}
		val := t.retValue(s, vals)
		if m.flow {
			return t.guards(s, ind, m) + ind + "Go.Flow.done " + atom(val)
		}
		t.guards(s, ind, m)
		return ind + val
	case *ast.AssignStmt, *ast.IncDecStmt, *ast.DeclStmt, *ast.ExprStmt:
		if as, ok := s.(*ast.AssignStmt); ok && t.ctor && as == t.ctorDef {
			out := rest(ind)
			bs := t.ctorInit()
			for i := len(bs) - 1; i >= 0; i-- {
				out = let(ind, bs[i].name, bs[i].leanType(), bs[i].val, out)
			}
			return out
		}
		if out, ok := t.bigModInverseStmt(s, list, ind, m, rest); ok {
			return out // stage 10 (loops_big.go)
		}
		if c, sig, lhs, tok := t.flowCallOf(s); c != nil {
			var argNodes []ast.Node
			for _, a := range c.Args {
				argNodes = append(argNodes, a)
			}
			hpre, hpost := t.hoistCalls(ind, m, c, argNodes...)
			return hpre + t.flowCall(s, c, sig, lhs, tok, ind, m, rest) + hpost
		}
		if hpre, hpost := t.hoistCalls(ind, m, nil, s); hpre != "" {
			return hpre + t.block(list, ind, m, k) + hpost
		}
		if es, ok := s.(*ast.ExprStmt); ok && t.isPanicCall(es.X) {
			if !m.flow {
				t.fail(s, "internal error: panic outside a flow block")
			}
			c := unparen(es.X).(*ast.CallExpr)
			for _, a := range c.Args {
				if tv, ok := t.info.Types[a]; ok && tv.Value == nil {
					if _, isId := unparen(a).(*ast.Ident); !isId {
						t.fail(s, "panic with an argument that is not a constant or a variable")
					}
				}
			}
			return t.guards(s, ind, m) + ind + "Go.Flow.panic"
		}
		bs := t.simple(s)
		if len(t.checks) != 0 {
			t.fail(s, "internal error: unattributed bounds checks")
		}
		out := rest(ind)
		for i := len(bs) - 1; i >= 0; i-- {
			if bs[i].name != "" {
				out = let(ind, bs[i].name, bs[i].leanType(), bs[i].val, out)
			}
			t.checks = bs[i].checks
			out = t.guards(s, ind, m) + out
		}
		return out
	case *ast.BranchStmt:
		if s.Tok != token.BREAK || s.Label != nil {
			break
		}
		if len(list) > 1 {
			t.fail(list[1], "statement after break")
		}
		if m.brk == nil {
			why := m.noBrk
			if why == "" {
				why = "it is supported as the last statement of the body of a loop or of `if c { …; break }` blocks in tail position of that body"
			}
			t.fail(s, "break: %s", why)
		}
		return m.brk(ind)
	case *ast.SwitchStmt:
		return t.switchStmt(s, list[1:], ind, m, k)
	case *ast.IfStmt:
		if s.Init != nil {
			// `if init; cond { … }`: init, then the conditional (names are unique: shadowing is rejected, and Go does not let the
			// variable be used after the statement, so widening its scope changes nothing)
			s2 := *s
			s2.Init = nil
			return t.block(append([]ast.Stmt{s.Init, &s2}, list[1:]...), ind, m, k)
		}
		if s.Init == nil {
			if hpre, hpost := t.hoistCalls(ind, m, nil, s.Cond); hpre != "" {
				return hpre + t.ifStmt(s, ind, m, rest) + hpost
			}
		}
		return t.ifStmt(s, ind, m, rest)
	case *ast.RangeStmt:
		return t.rangeStmt(s, ind, m, rest)
	case *ast.ForStmt:
		if s.Init == nil && s.Post == nil {
			return t.whileStmt(s, ind, m, rest)
		}
		return t.forStmt(s, ind, m, rest)
	}
	t.fail(list[0], "unsupported statement %s (%T)", t.p.src(list[0]), list[0])
	return ""
}

// atom parenthesises a text that is not obviously a single term.
func atom(s string) string {
	if strings.HasPrefix(s, "(") || !strings.ContainsAny(s, " \n") {
		return s
	}
	return "(" + s + ")"
}

var assignOps = map[token.Token]token.Token{
	token.ADD_ASSIGN: token.ADD, token.SUB_ASSIGN: token.SUB, token.MUL_ASSIGN: token.MUL,
	token.AND_ASSIGN: token.AND, token.OR_ASSIGN: token.OR, token.XOR_ASSIGN: token.XOR,
	token.AND_NOT_ASSIGN: token.AND_NOT, token.SHL_ASSIGN: token.SHL, token.SHR_ASSIGN: token.SHR,
}

func (t *loopTr) localVar(id *ast.Ident) (types.Object, string, lkind) {
	o := t.objOf(id)
	name, ok := t.vars[o]
	if !ok || id.Name == "_" {
		t.fail(id, "assignment to %s, which is not a local variable", id.Name)
	}
	if isArrayPtr(o.Type()) {
		t.fail(id, "assignment to the array pointer %s", id.Name)
	}
	return o, name, t.kindOf(o.Type(), id)
}

// simple translates an assignment-like statement into let-bindings, each with the bounds checks
// of the expressions it evaluates.
func (t *loopTr) simple(st ast.Stmt) []binding {
	bind := func(name string, k lkind, val string) []binding {
		return []binding{{name: name, kind: k, val: val, checks: t.takeChecks()}}
	}
	switch s := st.(type) {
	case *ast.ExprStmt:
		if c, ok := unparen(s.X).(*ast.CallExpr); ok {
			if o, m := t.builderCall(c); o != nil {
				return t.builderStmt(s, o, m)
			}
			if o, m := t.hashCall(c); o != nil {
				return t.hashStmt(s, c, o, m)
			}
			if o := t.bigMutCall(c); o != nil {
				return t.bigStmt(s, c, o) // stage 10 (loops_big.go)
			}
		}
		return t.copyStmt(s)
	case *ast.IncDecStmt:
		if _, isIdx := unparen(s.X).(*ast.IndexExpr); isIdx {
			t.fail(s, "unsupported operand of %s", s.Tok)
		}
		_, name, k := t.scalarTarget(s.X)
		if !k.isNum() {
			t.fail(s, "%s on %s", s.Tok, k.lean())
		}
		op := "+"
		if s.Tok == token.DEC {
			op = "-"
		}
		return bind(name, k, fmt.Sprintf("(%s %s 1#%d)", name, op, k.width()))
	case *ast.DeclStmt:
		gd, ok := s.Decl.(*ast.GenDecl)
		if ok && gd.Tok == token.CONST {
			return nil // stage 12: a local constant is the value go/types computes for it
		}
		if !ok || gd.Tok != token.VAR {
			t.fail(s, "unsupported declaration")
		}
		var bs []binding
		for _, sp := range gd.Specs {
			vs := sp.(*ast.ValueSpec)
			if len(vs.Values) != 0 && len(vs.Values) != len(vs.Names) {
				t.fail(s, "unsupported declaration")
			}
			for i, id := range vs.Names {
				if t.isAsTarget(t.objOf(id)) {
					continue // `var e *T`, only used as the target of errors.As: e is the error it is bound to there
				}
				_, name, k := t.localVar(id)
				var val string
				switch {
				case len(vs.Values) != 0:
					t.noAlias(vs.Values[i], "declaration")
					v, vk := t.expr(vs.Values[i])
					if vk != k {
						t.fail(s, "declaration type")
					}
					val = v
				case k.isNum():
					val = fmt.Sprintf("0#%d", k.width())
				case k == kBool:
					val = "false"
				case isErrKind(k):
					val = "none"
				case k == kHash || k == kMarsh || k == kMarshs:
					t.fail(s, "a variable of type %s without an initial value (nil) is not supported", t.objOf(id).Type())
				case k == kStrings:
					t.noStrings(k, s, "a variable without an initial value")
				case isPlainArray(t.objOf(id).Type()):
					n, _ := arrayLen(t.objOf(id).Type())
					val = fmt.Sprintf("(List.replicate %d 0#%d)", n, k.elem().width())
				default:
					val = "([] : " + k.lean() + ")"
					if z, ok := t.ifaceZero(k, t.objOf(id).Type()); ok { // stage 11 (loops_iface.go)
						val = z
					}
				}
				bs = append(bs, bind(name, k, val)...)
			}
		}
		return bs
	case *ast.AssignStmt:
		if len(s.Lhs) != 1 || len(s.Rhs) != 1 {
			return t.multiAssign(s)
		}
		if o, lo := t.resliceOf(s); o != nil {
			return t.reslice(s, o, lo)
		}
		if o, hi := t.prefixResliceOf(s); o != nil {
			return t.prefixReslice(s, o, hi)
		}
		switch l := unparen(s.Lhs[0]).(type) {
		case *ast.SelectorExpr:
			_, name, k := t.scalarTarget(l)
			if s.Tok == token.ASSIGN {
				v, vk := t.expr(s.Rhs[0])
				if vk != k {
					t.fail(s, "assignment of %s to %s", vk.lean(), k.lean())
				}
				return bind(name, k, v)
			}
			op, ok := assignOps[s.Tok]
			if !ok {
				t.fail(s, "unsupported assignment operator %s", s.Tok)
			}
			if op == token.SHL || op == token.SHR {
				return bind(name, k, t.shift(s, op, name, k, s.Rhs[0]))
			}
			b, bk := t.expr(s.Rhs[0])
			v, _ := t.binop(s, op, name, k, b, bk)
			return bind(name, k, v)
		case *ast.Ident:
			if l.Name == "_" && s.Tok == token.ASSIGN {
				// `_ = x[c]`: only the bounds check remains
				t.noAlias(s.Rhs[0], "assignment")
				t.expr(s.Rhs[0])
				return bind("", 0, "")
			}
			o, name, k := t.localVar(l)
			if v, ok := t.pow2Window(s, o, k); ok {
				return bind(name, k, v) // stage 14 (loops_pow2.go): chunk := x[a:b], a read-only window of a read-only parameter
			}
			if s.Tok == token.DEFINE || s.Tok == token.ASSIGN {
				t.noAlias(s.Rhs[0], "assignment")
				t.selfAppend = nil
				if c, ok := unparen(s.Rhs[0]).(*ast.CallExpr); ok && s.Tok == token.ASSIGN && len(c.Args) > 0 {
					f, isId := unparen(c.Fun).(*ast.Ident)
					a, isArg := unparen(c.Args[0]).(*ast.Ident)
					if isId && isArg && t.info.Uses[a] == o {
						if b, ok := t.info.Uses[f].(*types.Builtin); ok && b.Name() == "append" {
							t.selfAppend = c
						}
					}
				}
				v, vk := t.expr(s.Rhs[0])
				t.selfAppend = nil
				if isErrKind(k) {
					if c, isCall := unparen(s.Rhs[0]).(*ast.CallExpr); isCall {
						if csig, _ := t.sigOf(c); csig != nil {
							t.errFrom[o] = csig
						}
					}
					switch {
					case k == kErrOpt && vk == kErr:
						v, vk = "(Go.errOfPlain "+v+")", k
					case k == kErrOpt && vk == kErrAt:
						v, vk = "(Go.errOfAt "+v+")", k
					}
				}
				if vk != k {
					t.fail(s, "assignment of %s to %s", vk.lean(), k.lean())
				}
				if k.isSlice() && t.params[o] {
					t.fail(s, "assignment to the slice parameter %s (only %s = %s[k:] is supported)", name, name, name)
				}
				return bind(name, k, v)
			}
			op, ok := assignOps[s.Tok]
			if !ok {
				t.fail(s, "unsupported assignment operator %s", s.Tok)
			}
			if op == token.SHL || op == token.SHR {
				return bind(name, k, t.shift(s, op, name, k, s.Rhs[0]))
			}
			b, bk := t.expr(s.Rhs[0])
			v, _ := t.binop(s, op, name, k, b, bk)
			return bind(name, k, v)
		case *ast.IndexExpr:
			if bs, ok := t.big2AssignStrings(s, l); ok {
				return bs // stage 12 (loops_big2.go): words[i] = s on a local []string made by make
			}
			if s.Tok != token.ASSIGN {
				return t.opAssignIndex(s, l)
			}
			return []binding{t.assignIndex(s, l, func(string, lkind) (string, lkind) { return t.expr(s.Rhs[0]) })}
		}
	}
	t.fail(st, "unsupported statement %s", t.p.src(st))
	return nil
}

func (t *loopTr) isMake(e ast.Expr) bool {
	c, ok := unparen(e).(*ast.CallExpr)
	if !ok || e == nil {
		return false
	}
	id, ok := unparen(c.Fun).(*ast.Ident)
	if !ok {
		return false
	}
	b, ok := t.info.Uses[id].(*types.Builtin)
	return ok && b.Name() == "make"
}

func endsWithReturn(b *ast.BlockStmt) bool {
	n := len(b.List)
	if n == 0 {
		return false
	}
	_, ok := b.List[n-1].(*ast.ReturnStmt)
	return ok
}

// endsWithJump: the block ends with a return or an unlabeled break (its end is not reached).
func endsWithJump(b *ast.BlockStmt) bool {
	if endsWithReturn(b) {
		return true
	}
	if n := len(b.List); n > 0 {
		if br, ok := b.List[n-1].(*ast.BranchStmt); ok {
			return br.Tok == token.BREAK && br.Label == nil
		}
		if es, ok := b.List[n-1].(*ast.ExprStmt); ok {
			if c, ok := unparen(es.X).(*ast.CallExpr); ok {
				if id, ok := unparen(c.Fun).(*ast.Ident); ok && id.Name == "panic" {
					return true
				}
			}
		}
	}
	return false
}

func (t *loopTr) ifStmt(s *ast.IfStmt, ind string, m blockMode, rest func(string) string) string {
	if s.Init != nil {
		t.fail(s, "if with an init statement is not supported")
	}
	c, fromSwitch := t.synthCond[s]
	if c == "" {
		if ac, isAs := t.asCondition(s.Cond); isAs {
			c = ac
		}
	}
	if c == "" {
		var ck lkind
		c, ck = t.expr(s.Cond)
		if ck != kBool {
			t.fail(s.Cond, "condition is not a bool")
		}
	}
	// bm: the mode of the branches.  A `break` in a switch clause would leave the switch; in a conditional whose
	// end is reached (below) it is not in tail position of the loop body.
	bm := m
	if fromSwitch {
		bm = m.noBreak("inside a switch clause it leaves the switch, not the loop; there it is only supported as the last statement of the clause (where it does nothing)")
	}
	pre := t.guards(s, ind, m)
	unreachable := func(string) string {
		t.fail(s, "internal error: continuation of a block that ends with return")
		return ""
	}
	if !m.flow && hasReturn(s) {
		if !m.tail || s.Else != nil || len(s.Body.List) == 0 {
			t.fail(s, "a conditional containing return must be `if c { …; return e }` in tail position of the function")
		}
		if !endsWithReturn(s.Body) {
			t.fail(s, "a conditional containing return must end with it")
		}
		th := t.block(s.Body.List, ind+"  ", bm, unreachable)
		return fmt.Sprintf("%sif %s then\n%s\n%selse\n%s", ind, c, th, ind, rest(ind+"  "))
	}
	if m.flow && (t.needsFlow(s.Body, true) || (s.Else != nil && t.needsFlow(s.Else, true))) {
		if s.Else == nil && endsWithJump(s.Body) {
			// `if c { …; return e }` / `if c { …; break }`: what follows is the else branch
			th := t.block(s.Body.List, ind+"  ", bm, unreachable)
			return fmt.Sprintf("%s%sif %s then\n%s\n%selse\n%s", pre, ind, c, th, ind, rest(ind))
		}
		if !fromSwitch {
			bm = m.noBreak("inside a conditional whose end can be reached it is not supported (only `if c { …; break }` blocks in tail position of the loop body)")
		}
		objs := t.stateOf(s, s)
		tup, ty := t.tuple(objs)
		ret := func(ind string) string { return ind + "Go.Flow.run " + tup }
		th := t.block(s.Body.List, ind+"    ", bm, ret)
		el := ret(ind + "    ")
		switch e := s.Else.(type) {
		case *ast.BlockStmt:
			el = t.block(e.List, ind+"    ", bm, ret)
		case *ast.IfStmt:
			el = t.block([]ast.Stmt{e}, ind+"    ", bm, ret)
		}
		st := t.stateName(objs)
		return fmt.Sprintf("%s%sGo.Flow.bind (if %s then\n%s\n%s  else\n%s) (fun (%s : %s) =>\n%s%s)",
			pre, ind, c, th, ind, el, st, ty, t.unpack(ind, st, objs), rest(ind))
	}
	objs := t.stateOf(s, s)
	if len(objs) == 0 {
		t.fail(s, "conditional without effect")
	}
	tup, ty := t.tuple(objs)
	pm := blockMode{}
	ret := func(ind string) string { return ind + tup }
	th := t.block(s.Body.List, ind+"    ", pm, ret)
	el := ind + "    " + tup
	switch e := s.Else.(type) {
	case *ast.BlockStmt:
		el = t.block(e.List, ind+"    ", pm, ret)
	case *ast.IfStmt:
		el = t.block([]ast.Stmt{e}, ind+"    ", pm, ret)
	}
	var val string
	if !strings.Contains(th, "\n") && !strings.Contains(el, "\n") {
		val = fmt.Sprintf("(if %s then %s else %s)", c, strings.TrimSpace(th), strings.TrimSpace(el))
	} else {
		val = fmt.Sprintf("if %s then\n%s\n%s  else\n%s", c, th, ind, el)
	}
	if len(objs) == 1 {
		return pre + let(ind, tup, ty, val, rest(ind))
	}
	st := t.freshName()
	return fmt.Sprintf("%s%slet %s : %s := %s\n%s%s", pre, ind, st, ty, val, t.unpack(ind, st, objs), rest(ind))
}

// stateName is the name bound to the state tuple of objs.
func (t *loopTr) stateName(objs []types.Object) string {
	switch len(objs) {
	case 0:
		return "_"
	case 1:
		return t.vars[objs[0]]
	}
	return t.freshName()
}

func (t *loopTr) rangeCtx(s *ast.RangeStmt) *loopCtx {
	plain, indexed := t.assignedIn(s.Body)
	ctx := &loopCtx{plain: plain, indexed: indexed}
	if id, ok := s.Key.(*ast.Ident); ok && id.Name != "_" && s.Tok == token.DEFINE {
		ctx.key = t.info.Defs[id]
	}
	if id, ok := unparen(s.X).(*ast.Ident); ok {
		ctx.rng = t.info.Uses[id]
	}
	return ctx
}

func (t *loopTr) rangeStmt(s *ast.RangeStmt, ind string, m blockMode, rest func(string) string) string {
	ident := func(e ast.Expr) *ast.Ident {
		if e == nil {
			return nil
		}
		id, ok := e.(*ast.Ident)
		if !ok || s.Tok != token.DEFINE {
			t.fail(s, "range variables must be declared by the loop (:=)")
		}
		if id.Name == "_" {
			return nil
		}
		return id
	}
	key, val := ident(s.Key), ident(s.Value)
	if xtv, ok := t.info.Types[s.X]; ok && val != nil {
		if b, isBasic := xtv.Type.Underlying().(*types.Basic); isBasic && b.Kind() == types.String {
			return t.rangeRunes(s, key, val, ind, m, rest)
		}
	}
	if key != nil && val != nil {
		if xtv, ok := t.info.Types[s.X]; ok && xtv.Value == nil {
			if sl, isSlice := xtv.Type.Underlying().(*types.Slice); isSlice {
				if b, isBasic := sl.Elem().(*types.Basic); isBasic && b.Kind() == types.String {
					return t.rangeIndexed(s, key, val, ind, m, rest) // loops_strs.go
				}
			}
		}
		t.fail(s, "range with both key and value is not supported")
	}
	ctx := t.rangeCtx(s)
	if val != nil {
		ast.Inspect(s.X, func(n ast.Node) bool {
			if id, ok := n.(*ast.Ident); ok {
				if o := t.info.Uses[id]; o != nil && (ctx.plain[o] || ctx.indexed[o]) {
					t.fail(s, "the loop body assigns `%s`, over which it ranges by value", id.Name)
				}
			}
			return true
		})
	}
	xs, xk := t.expr(s.X)
	var list, binder string
	switch {
	case xk.isSlice() && val != nil:
		list, binder = xs, fmt.Sprintf("(%s : %s)", t.vars[t.info.Defs[val]], xk.elem().lean())
	case xk.isSlice():
		list = "((List.range " + xs + ".length).map (BitVec.ofNat 64))"
	case xk == kStrings && val != nil:
		list, binder = xs, fmt.Sprintf("(%s : %s)", t.vars[t.info.Defs[val]], kString.lean())
	case xk == kStrings:
		list = "((List.range " + xs + ".length).map (BitVec.ofNat 64))"
	case xk == kInt && val == nil:
		list = "((List.range " + xs + ".toInt.toNat).map (BitVec.ofNat 64))"
	case xk == kString && val == nil:
		// the byte offsets of the rune starts (Go decodes UTF-8 while ranging over a string)
		list = "(Go.runeStarts " + xs + ")"
	default:
		t.fail(s, "range over %s is not supported", t.typeOf(s.X).Type)
	}
	if binder == "" {
		n := "_"
		if key != nil {
			n = t.vars[t.info.Defs[key]]
		}
		binder = fmt.Sprintf("(%s : BitVec 64)", n)
	}
	return t.loopOver(s, s.Body, list, binder, ind, m, rest)
}

// loopOver renders a loop whose body is run for the elements of `list` (bound by `binder`) in order.
func (t *loopTr) loopOver(s ast.Node, body *ast.BlockStmt, list, binder, ind string, m blockMode, rest func(string) string) string {
	return t.loopOverScope(s, s, body, list, binder, ind, m, rest)
}

// loopOverScope: the variables declared inside scope are not loop state (for a three-clause loop with additional init
// variables scope is the body: these variables are declared in the loop statement but live across iterations).
func (t *loopTr) loopOverScope(s, scope ast.Node, body *ast.BlockStmt, list, binder, ind string, m blockMode, rest func(string) string) string {
	pre := t.guards(s, ind, m)
	objs := t.stateOf(body, scope)
	tup, ty := t.tuple(objs)
	in := ind + "    "
	elemPre := strings.ReplaceAll(t.loopPre, "\x00", in) // bindings of the loop variables out of the element (rangeRunes)
	t.loopPre = ""
	if m.flow && t.needsFlow(body, true) {
		st := t.stateName(objs)
		fn, bm, end := "Go.forIn", m.noBreak(""), "Go.Flow.run "+tup
		if breaksOut(body) {
			// the body yields (true, state) after `break`, (false, state) at its normal end
			fn, end = "Go.forInB", "Go.Flow.run (false, "+tup+")"
			bm.brk = func(ind string) string { return ind + "Go.Flow.run (true, " + tup + ")" }
		}
		b := t.unpack(in, st, objs) + elemPre + t.block(body.List, in, bm, func(ind string) string { return ind + end })
		return fmt.Sprintf("%s%sGo.Flow.bind (%s %s %s (fun (%s : %s) %s =>\n%s)) (fun (%s : %s) =>\n%s%s)",
			pre, ind, fn, list, tup, st, ty, binder, b, st, ty, t.unpack(ind, st, objs), rest(ind))
	}
	if len(objs) == 0 {
		t.fail(s, "loop without effect: its body assigns no variable declared outside it")
	}
	st := tup
	if len(objs) > 1 {
		st = t.freshName()
	}
	b := t.unpack(in, st, objs) + elemPre + t.block(body.List, in, blockMode{}, func(ind string) string { return ind + tup })
	fold := fmt.Sprintf("List.foldl (fun (%s : %s) %s =>\n%s) %s %s", st, ty, binder, b, tup, list)
	if len(objs) == 1 {
		return pre + let(ind, tup, ty, fold, rest(ind))
	}
	return fmt.Sprintf("%s%slet %s : %s := %s\n%s%s", pre, ind, st, ty, fold, t.unpack(ind, st, objs), rest(ind))
}

// rangeRunes translates `for i, c := range s` / `for _, c := range s` over a string: the elements are the pairs
// (byte offset of the rune start, rune) that Go's UTF-8 decoder yields (Go.runes).
func (t *loopTr) rangeRunes(s *ast.RangeStmt, key, val *ast.Ident, ind string, m blockMode, rest func(string) string) string {
	plain, indexed := t.assignedIn(s.Body)
	ast.Inspect(s.X, func(n ast.Node) bool {
		if id, ok := n.(*ast.Ident); ok {
			if o := t.info.Uses[id]; o != nil && (plain[o] || indexed[o]) {
				t.fail(s, "the loop body assigns `%s`, over which it ranges", id.Name)
			}
		}
		return true
	})
	for _, id := range []*ast.Ident{key, val} {
		if id != nil && plain[t.info.Defs[id]] {
			t.fail(s, "the loop body assigns the range variable %s", id.Name)
		}
	}
	xs, xk := t.expr(s.X)
	if xk != kString {
		t.fail(s, "range over %s", xk.lean())
	}
	t.fresh++
	el := fmt.Sprintf("rk_%d", t.fresh)
	pre := ""
	if key != nil {
		pre += fmt.Sprintf("\x00let %s : BitVec 64 := %s.1\n", t.vars[t.info.Defs[key]], el)
	}
	pre += fmt.Sprintf("\x00let %s : BitVec 32 := %s.2\n", t.vars[t.info.Defs[val]], el)
	t.loopPre = pre
	return t.loopOver(s, s.Body, "(Go.runes "+xs+")", fmt.Sprintf("(%s : BitVec 64 × BitVec 32)", el), ind, m, rest)
}
