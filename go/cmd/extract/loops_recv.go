package main

// Stage 4 of the loop translator (see loops.go): methods whose receiver `c *T` is only used as `c.f` (the fields
// become parameters c_f, the written ones additional results), array fields and local arrays, functions without
// results, writes through array-pointer parameters and swaps of such parameters, tuple assignments, `a[i] op= e`,
// `x = x[:k]` and `copy`.

import (
	"fmt"
	"go/ast"
	"go/constant"
	"go/token"
	"go/types"
	"strings"
)

// recvHeaderText is appended to the header of generated files whose translated code uses stage 4.
const recvHeaderText = `/-
Additional semantics, stage 4:
* A method "func (c *T) m(…)" whose receiver is only used as c.f (f a field of the struct T that is an integer or an
  array of integers) is translated as a function whose first parameters are the fields c_f it uses (struct order); the
  fields it assigns (c.f = e, c.f[i] = e) are additional components of the result, after the declared results and
  before the output buffers: their content on return.  Arrays ([N]T fields, "var a [N]T" locals) are lists; indices
  are checked against N; the tie theorems assume the lists passed for array fields have length N.
* A function without declared result returns the tuple of these additional components.
* "a, b = e1, e2" / "a, b := e1, e2": first every right-hand side is evaluated (into st_k, left to right), then the
  assignments are made left to right, as the Go specification says; "a, b = f(…)" binds the tuple f returns.
* "a[i] op= e" is "a[i] = a[i] op e" with the index evaluated once.
* "x = x[:k]" on a slice parameter (only as a statement of the function body itself) is List.take with the check
  k ≤ len(x).  Go checks k ≤ cap(x): capacity is NOT modelled (it is taken to be the length), so for
  len(x) < k ≤ cap(x) the translated function reports a panic where Go extends the slice into its capacity.
  When x is an output buffer the part behind the window is kept (x_rest) and appended again in the result.
* "copy(dst, src)" is Go.copy dst src (arrays that do not overlap: assumption "!disjoint" where the types allow overlap).
* A parameter p *[N]T that is written by index is an output buffer (only under the assumption "!disjoint": the arrays of
  all parameters are pairwise distinct).  Array-pointer parameters that the function swaps ("p, q = q, p"; any
  other assignment to them is rejected) are pairs (tag, content), see Go.byTag in Iota/Model/GoBits.lean: the result
  component for the k-th of them is the content on return of the array it pointed to on entry.
-/
`

// fieldOf returns the field object when e is `c.f` with c the receiver.
func (t *loopTr) fieldOf(e ast.Expr) types.Object {
	sel, ok := unparen(e).(*ast.SelectorExpr)
	if !ok || t.recv == nil {
		return nil
	}
	id, ok := unparen(sel.X).(*ast.Ident)
	if !ok || t.info.Uses[id] != t.recv {
		return nil
	}
	v, ok := t.info.Uses[sel.Sel].(*types.Var)
	if !ok || !v.IsField() {
		return nil
	}
	return v
}

// varOf returns the variable, or field of the receiver, that e names (nil otherwise).
func (t *loopTr) varOf(e ast.Expr) types.Object {
	if id, ok := unparen(e).(*ast.Ident); ok {
		return t.objOf(id)
	}
	return t.fieldOf(e)
}

// copyTarget returns the object of dst when s is the statement `copy(dst, src)`.
func (t *loopTr) copyTarget(s *ast.ExprStmt) types.Object {
	c, ok := unparen(s.X).(*ast.CallExpr)
	if !ok || len(c.Args) != 2 {
		return nil
	}
	id, ok := unparen(c.Fun).(*ast.Ident)
	if !ok {
		return nil
	}
	if b, ok := t.info.Uses[id].(*types.Builtin); !ok || b.Name() != "copy" {
		return nil
	}
	dst := unparen(c.Args[0])
	if se, ok := dst.(*ast.SliceExpr); ok && se.High == nil && !se.Slice3 {
		dst = se.X // a[:] of an array, or a window x[lo:]
	}
	if o := t.ifaceFieldOwner(dst); o != nil { // stage 11 (loops_iface.go): x.f[:] of a struct value
		return o
	}
	return t.varOf(dst)
}

// setupRecv checks the receiver of a method and registers the fields the body uses.
func (t *loopTr) setupRecv() {
	fd := t.fd
	if fd.Recv == nil {
		t.setupCtor()
		return
	}
	const shape = "the receiver of a translated method must be `c *T`, T a struct type of the package, and be used only as c.f"
	if t.ifaceSetupRecv() { // stage 11 (loops_iface.go): a value receiver of a named integer or struct type
		return
	}
	if len(fd.Recv.List) != 1 || len(fd.Recv.List[0].Names) != 1 || fd.Recv.List[0].Names[0].Name == "_" {
		t.fail(fd, "%s", shape)
	}
	rid := fd.Recv.List[0].Names[0]
	ro := t.info.Defs[rid]
	if id := t.sliceRecv(); id != nil {
		// `func (p Path) m(…)`, Path a named slice type: the receiver is an ordinary (first) parameter (loops_strs.go)
		if t.recursive {
			t.fail(fd, "a recursive method with a value receiver of a slice type is not supported")
		}
		t.recvParam = id
		return
	}
	if t.keyRecv() {
		return // stage 13 (loops_key.go): a key / curve of pkg/slip10/elliptic
	}
	if t.bigRecv() {
		return // stage 10 (loops_big.go): a value receiver that embeds *elliptic.CurveParams
	}
	ptr, ok := ro.Type().(*types.Pointer)
	if !ok {
		t.fail(fd, "%s", shape)
	}
	named, ok := ptr.Elem().(*types.Named)
	if !ok || named.Obj().Pkg() != t.set.tp.tpkg {
		t.fail(fd, "%s", shape)
	}
	st, ok := named.Underlying().(*types.Struct)
	if !ok {
		t.fail(fd, "%s", shape)
	}
	t.recv = ro
	used := map[types.Object]bool{}
	okUse := map[*ast.Ident]bool{}
	usedName := map[string]bool{}
	ast.Inspect(fd.Body, func(n ast.Node) bool {
		switch x := n.(type) {
		case *ast.SelectorExpr:
			if t.hashNewSel[x] != nil {
				okUse[unparen(x.X).(*ast.Ident)] = true // c.f.New(): the field is not a parameter (loops_rec.go)
			} else if f := t.fieldOf(x); f != nil {
				used[f] = true
				okUse[unparen(x.X).(*ast.Ident)] = true
			}
		case *ast.CallExpr:
			if f := t.hashNewCall(x); f != nil {
				t.hashNewSel[unparen(unparen(x.Fun).(*ast.SelectorExpr).X).(*ast.SelectorExpr)] = f
			}
			// c.m(…) with m a method translated earlier (or declared abstract): its fields are fields of this method too
			if sig, _ := t.sigOf(x); sig != nil && sig.method {
				okUse[unparen(unparen(x.Fun).(*ast.SelectorExpr).X).(*ast.Ident)] = true
				for _, f := range sig.fieldsIn {
					usedName[f] = true
				}
			}
		}
		return true
	})
	for i := 0; i < st.NumFields(); i++ {
		if usedName[st.Field(i).Name()] {
			used[st.Field(i)] = true
		}
	}
	ast.Inspect(fd.Body, func(n ast.Node) bool {
		if id, ok := n.(*ast.Ident); ok && t.info.Uses[id] == ro && !okUse[id] {
			t.fail(id, "%s (here it is used in another way: method call, copy, address)", shape)
		}
		return true
	})
	for i := 0; i < st.NumFields(); i++ {
		f := st.Field(i)
		if !used[f] {
			continue
		}
		name := rid.Name + "_" + f.Name()
		if leanReserved[name] || t.set.all[name] {
			t.fail(fd, "field name %s clashes with a name used by the generated Lean text", name)
		}
		t.kindOf(f.Type(), fd) // fails for a type outside the subset
		t.rejectSliceField(f)
		t.vars[f] = name
		t.fields = append(t.fields, f)
	}
}

// rejectSliceField: fields must be integers or arrays of integers (arrays are values); a slice-typed field could share
// its backing array with another field, a parameter or a local, which the ownership discipline does not track.
func (t *loopTr) rejectSliceField(f *types.Var) {
	if isNamedType(f.Type(), "crypto", "Hash") {
		t.fail(t.fd, "field %s of the receiver has type crypto.Hash: it may only be used as c.%s.New()", f.Name(), f.Name())
	}
	switch f.Type().Underlying().(type) {
	case *types.Slice, *types.Pointer, *types.Interface:
		t.fail(t.fd, "field %s of the receiver has type %s: only integers and arrays of integers are supported (a slice field could alias)", f.Name(), f.Type())
	}
	if b, ok := f.Type().Underlying().(*types.Basic); ok && b.Kind() == types.String {
		return
	}
}

// isField: o is a field of the receiver.
func (t *loopTr) isField(o types.Object) bool {
	for _, f := range t.fields {
		if f == o {
			return true
		}
	}
	return false
}

// isTagged: o is an array-pointer parameter translated as (tag, content).
func (t *loopTr) isTagged(o types.Object) bool {
	_, ok := t.tagged[o]
	return ok
}

// outVals renders the additional result components: written fields, then output buffers.
func (t *loopTr) outVals() []string {
	var vals []string
	for _, o := range t.fieldOuts {
		vals = append(vals, t.vars[o])
	}
	var tags []string
	for _, o := range t.outBufs {
		if t.isTagged(o) {
			tags = append(tags, t.vars[o])
		}
	}
	for _, o := range t.outBufs {
		n := t.vars[o]
		switch {
		case t.isTagged(o):
			vals = append(vals, fmt.Sprintf("(Go.byTag [%s] %d)", strings.Join(tags, ", "), t.tagged[o]))
		case t.pairBuf[o]:
			vals = append(vals, "("+n+".1 ++ "+n+".2)")
		case t.restBuf[o]:
			vals = append(vals, "("+n+" ++ "+n+"_rest)")
		default:
			vals = append(vals, n)
		}
	}
	return vals
}

// retValue renders the value a `return` with the given declared results yields.
func (t *loopTr) retValue(at ast.Node, vals []string) string {
	vals = append(vals, t.outVals()...)
	switch len(vals) {
	case 0:
		t.fail(at, "function without result and without effect on a field or an output buffer")
	case 1:
		return vals[0]
	}
	return "(" + strings.Join(vals, ", ") + ")"
}

// ---------------------------------------------------------------- assignments

// scalarTarget returns the variable / receiver field that the left-hand side e names, for a plain assignment.
func (t *loopTr) scalarTarget(e ast.Expr) (types.Object, string, lkind) {
	if id, ok := unparen(e).(*ast.Ident); ok {
		return t.localVar(id)
	}
	if o := t.fieldOf(e); o != nil {
		if _, isArr := arrayLen(o.Type()); isArr {
			t.fail(e, "assignment to the array field %s as a whole is not supported", o.Name())
		}
		return o, t.vars[o], t.kindOf(o.Type(), e)
	}
	t.fail(e, "unsupported left-hand side %s", t.p.src(e))
	return nil, "", 0
}

// assignIndex renders `l = v` for an index expression l (the bounds check of l is registered by t.index).
func (t *loopTr) assignIndex(s ast.Node, l *ast.IndexExpr, value func(cur string, ek lkind) (string, lkind)) binding {
	a, i, ak, o := t.index(l)
	if ak == kMarshs {
		t.fail(s, "index assignment to a slice of encoding.BinaryMarshaler: such slices are read-only in the translated subset")
	}
	if ak == kStrings {
		t.fail(s, "index assignment to a []string: such slices are read-only in the translated subset")
	}
	f := t.facts
	name, local := t.vars[o]
	switch {
	case t.isOutBuf(o), t.isField(o):
	case local && !t.params[o] && isPlainArray(o.Type()):
	case !local || t.params[o] || len(f.defs[o]) != 1 || f.plain[o] != 0 || !t.isMake(f.defs[o][0]):
		t.fail(s, "index assignment to `%s`, which is not a local slice created once by make in this function (aliasing-sensitive)", name)
	}
	ek := ak.elem()
	cur := ""
	if ek.isSlice() {
		// x[j] = e on a slice of slices: only a fresh make (the row then shares nothing)
		if as, ok := s.(*ast.AssignStmt); !ok || as.Tok != token.ASSIGN || len(as.Rhs) != 1 || !t.isMake(as.Rhs[0]) {
			t.fail(s, "a row of a slice of slices may only be assigned `x[j] = make(…)` (aliasing-sensitive)")
		}
	} else {
		cur = fmt.Sprintf("(%s.getD %s 0#%d)", a, i, ek.width())
	}
	v, vk := value(cur, ek)
	if vk != ek {
		t.fail(s, "element type")
	}
	b := binding{name: name, kind: ak, checks: t.takeChecks()}
	if t.pairBuf[o] || t.isTagged(o) {
		b.val = fmt.Sprintf("(%s.1, %s.set %s %s)", name, a, i, v)
		b.ty = t.objType(o)
	} else {
		b.val = fmt.Sprintf("(%s.set %s %s)", a, i, v)
	}
	return b
}

func isPlainArray(ty types.Type) bool {
	_, ok := ty.Underlying().(*types.Array)
	return ok
}

// multiAssign translates `l1, …, ln = r1, …, rn`, `l1, …, ln := …` and `l1, …, ln = f(…)`.
func (t *loopTr) multiAssign(s *ast.AssignStmt) []binding {
	if s.Tok != token.ASSIGN && s.Tok != token.DEFINE {
		t.fail(s, "unsupported assignment operator %s", s.Tok)
	}
	n := len(s.Lhs)
	// swap of array pointers
	allPtr := true
	for _, l := range s.Lhs {
		id, ok := unparen(l).(*ast.Ident)
		if !ok || id.Name == "_" || t.objOf(id) == nil || !isArrayPtr(t.objOf(id).Type()) {
			allPtr = false
		}
	}
	if allPtr {
		return t.swapPtrs(s)
	}
	var bs []binding
	type val struct {
		text string
		kind lkind
	}
	var vals []val
	if len(s.Rhs) == 1 {
		c, ok := unparen(s.Rhs[0]).(*ast.CallExpr)
		if !ok {
			t.fail(s, "unsupported multiple assignment")
		}
		text, kinds := t.tupleCall(c)
		if len(kinds) != n {
			t.fail(s, "assignment arity")
		}
		var tys []string
		for _, k := range kinds {
			tys = append(tys, k.lean())
		}
		st := t.freshName()
		bs = append(bs, binding{name: st, ty: strings.Join(tys, " × "), val: text, checks: t.takeChecks()})
		for i, k := range kinds {
			vals = append(vals, val{proj(st, i, n), k})
		}
	} else {
		if len(s.Rhs) != n {
			t.fail(s, "assignment arity")
		}
		for _, r := range s.Rhs {
			t.noAlias(r, "assignment")
			v, k := t.expr(r)
			if k.isSlice() || k == kString || k == kStrings {
				t.fail(r, "multiple assignment of slices is not supported (aliasing-sensitive)")
			}
			st := t.freshName()
			bs = append(bs, binding{name: st, kind: k, val: v, checks: t.takeChecks()})
			vals = append(vals, val{st, k})
		}
	}
	// Go evaluates the index operands of the left-hand sides BEFORE any assignment is made; here they are evaluated when
	// the assignment is made, which is the same unless an operand mentions a variable this statement assigns
	assigned := map[types.Object]bool{}
	for _, l := range s.Lhs {
		switch l := unparen(l).(type) {
		case *ast.IndexExpr:
			if o := t.varOf(l.X); o != nil {
				assigned[o] = true
			}
		default:
			if o := t.varOf(l); o != nil {
				assigned[o] = true
			}
		}
	}
	for _, l := range s.Lhs {
		if ix, ok := unparen(l).(*ast.IndexExpr); ok {
			ast.Inspect(ix.Index, func(n ast.Node) bool {
				if e, ok := n.(ast.Expr); ok {
					if o := t.varOf(e); o != nil && assigned[o] {
						t.fail(s, "multiple assignment: the index of %s mentions `%s`, which the same statement assigns (Go evaluates the index first)", t.p.src(ix), o.Name())
					}
				}
				return true
			})
		}
	}
	for i, l := range s.Lhs {
		v := vals[i]
		switch l := unparen(l).(type) {
		case *ast.IndexExpr:
			if s.Tok == token.DEFINE {
				t.fail(s, "unsupported left-hand side")
			}
			bs = append(bs, t.assignIndex(s, l, func(string, lkind) (string, lkind) { return v.text, v.kind }))
		default:
			if id, ok := l.(*ast.Ident); ok && id.Name == "_" {
				continue
			}
			o, name, k := t.scalarTarget(l)
			if k == kErrOpt && v.kind == kErr {
				v.text, v.kind = "(Go.errOfPlain "+v.text+")", k // the plain error of MarshalBinary() in a function with mixed errors
			}
			if k != v.kind {
				t.fail(s, "assignment of %s to %s", v.kind.lean(), k.lean())
			}
			if k.isSlice() && t.params[o] {
				t.fail(s, "assignment to the slice parameter %s", name)
			}
			bs = append(bs, binding{name: name, kind: k, val: v.text})
		}
	}
	return bs
}

// tupleCall translates a call of a function of the package with several results (translated earlier, plain-valued).
func (t *loopTr) tupleCall(x *ast.CallExpr) (string, []lkind) {
	if d := t.marshalRecv(x); d != nil {
		// the value of d IS the result of this call (see recHeaderText)
		v, k := t.expr(d)
		if k != kMarsh {
			t.fail(x, "MarshalBinary() on %s", k.lean())
		}
		return v, []lkind{kBytes, kErr}
	}
	if o, _ := t.hashCall(x); o != nil {
		t.fail(x, "the results of a method of a hash.Hash are not modelled: h.Write(…) is only supported as a statement of its own")
	}
	if text, kinds, ok := t.externTuple(x); ok {
		return text, kinds // a library function that is a parameter of the translation (loops_strs.go)
	}
	id, ok := unparen(x.Fun).(*ast.Ident)
	if !ok {
		t.fail(x, "unsupported call %s", t.p.src(x))
	}
	o, ok := t.info.Uses[id].(*types.Func)
	if !ok || o.Pkg() != t.set.tp.tpkg || o.Parent() != t.set.tp.tpkg.Scope() {
		t.fail(x, "call of %s: only functions of the same package are supported", t.p.src(x.Fun))
	}
	if !t.set.done[o.Name()] {
		t.fail(x, "call of %s, which has not been translated before this function", o.Name())
	}
	if t.set.flowFns[o.Name()] {
		t.fail(x, "call of %s, which may panic or writes into a parameter: such calls are not supported", o.Name())
	}
	if x.Ellipsis.IsValid() {
		t.fail(x, "variadic call")
	}
	sig := o.Type().(*types.Signature)
	parts := []string{o.Name()}
	if csig := loopSigs[sigKey(o.Pkg().Path(), o.Name())]; csig != nil {
		parts = append(parts, t.depArgs(csig)...)
	}
	for _, a := range x.Args {
		t.noAlias(a, "argument")
		s, _ := t.expr(a)
		parts = append(parts, s)
	}
	var kinds []lkind
	for i := 0; i < sig.Results().Len(); i++ {
		kinds = append(kinds, t.kindOf(sig.Results().At(i).Type(), x))
	}
	return "(" + strings.Join(parts, " ") + ")", kinds
}

// swapPtrs translates `p, q = q, p` on array-pointer parameters (a permutation of the same variables).
func (t *loopTr) swapPtrs(s *ast.AssignStmt) []binding {
	const shape = "array-pointer variables may only be assigned by a swap `p, q = q, p` of array-pointer parameters"
	if s.Tok != token.ASSIGN || len(s.Rhs) != len(s.Lhs) {
		t.fail(s, "%s", shape)
	}
	seenL, seenR := map[types.Object]bool{}, map[types.Object]bool{}
	var ls, rs []types.Object
	for i := range s.Lhs {
		l := t.objOf(unparen(s.Lhs[i]).(*ast.Ident))
		rid, ok := unparen(s.Rhs[i]).(*ast.Ident)
		if !ok {
			t.fail(s, "%s", shape)
		}
		r := t.objOf(rid)
		if r == nil || !t.isTagged(l) || !t.isTagged(r) || seenL[l] || seenR[r] || !types.Identical(l.Type(), r.Type()) {
			t.fail(s, "%s", shape)
		}
		seenL[l], seenR[r] = true, true
		ls, rs = append(ls, l), append(rs, r)
	}
	for _, r := range rs {
		if !seenL[r] {
			t.fail(s, "%s (the right-hand sides must be a permutation of the left-hand sides, so that no two variables point to the same array)", shape)
		}
	}
	var bs []binding
	var tmp []string
	for _, r := range rs {
		st := t.freshName()
		tmp = append(tmp, st)
		bs = append(bs, binding{name: st, ty: t.objType(r), val: t.vars[r]})
	}
	for i, l := range ls {
		bs = append(bs, binding{name: t.vars[l], ty: t.objType(l), val: tmp[i]})
	}
	return bs
}

// opAssignIndex translates `a[i] op= e`.
func (t *loopTr) opAssignIndex(s *ast.AssignStmt, l *ast.IndexExpr) []binding {
	op, ok := assignOps[s.Tok]
	if !ok {
		t.fail(s, "unsupported assignment operator %s", s.Tok)
	}
	b := t.assignIndex(s, l, func(cur string, ek lkind) (string, lkind) {
		if op == token.SHL || op == token.SHR {
			return t.shift(s, op, cur, ek, s.Rhs[0]), ek
		}
		if op == token.QUO || op == token.REM {
			if c, isConst := t.constInt(s.Rhs[0]); !isConst || c.Sign() == 0 {
				t.fail(s, "%s by a non-constant or zero divisor is not supported", op)
			}
		}
		e, k := t.expr(s.Rhs[0])
		return t.binop(s, op, cur, ek, e, k)
	})
	b.checks = append(b.checks, t.takeChecks()...)
	return []binding{b}
}

// ---------------------------------------------------------------- x = x[:k]

// prefixResliceOf recognises `x = x[:hi]`.
func (t *loopTr) prefixResliceOf(s *ast.AssignStmt) (types.Object, ast.Expr) {
	if s.Tok != token.ASSIGN || len(s.Lhs) != 1 || len(s.Rhs) != 1 {
		return nil, nil
	}
	l, ok1 := unparen(s.Lhs[0]).(*ast.Ident)
	se, ok2 := unparen(s.Rhs[0]).(*ast.SliceExpr)
	if !ok1 || !ok2 || se.Low != nil || se.High == nil || se.Max != nil || se.Slice3 {
		return nil, nil
	}
	r, ok := unparen(se.X).(*ast.Ident)
	if !ok || t.objOf(l) == nil || t.objOf(l) != t.objOf(r) {
		return nil, nil
	}
	return t.objOf(l), se.High
}

func (t *loopTr) prefixReslice(s *ast.AssignStmt, o types.Object, hi ast.Expr) []binding {
	name, ok := t.vars[o]
	if _, isSlice := o.Type().Underlying().(*types.Slice); ok && isSlice && !t.params[o] && !t.isOutBuf(o) {
		// a local slice (it owns its array): the prefix, as a value.  It now has spare capacity, which is not modelled:
		// slicing it again with an upper bound, or passing it to a callee that does, is rejected (spareCap).
		k := t.kindOf(o.Type(), s)
		t.noStrings(k, s, "reslicing a variable")
		var n string
		if tv := t.typeOf(hi); tv.Value != nil {
			c := constant.ToInt(tv.Value)
			if c.Kind() != constant.Int || constant.Sign(c) < 0 {
				t.fail(hi, "bad constant slice bound")
			}
			n = c.ExactString()
			t.addCheck(fmt.Sprintf("(decide (%s ≤ %s.length))", n, name))
		} else {
			e, ek := t.expr(hi)
			if ek != kInt {
				t.fail(hi, "slice bound of type %s", t.typeOf(hi).Type)
			}
			t.addCheck(fmt.Sprintf("(Go.sliceOK 0#64 %s %s.length)", e, name))
			n = e + ".toNat"
		}
		if t.spareCap[o] {
			t.fail(s, "`%s` was already cut with an upper bound: a second one is checked against the capacity, which is not modelled", name)
		}
		t.spareCap[o] = true
		return []binding{{name: name, kind: k, val: fmt.Sprintf("(%s.take %s)", name, n), checks: t.takeChecks()}}
	}
	if _, isSlice := o.Type().Underlying().(*types.Slice); !ok || !t.params[o] || !isSlice {
		t.fail(s, "reslicing `%s = %s[:k]` is supported for slice parameters and local slices only", o.Name(), o.Name())
	}
	top := false
	for _, st := range t.fd.Body.List {
		if st == ast.Stmt(s) {
			top = true
		}
	}
	if !top || t.pairBuf[o] || t.facts.plain[o] != 1 {
		t.fail(s, "`%s = %s[:k]` is only supported once, as a statement of the function body itself, for a parameter that is not assigned otherwise", name, name)
	}
	k := t.kindOf(o.Type(), s)
	t.capSens[o] = true
	var n string
	if tv := t.typeOf(hi); tv.Value != nil {
		c := constant.ToInt(tv.Value)
		if c.Kind() != constant.Int || constant.Sign(c) < 0 {
			t.fail(hi, "bad constant slice bound")
		}
		n = c.ExactString()
		t.addCheck(fmt.Sprintf("(decide (%s ≤ %s.length))", n, name))
	} else {
		e, ek := t.expr(hi)
		switch ek {
		case kInt:
			t.addCheck(fmt.Sprintf("(Go.sliceFromS %s %s.length)", e, name))
		case kUint:
			t.addCheck(fmt.Sprintf("(Go.sliceFromU %s %s.length)", e, name))
		default:
			t.fail(hi, "slice bound of type %s", t.typeOf(hi).Type)
		}
		n = e + ".toNat"
	}
	var bs []binding
	checks := t.takeChecks()
	if t.isOutBuf(o) {
		bs = append(bs, binding{name: name + "_rest", kind: k, val: fmt.Sprintf("(%s.drop %s)", name, n), checks: checks})
		checks = nil
		t.restBuf[o] = true
	}
	return append(bs, binding{name: name, kind: k, val: fmt.Sprintf("(%s.take %s)", name, n), checks: checks})
}

// ---------------------------------------------------------------- copy

// copyStmt translates the statement `copy(dst, src)`.
func (t *loopTr) copyStmt(s *ast.ExprStmt) []binding {
	if bs, ok := t.ifaceCopyStmt(s); ok { // stage 11 (loops_iface.go)
		return bs
	}
	o := t.copyTarget(s)
	if o == nil {
		t.fail(s, "unsupported statement %s", t.p.src(s))
	}
	c := unparen(s.X).(*ast.CallExpr)
	name, local := t.vars[o]
	f := t.facts
	switch {
	case !local:
		t.fail(s, "copy into %s", t.p.src(c.Args[0]))
	case t.isOutBuf(o) && !t.pairBuf[o] && !t.isTagged(o), t.isField(o):
	case !t.params[o] && isPlainArray(o.Type()):
	case t.params[o] || len(f.defs[o]) != 1 || f.plain[o] != 0 || !t.isMake(f.defs[o][0]):
		t.fail(s, "copy into `%s`, which is not an output buffer, a field or a local slice created once by make", name)
	}
	var low ast.Expr
	if _, isId := unparen(c.Args[0]).(*ast.Ident); !isId {
		// c.f[:] or a window x[lo:] as destination
		se, ok := unparen(c.Args[0]).(*ast.SliceExpr)
		if !ok || se.High != nil || se.Slice3 {
			t.fail(s, "unsupported destination of copy")
		}
		low = se.Low
	}
	dk := t.kindOf(o.Type(), s)
	// the source is evaluated before anything is copied; it may read the destination variable (value semantics)
	src, sk := t.listArg(c.Args[1])
	if sk != dk && !(dk == kBytes && sk == kString) {
		t.fail(s, "copy of %s into %s", sk.lean(), dk.lean())
	}
	if low != nil {
		n := t.sliceBound(low, name)
		return []binding{{name: name, kind: dk, val: fmt.Sprintf("(%s.take %s ++ Go.copy (%s.drop %s) %s)", name, n, name, n, src), checks: t.takeChecks()}}
	}
	return []binding{{name: name, kind: dk, val: fmt.Sprintf("(Go.copy %s %s)", name, src), checks: t.takeChecks()}}
}

// listArg translates an expression that is only read as a list: a slice / string / array variable, a field array,
// or a[:] of one of them.
func (t *loopTr) listArg(e ast.Expr) (string, lkind) {
	e = unparen(e)
	if se, ok := e.(*ast.SliceExpr); ok && se.Low == nil && se.High == nil && !se.Slice3 {
		e = unparen(se.X)
	}
	if o := t.fieldOf(e); o != nil {
		return t.vars[o], t.kindOf(o.Type(), e)
	}
	if id, ok := e.(*ast.Ident); ok {
		return t.listIdent(id)
	}
	return t.expr(e)
}

// setupCtor recognises a constructor: a function with the single result *T (T a struct type of the package whose fields
// are integers / arrays of integers) whose body starts with `e := new(T)` (or `e := &T{}`), uses e only as e.f and
// returns e.  The new struct is treated like a receiver whose fields start with their zero values; the result is the
// tuple of ALL fields of T, in declaration order.
func (t *loopTr) setupCtor() {
	fd := t.fd
	if fd.Type.Results == nil || len(fd.Type.Results.List) != 1 || len(fd.Type.Results.List[0].Names) != 0 || len(fd.Body.List) == 0 {
		return
	}
	rt, ok := t.info.Types[fd.Type.Results.List[0].Type]
	if !ok {
		return
	}
	ptr, ok := rt.Type.(*types.Pointer)
	if !ok {
		return
	}
	named, ok := ptr.Elem().(*types.Named)
	if !ok || named.Obj().Pkg() != t.set.tp.tpkg {
		return
	}
	st, ok := named.Underlying().(*types.Struct)
	if !ok {
		return
	}
	// the defining statement, anywhere at the top level of the body
	var def *ast.AssignStmt
	for _, s := range fd.Body.List {
		as, ok := s.(*ast.AssignStmt)
		if !ok || as.Tok != token.DEFINE || len(as.Lhs) != 1 || len(as.Rhs) != 1 {
			continue
		}
		id, ok := as.Lhs[0].(*ast.Ident)
		if !ok || !types.Identical(t.info.Defs[id].Type(), rt.Type) {
			continue
		}
		fresh := false
		switch r := unparen(as.Rhs[0]).(type) {
		case *ast.CallExpr: // new(T)
			if f, ok := unparen(r.Fun).(*ast.Ident); ok && len(r.Args) == 1 {
				if b, ok := t.info.Uses[f].(*types.Builtin); ok && b.Name() == "new" {
					fresh = true
				}
			}
		case *ast.UnaryExpr: // &T{}
			if cl, ok := unparen(r.X).(*ast.CompositeLit); ok && r.Op == token.AND && len(cl.Elts) == 0 {
				fresh = true
			}
		}
		if fresh {
			def = as
			break
		}
	}
	if def == nil {
		return
	}
	rid := def.Lhs[0].(*ast.Ident)
	ro := t.info.Defs[rid]
	t.recv, t.ctor, t.ctorDef = ro, true, def
	okUse := map[*ast.Ident]bool{}
	ast.Inspect(fd.Body, func(n ast.Node) bool {
		switch x := n.(type) {
		case *ast.SelectorExpr:
			if f := t.fieldOf(x); f != nil {
				okUse[unparen(x.X).(*ast.Ident)] = true
			}
		case *ast.ReturnStmt:
			if len(x.Results) == 1 {
				if id, ok := unparen(x.Results[0]).(*ast.Ident); ok && t.info.Uses[id] == ro {
					okUse[id] = true
				}
			}
		}
		return true
	})
	ast.Inspect(fd.Body, func(n ast.Node) bool {
		if id, ok := n.(*ast.Ident); ok && t.info.Uses[id] == ro && !okUse[id] {
			t.fail(id, "the struct built by a constructor may only be used as e.f and returned")
		}
		return true
	})
	for i := 0; i < st.NumFields(); i++ {
		f := st.Field(i)
		name := rid.Name + "_" + f.Name()
		if leanReserved[name] || t.set.all[name] {
			t.fail(fd, "field name %s clashes with a name used by the generated Lean text", name)
		}
		t.kindOf(f.Type(), fd)
		t.rejectSliceField(f)
		t.vars[f] = name
		t.fields = append(t.fields, f)
	}
}

// ctorInit renders the zero values of the fields of the struct a constructor builds.
func (t *loopTr) ctorInit() []binding {
	var bs []binding
	for _, f := range t.fields {
		k := t.kindOf(f.Type(), t.fd)
		var val string
		switch {
		case k.isNum():
			val = fmt.Sprintf("0#%d", k.width())
		case k == kBool:
			val = "false"
		default:
			n, isArr := arrayLen(f.Type())
			if !isArr {
				t.fail(t.fd, "field %s of the constructed struct: only integers and arrays of integers are supported", f.Name())
			}
			val = fmt.Sprintf("(List.replicate %d 0#%d)", n, k.elem().width())
		}
		bs = append(bs, binding{name: t.vars[f], kind: k, val: val})
	}
	return bs
}
