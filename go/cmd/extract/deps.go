package main

import (
	"crypto/sha256"
	"fmt"
	"os"
	"path/filepath"
	"strings"
)

// genDeps records what the repository depends on: the normalised go.mod (module path, go version, every require /
// replace / exclude line, comments stripped) and the digest of go.sum. The external libraries are part of the
// trusted base at exactly these versions; a bumped dependency must not go unnoticed.
func genDeps() {
	g := newGen("Deps")
	raw, err := os.ReadFile(filepath.Join(*repo, "go.mod"))
	if err != nil {
		die("%v", err)
	}
	var lines []string
	for _, l := range strings.Split(string(raw), "\n") {
		if i := strings.Index(l, "//"); i >= 0 {
			l = l[:i]
		}
		if l = normWS(l); l != "" {
			lines = append(lines, l)
		}
	}
	txt := strings.Join(lines, " ; ")
	g.def("gomod", "String", leanString(txt))
	expect = append(expect, [2]string{"Deps.gomod", leanString(txt)})
	sum, err := os.ReadFile(filepath.Join(*repo, "go.sum"))
	if err != nil {
		die("%v", err)
	}
	d := fmt.Sprintf("%x", sha256.Sum256(sum))
	g.def("gosumSha256", "String", leanString(d))
	expect = append(expect, [2]string{"Deps.gosumSha256", leanString(d)})
	g.write()
}
