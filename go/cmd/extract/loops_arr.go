package main

// Stage 9 of the loop translator (see loops.go): arrays as values (array parameters, named array results, locals that hold
// the array a library function returns, `append(a[:], …)`), named results, the library functions strings.HasPrefix /
// HasSuffix / TrimSuffix and bytes.Equal DEFINED in Iota/Model/GoBits.lean, concatenation of strings, fmt.Errorf without
// %w, golang.org/x/crypto/blake2b.Sum256 as a PARAMETER.

import (
	"fmt"
	"go/ast"
	"go/types"
	"strconv"
	"strings"
)

// arrHeaderText is appended to the header of generated files whose translated code uses stage 9.
const arrHeaderText = `/-
Additional semantics, stage 9:
* ARRAYS ARE VALUES.  A value of type [N]T (T an integer type) is the list of its N elements, as before for array fields
  and "var a [N]T" locals.  New here:
  - an array PARAMETER "a [N]T" (passed by value: the function works on its own copy, the caller's array cannot be
    reached) ↦ a : List …, ASSUMED to have length N (the tie theorems state that hypothesis; the doc comment of the
    function repeats it).  It is read-only in the translated subset: a[i], len(a) (the constant N), range, a[:] and
    windows a[lo:hi] as arguments that are only read, append(a[:], …) (below); a[i] = e and copy(a[:], …) on an array
    parameter are rejected.
  - a local that is defined by a call that returns an array ("hash := blake2b.Sum256(x)") ↦ the list the call returns,
    ASSUMED to have length N (for a library function that is a PARAMETER of the translation: an assumption about that
    parameter, stated in the doc comment and to be stated by the tie).
  - a NAMED RESULT, of any supported type ("(addr [32]byte, err error)"), is a local variable that is bound to the zero
    value of its type in front of the body (List.replicate N 0 for an array, [] for a slice or string, 0, false, none
    for nil); "return e1, e2" returns the values of e1, e2 as in a function with unnamed results (a bare "return" is
    rejected).  Returning an array returns a copy: no aliasing.  "x, err := f(…)" with err the named result assigns it.
  - The length N is used by the translation ONLY in the bounds checks it emits, exactly where Go checks against N:
    a[i] is checked against N (Go.inRangeS i N, decide (c < N) …), a window a[lo:hi] of an array variable (parameter or
    local) that is passed as a read-only argument is checked against N (Go.sliceOK lo hi N: for an array cap = len = N),
    len(a) is the constant N (go/types).  The VALUE of such an expression is always computed from the list itself
    (List.getD, List.take, List.drop), never from N.  Under the length assumption both agree with Go; nothing else
    depends on it.
  - "append(a[:], xs...)" / "append(a[:], x1, …)" with a an array variable (parameter or local) that the function never
    writes (no a[i] = e, no copy into it, no assignment, not passed to a callee that writes into it) ↦ a ++ xs, a slice
    like any other local slice.  Why this is sound although the first argument is not a local slice variable: a[:] has
    len = cap = N, an array has no spare capacity, so appending at least one element allocates a fresh backing array and
    copies (the result shares memory with nothing); appending no element yields a[:] itself, a window of the function's
    own copy of a, which is never written — so no later write can be observed through either.  Any other slice
    expression as the first argument of append stays rejected.  The spread argument xs... of append may be a window
    x[lo:hi] (it is only read).
* Library functions that are DEFINED (Iota/Model/GoBits.lean; a string is the list of its bytes):
  strings.HasPrefix(s, p) ↦ Go.hasPrefix s p; strings.HasSuffix(s, p) ↦ Go.hasSuffix s p; strings.TrimSuffix(s, p) ↦
  Go.trimSuffix s p (s without the trailing p if it ends with p, otherwise s); bytes.Equal(a, b) on byte slices ↦
  Go.bytesEqual a b (same length and same bytes; a nil slice is the empty list, so nil and empty are equal, as in Go).
  "a + b" on strings (also of a named string type such as trinary.Trytes) ↦ a ++ b, "s += t" likewise; a conversion
  between a named string type and string (trinary.Trytes(s), string(t)) is the identity on the list of bytes.
* Constants of imported packages (consts.HashTrytesSize, consts.TritsPerTryte, blake2b.Size256, typed or untyped) are the
  values go/types computes for them, rendered in the type the expression has; x / c by such a constant c ≠ 0 is
  BitVec.sdiv (int) as for any constant divisor.  pkg.ErrX of an imported package: see stage 5.
* fmt.Errorf(format, …) WITHOUT %w makes a new error that wraps nothing and is not nil.  Its value is
  some "fmt.Errorf(<format>)", where <format> is the Go-quoted constant format string (strconv.Quote): an OPAQUE name
  derived from the call site's format — it is not the name of any error variable, so errors.Is(err, ErrX) is false for
  every ErrX; two calls with the same format get the same name (their messages may differ: the message text is not
  modelled, the operands are only evaluated).  Example: fmt.Errorf("expected prefix '%s'", Prefix) ↦
  some "fmt.Errorf(\"expected prefix '%s'\")".  (fmt.Errorf with %w: stages 2 and 8.)
* golang.org/x/crypto/blake2b.Sum256(b) is a PARAMETER blake2b_Sum256 : List (BitVec 8) → List (BitVec 8) of the
  translated function and of every translated function that calls it: nothing about its value is defined here.
  ASSUMPTIONS made by passing it as a plain function (the documented behaviour, not checked here): it is a total, pure
  function of the bytes of its argument (no panic, no other effect, does not modify or retain the argument), and its
  result — a [32]byte array, returned by value — is a list of length 32.  The tie theorems state both (e.g. by
  instantiating the parameter with the BLAKE2b-256 model, whose output has length 32).
-/
`

// ---------------------------------------------------------------- array parameters and named results

// arrayParam accepts the parameter `a [N]T` (an array passed by value): the list of its elements, read-only.
func (t *loopTr) arrayParam(id *ast.Ident, o types.Object) {
	if t.recursive {
		t.fail(id, "an array parameter of a recursive function is not supported")
	}
	a := o.Type().Underlying().(*types.Array)
	if _, ok := sliceKind(a.Elem()); !ok {
		t.fail(id, "type %s is outside the translated subset (only arrays of integers are supported as parameters)", o.Type())
	}
	if !t.neverWritten(o) {
		// (also with !disjoint: an array parameter is the function's own copy, not an output buffer)
		t.fail(id, "the array parameter `%s` is written in the function (assigned, assigned by index, copied into, or passed to a callee that writes into it): an array parameter is a copy and is read-only in the translated subset", id.Name)
	}
	t.arrParams = append(t.arrParams, o)
}

// namedResult registers the named result id: a local variable that starts with the zero value of its type.
func (t *loopTr) namedResult(id *ast.Ident, k lkind) {
	if id.Name == "_" {
		t.fail(id, "a blank named result is not supported")
	}
	if t.recursive {
		t.fail(id, "named results of a recursive function are not supported")
	}
	o := t.info.Defs[id]
	if isArrayPtr(o.Type()) {
		t.fail(id, "a named result of type %s is not supported", o.Type())
	}
	t.namedRes = append(t.namedRes, o)
}

// isNamedRes: o is a named result of the function.
func (t *loopTr) isNamedRes(o types.Object) bool {
	for _, r := range t.namedRes {
		if r == o {
			return true
		}
	}
	return false
}

// namedResultInit renders the bindings of the named results to their zero values, in front of the body.
func (t *loopTr) namedResultInit(ind string) string {
	var b strings.Builder
	for _, o := range t.namedRes {
		k := t.kindOf(o.Type(), t.fd)
		var val string
		switch {
		case k.isNum():
			val = fmt.Sprintf("0#%d", k.width())
		case k == kBool:
			val = "false"
		case isErrKind(k):
			val = "none"
		case isPlainArray(o.Type()):
			n, _ := arrayLen(o.Type())
			val = fmt.Sprintf("(List.replicate %d 0#%d)", n, k.elem().width())
		case k.isSlice() || k == kString:
			val = "([] : " + k.lean() + ")"
		case k == kBig:
			continue // stage 10: nil is not representable; bigCheck has established that it is assigned before it is used
		default:
			t.fail(t.fd, "a named result of type %s is not supported", o.Type())
		}
		fmt.Fprintf(&b, "%slet %s : %s := %s\n", ind, t.vars[o], k.lean(), val)
	}
	return b.String()
}

// arrayVarLen returns N (as a text) when e names a variable of type [N]T that is a parameter, a named result or a local
// of the function (not a field, not an array pointer): a window of it is checked against N, as Go does (cap = len = N).
func (t *loopTr) arrayVarLen(e ast.Expr) (string, bool) {
	id, ok := unparen(e).(*ast.Ident)
	if !ok {
		return "", false
	}
	o := t.info.Uses[id]
	if o == nil || !isPlainArray(o.Type()) {
		return "", false
	}
	if _, local := t.vars[o]; !local {
		return "", false
	}
	n, _ := arrayLen(o.Type())
	return fmt.Sprint(n), true
}

// neverWritten: nothing in the function writes the variable o (no assignment, no index assignment, no copy into it, no
// callee writing into it).
func (t *loopTr) neverWritten(o types.Object) bool {
	return t.facts.plain[o] == 0 && !t.facts.indexed[o]
}

// appendArrayBase recognises the first argument `a[:]` of append with a an array variable (parameter or local) that the
// function never writes (see arrHeaderText for why the result then shares nothing that can be observed).
func (t *loopTr) appendArrayBase(call *ast.CallExpr, e ast.Expr) (string, lkind, bool) {
	se, ok := unparen(e).(*ast.SliceExpr)
	if !ok {
		return "", 0, false
	}
	id, isId := unparen(se.X).(*ast.Ident)
	if !isId {
		return "", 0, false
	}
	o := t.info.Uses[id]
	if o == nil || !isPlainArray(o.Type()) {
		return "", 0, false
	}
	if se.Low != nil || se.High != nil || se.Slice3 {
		t.fail(call, "append to %s: of an array only the full slice `%s[:]` is supported as the first argument of append (a shorter window has spare capacity: append would write into the array)", t.p.src(e), id.Name)
	}
	if _, local := t.vars[o]; !local {
		t.fail(call, "append to %s: `%s` is not a parameter or local variable of the function", t.p.src(e), id.Name)
	}
	if !t.neverWritten(o) {
		t.fail(call, "append to %s: the array `%s` is written in this function; `append(a[:], …)` is only supported for an array that is never written (with nothing appended the result is a window of it)", t.p.src(e), id.Name)
	}
	s, k := t.listIdent(id)
	return s, k, true
}

// ---------------------------------------------------------------- library functions that are defined (stage 9)

// arrLibCall translates the calls of the library functions that Iota/Model/GoBits.lean defines since stage 9.
func (t *loopTr) arrLibCall(x *ast.CallExpr, f *types.Func) (string, lkind, bool) {
	arg := func(a ast.Expr, want lkind) string {
		if id, ok := unparen(a).(*ast.Ident); ok && want == kBytes {
			if _, isNil := t.info.Uses[id].(*types.Nil); isNil {
				return "([] : List (BitVec 8))" // a nil slice is the empty list
			}
		}
		s, k := t.argValue(a)
		if k != want {
			t.fail(a, "argument of type %s", k.lean())
		}
		return s
	}
	two := func(fn string, want, res lkind) (string, lkind, bool) {
		if len(x.Args) != 2 || x.Ellipsis.IsValid() {
			t.fail(x, "arity")
		}
		return "(" + fn + " " + arg(x.Args[0], want) + " " + arg(x.Args[1], want) + ")", res, true
	}
	switch f.Pkg().Path() + "." + f.Name() {
	case "strings.HasPrefix":
		return two("Go.hasPrefix", kString, kBool)
	case "strings.HasSuffix":
		return two("Go.hasSuffix", kString, kBool)
	case "strings.TrimSuffix":
		return two("Go.trimSuffix", kString, kString)
	case "bytes.Equal":
		return two("Go.bytesEqual", kBytes, kBool)
	}
	return "", 0, false
}

// errorfNew is the value of a fmt.Errorf call without %w: a new error that wraps nothing; its opaque name is derived from
// the constant format string (see arrHeaderText).
func (t *loopTr) errorfNew(format string) string {
	name := leanString("fmt.Errorf(" + strconv.Quote(format) + ")")
	if t.errOpt {
		return "(some (" + name + ", none))"
	}
	return "(some " + name + ")"
}

// namedResNames lists the named results, for messages.
func (t *loopTr) namedResNames() string {
	var ns []string
	for _, o := range t.namedRes {
		ns = append(ns, o.Name())
	}
	return strings.Join(ns, ", ")
}
