package main

// Stage 7 of the loop translator (see loops.go): math/bits.Len, hash.Hash locals made by `c.f.New()` on a crypto.Hash
// field of the receiver, encoding.BinaryMarshaler values and read-only slices of them, `return f(…)` of a translated
// function with several results, and functions that call themselves (recursion on an additional parameter `fuel`).

import (
	"fmt"
	"go/ast"
	"go/types"
	"sort"
	"strings"
)

// recHeaderText is appended to the header of generated files whose translated code uses stage 7.
const recHeaderText = `/-
Additional semantics, stage 7:
* math/bits.Len(x) on a uint ↦ Go.bitsLen64 x (the number of bits needed to represent x: 64 minus the number of leading
  zeros, 0 for x = 0), an int.  bits.UintSize is the constant 64 (the 64-bit platform assumed above).  In a non-constant
  shift "c << s" whose left operand c is an untyped constant, c has the type the Go type checker (go/types) records
  for it from its context (e.g. the result type uint in "return 1 << s"); only int, uint, int64, uint64 are accepted
  there.
* hash.Hash.  A local "h := c.f.New()", c the receiver and f a field of it of type crypto.Hash, is THE LIST OF THE BYTES
  WRITTEN to h so far: New() is the empty list, the statement "h.Write(b)" appends b (its results are ignored; using them is
  rejected), "h.Sum(nil)" is "f_sum h" where f_sum : List (BitVec 8) → List (BitVec 8) is a PARAMETER of the translated
  function and of every translated function that calls it ("hash_sum" for a field called hash); "c.f.New().Sum(nil)" is
  "f_sum []".  The field c.f itself is not a parameter.  ASSUMPTIONS (the documented contract of crypto.Hash / hash.Hash /
  io.Writer, not checked here): the hash function c.f is linked into the binary, so that New() does not panic; every
  New() returns a fresh hash object in its initial state; Write never fails, does not modify or retain its argument and
  only appends it to the hashed data; Sum(nil) returns, in a fresh slice, a value that is a function of the bytes written
  since New() (and of the hash function c.f, which is the same for all calls: nothing in the translated code assigns
  the field, every use of it is c.f.New()).  Everything else is rejected: Reset, Size, BlockSize, Sum with an argument
  other than the literal nil, h as an argument, operand or result, "var h hash.Hash", a hash.Hash parameter, any other
  use of the field c.f, a hash object made in another way.
* encoding.BinaryMarshaler.  A value d of this interface type is modelled by THE RESULT OF ITS MarshalBinary() CALL, the pair
  (bytes, error) : List (BitVec 8) × Option String, where the error is none for nil and otherwise some opaque name the caller
  chooses; "b, err := d.MarshalBinary()" binds the two components.  []encoding.BinaryMarshaler is the list of these pairs.
  ASSUMPTION (not checked here): MarshalBinary is a pure function of the element - it can be called any number of
  times, at any time, with the same result, it has no other effect and does not panic (in particular the interface value
  is not nil) - and nobody else writes into the bytes it returns.  A name that is also the name of an error variable of
  the translated package stands for that variable, as everywhere.  Only that one method may be called on such a value; the bytes it returned are read-only in the
  translated code (appending to them, writing into them and returning them is rejected: they may share memory with the
  element).  Such a slice may only be indexed (x[i], bounds-checked like every index), measured (len) and passed on in
  windows x[:k], x[k:] as an argument that is only read.
* x[:k] as a read-only argument with k a uint is checked as k ≤ len(x), compared unsigned (Go.sliceFromU k x.length), and is
  x.take k.toNat.  As before, capacity is not modelled: Go checks k ≤ cap(x).
* "return f(…)" in a function with several results, f a translated function with the same number of results (and no
  effect on a parameter or field): the tuple f returns, component by component (error components converted to the error
  carrier of the returning function as for "x, err := f(…)"); a panic of f is a panic of the function.
* RECURSION.  A function that calls itself (directly; mutual recursion is rejected, so is a recursive function that writes
  into a parameter or a field) is translated as a definition by structural recursion on an additional parameter
  "fuel : Nat" (after the PARAMETERS for things the translation does not define, before the fields of the receiver and the
  declared parameters): with fuel = 0 the result is none; with fuel = n + 1 it is the body, in which every call of the
  function itself passes n.  The result type is Option, and none means: RUN-TIME PANIC OR FUEL EXHAUSTED (the translation
  says nothing about termination: a theorem about the function has to supply enough fuel, and "some r" for some fuel is
  the result for every larger fuel).  Calls of a recursive function from OTHER translated functions are rejected for now.
  A window x[:hi] that the function passes to itself has spare capacity, which is not modelled: where the function also
  slices that parameter with an upper bound hi' (Go checks hi' ≤ cap, the translation hi' ≤ len) the translation may report
  none where Go goes on; every "some r" it reports is what Go computes.  The doc comment of such a function says so.
-/
`

// isNamedType: ty is the named type pkgPath.name.
func isNamedType(ty types.Type, pkgPath, name string) bool {
	n, ok := ty.(*types.Named)
	return ok && n.Obj().Pkg() != nil && n.Obj().Pkg().Path() == pkgPath && n.Obj().Name() == name
}

// selfTyped: the constant expression e has its type by itself, not from the context it is used in: a conversion T(c), or
// the name of a typed constant.
func (t *loopTr) selfTyped(e ast.Expr) bool {
	var id *ast.Ident
	switch x := unparen(e).(type) {
	case *ast.CallExpr:
		return t.typeOf(x.Fun).IsType()
	case *ast.Ident:
		id = x
	case *ast.SelectorExpr:
		id = x.Sel
	}
	if id == nil {
		return false
	}
	c, ok := t.info.Uses[id].(*types.Const)
	if !ok {
		return false
	}
	b, isBasic := c.Type().Underlying().(*types.Basic)
	return isBasic && b.Info()&types.IsUntyped == 0
}

// ---------------------------------------------------------------- recursion

type selfArg struct {
	param int          // index of the parameter of the function the argument is for
	base  types.Object // the slice parameter of the caller the argument is (a window of), nil if none
	upper bool         // the argument is a window with an upper bound: it has spare capacity
}

// isSelfCall: c calls the function being translated (f(…), or c.m(…) / T.m(…) for a method).
func (t *loopTr) isSelfCall(c *ast.CallExpr) bool {
	if t.selfFn == nil {
		return false
	}
	switch f := unparen(c.Fun).(type) {
	case *ast.Ident:
		return t.info.Uses[f] == t.selfFn
	case *ast.SelectorExpr:
		return t.info.Uses[f.Sel] == t.selfFn
	}
	return false
}

// funcDeclOf finds the declaration of a function or method of the translated package.
func (s *loopSet) funcDeclOf(fn *types.Func) *ast.FuncDecl {
	for _, n := range s.p.sortedFiles() {
		for _, d := range s.p.files[n].Decls {
			if fd, ok := d.(*ast.FuncDecl); ok && s.tp.info.Defs[fd.Name] == fn {
				return fd
			}
		}
	}
	return nil
}

// calleesOf returns the functions and methods of the translated package that the body of fd calls.
func (s *loopSet) calleesOf(fd *ast.FuncDecl) []*types.Func {
	var out []*types.Func
	if fd == nil || fd.Body == nil {
		return nil
	}
	ast.Inspect(fd.Body, func(n ast.Node) bool {
		c, ok := n.(*ast.CallExpr)
		if !ok {
			return true
		}
		var id *ast.Ident
		switch f := unparen(c.Fun).(type) {
		case *ast.Ident:
			id = f
		case *ast.SelectorExpr:
			id = f.Sel
		}
		if id != nil {
			if fn, ok := s.tp.info.Uses[id].(*types.Func); ok && fn.Pkg() == s.tp.tpkg {
				out = append(out, fn)
			}
		}
		return true
	})
	return out
}

// setupRecursion finds out whether the function calls itself, rejects mutual recursion, and registers a provisional
// signature for the calls of itself (completed by completeSelfSig before the body is translated).
func (t *loopTr) setupRecursion(leanName string) {
	t.selfFn, _ = t.info.Defs[t.fd.Name].(*types.Func)
	if t.selfFn == nil {
		return
	}
	ast.Inspect(t.fd.Body, func(n ast.Node) bool {
		if c, ok := n.(*ast.CallExpr); ok && t.isSelfCall(c) {
			t.recursive = true
		}
		return true
	})
	// mutual recursion: a function called from here (directly or through others) that calls this one
	seen := map[*types.Func]bool{t.selfFn: true}
	var reach func(fn *types.Func, path []string)
	reach = func(fn *types.Func, path []string) {
		for _, g := range t.set.calleesOf(t.set.funcDeclOf(fn)) {
			if g == t.selfFn && fn != t.selfFn {
				t.fail(t.fd, "mutual recursion (%s) is not supported (only a function that calls itself directly)", strings.Join(append(path, g.Name()), " → "))
			}
			if !seen[g] {
				seen[g] = true
				reach(g, append(path, g.Name()))
			}
		}
	}
	reach(t.selfFn, []string{t.selfFn.Name()})
	if !t.recursive {
		return
	}
	sig := &fnSig{lean: leanName, flow: true, method: t.fd.Recv != nil, pkg: t.set.tp.tpkg, recursive: true, fieldKinds: map[string]lkind{}}
	if t.set.ns != "" {
		sig.lean = t.set.ns + "." + leanName
	}
	t.selfSig = sig
	loopSigs[sigKey(t.set.tp.tpkg.Path(), t.sigKeyName())] = sig
}

// sigKeyName is the name under which the function is registered in loopSigs ("f" or "T.m").
func (t *loopTr) sigKeyName() string {
	if t.fd.Recv != nil {
		return strings.ReplaceAll(t.name, "!", "")
	}
	return t.fd.Name.Name
}

// completeSelfSig fills in the provisional signature once parameters, results, fields and output buffers are known.
func (t *loopTr) completeSelfSig() {
	if !t.recursive {
		return
	}
	if len(t.outBufs) > 0 || len(t.fieldOuts) > 0 || t.ctor {
		t.fail(t.fd, "a recursive function that writes into a parameter or assigns a field of its receiver is not supported")
	}
	sig := t.selfSig
	sig.rets = t.rets
	sig.errAt = t.errAt
	for _, f := range t.fd.Type.Params.List {
		for _, id := range f.Names {
			sig.params = append(sig.params, t.kindOf(t.info.Defs[id].Type(), id))
		}
	}
	for _, f := range t.fields {
		sig.fieldsIn = append(sig.fieldsIn, f.Name())
		sig.fieldKinds[f.Name()] = t.kindOf(f.Type(), t.fd)
	}
}

// selfDepsMark stands, in the text of a call of the function itself, for the dependency arguments: they are only known
// when the whole body has been translated (a function passes all its dependencies on to itself).
const selfDepsMark = "\x01selfdeps\x01"

// calleeHead is the beginning of a call of sig: its Lean name, the dependency arguments, and the fuel for a call of the
// (recursive) function itself.
func (t *loopTr) calleeHead(at ast.Node, sig *fnSig) []string {
	if sig.recursive {
		if sig != t.selfSig {
			t.fail(at, "call of the recursive function %s from another function is not supported (the caller would have to supply the fuel)", sig.lean)
		}
		return []string{sig.lean, selfDepsMark, "fuel"}
	}
	return append([]string{sig.lean}, t.depArgs(sig)...)
}

// resolveSelfDeps replaces the marks left by calleeHead by the names of the dependencies of the function.
func (t *loopTr) resolveSelfDeps(body string) string {
	var dn []string
	for n := range t.absDeps {
		dn = append(dn, n)
	}
	sort.Strings(dn)
	deps := ""
	if len(dn) > 0 {
		deps = strings.Join(dn, " ") + " "
	}
	return strings.ReplaceAll(body, selfDepsMark+" ", deps)
}

// noteSelfArgs records, for a call of the function itself, which slice arguments are windows of which parameters.
func (t *loopTr) noteSelfArgs(c *ast.CallExpr) {
	for i, a := range c.Args {
		a = unparen(a)
		sa := selfArg{param: i}
		base := a
		if se, ok := a.(*ast.SliceExpr); ok {
			sa.upper = se.High != nil || se.Slice3
			base = unparen(se.X)
		}
		if ix, ok := base.(*ast.IndexExpr); ok {
			base = unparen(ix.X)
		}
		if o := t.varOf(base); o != nil && t.params[o] {
			if _, isSlice := o.Type().Underlying().(*types.Slice); isSlice {
				sa.base = o
			}
		}
		if o := t.varOf(base); o != nil && t.spareCap[o] {
			sa.upper = true // a local that was cut by x = x[:k]
		}
		if sa.base != nil || sa.upper {
			t.selfArgs = append(t.selfArgs, sa)
		}
	}
}

// closeSelfCap completes capSens for a recursive function (a parameter of which a window is passed to the function itself
// for a parameter it slices with an upper bound is itself capacity-sensitive) and finds the parameters for which the
// capacity caveat of recHeaderText applies: those that receive a window with an upper bound and are sliced with one.
func (t *loopTr) closeSelfCap() {
	if !t.recursive {
		return
	}
	var params []types.Object
	for _, f := range t.fd.Type.Params.List {
		for _, id := range f.Names {
			params = append(params, t.info.Defs[id])
		}
	}
	for changed := true; changed; {
		changed = false
		for _, sa := range t.selfArgs {
			if sa.param < len(params) && t.capSens[params[sa.param]] && sa.base != nil && !t.capSens[sa.base] {
				t.capSens[sa.base] = true
				changed = true
			}
		}
	}
	seen := map[types.Object]bool{}
	for _, sa := range t.selfArgs {
		if sa.upper && sa.param < len(params) && t.capSens[params[sa.param]] && !seen[params[sa.param]] {
			seen[params[sa.param]] = true
			t.capCaveat = append(t.capCaveat, "`"+t.vars[params[sa.param]]+"`")
		}
	}
}

// ---------------------------------------------------------------- return f(…)

// tupleRetCall recognises `return f(…)` in a function with several results, f a translated function.
func (t *loopTr) tupleRetCall(s *ast.ReturnStmt) (*ast.CallExpr, *fnSig) {
	if len(s.Results) != 1 || len(t.rets) < 2 || t.ctor {
		return nil, nil
	}
	c, ok := unparen(s.Results[0]).(*ast.CallExpr)
	if !ok {
		return nil, nil
	}
	sig, _ := t.sigOf(c)
	if sig == nil {
		return nil, nil
	}
	return c, sig
}

// returnCall translates `return f(…)` (see recHeaderText).
func (t *loopTr) returnCall(s *ast.ReturnStmt, c *ast.CallExpr, sig *fnSig, list []ast.Stmt, ind string, m blockMode) string {
	if !m.flow && !m.tail {
		t.fail(s, "return inside a loop or a conditional that is not in tail position")
	}
	if len(list) > 1 {
		t.fail(list[1], "statement after return")
	}
	if len(sig.rets) != len(t.rets) {
		t.fail(s, "return arity")
	}
	if len(sig.outIdx) != 0 || len(sig.fieldsOut) != 0 || sig.abstract || c.Ellipsis.IsValid() || len(c.Args) != len(sig.params) {
		t.fail(s, "returning the results of %s directly: only supported for a function that does not write into a parameter or a field", sig.lean)
	}
	if sig.flow && !m.flow {
		t.fail(c, "internal error: call of a function that may panic outside a flow block")
	}
	var argNodes []ast.Node
	for _, a := range c.Args {
		argNodes = append(argNodes, a)
	}
	hpre, hpost := t.hoistCalls(ind, m, c, argNodes...)
	t.checkCapArgs(c, sig)
	parts := append(t.calleeHead(c, sig), t.readOnlyRecvArgs(c, sig)...)
	for i, a := range c.Args {
		v, k := t.argValue(a)
		if k != sig.params[i] && !(sig.params[i] == kBytes && k == kString) {
			t.fail(a, "argument of type %s for a parameter of type %s", k.lean(), sig.params[i].lean())
		}
		parts = append(parts, v)
	}
	pre := t.guards(s, ind, m)
	var tys []string
	for _, k := range sig.rets {
		tys = append(tys, k.lean())
	}
	stn := t.freshName()
	var vals []string
	for i, k := range t.rets {
		vals = append(vals, t.convResult(s, proj(stn, i, len(tys)), sig.rets[i], k, sig))
	}
	val := t.retValue(s, vals)
	call := "(" + strings.Join(parts, " ") + ")"
	ty := strings.Join(tys, " × ")
	switch {
	case sig.flow:
		return hpre + pre + fmt.Sprintf("%sGo.Flow.bind (Go.call %s) (fun (%s : %s) =>\n%sGo.Flow.done %s)", ind, call, stn, ty, ind, atom(val)) + hpost
	case m.flow:
		return hpre + pre + fmt.Sprintf("%slet %s : %s := %s\n%sGo.Flow.done %s", ind, stn, ty, call, ind, atom(val)) + hpost
	}
	return hpre + fmt.Sprintf("%slet %s : %s := %s\n%s%s", ind, stn, ty, call, ind, val) + hpost
}

// convResult renders the result component val (of kind from) of a call of sig as a value of kind to: equal kinds, or an
// error converted to the error carrier of this function (errors of another package qualified by its name), as flowCall
// does for `x, err := f(…)`.
func (t *loopTr) convResult(at ast.Node, val string, from, to lkind, sig *fnSig) string {
	if isErrKind(to) && isErrKind(from) && sig.pkg != nil && sig.pkg != t.set.tp.tpkg {
		q := map[lkind]string{kErr: "Go.errQual", kErrAt: "Go.errQualAt", kErrOpt: "Go.errQualOpt"}[from]
		val = fmt.Sprintf("(%s %s %s)", q, leanString(sig.pkg.Name()), val)
	}
	switch {
	case from == to:
		return val
	case to == kErrOpt && from == kErr:
		return "(Go.errOfPlain " + val + ")"
	case to == kErrOpt && from == kErrAt:
		return "(Go.errOfAt " + val + ")"
	}
	t.fail(at, "a result of type %s of %s returned as %s", from.lean(), sig.lean, to.lean())
	return ""
}

// ---------------------------------------------------------------- hash.Hash

const hashSumType = "List (BitVec 8) → List (BitVec 8)"

const hashShape = "a hash.Hash is only supported as a local `h := c.f.New()` (c the receiver, f a field of type crypto.Hash) that is used as the statement `h.Write(b)` and as `h.Sum(nil)`"

// hashNewCall returns the field f when c is `recv.f.New()` with f a field of the receiver of type crypto.Hash.
func (t *loopTr) hashNewCall(e ast.Expr) *types.Var {
	c, ok := unparen(e).(*ast.CallExpr)
	if !ok || t.recv == nil || t.ctor {
		return nil
	}
	sel, ok := unparen(c.Fun).(*ast.SelectorExpr)
	if !ok || sel.Sel.Name != "New" {
		return nil
	}
	f, _ := t.fieldOf(sel.X).(*types.Var)
	if f == nil || !isNamedType(f.Type(), "crypto", "Hash") {
		return nil
	}
	if fn, ok := t.info.Uses[sel.Sel].(*types.Func); !ok || fn.Pkg() == nil || fn.Pkg().Path() != "crypto" {
		return nil
	}
	if len(c.Args) != 0 {
		return nil
	}
	return f
}

// hashCall recognises h.Method(…) on a local variable of type hash.Hash.
func (t *loopTr) hashCall(c *ast.CallExpr) (types.Object, string) {
	sel, ok := unparen(c.Fun).(*ast.SelectorExpr)
	if !ok {
		return nil, ""
	}
	id, ok := unparen(sel.X).(*ast.Ident)
	if !ok {
		return nil, ""
	}
	o := t.objOf(id)
	if v, isVar := o.(*types.Var); !isVar || v.IsField() || !isNamedType(o.Type(), "hash", "Hash") {
		return nil, ""
	}
	return o, sel.Sel.Name
}

// hashFieldOf returns the crypto.Hash field whose New() made the hash.Hash local o: every definition of and assignment
// to o must be `c.f.New()` with the same field f.
func (t *loopTr) hashFieldOf(at ast.Node, o types.Object) *types.Var {
	if f, ok := t.hashFields[o]; ok {
		return f
	}
	var field *types.Var
	n := 0
	note := func(rhs ast.Expr) {
		n++
		f := t.hashNewCall(rhs)
		if rhs == nil || f == nil || (field != nil && f != field) {
			t.fail(at, "%s (`%s` is defined or assigned in another way)", hashShape, o.Name())
		}
		field = f
	}
	ast.Inspect(t.fd.Body, func(m ast.Node) bool {
		switch s := m.(type) {
		case *ast.AssignStmt:
			for i, l := range s.Lhs {
				if id, ok := unparen(l).(*ast.Ident); ok && t.objOf(id) == o {
					if len(s.Lhs) == len(s.Rhs) {
						note(s.Rhs[i])
					} else {
						note(nil)
					}
				}
			}
		case *ast.ValueSpec:
			for i, id := range s.Names {
				if t.objOf(id) == o {
					if i < len(s.Values) && len(s.Values) == len(s.Names) {
						note(s.Values[i])
					} else {
						note(nil)
					}
				}
			}
		case *ast.RangeStmt:
			for _, e := range []ast.Expr{s.Key, s.Value} {
				if id, ok := e.(*ast.Ident); ok && t.objOf(id) == o {
					note(nil)
				}
			}
		}
		return true
	})
	if n == 0 || field == nil || t.params[o] {
		t.fail(at, "%s", hashShape)
	}
	if t.hashFields == nil {
		t.hashFields = map[types.Object]*types.Var{}
	}
	t.hashFields[o] = field
	return field
}

// hashSumDep returns the name of the parameter that stands for Sum(nil) of the hash function in field f, and records it
// as a dependency of the function (passed on by every caller).
func (t *loopTr) hashSumDep(at ast.Node, f *types.Var) string {
	name := f.Name() + "_sum"
	if ty, ok := t.absDeps[name]; ok && ty != hashSumType {
		t.fail(at, "the parameter name %s for the hash function of field %s is already used for a parameter of another kind", name, f.Name())
	}
	for o, n := range t.vars {
		if n == name {
			t.fail(at, "variable name %s clashes with the parameter that stands for the hash function of field %s", o.Name(), f.Name())
		}
	}
	if leanReserved[name] || t.set.all[name] {
		t.fail(at, "the parameter name %s for the hash function of field %s clashes with a name used by the generated Lean text", name, f.Name())
	}
	t.absDeps[name] = hashSumType
	if t.hashDeps == nil {
		t.hashDeps = map[string]string{}
	}
	t.hashDeps[name] = f.Name()
	hashDepNames[name] = f.Name()
	return name
}

// hashDepNames: the dependency parameters that stand for hash functions (for the doc comments of the callers that pass
// them on): name -> field name.
var hashDepNames = map[string]string{}

// isNilArg: the call has the single argument `nil`.
func (t *loopTr) isNilArg(c *ast.CallExpr) bool {
	if len(c.Args) != 1 || c.Ellipsis.IsValid() {
		return false
	}
	id, ok := unparen(c.Args[0]).(*ast.Ident)
	if !ok {
		return false
	}
	_, isNil := t.info.Uses[id].(*types.Nil)
	return isNil
}

// hashExpr translates the calls that involve a hash object as expressions: c.f.New(), h.Sum(nil), c.f.New().Sum(nil).
func (t *loopTr) hashExpr(x *ast.CallExpr) (string, lkind, bool) {
	if f := t.hashNewCall(x); f != nil {
		return "([] : List (BitVec 8))", kHash, true
	}
	if o, m := t.hashCall(x); o != nil {
		name, local := t.vars[o]
		if !local {
			t.fail(x, "%s", hashShape)
		}
		switch {
		case m == "Write":
			t.fail(x, "h.Write(…) is only supported as a statement of its own (its results are ignored: Write of a hash.Hash never fails)")
		case m != "Sum":
			t.fail(x, "hash.Hash.%s is not supported (only Write as a statement and Sum(nil))", m)
		case !t.isNilArg(x):
			t.fail(x, "hash.Hash.Sum is only supported with the literal argument nil (Sum(b) appends to b)")
		}
		return "(" + t.hashSumDep(x, t.hashFieldOf(x, o)) + " " + name + ")", kBytes, true
	}
	if sel, ok := unparen(x.Fun).(*ast.SelectorExpr); ok {
		if f := t.hashNewCall(sel.X); f != nil {
			switch {
			case sel.Sel.Name != "Sum":
				t.fail(x, "c.f.New().%s is not supported (only c.f.New().Sum(nil) and `h := c.f.New()`)", sel.Sel.Name)
			case !t.isNilArg(x):
				t.fail(x, "hash.Hash.Sum is only supported with the literal argument nil (Sum(b) appends to b)")
			}
			return "(" + t.hashSumDep(x, f) + " ([] : List (BitVec 8)))", kBytes, true
		}
	}
	return "", 0, false
}

// hashStmt translates the statement h.Write(b).
func (t *loopTr) hashStmt(s *ast.ExprStmt, c *ast.CallExpr, o types.Object, method string) []binding {
	name, local := t.vars[o]
	if !local {
		t.fail(s, "%s", hashShape)
	}
	if method != "Write" {
		t.fail(s, "hash.Hash.%s is not supported (only Write as a statement and Sum(nil))", method)
	}
	if len(c.Args) != 1 || c.Ellipsis.IsValid() {
		t.fail(s, "arity")
	}
	t.hashFieldOf(s, o) // checks how h was made
	v, k := t.argValue(c.Args[0])
	if k != kBytes {
		t.fail(s, "Write of %s", k.lean())
	}
	return []binding{{name: name, kind: kHash, val: fmt.Sprintf("(%s ++ %s)", name, v), checks: t.takeChecks()}}
}

// ---------------------------------------------------------------- encoding.BinaryMarshaler

// marshDefault is the value List.getD falls back to for a list of marshalers (never reached: the index is checked).
const marshDefault = "(([] : List (BitVec 8)), (none : Option String))"

// marshalRecv returns the operand d when e is the call `d.MarshalBinary()` on a value of type encoding.BinaryMarshaler.
func (t *loopTr) marshalRecv(e ast.Expr) ast.Expr {
	c, ok := unparen(e).(*ast.CallExpr)
	if !ok || len(c.Args) != 0 {
		return nil
	}
	sel, ok := unparen(c.Fun).(*ast.SelectorExpr)
	if !ok || sel.Sel.Name != "MarshalBinary" {
		return nil
	}
	tv, ok := t.info.Types[sel.X]
	if !ok || !isNamedType(tv.Type, "encoding", "BinaryMarshaler") {
		return nil
	}
	return sel.X
}

func (t *loopTr) isMarshalCall(e ast.Expr) bool { return t.marshalRecv(e) != nil }
