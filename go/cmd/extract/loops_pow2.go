// Translation of Go into Lean, stage 14: the integer core of pkg/pow/v2 (sufficientTrailingZeros, targetHash).
//
//   - `a / b`, `a % b` with a NON-constant divisor of type uint or uint64: a zero
//     divisor is a run-time panic, so the function is built as a Go.Flow and the check `b != 0` precedes the statement
//     (loops_expr.go: divisorCheck; loops_flow.go: needsFlow).  Signed non-constant division stays rejected.
//   - `for i, v := a, c; …` — additional variables in the init statement of a three-clause loop, initialised with
//     constants (loops_flow.go: forStmt).
//   - math/big: z.SetUint64(e), z.Quo(x, y) (panics for y = 0), and package-level *big.Int "constants" initialised by
//     new(big.Int).SetUint64(c) or by a call of the package's own hex-parsing helper with a constant string of hex digits.
//   - toInt / stateToInt: modifying calls as operands of a modifying call that is a statement (pow2NestedOK, pow2Hoist),
//     and a read-only window `w := x[a:b]` of a read-only slice parameter (pow2Window).
package main

import (
	"go/ast"
	"go/constant"
	"go/token"
	"go/types"
	"math/big"
)

// pow2HeaderText is appended to the header of generated files whose translated code uses stage 14.
const pow2HeaderText = `/-
Additional semantics, stage 14 (pkg/pow/v2):
* x / y and x % y with a NON-constant divisor y of type uint or uint64 (x /= y and x %= y are not supported): Go panics
  for y = 0, so the function is Option-valued (none = run-time panic) and the check "if !(y != 0#64) then panic" stands
  in front of the statement, after the checks of the operands (both are evaluated first); otherwise the value is
  BitVec.udiv / BitVec.umod (the "/" and "%" of BitVec).  A non-constant divisor of a SIGNED type is rejected.
* "for i, v := a, c; cond; post { … }": the first variable is the loop variable (as before); each further variable of
  the init statement must be new, of type int / uint / uint64, and initialised with a CONSTANT; it is declared in front
  of the loop ("let v := c") and is part of the loop state when the body assigns it.  It must not occur in the
  condition or the post statement.
* math/big: z.SetUint64(e) ↦ ((e).toNat : Int) (e : uint64; a constant e ↦ the literal).
  z.Quo(x, y) ↦ Int.tdiv x y — big.Int.Quo is the TRUNCATED division (rounds toward zero, as Go's / on machine
  integers) — and, since Go panics for y = 0, the check "if !(decide (y ≠ 0)) then panic" in front of the statement
  (as for Mod).  QuoRem, Div, DivMod, Rem, Exp, SetString, … stay rejected.
* "w.Op2(…, v.Op(…), …)" as a statement, v and w local *big.Int variables that may be modified: Go evaluates the
  operands, the calls among them included, from left to right before Op2 runs, and a modifying method returns its
  receiver, so the statement is "v.Op(…); …; w.Op2(…, v, …)": one "let" per nested call, in source order, then the
  "let" of w.  Only one level of nesting, only in a statement of its own.
* "w := x[a:b]" (also x[a:], x[:b]), x a slice PARAMETER that the function never writes by index, assigns or reslices
  (and that is not an output buffer), w a new local variable defined by this statement only and used only as w[i]
  (read) and len(w): a read-only window.  Nothing writes the shared backing array while the function runs (the
  standing assumption on parameters), so w is the VALUE (x.drop a).take (b - a), after the bounds check
  Go.sliceOK a b x.length (0 ≤ a ≤ b ≤ len(x); for a parameter that is never cut the capacity Go checks b against is
  not below the length, and a caller passing a slice with spare capacity would make Go accept a b that this check
  rejects: the translation then says "panic" where Go continues — ASSUMPTION, as for slice arguments: cap = len).
  Every other use of w (passing it on, returning it, reslicing it, ranging over it, writing w[i]) is rejected.
* A package-level *big.Int variable is a CONSTANT (its value a Lean Int literal computed by the translator) when it is
  unexported, never written and only used as an operand (not the receiver) of a math/big method or as the receiver of
  Sign, Cmp, Int64 or Bytes anywhere in its package (the rule of stage 12), and its initialiser is one of
  - big.NewInt(k) (stage 12), new(big.Int).SetUint64(k), k a constant;
  - f("…") where f is a function of the package whose body is exactly
      "b, _ := new(big.Int).SetString(s, 16); return b"   (s the only parameter, a string; *big.Int the only result)
    and the argument is a constant string of one or more hexadecimal digits 0-9a-fA-F and nothing else (no sign, no
    prefix, no underscore): SetString then succeeds, b is not nil, and the value is the number the digits denote in
    base 16 (computed with math/big).  Any other base, body or argument is rejected.
-/
`

func init() {
	bigSetters["SetUint64"] = true
	bigSetters["Quo"] = true
}

// pow2Panics: c is z.Quo(x, y), which panics for y = 0.
func (t *loopTr) pow2Panics(c *ast.CallExpr) bool {
	_, name := t.bigMethod(c)
	return name == "Quo"
}

// pow2OpValue is bigOpValue for the modifying methods of stage 14; ok = false: not one.
func (t *loopTr) pow2OpValue(c *ast.CallExpr, name string) (string, bool) {
	switch name {
	case "SetUint64":
		if len(c.Args) != 1 || c.Ellipsis.IsValid() {
			t.fail(c, "arity of %s", name)
		}
		e := c.Args[0]
		if tv := t.typeOf(e); tv.Value != nil {
			k := constant.ToInt(tv.Value)
			if k.Kind() != constant.Int || constant.Sign(k) < 0 {
				t.fail(e, "constant %s is not an unsigned integer", tv.Value)
			}
			return "(" + k.ExactString() + " : Int)", true
		}
		if b, ok := t.typeOf(e).Type.Underlying().(*types.Basic); !ok || b.Kind() != types.Uint64 {
			t.fail(e, "argument of type %s where a uint64 is expected", t.typeOf(e).Type)
		}
		s, k := t.expr(e)
		if k != kUint {
			t.fail(e, "argument of type %s where a uint64 is expected", k.lean())
		}
		return "((BitVec.toNat " + s + " : Nat) : Int)", true
	case "Quo":
		if len(c.Args) != 2 || c.Ellipsis.IsValid() {
			t.fail(c, "arity of %s", name)
		}
		a, b := t.bigOperand(c.Args[0]), t.bigOperand(c.Args[1])
		t.addCheck("(decide (" + b + " ≠ 0))") // Go panics for a zero divisor
		return "(Int.tdiv " + a + " " + b + ")", true
	}
	return "", false
}

// pow2ConstInit: the initialiser of a package-level *big.Int variable has one of the stage-14 shapes; its value.
func (t *loopTr) pow2ConstInit(init ast.Expr) (*big.Int, bool) {
	c, ok := unparen(init).(*ast.CallExpr)
	if !ok || c.Ellipsis.IsValid() {
		return nil, false
	}
	// new(big.Int).SetUint64(k)
	if recv, name := t.bigMethod(c); recv != nil {
		if name != "SetUint64" || !t.isNewBig(recv) || len(c.Args) != 1 {
			return nil, false
		}
		tv, ok := t.info.Types[c.Args[0]]
		if !ok || tv.Value == nil {
			return nil, false
		}
		k := constant.ToInt(tv.Value)
		if k.Kind() != constant.Int || constant.Sign(k) < 0 {
			return nil, false
		}
		v, ok := new(big.Int).SetString(k.ExactString(), 10)
		return v, ok
	}
	// f("hex digits"), f the package's helper around new(big.Int).SetString(s, 16)
	id, ok := unparen(c.Fun).(*ast.Ident)
	if !ok || len(c.Args) != 1 {
		return nil, false
	}
	f, ok := t.info.Uses[id].(*types.Func)
	if !ok || f.Pkg() != t.set.tp.tpkg || f.Type().(*types.Signature).Recv() != nil {
		return nil, false
	}
	fd := t.set.p.funcDecl(f.Name())
	if fd == nil || !t.isHexHelper(fd) {
		return nil, false
	}
	tv, ok := t.info.Types[c.Args[0]]
	if !ok || tv.Value == nil || tv.Value.Kind() != constant.String {
		return nil, false
	}
	s := constant.StringVal(tv.Value)
	if len(s) == 0 {
		return nil, false
	}
	for _, ch := range []byte(s) {
		if !(('0' <= ch && ch <= '9') || ('a' <= ch && ch <= 'f') || ('A' <= ch && ch <= 'F')) {
			return nil, false
		}
	}
	v, ok := new(big.Int).SetString(s, 16)
	return v, ok
}

// isHexHelper: fd is exactly `func f(s string) *big.Int { b, _ := new(big.Int).SetString(s, 16); return b }`.
func (t *loopTr) isHexHelper(fd *ast.FuncDecl) bool {
	if fd.Recv != nil || fd.Body == nil || fd.Type.TypeParams != nil || len(fd.Body.List) != 2 {
		return false
	}
	ps := fd.Type.Params.List
	if len(ps) != 1 || len(ps[0].Names) != 1 || ps[0].Names[0].Name == "_" {
		return false
	}
	po := t.info.Defs[ps[0].Names[0]]
	if pb, ok := po.Type().(*types.Basic); !ok || pb.Kind() != types.String {
		return false
	}
	if _, variadic := ps[0].Type.(*ast.Ellipsis); variadic {
		return false
	}
	rs := fd.Type.Results
	if rs == nil || len(rs.List) != 1 || len(rs.List[0].Names) != 0 {
		return false
	}
	if rtv, ok := t.info.Types[rs.List[0].Type]; !ok || !isBigIntPtr(rtv.Type) {
		return false
	}
	as, ok := fd.Body.List[0].(*ast.AssignStmt)
	if !ok || as.Tok != token.DEFINE || len(as.Lhs) != 2 || len(as.Rhs) != 1 {
		return false
	}
	bid, ok1 := as.Lhs[0].(*ast.Ident)
	blank, ok2 := as.Lhs[1].(*ast.Ident)
	if !ok1 || !ok2 || bid.Name == "_" || blank.Name != "_" {
		return false
	}
	c, ok := unparen(as.Rhs[0]).(*ast.CallExpr)
	if !ok || len(c.Args) != 2 || c.Ellipsis.IsValid() {
		return false
	}
	recv, name := t.bigMethod(c)
	if recv == nil || name != "SetString" || !t.isNewBig(recv) {
		return false
	}
	aid, ok := unparen(c.Args[0]).(*ast.Ident)
	if !ok || t.info.Uses[aid] != po {
		return false
	}
	if base, isConst := t.constInt(c.Args[1]); !isConst || base.Cmp(big.NewInt(16)) != 0 {
		return false
	}
	ret, ok := fd.Body.List[1].(*ast.ReturnStmt)
	if !ok || len(ret.Results) != 1 {
		return false
	}
	rid, ok := unparen(ret.Results[0]).(*ast.Ident)
	return ok && t.info.Uses[rid] == t.info.Defs[bid]
}

// ---------------------------------------------------------------- nested modifying calls

// pow2NestedOK: in bigCheck — the result of the modifying call `v.Op(…)` on the local v is an OPERAND of another modifying
// math/big call `w.Op2(…, v.Op(…), …)` on an identifier w, which is a statement of its own (bigCheck checks w where it
// visits it: a local variable).  Go evaluates the operands, calls included, from left to right before Op2 runs, and each
// nested call returns its receiver: the statement is `v.Op(…); …; w.Op2(…, v, …)` (pow2Hoist), exactly.
func (t *loopTr) pow2NestedOK(call *ast.CallExpr, stack []ast.Node) bool {
	var anc []ast.Node
	seen := false
	for i := len(stack) - 1; i >= 0; i-- {
		if stack[i] == ast.Node(call) {
			seen = true
			continue
		}
		if !seen {
			continue
		}
		if _, isParen := stack[i].(*ast.ParenExpr); isParen {
			continue
		}
		anc = append(anc, stack[i])
	}
	if len(anc) < 2 || t.bigMutCall(call) == nil {
		return false
	}
	outer, ok := anc[0].(*ast.CallExpr)
	if !ok || t.bigMutCall(outer) == nil || outer.Ellipsis.IsValid() {
		return false
	}
	isArg := false
	for _, a := range outer.Args {
		if unparen(a) == ast.Expr(call) {
			isArg = true
		}
	}
	if !isArg {
		return false
	}
	// the operands of the nested call are plain (no further nesting)
	for _, a := range call.Args {
		if _, isCall := unparen(a).(*ast.CallExpr); isCall {
			if tv, ok := t.info.Types[a]; ok && isBigIntPtr(tv.Type) {
				return false
			}
		}
	}
	_, isStmt := anc[1].(*ast.ExprStmt)
	return isStmt
}

// pow2Hoist: c is `w.Op2(a1, …)`; the operands that are modifying calls `v.Op(…)` on identifiers are returned in source
// order, and c with each of them replaced by its receiver v (the pointer the call returns).  No such operand: (c, nil).
func (t *loopTr) pow2Hoist(c *ast.CallExpr) (*ast.CallExpr, []*ast.CallExpr) {
	var inner []*ast.CallExpr
	args := make([]ast.Expr, len(c.Args))
	for i, a := range c.Args {
		args[i] = a
		if ic, isCall := unparen(a).(*ast.CallExpr); isCall && t.bigMutCall(ic) != nil {
			recv, _ := t.bigMethod(ic)
			inner = append(inner, ic)
			args[i] = unparen(recv)
		}
	}
	if len(inner) == 0 {
		return c, nil
	}
	c2 := &ast.CallExpr{Fun: c.Fun, Lparen: c.Lparen, Args: args, Ellipsis: c.Ellipsis, Rparen: c.Rparen}
	t.info.Types[c2] = t.info.Types[c]
	return c2, inner
}

// ---------------------------------------------------------------- a read-only window of a read-only slice parameter

// pow2Window translates `w := x[a:b]` (also x[a:], x[:b]) where x is a slice parameter that the function only reads
// (never written by index, never assigned, never resliced, not an output buffer) and w is a new local variable that is
// defined by this statement only and used only as w[i] (read) and len(w): nobody writes the shared backing array while
// the function runs, so the window is the VALUE (x.drop a).take (b - a), after the bounds check 0 ≤ a ≤ b ≤ len(x)
// (b is checked against the length; callers inside the translated code must not pass a slice with spare capacity:
// noteCapSensitive / checkCapArgs).  ok = false: s does not have this shape at all (no `:=` of a slice expression of an
// integer slice); every near miss fails.
func (t *loopTr) pow2Window(s *ast.AssignStmt, wo types.Object, k lkind) (string, bool) {
	if len(s.Lhs) != 1 || len(s.Rhs) != 1 {
		return "", false
	}
	se, ok := unparen(s.Rhs[0]).(*ast.SliceExpr)
	if !ok {
		return "", false
	}
	if xtv, ok := t.info.Types[se.X]; !ok || xtv.Type == nil {
		return "", false
	} else if _, isSlice := xtv.Type.Underlying().(*types.Slice); !isSlice {
		return "", false // strings (values) and arrays are handled elsewhere
	}
	const shape = "`w := x[a:b]` is only supported as a read-only window: x a slice parameter the function never writes, assigns or reslices, " +
		"w a new variable defined by this statement only and used only as w[i] (read) and len(w)"
	if s.Tok != token.DEFINE || !k.isSlice() {
		return "", false // `x = x[a:b]`, slices of other element kinds: rejected as before ("unsupported expression")
	}
	xid, isId := unparen(se.X).(*ast.Ident)
	lid := unparen(s.Lhs[0]).(*ast.Ident)
	if !isId || se.Slice3 || t.info.Defs[lid] != wo {
		t.fail(s, "%s", shape)
	}
	xo := t.info.Uses[xid]
	f := t.facts
	if xo == nil || !t.params[xo] || t.isOutBuf(xo) || f.plain[xo] != 0 || f.indexed[xo] || f.resliced[xo] || f.marshRes[xo] {
		t.fail(s, "%s (%s is not such a parameter)", shape, xid.Name)
	}
	if len(f.defs[wo]) != 1 || f.plain[wo] != 0 || f.indexed[wo] || f.resliced[wo] || !k.isSlice() {
		t.fail(s, "%s (%s is assigned elsewhere)", shape, lid.Name)
	}
	// every use of w: w[i] or len(w)
	var stack []ast.Node
	ast.Inspect(t.fd.Body, func(n ast.Node) bool {
		if n == nil {
			stack = stack[:len(stack)-1]
			return true
		}
		stack = append(stack, n)
		id, ok := n.(*ast.Ident)
		if !ok || t.info.Uses[id] != wo {
			return true
		}
		var parent ast.Node
		child := ast.Node(id)
		for i := len(stack) - 2; i >= 0; i-- {
			if _, isParen := stack[i].(*ast.ParenExpr); isParen {
				child = stack[i]
				continue
			}
			parent = stack[i]
			break
		}
		switch p := parent.(type) {
		case *ast.IndexExpr:
			if ast.Node(p.X) == child {
				return true
			}
		case *ast.CallExpr:
			if fid, ok := unparen(p.Fun).(*ast.Ident); ok && len(p.Args) == 1 && ast.Node(p.Args[0]) == child {
				if b, ok := t.info.Uses[fid].(*types.Builtin); ok && b.Name() == "len" {
					return true
				}
			}
		}
		t.fail(id, "%s (here %s is used in another way)", shape, id.Name)
		return true
	})
	v, vk := t.argValue(se)
	if vk != k {
		t.fail(s, "%s (element types)", shape)
	}
	return v, true
}
