package main

// Stage 13 of the loop translator (see loops.go, loops_big.go, loops_big2.go): the key types of pkg/slip10/elliptic.
// A receiver `p *T`, T a struct of the package whose fields are *big.Int values and one field `Curve elliptic.Curve`, or a
// value receiver `c T`, T a struct of the package that embeds elliptic.Curve (crypto/elliptic, a FOREIGN interface); the
// methods of that curve as PARAMETERS; results of a foreign interface type that are nil or `&T{…, curve}`.
// keyHeaderText states all of it.  Everything here is reached through one-line hooks (every hook is called keyXxx).

import (
	"fmt"
	"go/ast"
	"go/token"
	"go/types"
	"strings"
)

// keyHeaderText is appended to the header of generated files whose translated code uses stage 13.
const keyHeaderText = `/-
Additional semantics, stage 13 (the key types of pkg/slip10/elliptic):
* RECEIVER.  "p *T", T a struct type of the package whose fields are *big.Int values and exactly one field of the
  interface type crypto/elliptic.Curve, or "c T", T a struct type of the package whose only field is an embedded
  crypto/elliptic.Curve.  The *big.Int fields the body reads become parameters p_F (read-only, as in stage 10); the
  receiver may otherwise be used ONLY as its curve: "p.Curve" resp. "c" as the receiver of the three curve methods below
  and as the curve argument of a returned key literal.
* THE CURVE IS A SET OF PARAMETERS of the translated function (nothing about them is defined here; the tie states what it
  assumes): X.Params().N, accepted exactly in this form and only where stage 10 accepts a read-only *big.Int (an operand,
  never a receiver, never stored or returned) ↦ curve_N : Int; "x, y := X.ScalarBaseMult(b)" ↦
  curve_ScalarBaseMult b : Option (Int × Int) and "x, y := X.Add(x1, y1, x2, y2)" ↦ curve_Add x1 y1 x2 y2 :
  Option (Int × Int), both only as a statement of this form, none = the method panics (Go.Flow.bind (Go.call …)).  The two
  results are NOT known to be fresh: the locals they define are read-only (never modified, never reassigned: checked).
  ASSUMPTIONS made by passing them as values / functions: Params() and its field N are not nil and are not modified while
  the function runs; the methods are pure functions of the VALUES of their arguments, do not modify or retain them, and
  return non-nil results.
* RESULT OF A FOREIGN INTERFACE TYPE (slip10.Key) ↦ Option (Nat × List Int): none = the nil interface;
  some (i, [v1, …]) = a pointer to a NEW struct of the i-th struct type of the package (declaration order of the key struct
  types: those with *big.Int fields and a Curve field) whose *big.Int fields, in order, have the values v1, ….  The only
  values accepted are nil and "&T{e1, …, curve}" in a return statement, where curve is syntactically the receiver's own
  curve (it is dropped: the new key has the curve of the receiver) and every ei is a LOCAL *big.Int variable whose last
  use this is (the new struct is the only reference left: the caller owns it), or a read-only result of a curve method
  (the key then shares that big.Int with whatever the curve method retained — the documented crypto/elliptic methods
  retain nothing).  A parameter or field *big.Int in the literal is rejected.
-/
`

const (
	keyNType    = "Int"
	keySBMType  = "List (BitVec 8) → Option (Int × Int)"
	keyAddType  = "Int → Int → Int → Int → Option (Int × Int)"
	keyLeanType = "Option (Nat × List Int)"
)

// keyState is the per-function state of stage 13 (nil otherwise).
type keyState struct {
	viaField *types.Var            // the field `Curve` of the receiver struct (nil: the receiver itself is the curve)
	readOnly map[types.Object]bool // locals that hold results of curve methods
}

func isEllipticCurve(ty types.Type) bool { return isNamedType(ty, "crypto/elliptic", "Curve") }

// keyStructs returns the key struct types of the package (fields: *big.Int values and one elliptic.Curve), in declaration order.
func (t *loopTr) keyStructs() []*types.Named {
	var out []*types.Named
	scope := t.set.tp.tpkg.Scope()
	var tns []*types.TypeName
	for _, n := range scope.Names() {
		if tn, ok := scope.Lookup(n).(*types.TypeName); ok {
			tns = append(tns, tn)
		}
	}
	for i := range tns { // by position
		for j := i + 1; j < len(tns); j++ {
			if tns[j].Pos() < tns[i].Pos() {
				tns[i], tns[j] = tns[j], tns[i]
			}
		}
	}
	for _, tn := range tns {
		if named, ok := tn.Type().(*types.Named); ok {
			if _, _, ok := keyFields(named); ok {
				out = append(out, named)
			}
		}
	}
	return out
}

// keyFields: the *big.Int fields and the Curve field of a key struct type.
func keyFields(named *types.Named) (bigs []*types.Var, curve *types.Var, ok bool) {
	st, isStruct := named.Underlying().(*types.Struct)
	if !isStruct {
		return nil, nil, false
	}
	for i := 0; i < st.NumFields(); i++ {
		f := st.Field(i)
		switch {
		case isBigIntPtr(f.Type()):
			if curve != nil {
				return nil, nil, false // the curve must be the last field
			}
			bigs = append(bigs, f)
		case isEllipticCurve(f.Type()) && curve == nil && !f.Embedded():
			curve = f
		default:
			return nil, nil, false
		}
	}
	return bigs, curve, curve != nil && len(bigs) > 0
}

// keyIface: ty is an interface type of another package of the module that the key struct types of this package are
// returned as (a result type).
func (t *loopTr) keyIface(ty types.Type) bool {
	if t.key == nil {
		return false
	}
	named, ok := ty.(*types.Named)
	if !ok || named.Obj().Pkg() == nil || named.Obj().Pkg() == t.set.tp.tpkg || !strings.HasPrefix(named.Obj().Pkg().Path(), modulePrefix) {
		return false
	}
	_, isIface := named.Underlying().(*types.Interface)
	return isIface
}

// keyRecv recognises the receivers of stage 13 (see keyHeaderText).
func (t *loopTr) keyRecv() bool {
	fd := t.fd
	rid := fd.Recv.List[0].Names[0]
	ro := t.info.Defs[rid]
	if ro == nil {
		return false
	}
	st := &keyState{readOnly: map[types.Object]bool{}}
	var bigs []*types.Var
	if ptr, ok := ro.Type().(*types.Pointer); ok {
		named, ok := ptr.Elem().(*types.Named)
		if !ok || named.Obj().Pkg() != t.set.tp.tpkg {
			return false
		}
		b, c, ok := keyFields(named)
		if !ok {
			return false
		}
		bigs, st.viaField = b, c
	} else {
		named, ok := ro.Type().(*types.Named)
		if !ok || named.Obj().Pkg() != t.set.tp.tpkg {
			return false
		}
		s, ok := named.Underlying().(*types.Struct)
		if !ok || s.NumFields() != 1 || !s.Field(0).Embedded() || !isEllipticCurve(s.Field(0).Type()) {
			return false
		}
	}
	if t.recursive {
		t.fail(fd, "a recursive method with such a receiver is not supported")
	}
	t.recv, t.key, t.big = ro, st, &bigState{}
	const shape = "the receiver of a key method may only be used as p.F (F a *big.Int field) and as its curve (receiver of Params().N, ScalarBaseMult, Add; curve argument of a returned key literal)"
	okUse := map[*ast.Ident]bool{}
	used := map[*types.Var]bool{}
	ast.Inspect(fd.Body, func(n ast.Node) bool {
		switch x := n.(type) {
		case *ast.SelectorExpr:
			if id, isId := unparen(x.X).(*ast.Ident); isId && t.info.Uses[id] == ro {
				if v, isVar := t.info.Uses[x.Sel].(*types.Var); isVar && v.IsField() {
					for _, b := range bigs {
						if b == v {
							used[v] = true
							okUse[id] = true
						}
					}
				}
			}
		case *ast.CallExpr:
			if _, id := t.keyCurveCall(x); id != nil {
				okUse[id] = true
			}
		case *ast.CompositeLit:
			if id := t.keyLitCurveIdent(x); id != nil {
				okUse[id] = true
			}
		}
		return true
	})
	ast.Inspect(fd.Body, func(n ast.Node) bool {
		if id, ok := n.(*ast.Ident); ok && t.info.Uses[id] == ro && !okUse[id] {
			t.fail(id, "%s (here it is used in another way)", shape)
		}
		return true
	})
	for _, f := range bigs {
		if used[f] {
			name := rid.Name + "_" + f.Name()
			if leanReserved[name] || t.set.all[name] {
				t.fail(fd, "field name %s clashes with a name used by the generated Lean text", name)
			}
			t.vars[f] = name
			t.fields = append(t.fields, f)
		}
	}
	return true
}

// keyCurveExpr: e is syntactically the receiver's curve (`c`, or `p.Curve`); returns the receiver identifier.
func (t *loopTr) keyCurveExpr(e ast.Expr) *ast.Ident {
	if t.key == nil {
		return nil
	}
	e = unparen(e)
	if t.key.viaField == nil {
		if id, ok := e.(*ast.Ident); ok && t.info.Uses[id] == t.recv {
			return id
		}
		return nil
	}
	if sel, ok := e.(*ast.SelectorExpr); ok {
		if id, isId := unparen(sel.X).(*ast.Ident); isId && t.info.Uses[id] == t.recv && t.info.Uses[sel.Sel] == types.Object(t.key.viaField) {
			return id
		}
	}
	return nil
}

// keyCurveCall: c is X.Params(), X.ScalarBaseMult(…) or X.Add(…) with X the receiver's curve; returns the method name.
func (t *loopTr) keyCurveCall(c *ast.CallExpr) (string, *ast.Ident) {
	sel, ok := unparen(c.Fun).(*ast.SelectorExpr)
	if !ok {
		return "", nil
	}
	id := t.keyCurveExpr(sel.X)
	if id == nil {
		return "", nil
	}
	f, ok := t.info.Uses[sel.Sel].(*types.Func)
	if !ok || f.Pkg() == nil || f.Pkg().Path() != "crypto/elliptic" {
		return "", nil
	}
	switch f.Name() {
	case "Params", "ScalarBaseMult", "Add":
		return f.Name(), id
	}
	return "", nil
}

// keyCurveN: e is X.Params().N with X the receiver's curve.
func (t *loopTr) keyCurveN(e ast.Expr) bool {
	sel, ok := unparen(e).(*ast.SelectorExpr)
	if !ok || sel.Sel.Name != "N" {
		return false
	}
	c, ok := unparen(sel.X).(*ast.CallExpr)
	if !ok || len(c.Args) != 0 {
		return false
	}
	name, _ := t.keyCurveCall(c)
	if name != "Params" {
		return false
	}
	v, ok := t.info.Uses[sel.Sel].(*types.Var)
	return ok && v.IsField() && isBigIntPtr(v.Type())
}

func (t *loopTr) keyDep(at ast.Node, name, ty, note string) string {
	for o, n := range t.vars {
		if n == name {
			t.fail(at, "variable name %s clashes with the parameter that stands for a method of the curve", o.Name())
		}
	}
	if old, ok := t.absDeps[name]; (ok && old != ty) || leanReserved[name] || t.set.all[name] {
		t.fail(at, "the parameter name %s clashes with a name used by the generated Lean text", name)
	}
	t.absDeps[name] = ty
	externDepNotes[name] = [2]string{ty, note + " of the receiver's curve (a crypto/elliptic.Curve) — not modelled, see the header, stage 13; passed in by the caller"}
	return name
}

// keyExpr translates X.Params().N.
func (t *loopTr) keyExpr(e ast.Expr) (string, lkind, bool) {
	if t.key == nil || !t.keyCurveN(e) {
		return "", 0, false
	}
	return t.keyDep(e, "curve_N", keyNType, "the order Params().N"), kBig, true
}

// keyPanics: c is a call of ScalarBaseMult / Add of the receiver's curve (Option-valued parameters).
func (t *loopTr) keyPanics(c *ast.CallExpr) bool {
	name, _ := t.keyCurveCall(c)
	return name == "ScalarBaseMult" || name == "Add"
}

// keyCallOK: in bigCheck — the call c of a curve method is in its accepted position (checked again where it is translated).
func (t *loopTr) keyCallOK(c *ast.CallExpr) bool {
	name, _ := t.keyCurveCall(c)
	return name == "ScalarBaseMult" || name == "Add"
}

// keyStmt translates `x, y := X.ScalarBaseMult(b)` and `x, y := X.Add(x1, y1, x2, y2)`.
func (t *loopTr) keyStmt(s ast.Stmt, ind string, m blockMode, rest func(string) string) (string, bool) {
	if t.key == nil {
		return "", false
	}
	var call *ast.CallExpr
	ast.Inspect(s, func(n ast.Node) bool {
		if c, ok := n.(*ast.CallExpr); ok && t.keyPanics(c) {
			call = c
		}
		return call == nil
	})
	if call == nil {
		return "", false
	}
	name, _ := t.keyCurveCall(call)
	as, ok := s.(*ast.AssignStmt)
	if !ok || as.Tok != token.DEFINE || len(as.Lhs) != 2 || len(as.Rhs) != 1 || unparen(as.Rhs[0]) != ast.Expr(call) || call.Ellipsis.IsValid() {
		t.fail(s, "a call of %s of the curve is only supported in the statement `x, y := %s(…)`", name, t.p.src(call.Fun))
	}
	var names []string
	for _, l := range as.Lhs {
		id, isId := l.(*ast.Ident)
		if !isId || id.Name == "_" || t.info.Defs[id] == nil {
			t.fail(s, "a call of %s of the curve is only supported in the statement `x, y := %s(…)` with two new variables", name, t.p.src(call.Fun))
		}
		o := t.info.Defs[id]
		if t.facts.plain[o] != 0 || len(t.facts.defs[o]) != 1 {
			t.fail(s, "`%s` holds a result of the curve method %s, which is not known to be fresh: it may not be modified or reassigned", id.Name, name)
		}
		t.key.readOnly[o] = true
		names = append(names, t.vars[o])
	}
	if !m.flow {
		t.fail(s, "internal error: curve method outside a flow block")
	}
	var parts []string
	switch name {
	case "ScalarBaseMult":
		if len(call.Args) != 1 {
			t.fail(s, "arity")
		}
		v, k := t.argValue(call.Args[0])
		if k != kBytes {
			t.fail(s, "argument of type %s", k.lean())
		}
		parts = []string{t.keyDep(s, "curve_ScalarBaseMult", keySBMType, "the method ScalarBaseMult, bytes ↦ (x, y), none = it panics,"), v}
	case "Add":
		if len(call.Args) != 4 {
			t.fail(s, "arity")
		}
		parts = []string{t.keyDep(s, "curve_Add", keyAddType, "the method Add, (x1, y1, x2, y2) ↦ (x, y), none = it panics,")}
		for _, a := range call.Args {
			parts = append(parts, t.bigOperand(a))
		}
	}
	pre := t.guards(s, ind, m)
	stn := t.freshName()
	return pre + fmt.Sprintf("%sGo.Flow.bind (Go.call (%s)) (fun (%s : Int × Int) =>\n%slet %s : Int := %s.1\n%slet %s : Int := %s.2\n%s)",
		ind, strings.Join(parts, " "), stn, ind, names[0], stn, ind, names[1], stn, rest(ind)), true
}

// keyLitCurveIdent: cl is a key literal T{e1, …, curve} whose last element is the receiver's curve: the receiver identifier.
func (t *loopTr) keyLitCurveIdent(cl *ast.CompositeLit) *ast.Ident {
	tv, ok := t.info.Types[cl]
	if !ok || len(cl.Elts) == 0 {
		return nil
	}
	named, ok := tv.Type.(*types.Named)
	if !ok || named.Obj().Pkg() != t.set.tp.tpkg {
		return nil
	}
	if _, _, ok := keyFields(named); !ok {
		return nil
	}
	return t.keyCurveExpr(cl.Elts[len(cl.Elts)-1])
}

// keyLitOK: in bigCheck — the *big.Int identifier e is an element of a returned key literal `&T{…, curve}` and may be stored
// there: a local variable whose last use this is, or a read-only result of a curve method.
func (t *loopTr) keyLitOK(e ast.Expr, stack []ast.Node) bool {
	if t.key == nil || len(stack) < 4 {
		return false
	}
	id, ok := e.(*ast.Ident)
	if !ok {
		return false
	}
	cl, ok1 := stack[len(stack)-2].(*ast.CompositeLit)
	u, ok2 := stack[len(stack)-3].(*ast.UnaryExpr)
	_, ok3 := stack[len(stack)-4].(*ast.ReturnStmt)
	if !ok1 || !ok2 || !ok3 || u.Op != token.AND || t.keyLitCurveIdent(cl) == nil {
		return false
	}
	o := t.info.Uses[id]
	v, isVar := o.(*types.Var)
	if !isVar || v.IsField() || o == t.recv || v.Parent() == t.set.tp.tpkg.Scope() {
		return false
	}
	for _, f := range t.fd.Type.Params.List {
		for _, pid := range f.Names {
			if t.info.Defs[pid] == o {
				t.fail(e, "storing the parameter %s into the returned key: the caller of the function and the owner of the key would share the big.Int (write new(big.Int).Set(%s))", id.Name, id.Name)
			}
		}
	}
	n := 0
	for _, el := range cl.Elts {
		if eid, isId := unparen(el).(*ast.Ident); isId && t.info.Uses[eid] == o {
			n++
		}
	}
	if n != 1 {
		t.fail(e, "`%s` occurs twice in the key literal: two fields would share one big.Int", id.Name)
	}
	return true // a return statement: nothing of the function runs afterwards, so this is the last use
}

// keyRetValue renders, in a return statement, the operand r of a result of the foreign interface type: nil or &T{…, curve}.
func (t *loopTr) keyRetValue(r ast.Expr, k lkind) (string, bool) {
	if k != kKey {
		return "", false
	}
	const shape = "a result of the foreign interface type must be nil or `&T{e1, …, curve}`, T a key struct type of the package, curve the receiver's own curve, every ei a *big.Int variable"
	if id, ok := unparen(r).(*ast.Ident); ok {
		if _, isNil := t.info.Uses[id].(*types.Nil); isNil {
			return "(none : " + keyLeanType + ")", true
		}
	}
	u, ok := unparen(r).(*ast.UnaryExpr)
	if !ok || u.Op != token.AND {
		t.fail(r, "%s", shape)
	}
	cl, ok := unparen(u.X).(*ast.CompositeLit)
	if !ok || t.keyLitCurveIdent(cl) == nil {
		t.fail(r, "%s (the curve argument must be syntactically the curve of the receiver)", shape)
	}
	named := t.info.Types[cl].Type.(*types.Named)
	bigs, _, _ := keyFields(named)
	if len(cl.Elts) != len(bigs)+1 {
		t.fail(r, "%s (all fields, unkeyed)", shape)
	}
	tag := -1
	for i, n := range t.keyStructs() {
		if n == named {
			tag = i
		}
	}
	var vals []string
	for _, el := range cl.Elts[:len(bigs)] {
		id, isId := unparen(el).(*ast.Ident)
		if _, keyed := el.(*ast.KeyValueExpr); keyed || !isId {
			t.fail(r, "%s", shape)
		}
		v, vk := t.ident(id)
		if vk != kBig {
			t.fail(r, "%s", shape)
		}
		vals = append(vals, v)
	}
	return fmt.Sprintf("(some (%d, [%s]) : %s)", tag, strings.Join(vals, ", "), keyLeanType), true
}

// keyDoc is the addition to the doc comment.
func (t *loopTr) keyDoc() string {
	if t.key == nil {
		return ""
	}
	return "; the receiver is a key / curve of stage 13: the first result is none for a nil interface, some (i, values) for a pointer to a new struct of the i-th key struct type with these *big.Int field values and the curve of the receiver"
}

// the functions of pkg/slip10/elliptic that genEllipticKeyCode translates as code (stage 13)
var ellipticKeyFns = []string{"Curve.NewPrivateKey", "PrivateKey.Shift", "PublicKey.Shift"}

// genEllipticKeyCode: Curve.NewPrivateKey (curve.go), PrivateKey.Shift and PublicKey.Shift (key.go) of pkg/slip10/elliptic
// translated as code into a file of its own; the curve (Params().N, ScalarBaseMult, Add) is a set of parameters.
func genEllipticKeyCode() {
	p := repoPkg("pkg/slip10/elliptic")
	g := newGenHdr("EllipticKeyCode", loopHeaderText+flowHeaderText+recvHeaderText+callHeaderText+bigHeaderText+big2HeaderText+keyHeaderText, "Iota.Model.GoBits")
	g.raw(translateLoopFuncsNS(p, "key", ellipticKeyFns...))
	g.write()
}
