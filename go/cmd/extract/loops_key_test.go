package main

import (
	"os"
	"os/exec"
	"path/filepath"
	"strings"
	"testing"
)

// Stage 13 (loops_key.go).  As in loops_test.go each case is a one-file package; want is a substring of the Lean text
// (ok) or of the error message (rejected).
const keyPre = "import (\"crypto/elliptic\"; \"math/big\"; \"github.com/wollac/iota-crypto-demo/pkg/slip10\")\n" +
	"type Curve struct { elliptic.Curve }\ntype PrivateKey struct { K *big.Int; Curve elliptic.Curve }\ntype PublicKey struct { X, Y *big.Int; Curve elliptic.Curve }\n" +
	"func (p *PrivateKey) Bytes() []byte { return nil }\nfunc (p *PrivateKey) IsPrivate() bool { return true }\nfunc (p *PrivateKey) Public() slip10.Key { return nil }\nfunc (p *PrivateKey) Shift(b []byte) (slip10.Key, error) { return nil, nil }\n" +
	"func (p *PublicKey) Bytes() []byte { return nil }\nfunc (p *PublicKey) IsPrivate() bool { return false }\nfunc (p *PublicKey) Public() slip10.Key { return nil }\nfunc (p *PublicKey) Shift(b []byte) (slip10.Key, error) { return nil, nil }\n"

var keyCases = []struct {
	name, src, fns string
	ok             bool
	want           string
}{
	{"NewPrivateKey", keyPre + `func (c Curve) New(buf []byte) (slip10.Key, error) { sc := new(big.Int).SetBytes(buf); if sc.Sign() == 0 || sc.Cmp(c.Params().N) >= 0 { return nil, slip10.ErrInvalidKey }; return &PrivateKey{sc, c}, nil }`, "Curve.New", true,
		"((some (0, [sc]) : Option (Nat × List Int)), (none : Option String))"},
	{"Params().N is a parameter", keyPre + `func (p *PrivateKey) f(buf []byte) bool { return new(big.Int).SetBytes(buf).Cmp(p.Curve.Params().N) >= 0 }`, "PrivateKey.f", true,
		"def PrivateKey_f (curve_N : Int) (buf : List (BitVec 8)) : Bool :="},
	{"private shift", keyPre + `func (p *PrivateKey) sh(buf []byte) (slip10.Key, error) { s := new(big.Int).SetBytes(buf); s.Add(s, p.K); s.Mod(s, p.Curve.Params().N); if s.Sign() == 0 { return nil, slip10.ErrInvalidKey }; return &PrivateKey{s, p.Curve}, nil }`, "PrivateKey.sh", true,
		"def PrivateKey_sh (curve_N : Int) (p_K : Int) (buf : List (BitVec 8)) : Option (Option (Nat × List Int) × Option String) :="},
	{"public shift", keyPre + `func (p *PublicKey) sh(b []byte) (slip10.Key, error) { x2, y2 := p.Curve.ScalarBaseMult(b); x, y := p.Curve.Add(p.X, p.Y, x2, y2); if x.Sign() == 0 && y.Sign() == 0 { return nil, slip10.ErrInvalidKey }; return &PublicKey{x, y, p.Curve}, nil }`, "PublicKey.sh", true,
		"Go.Flow.bind (Go.call (curve_Add p_X p_Y x2 y2)) (fun (st_2 : Int × Int) =>\n  let x : Int := st_2.1\n  let y : Int := st_2.2"},
	{"public key literal is tag 1", keyPre + `func (p *PublicKey) f(b []byte) (slip10.Key, error) { x, y := p.Curve.ScalarBaseMult(b); return &PublicKey{x, y, p.Curve}, nil }`, "PublicKey.f", true,
		"(some (1, [x, y]) : Option (Nat × List Int))"},
	// rejected
	{"literal with another curve", keyPre + `func (p *PrivateKey) f(buf []byte, c elliptic.Curve) (slip10.Key, error) { s := new(big.Int).SetBytes(buf); return &PrivateKey{s, c}, nil }`, "PrivateKey.f", false, "translate f"},
	{"literal with a parameter", keyPre + `func (p *PrivateKey) f(x *big.Int) (slip10.Key, error) { return &PrivateKey{x, p.Curve}, nil }`, "PrivateKey.f", false, "storing the parameter x into the returned key"},
	{"literal with a field", keyPre + `func (p *PrivateKey) f() (slip10.Key, error) { return &PrivateKey{p.K, p.Curve}, nil }`, "PrivateKey.f", false, "storing the *big.Int p.K into a struct"},
	{"literal with the same local twice", keyPre + `func (p *PublicKey) f(b []byte) (slip10.Key, error) { s := new(big.Int).SetBytes(b); return &PublicKey{s, s, p.Curve}, nil }`, "PublicKey.f", false, "occurs twice in the key literal"},
	{"literal not returned", keyPre + `func (p *PrivateKey) f(b []byte) int { s := new(big.Int).SetBytes(b); k := &PrivateKey{s, p.Curve}; return k.K.Sign() }`, "PrivateKey.f", false, "translate f"},
	{"the receiver returned as the key", keyPre + `func (p *PublicKey) f() slip10.Key { return p }`, "PublicKey.f", false, "may only be used as p.F"},
	{"curve result modified", keyPre + `func (p *PublicKey) f(b []byte) (slip10.Key, error) { x, y := p.Curve.ScalarBaseMult(b); x.Add(x, y); return &PublicKey{x, y, p.Curve}, nil }`, "PublicKey.f", false, "is not known to be fresh: it may not be modified or reassigned"},
	{"curve result reassigned", keyPre + `func (p *PublicKey) f(b []byte) (slip10.Key, error) { x, y := p.Curve.ScalarBaseMult(b); x = new(big.Int); return &PublicKey{x, y, p.Curve}, nil }`, "PublicKey.f", false, "is not known to be fresh: it may not be modified or reassigned"},
	{"curve method inside an expression", keyPre + `func (p *PublicKey) f(b []byte) bool { return p.Curve.IsOnCurve(p.X, p.Y) }`, "PublicKey.f", false, "translate f"},
	{"curve method assigned to existing variables", keyPre + `func (p *PublicKey) f(b []byte) int { x, y := new(big.Int), new(big.Int); x, y = p.Curve.ScalarBaseMult(b); return x.Sign() + y.Sign() }`, "PublicKey.f", false, "is only supported in the statement `x, y := p.Curve.ScalarBaseMult(…)`"},
	{"Params().N as a receiver", keyPre + `func (p *PrivateKey) f(b []byte) int { p.Curve.Params().N.SetBytes(b); return 0 }`, "PrivateKey.f", false, "translate f"},
	{"Params().N copied", keyPre + `func (p *PrivateKey) f() int { n := p.Curve.Params().N; return n.Sign() }`, "PrivateKey.f", false, "a pointer copy of the *big.Int p.Curve.Params().N"},
	{"Params().N returned", keyPre + `func (p *PrivateKey) f() *big.Int { return p.Curve.Params().N }`, "PrivateKey.f", false, "must return fresh *big.Int values"},
	{"another field of Params()", keyPre + `func (p *PrivateKey) f() *big.Int { return new(big.Int).Set(p.Curve.Params().P) }`, "PrivateKey.f", false, "translate f"},
	{"the curve field passed on", keyPre + `func g(c elliptic.Curve) int { return 0 }
func (p *PrivateKey) f() int { return g(p.Curve) }`, "PrivateKey.f", false, "may only be used as p.F"},
	{"receiver field assigned", keyPre + `func (p *PrivateKey) f(b []byte) int { p.K = new(big.Int).SetBytes(b); return 0 }`, "PrivateKey.f", false, "only local *big.Int variables may be assigned"},
}

func TestKeyTranslator(t *testing.T) {
	tmp := t.TempDir()
	bin := filepath.Join(tmp, "extract")
	if out, err := exec.Command("go", "build", "-o", bin, ".").CombinedOutput(); err != nil {
		t.Fatalf("build: %v\n%s", err, out)
	}
	for i, c := range keyCases {
		dir := filepath.Join(tmp, "case", string(rune('a'+i/26))+string(rune('a'+i%26)))
		if err := os.MkdirAll(dir, 0o755); err != nil {
			t.Fatal(err)
		}
		if err := os.WriteFile(filepath.Join(dir, "x.go"), []byte("package x\n\n"+c.src+"\n"), 0o644); err != nil {
			t.Fatal(err)
		}
		out, err := exec.Command(bin, "-translate", dir+":"+c.fns).CombinedOutput()
		switch {
		case c.ok && err != nil:
			t.Errorf("%s: rejected: %s", c.name, out)
		case !c.ok && err == nil:
			t.Errorf("%s: accepted:\n%s", c.name, out)
		case !strings.Contains(string(out), c.want):
			t.Errorf("%s: output does not contain %q:\n%s", c.name, c.want, out)
		}
	}
}
