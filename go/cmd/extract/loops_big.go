package main

// Stage 10 of the loop translator (see loops.go): *big.Int values as Lean `Int` under an ownership discipline that is
// checked syntactically (bigCheck), the methods Mul / Add / Sub / Mod / Lsh / Set / SetInt64 / Sign / Cmp and big.NewInt
// with their exact meaning, ModInverse as a PARAMETER of the translation (a nil result is a panic at the dereference that
// must follow immediately), methods with a VALUE receiver of a struct that embeds *elliptic.CurveParams (the fields read
// through it become parameters), a bare `return` in a function with named results, and `return f(g(…))`.
//
// Everything here is reached through one-line hooks in the other files (kindOf, setupRecv, translate, block, simple, call,
// needsFlow, collectFacts, assignedIn, namedResultInit); for a function in which no *big.Int occurs and whose receiver is
// not of the shape above every hook is a no-op.

import (
	"fmt"
	"go/ast"
	"go/constant"
	"go/token"
	"go/types"
	"strings"
)

// bigHeaderText is appended to the header of generated files whose translated code uses stage 10.
const bigHeaderText = `/-
Additional semantics, stage 10 (math/big):
* A value of type *big.Int ↦ Int: the mathematical integer the pointer points to.  This is a VALUE semantics for a
  pointer to a mutable object.  It is sound only because no two variables of the translated code ever point to the same
  big.Int while one of them is modified, which the translator CHECKS syntactically for every function (cmd/extract,
  loops_big.go: bigCheck) — it rejects everything else:
  - *big.Int parameters and the *big.Int fields reached through the receiver are READ-ONLY: never the receiver of a
    modifying method, never assigned.
  - every assignment to a local *big.Int variable (":=", "=", a tuple assignment, "var v = …") has on its right-hand
    side a FRESH value: new(big.Int), big.NewInt(c), new(big.Int).Op(…) (a chain of such calls), or the result of a
    translated function — and every translated function is fresh-returning: each returned expression is a fresh
    expression, a local variable of the function (no variable twice in one return), or the result of a translated
    function; a function that returns a parameter or a field is rejected.  So a local variable is the only reference to
    its big.Int, and "v.Op(a, b)" as a statement (result discarded) is "let v := a op b".
  - there are no pointer copies ("a := b", "a = b" are rejected), no comparison of a *big.Int with nil or with another
    pointer, no storing into fields, slices, maps or composite literals, no address-of / dereference, no closure, and a
    *big.Int is passed only to math/big methods and to translated functions (which cannot retain it).
  - math/big allows the receiver to be one of the operands ("x3.Sub(f, x3)"): the operands are read before the result is
    stored, so the value semantics "let x3 := f - x3" is what Go computes.
* Methods, with their documented meaning: z.Mul(x, y) ↦ x * y, z.Add(x, y) ↦ x + y, z.Sub(x, y) ↦ x - y on Int;
  z.Mod(x, m) ↦ x % m, Lean's Int.emod — the Euclidean modulus, result in [0, |m|), which is what big.Int.Mod computes
  (unlike Go's % on machine integers) — and, since Go panics for m = 0, the check "if !(decide (m ≠ 0)) then panic" in
  front of the statement: a function that contains a Mod is Option-valued, none = run-time panic;
  z.Lsh(x, n) with a CONSTANT n ↦ Go.bigLsh x n = x * 2^n (sign kept, as big.Int does); z.Set(x) ↦ x;
  z.SetInt64(c) / big.NewInt(c) ↦ c (a constant, or (e).toInt for an int64 expression e); new(big.Int) ↦ 0;
  x.Sign() ↦ Go.bigSign x and x.Cmp(y) ↦ Go.bigCmp x y, the int -1 / 0 / +1 as BitVec 64.  Every other method of
  big.Int is rejected.
* new(big.Int).ModInverse(g, n) is a PARAMETER big_ModInverse : Int → Int → Option Int of the translated function and of
  every translated function that calls it: nothing about its value is defined here (the tie states what it assumes).
  none stands for a nil result (g and n not coprime) — or for a panic inside ModInverse (n = 0 with g < 0).  Because a nil
  *big.Int cannot be represented and comparisons with nil are rejected, ModInverse is accepted ONLY in the statement
  "v := new(big.Int).ModInverse(g, n)" IMMEDIATELY FOLLOWED by a statement whose outermost math/big method call has v as
  its receiver or as one of its operands (a nil v panics there, before anything else can be observed); the translation is
  Go.Flow.bind (Go.call (big_ModInverse g n)) (fun v => …): none is the panic of the function.
* A method with a VALUE receiver "curve T", T a struct type of the package whose only field is an embedded
  *elliptic.CurveParams, whose receiver is used only as curve.F (F a field of CurveParams, promoted through the embedded
  pointer) and as the receiver of calls of translated methods of T: the fields it reads become the first parameters
  curve_F of the translation (CurveParams order), as for the pointer receivers of stage 4; they are read-only (an
  assignment to one is rejected).  The tie instantiates them (curve_P := the P the package's init() sets, …).
* A bare "return" in a function with named results returns their current values; a named *big.Int result (nil at
  first, which is not representable) must be assigned a fresh value by a statement of the function body itself before
  its first use and before the first bare return (checked).  "return f(g(…))", g a translated function with several
  results that are exactly the parameters of f, calls g, then f on its results, and returns what f returns.
* ASSUMPTIONS (not checked here, stated again in the doc comments): every *big.Int parameter, the embedded
  *elliptic.CurveParams and the *big.Int fields read through it are not nil (a nil one would panic at its first use);
  nothing else modifies these objects while the function runs (no concurrent writer).  There are no allocation limits:
  Int is unbounded, a Go program that runs out of memory is not modelled.
-/
`

const bigModInverseType = "Int → Int → Option Int"

const bigModInverseNote = "the library method (*big.Int).ModInverse on a fresh receiver, (g, n) ↦ some inverse, none = a nil result (or a panic inside ModInverse) — not modelled, see the header, stage 10; passed in by the caller"

// bigState is the per-function state of stage 10 (nil when no *big.Int occurs in the function).
type bigState struct {
	valueRecv bool // the receiver is a value of a struct that embeds *elliptic.CurveParams
}

var bigSetters = map[string]bool{"Mul": true, "Add": true, "Sub": true, "Mod": true, "Lsh": true, "Set": true, "SetInt64": true}

// isBigIntPtr: ty is exactly *math/big.Int.
func isBigIntPtr(ty types.Type) bool {
	p, ok := ty.(*types.Pointer)
	return ok && isNamedType(p.Elem(), "math/big", "Int")
}

// bigMethod returns the receiver expression and the name of the method when c is a call of a method of math/big.Int.
func (t *loopTr) bigMethod(c *ast.CallExpr) (ast.Expr, string) {
	sel, ok := unparen(c.Fun).(*ast.SelectorExpr)
	if !ok {
		return nil, ""
	}
	f, ok := t.info.Uses[sel.Sel].(*types.Func)
	if !ok || f.Pkg() == nil || f.Pkg().Path() != "math/big" || recvTypeName(f) != "Int" {
		return nil, ""
	}
	if tv, ok := t.info.Types[sel.X]; !ok || tv.IsType() {
		return nil, "" // a method expression (*big.Int).Op: not a method call on a value
	}
	return sel.X, f.Name()
}

// isNewBig: e is new(big.Int).
func (t *loopTr) isNewBig(e ast.Expr) bool {
	c, ok := unparen(e).(*ast.CallExpr)
	if !ok || len(c.Args) != 1 {
		return false
	}
	id, ok := unparen(c.Fun).(*ast.Ident)
	if !ok {
		return false
	}
	if b, ok := t.info.Uses[id].(*types.Builtin); !ok || b.Name() != "new" {
		return false
	}
	tv, ok := t.info.Types[c.Args[0]]
	return ok && tv.IsType() && isNamedType(tv.Type, "math/big", "Int")
}

// isBigNewInt: e is big.NewInt(…).
func (t *loopTr) isBigNewInt(e ast.Expr) bool {
	c, ok := unparen(e).(*ast.CallExpr)
	if !ok {
		return false
	}
	sel, ok := unparen(c.Fun).(*ast.SelectorExpr)
	if !ok {
		return false
	}
	f, ok := t.info.Uses[sel.Sel].(*types.Func)
	return ok && f.Pkg() != nil && f.Pkg().Path() == "math/big" && f.Name() == "NewInt" && f.Type().(*types.Signature).Recv() == nil
}

// bigFreshExpr: e is new(big.Int), big.NewInt(c), or <fresh>.Op(…) for a modifying method Op (which returns its receiver).
func (t *loopTr) bigFreshExpr(e ast.Expr) bool {
	e = unparen(e)
	if t.isNewBig(e) || t.isBigNewInt(e) {
		return true
	}
	if c, ok := e.(*ast.CallExpr); ok {
		if recv, name := t.bigMethod(c); recv != nil && bigSetters[name] {
			return t.bigFreshExpr(recv)
		}
	}
	return false
}

// bigMutCall returns the variable v when c is `v.Op(…)` with Op a modifying method of big.Int and v an identifier.
func (t *loopTr) bigMutCall(c *ast.CallExpr) types.Object {
	recv, name := t.bigMethod(c)
	if recv == nil || !bigSetters[name] {
		return nil
	}
	id, ok := unparen(recv).(*ast.Ident)
	if !ok {
		return nil
	}
	return t.objOf(id)
}

// bigPanics: c is a call that can panic by itself (Mod by zero) or yields the panic outcome (ModInverse, see the header).
func (t *loopTr) bigPanics(c *ast.CallExpr) bool {
	_, name := t.bigMethod(c)
	return name == "Mod" || name == "ModInverse" || t.big2Panics(c) || t.keyPanics(c) || t.pow2Panics(c) // (stages 12, 13, 14)
}

// ---------------------------------------------------------------- the receiver

// bigRecv recognises a method with a value receiver `curve T`, T a struct of the package whose only field is an embedded
// *elliptic.CurveParams, and registers the fields of CurveParams the body reads (directly or through the translated
// methods of T it calls) as parameters curve_F.  false: the receiver has another shape.
func (t *loopTr) bigRecv() bool {
	fd := t.fd
	rid := fd.Recv.List[0].Names[0]
	ro := t.info.Defs[rid]
	if ro == nil {
		return false
	}
	named, ok := ro.Type().(*types.Named)
	if !ok || named.Obj().Pkg() != t.set.tp.tpkg {
		return false
	}
	st, ok := named.Underlying().(*types.Struct)
	if !ok || st.NumFields() != 1 || !st.Field(0).Embedded() {
		return false
	}
	ptr, ok := st.Field(0).Type().(*types.Pointer)
	if !ok || !isNamedType(ptr.Elem(), "crypto/elliptic", "CurveParams") {
		return false
	}
	es, ok := ptr.Elem().Underlying().(*types.Struct)
	if !ok {
		return false
	}
	const shape = "the value receiver of a translated method on a struct that embeds *elliptic.CurveParams may only be used as curve.F (F a field of CurveParams) and as the receiver of calls of translated methods"
	if t.recursive {
		t.fail(fd, "a recursive method with such a receiver is not supported")
	}
	t.recv = ro
	t.big = &bigState{valueRecv: true}
	isParamField := func(v *types.Var) bool {
		for i := 0; i < es.NumFields(); i++ {
			if es.Field(i) == v {
				return true
			}
		}
		return false
	}
	used := map[types.Object]bool{}
	usedName := map[string]bool{}
	okUse := map[*ast.Ident]bool{}
	ast.Inspect(fd.Body, func(n ast.Node) bool {
		switch x := n.(type) {
		case *ast.SelectorExpr:
			id, isId := unparen(x.X).(*ast.Ident)
			if !isId || t.info.Uses[id] != ro {
				return true
			}
			if v, isVar := t.info.Uses[x.Sel].(*types.Var); isVar && v.IsField() && isParamField(v) {
				used[v] = true
				okUse[id] = true
			}
		case *ast.CallExpr:
			if sig, _ := t.sigOf(x); sig != nil && sig.method {
				if sel, isSel := unparen(x.Fun).(*ast.SelectorExpr); isSel {
					if id, isId := unparen(sel.X).(*ast.Ident); isId && t.info.Uses[id] == ro {
						okUse[id] = true
						for _, f := range sig.fieldsIn {
							usedName[f] = true
						}
					}
				}
			}
		}
		return true
	})
	ast.Inspect(fd.Body, func(n ast.Node) bool {
		if id, ok := n.(*ast.Ident); ok && t.info.Uses[id] == ro && !okUse[id] {
			t.fail(id, "%s (here it is used in another way)", shape)
		}
		return true
	})
	for i := 0; i < es.NumFields(); i++ {
		f := es.Field(i)
		if !used[f] && !usedName[f.Name()] {
			continue
		}
		name := rid.Name + "_" + f.Name()
		if leanReserved[name] || t.set.all[name] {
			t.fail(fd, "field name %s clashes with a name used by the generated Lean text", name)
		}
		t.kindOf(f.Type(), fd) // fails for a type outside the subset
		if !isBigIntPtr(f.Type()) {
			t.rejectSliceField(f)
		}
		t.vars[f] = name
		t.fields = append(t.fields, f)
	}
	return true
}

// ---------------------------------------------------------------- the ownership discipline

// bigCheck enforces the ownership discipline of stage 10 (see bigHeaderText) on the function: every expression of type
// *big.Int must have one of the accepted shapes and stand in one of the accepted positions.  It runs before the body is
// translated; the translation relies on it.
func (t *loopTr) bigCheck() {
	fd := t.fd
	params := map[types.Object]bool{}
	found := t.big != nil
	for _, f := range fd.Type.Params.List {
		for _, id := range f.Names {
			if o := t.info.Defs[id]; o != nil {
				params[o] = true
				if isBigIntPtr(o.Type()) {
					found = true
				}
			}
		}
	}
	namedBig := []types.Object{}
	if fd.Type.Results != nil {
		for _, f := range fd.Type.Results.List {
			if tv, ok := t.info.Types[f.Type]; ok && isBigIntPtr(tv.Type) {
				found = true
				for _, id := range f.Names {
					if o := t.info.Defs[id]; o != nil && id.Name != "_" {
						namedBig = append(namedBig, o)
					}
				}
			}
		}
	}
	mentionsBig := func(ty types.Type) bool {
		if isBigIntPtr(ty) {
			return true
		}
		if tup, ok := ty.(*types.Tuple); ok {
			for i := 0; i < tup.Len(); i++ {
				if isBigIntPtr(tup.At(i).Type()) {
					return true
				}
			}
		}
		return false
	}
	ast.Inspect(fd.Body, func(n ast.Node) bool {
		if e, ok := n.(ast.Expr); ok {
			if tv, ok := t.info.Types[e]; ok && tv.Type != nil && (mentionsBig(tv.Type) || (tv.IsType() && isNamedType(tv.Type, "math/big", "Int"))) {
				found = true
			}
		}
		if id, ok := n.(*ast.Ident); ok {
			if o := t.info.Defs[id]; o != nil && isBigIntPtr(o.Type()) {
				found = true
			}
		}
		return !found
	})
	if !found {
		return
	}
	if t.big == nil {
		t.big = &bigState{}
	}
	if t.recursive {
		t.fail(fd, "a recursive function that uses *big.Int is not supported")
	}
	if t.big.valueRecv {
		for _, f := range t.fields {
			if t.facts.plain[f] > 0 || t.facts.indexed[f] {
				t.fail(fd, "assignment to the field %s of the receiver: the fields reached through the embedded *elliptic.CurveParams are read-only in the translated subset", f.Name())
			}
		}
	}
	// a local *big.Int variable: not a parameter, not a field
	isLocal := func(id *ast.Ident) bool {
		o := t.objOf(id)
		v, ok := o.(*types.Var)
		return ok && !v.IsField() && !params[o] && o != t.recv && v.Parent() != t.set.tp.tpkg.Scope() && v.Pkg() == t.set.tp.tpkg
	}
	// the callee of c is a translated function (or a function of the package, which the translation of the call requires
	// to have been translated before)
	translated := func(c *ast.CallExpr) bool {
		if sig, _ := t.sigOf(c); sig != nil {
			return true
		}
		if id, ok := unparen(c.Fun).(*ast.Ident); ok {
			if f, ok := t.info.Uses[id].(*types.Func); ok && f.Pkg() == t.set.tp.tpkg && f.Type().(*types.Signature).Recv() == nil {
				return true
			}
		}
		return false
	}
	var stack []ast.Node
	// parentOf returns the nearest ancestor of the node at the top of the stack that is not a parenthesis, and the child of
	// that ancestor on the path
	parentOf := func() (parent ast.Node, child ast.Node) {
		child = stack[len(stack)-1]
		for i := len(stack) - 2; i >= 0; i-- {
			if _, isParen := stack[i].(*ast.ParenExpr); isParen {
				child = stack[i]
				continue
			}
			return stack[i], child
		}
		return nil, child
	}
	isIn := func(list []ast.Expr, child ast.Node) bool {
		for _, e := range list {
			if ast.Node(e) == child {
				return true
			}
		}
		return false
	}
	// checkShape: the expression e of type *big.Int has a supported shape; returns "var", "field" or "call"
	checkShape := func(e ast.Expr) string {
		switch x := e.(type) {
		case *ast.Ident:
			if v, isVar := t.objOf(x).(*types.Var); isVar {
				if v.Parent() == t.set.tp.tpkg.Scope() && v.Pkg() == t.set.tp.tpkg {
					t.big2PkgConst(e, v) // stage 12 (loops_big2.go): accepted only as a constant
					return "const"
				}
				if v.Parent() == t.set.tp.tpkg.Scope() || v.Pkg() != t.set.tp.tpkg {
					t.fail(e, "the package-level *big.Int variable %s is not supported (anything could modify it)", x.Name)
				}
				return "var"
			}
		case *ast.SelectorExpr:
			if t.fieldOf(x) != nil || t.keyCurveN(x) { // (keyCurveN: stage 13, X.Params().N)
				return "field"
			}
			t.fail(e, "%s: a *big.Int is only supported as a parameter, a local variable, or a field read through the receiver", t.p.src(e))
		case *ast.CallExpr:
			if t.isNewBig(x) || t.isBigNewInt(x) {
				return "call"
			}
			if recv, name := t.bigMethod(x); recv != nil {
				if !bigSetters[name] && name != "ModInverse" {
					t.fail(e, "the method %s of *big.Int is not supported (only Mul, Add, Sub, Mod, Lsh, Set, SetInt64, Sign, Cmp, and ModInverse in the statement `v := new(big.Int).ModInverse(g, n)`)", name)
				}
				return "call"
			}
			if translated(x) {
				return "call"
			}
			t.fail(e, "call of %s, which returns a *big.Int and is not a translated function", t.p.src(x.Fun))
		}
		t.fail(e, "unsupported expression of type *big.Int: %s (%T)", t.p.src(e), e)
		return ""
	}
	ast.Inspect(fd.Body, func(n ast.Node) bool {
		if n == nil {
			stack = stack[:len(stack)-1]
			return true
		}
		stack = append(stack, n)
		switch x := n.(type) {
		case *ast.ValueSpec:
			for i, id := range x.Names {
				if o := t.info.Defs[id]; o != nil && isBigIntPtr(o.Type()) && i >= len(x.Values) {
					t.fail(x, "`var %s *big.Int` without a value is a nil pointer, which is not representable (write `%s := new(big.Int)`)", id.Name, id.Name)
				}
			}
		case *ast.RangeStmt:
			for _, e := range []ast.Expr{x.Key, x.Value} {
				if id, ok := e.(*ast.Ident); ok {
					if o := t.objOf(id); o != nil && isBigIntPtr(o.Type()) {
						t.fail(x, "a *big.Int range variable is not supported")
					}
				}
			}
		case *ast.CallExpr:
			// a call whose result tuple contains a *big.Int must be a call of a translated function
			if tv, ok := t.info.Types[x]; ok {
				if _, isTup := tv.Type.(*types.Tuple); isTup && mentionsBig(tv.Type) && !translated(x) && !t.keyCallOK(x) {
					t.fail(x, "call of %s, which returns a *big.Int and is not a translated function", t.p.src(x.Fun))
				}
			}
		}
		e, isExpr := n.(ast.Expr)
		if !isExpr {
			return true
		}
		if _, isParen := e.(*ast.ParenExpr); isParen {
			return true
		}
		tv, ok := t.info.Types[e]
		if !ok || tv.IsType() || !isBigIntPtr(tv.Type) {
			return true
		}
		shape := checkShape(e)
		parent, child := parentOf()
		src := t.p.src(e)
		switch p := parent.(type) {
		case *ast.CallExpr:
			if !isIn(p.Args, child) {
				t.fail(e, "unsupported use of the *big.Int %s", src)
			}
			if recv, _ := t.bigMethod(p); recv != nil {
				return true // an operand of a math/big method: it is only read
			}
			if t.isBigNewInt(p) {
				t.fail(e, "unsupported use of the *big.Int %s", src)
			}
			if !translated(p) && !t.keyCallOK(p) {
				t.fail(e, "the *big.Int %s is passed to %s, which is not a translated function (it could retain or modify it)", src, t.p.src(p.Fun))
			}
			return true
		case *ast.SelectorExpr:
			// e.m: must be the receiver of a call of a math/big method
			var call *ast.CallExpr
			var callParent ast.Node
			for i := len(stack) - 2; i >= 0; i-- {
				if _, isParen := stack[i].(*ast.ParenExpr); isParen {
					continue
				}
				if stack[i] == ast.Node(p) {
					continue
				}
				if c, isCall := stack[i].(*ast.CallExpr); isCall && call == nil && unparen(c.Fun) == ast.Expr(p) {
					call = c
					continue
				}
				callParent = stack[i]
				break
			}
			if call == nil {
				t.fail(e, "unsupported use of the *big.Int %s (a method value)", src)
			}
			_, name := t.bigMethod(call)
			switch {
			case name == "Sign" || name == "Cmp" || big2IsReader(name):
				return true
			case name == "ModInverse":
				as, isAssign := callParent.(*ast.AssignStmt)
				if !t.isNewBig(e) || !isAssign || as.Tok != token.DEFINE || len(as.Lhs) != 1 || len(as.Rhs) != 1 {
					t.fail(call, "ModInverse is only supported in the statement `v := new(big.Int).ModInverse(g, n)` (its result may be nil)")
				}
				return true
			case bigSetters[name]:
				switch {
				case t.bigFreshExpr(e):
					return true // the value of the chain is the value of the last operation
				case shape == "var" && isLocal(e.(*ast.Ident)):
					if _, isStmt := callParent.(*ast.ExprStmt); !isStmt && !t.big2ChainOK(call, stack) && !t.pow2NestedOK(call, stack) {
						t.fail(call, "`%s` returns its receiver: using the result would alias %s (only supported as a statement of its own, or on new(big.Int))", t.p.src(call), src)
					}
					return true
				case shape == "var" || shape == "field":
					t.fail(call, "%s is the receiver of the modifying method %s: *big.Int parameters and fields are read-only in the translated subset", src, name)
				}
				t.fail(call, "the receiver of the modifying method %s must be a local variable (as a statement) or a fresh value new(big.Int)…", name)
			}
			t.fail(call, "the method %s of *big.Int is not supported (only Mul, Add, Sub, Mod, Lsh, Set, SetInt64, Sign, Cmp, and ModInverse in the statement `v := new(big.Int).ModInverse(g, n)`)", name)
		case *ast.AssignStmt:
			if p.Tok != token.ASSIGN && p.Tok != token.DEFINE {
				t.fail(p, "unsupported assignment operator on a *big.Int")
			}
			if isIn(p.Lhs, child) {
				id, isId := e.(*ast.Ident)
				if !isId || !isLocal(id) {
					t.fail(p, "assignment to %s: only local *big.Int variables may be assigned (parameters and fields are read-only)", src)
				}
				return true
			}
			if shape != "call" {
				t.fail(p, "`%s`: a pointer copy of the *big.Int %s (two variables would point to one big.Int; write new(big.Int).Set(%s) for a copy)", t.p.src(p), src, src)
			}
			return true
		case *ast.ValueSpec:
			if shape != "call" {
				t.fail(p, "a pointer copy of the *big.Int %s (two variables would point to one big.Int; write new(big.Int).Set(%s) for a copy)", src, src)
			}
			return true
		case *ast.ReturnStmt:
			if shape == "field" || (shape == "var" && !isLocal(e.(*ast.Ident))) {
				t.fail(p, "returning the parameter or field %s: a translated function must return fresh *big.Int values (the caller may modify what it gets; write new(big.Int).Set(%s))", src, src)
			}
			if shape == "var" {
				n := 0
				for _, r := range p.Results {
					if id, ok := unparen(r).(*ast.Ident); ok && t.objOf(id) == t.objOf(e.(*ast.Ident)) {
						n++
					}
				}
				if n > 1 {
					t.fail(p, "returning `%s` twice would make two results point to one big.Int", src)
				}
			}
			return true
		case *ast.ExprStmt:
			if c, isCall := e.(*ast.CallExpr); isCall {
				recv, name := t.bigMethod(c)
				if recv != nil && bigSetters[name] && !t.bigFreshExpr(recv) {
					return true // checked where the receiver is visited
				}
				if name == "ModInverse" {
					t.fail(p, "ModInverse is only supported in the statement `v := new(big.Int).ModInverse(g, n)` (its result may be nil)")
				}
			}
			t.fail(p, "statement `%s` has no effect that the translation models", t.p.src(p))
		case *ast.BinaryExpr:
			t.fail(p, "`%s`: comparing a *big.Int with nil or with another pointer is not supported (a nil *big.Int is not representable)", t.p.src(p))
		case *ast.CompositeLit:
			if t.keyLitOK(e, stack) {
				return true // stage 13 (loops_key.go): an element of a returned key literal
			}
			t.fail(e, "storing the *big.Int %s into a struct, slice, map or channel is not supported", src)
		case *ast.KeyValueExpr, *ast.IndexExpr, *ast.SendStmt:
			t.fail(e, "storing the *big.Int %s into a struct, slice, map or channel is not supported", src)
		case *ast.UnaryExpr, *ast.StarExpr:
			t.fail(e, "address-of / dereference of the *big.Int %s is not supported", src)
		}
		t.fail(e, "unsupported use of the *big.Int %s", src)
		return true
	})
	// a named *big.Int result starts as nil: it must be assigned a fresh value by a statement of the body itself before
	// its first use and before the first bare return
	if len(namedBig) > 0 {
		last := -1
		for _, o := range namedBig {
			first := -1
			for i, st := range fd.Body.List {
				if as, ok := st.(*ast.AssignStmt); ok && as.Tok == token.ASSIGN && len(as.Lhs) == 1 && len(as.Rhs) == 1 {
					if id, ok := unparen(as.Lhs[0]).(*ast.Ident); ok && t.objOf(id) == o {
						// its own right-hand side must not read it
						reads := false
						ast.Inspect(as.Rhs[0], func(n ast.Node) bool {
							if id, ok := n.(*ast.Ident); ok && t.info.Uses[id] == o {
								reads = true
							}
							return true
						})
						if !reads {
							first = i
							break
						}
					}
				}
			}
			if first < 0 {
				t.fail(fd, "the named result %s (a *big.Int, nil at first) is not assigned a fresh value by a statement of the function body itself", o.Name())
			}
			for i := 0; i < first; i++ {
				ast.Inspect(fd.Body.List[i], func(n ast.Node) bool {
					if id, ok := n.(*ast.Ident); ok && t.objOf(id) == o {
						t.fail(id, "the named result %s (a *big.Int) is used before it is assigned: it is nil there, which is not representable", o.Name())
					}
					return true
				})
			}
			if first > last {
				last = first
			}
		}
		for i := 0; i <= last; i++ {
			ast.Inspect(fd.Body.List[i], func(n ast.Node) bool {
				if r, ok := n.(*ast.ReturnStmt); ok && len(r.Results) == 0 {
					t.fail(r, "a bare return before the named *big.Int results are assigned would return nil, which is not representable")
				}
				return true
			})
		}
	}
}

// ---------------------------------------------------------------- expressions

// bigOperand translates an expression that must be a *big.Int.
func (t *loopTr) bigOperand(e ast.Expr) string {
	s, k := t.expr(e)
	if k != kBig {
		t.fail(e, "operand of type %s where a *big.Int is expected", k.lean())
	}
	return s
}

// bigInt64 translates the int64 argument of big.NewInt / SetInt64 as an Int.
func (t *loopTr) bigInt64(e ast.Expr) string {
	if tv := t.typeOf(e); tv.Value != nil {
		c := constant.ToInt(tv.Value)
		if c.Kind() != constant.Int {
			t.fail(e, "constant %s is not an integer", tv.Value)
		}
		return "(" + c.ExactString() + " : Int)"
	}
	s, k := t.expr(e)
	if k != kInt {
		t.fail(e, "argument of type %s where an int64 is expected", k.lean())
	}
	return "(BitVec.toInt " + s + ")"
}

// bigOpValue is the value z has after z.name(args…), name a modifying method.
func (t *loopTr) bigOpValue(c *ast.CallExpr, name string) string {
	if v, ok := t.big2OpValue(c, name); ok {
		return v // stage 12 (loops_big2.go)
	}
	if v, ok := t.pow2OpValue(c, name); ok {
		return v // stage 14 (loops_pow2.go): SetUint64, Quo
	}
	arity := map[string]int{"Mul": 2, "Add": 2, "Sub": 2, "Mod": 2, "Lsh": 2, "Set": 1, "SetInt64": 1}[name]
	if len(c.Args) != arity || c.Ellipsis.IsValid() {
		t.fail(c, "arity of %s", name)
	}
	switch name {
	case "Mul", "Add", "Sub":
		a, b := t.bigOperand(c.Args[0]), t.bigOperand(c.Args[1])
		return "(" + a + " " + map[string]string{"Mul": "*", "Add": "+", "Sub": "-"}[name] + " " + b + ")"
	case "Mod":
		a, m := t.bigOperand(c.Args[0]), t.bigOperand(c.Args[1])
		t.addCheck("(decide (" + m + " ≠ 0))") // Go panics for a zero modulus
		return "(" + a + " % " + m + ")"
	case "Lsh":
		a := t.bigOperand(c.Args[0])
		n, isConst := t.constInt(c.Args[1])
		if !isConst || n.Sign() < 0 || !n.IsInt64() || n.Int64() > 1<<20 {
			t.fail(c, "Lsh is only supported with a (small) constant shift count")
		}
		return "(Go.bigLsh " + a + " " + n.String() + ")"
	case "Set":
		return t.bigOperand(c.Args[0])
	case "SetInt64":
		return t.bigInt64(c.Args[0])
	}
	t.fail(c, "internal error: bigOpValue %s", name)
	return ""
}

// bigCall translates the calls of stage 10 that are expressions: new(big.Int), big.NewInt(c), x.Sign(), x.Cmp(y), and
// <fresh>.Op(…).  ok = false: x is not such a call.
func (t *loopTr) bigCall(x *ast.CallExpr) (string, lkind, bool) {
	if v, k, ok := t.big2Call(x); ok {
		return v, k, true // stage 12 (loops_big2.go): a method of an interface variable
	}
	if t.isNewBig(x) {
		return "(0 : Int)", kBig, true
	}
	if t.isBigNewInt(x) {
		if len(x.Args) != 1 || x.Ellipsis.IsValid() {
			t.fail(x, "arity")
		}
		return t.bigInt64(x.Args[0]), kBig, true
	}
	recv, name := t.bigMethod(x)
	if recv == nil {
		return "", 0, false
	}
	if rtv := t.typeOf(recv); !isBigIntPtr(rtv.Type) {
		t.fail(x, "the receiver of %s has type %s (only *big.Int is supported)", name, rtv.Type)
	}
	switch {
	case name == "Sign":
		if len(x.Args) != 0 {
			t.fail(x, "arity")
		}
		return "(Go.bigSign " + t.bigOperand(recv) + ")", kInt, true
	case name == "Cmp":
		if len(x.Args) != 1 || x.Ellipsis.IsValid() {
			t.fail(x, "arity")
		}
		a := t.bigOperand(recv)
		return "(Go.bigCmp " + a + " " + t.bigOperand(x.Args[0]) + ")", kInt, true
	case bigSetters[name]:
		if !t.bigFreshExpr(recv) {
			t.fail(x, "`%s` returns its receiver: using the result would alias it (only supported as a statement of its own on a local variable, or on new(big.Int))", t.p.src(x))
		}
		if !t.isNewBig(recv) {
			t.bigOperand(recv) // a chain: the earlier operation is evaluated (it may panic); its value is overwritten
		}
		return t.bigOpValue(x, name), kBig, true
	case name == "ModInverse":
		t.fail(x, "ModInverse is only supported in the statement `v := new(big.Int).ModInverse(g, n)` (its result may be nil)")
	}
	if v, k, ok := t.big2Reader(x, recv, name); ok {
		return v, k, true // stage 12 (loops_big2.go): Bytes, Int64
	}
	t.fail(x, "the method %s of *big.Int is not supported (only Mul, Add, Sub, Mod, Lsh, Set, SetInt64, Sign, Cmp, and ModInverse in the statement `v := new(big.Int).ModInverse(g, n)`)", name)
	return "", 0, false
}

// ---------------------------------------------------------------- statements

// bigStmt translates the statement `v.Op(args…)` on a local *big.Int variable: let v := value.
func (t *loopTr) bigStmt(s *ast.ExprStmt, c *ast.CallExpr, o types.Object) []binding {
	_, name := t.bigMethod(c)
	vname, local := t.vars[o]
	if !local || t.params[o] || t.isField(o) || !isBigIntPtr(o.Type()) {
		t.fail(s, "%s is the receiver of the modifying method %s: only local *big.Int variables may be modified", o.Name(), name)
	}
	// stage 14 (loops_pow2.go): operands that are themselves modifying calls on local variables are executed first, in order
	var bs []binding
	if c2, inner := t.pow2Hoist(c); len(inner) > 0 {
		for _, in := range inner {
			bs = append(bs, t.bigStmt(&ast.ExprStmt{X: in}, in, t.bigMutCall(in))...)
		}
		c = c2
	}
	val := t.bigOpValue(c, name)
	return append(bs, binding{name: vname, kind: kBig, val: val, checks: t.takeChecks()})
}

// bigModInverseStmt translates `v := new(big.Int).ModInverse(g, n)` (see bigHeaderText); ok = false: s is not that.
func (t *loopTr) bigModInverseStmt(s ast.Stmt, list []ast.Stmt, ind string, m blockMode, rest func(string) string) (string, bool) {
	if out, ok := t.big2Stmt(s, ind, m, rest); ok {
		return out, true // stage 12 (loops_big2.go): x := v.Op(…).M(), x := v.Index(w)
	}
	if out, ok := t.keyStmt(s, ind, m, rest); ok {
		return out, true // stage 13 (loops_key.go): x, y := curve.ScalarBaseMult(b)
	}
	as, ok := s.(*ast.AssignStmt)
	if !ok || len(as.Lhs) != 1 || len(as.Rhs) != 1 {
		return "", false
	}
	c, ok := unparen(as.Rhs[0]).(*ast.CallExpr)
	if !ok {
		return "", false
	}
	recv, name := t.bigMethod(c)
	if recv == nil || name != "ModInverse" {
		return "", false
	}
	const shape = "ModInverse is only supported in the statement `v := new(big.Int).ModInverse(g, n)` (its result may be nil)"
	id, isId := as.Lhs[0].(*ast.Ident)
	if as.Tok != token.DEFINE || !isId || id.Name == "_" || !t.isNewBig(recv) || len(c.Args) != 2 || c.Ellipsis.IsValid() {
		t.fail(s, "%s", shape)
	}
	vo, vname, vk := t.localVar(id)
	if vk != kBig || t.info.Defs[id] != vo {
		t.fail(s, "%s", shape)
	}
	// the next statement must dereference v: its outermost math/big method call has v as receiver or operand
	deref := false
	if len(list) > 1 {
		var e ast.Expr
		switch n := list[1].(type) {
		case *ast.ExprStmt:
			e = n.X
		case *ast.AssignStmt:
			if len(n.Lhs) == 1 && len(n.Rhs) == 1 && (n.Tok == token.ASSIGN || n.Tok == token.DEFINE) {
				e = n.Rhs[0]
			}
		}
		if e != nil {
			if nc, isCall := unparen(e).(*ast.CallExpr); isCall {
				// Cmp and Set do NOT count: math/big's (*Int).Cmp starts with `x == y` and (*Int).Set with `z != x`, so
				// nil.Cmp(nil) is 0 and nil.Set(nil) is nil without any dereference (found by the fourth audit: `zinv.Cmp(zinv)`
				// and `zinv.Set(zinv)` were accepted and translated as a panic although Go continues)
				if nrecv, nname := t.bigMethod(nc); nrecv != nil && nname != "Cmp" && nname != "Set" && (bigSetters[nname] || nname == "Sign") {
					isV := func(x ast.Expr) bool {
						xid, ok := unparen(x).(*ast.Ident)
						return ok && t.info.Uses[xid] == vo
					}
					// Lsh's second argument is not a *big.Int; SetInt64's neither
					if isV(nrecv) {
						deref = true
					}
					for i, a := range nc.Args {
						if isV(a) && !(nname == "Lsh" && i == 1) && nname != "SetInt64" {
							deref = true
						}
					}
				}
			}
		}
	}
	if !deref {
		t.fail(s, "the result of ModInverse may be nil: the statement that follows immediately must dereference `%s` (a math/big method call with `%s` as its receiver or as an operand), so that a nil result is a panic there", id.Name, id.Name)
	}
	if !m.flow {
		t.fail(s, "internal error: ModInverse outside a flow block")
	}
	const param = "big_ModInverse"
	for o, n := range t.vars {
		if n == param {
			t.fail(s, "variable name %s clashes with the parameter that stands for ModInverse", o.Name())
		}
	}
	if ty, ok := t.absDeps[param]; (ok && ty != bigModInverseType) || leanReserved[param] || t.set.all[param] {
		t.fail(s, "the parameter name %s clashes with a name used by the generated Lean text", param)
	}
	g, n := t.bigOperand(c.Args[0]), t.bigOperand(c.Args[1])
	t.absDeps[param] = bigModInverseType
	externDepNotes[param] = [2]string{bigModInverseType, bigModInverseNote}
	pre := t.guards(s, ind, m)
	return pre + fmt.Sprintf("%sGo.Flow.bind (Go.call (%s %s %s)) (fun (%s : Int) =>\n%s)", ind, param, g, n, vname, rest(ind)), true
}

// bigReturn handles two forms of return that the earlier stages reject: a bare `return` in a function with named
// results (in a function that uses *big.Int), and `return f(g(…))`.  ok = false: s is neither.
func (t *loopTr) bigReturn(s *ast.ReturnStmt, list []ast.Stmt, ind string, m blockMode, k func(string) string) (string, bool) {
	if out, ok := t.big2Return(s, list, ind, m, k); ok {
		return out, true // stage 12 (loops_big2.go): return v.Op(…)
	}
	if len(s.Results) == 0 && t.big != nil && len(t.namedRes) > 0 && !t.ctor {
		// the current values of the named results
		s2 := &ast.ReturnStmt{Return: s.Return}
		for _, o := range t.namedRes {
			id := &ast.Ident{NamePos: s.Return, Name: o.Name()}
			t.info.Uses[id] = o
			t.info.Types[id] = types.TypeAndValue{Type: o.Type()}
			s2.Results = append(s2.Results, id)
		}
		return t.block(append([]ast.Stmt{s2}, list[1:]...), ind, m, k), true
	}
	if len(s.Results) != 1 || t.ctor {
		return "", false
	}
	outer, ok := unparen(s.Results[0]).(*ast.CallExpr)
	if !ok || len(outer.Args) != 1 || outer.Ellipsis.IsValid() {
		return "", false
	}
	inner, ok := unparen(outer.Args[0]).(*ast.CallExpr)
	if !ok {
		return "", false
	}
	if itv, ok := t.info.Types[inner]; !ok || itv.Type == nil {
		return "", false
	} else if _, isTup := itv.Type.(*types.Tuple); !isTup {
		return "", false
	}
	osig, _ := t.sigOf(outer)
	isig, _ := t.sigOf(inner)
	if osig == nil || isig == nil {
		t.fail(s, "`return f(g(…))` with g a function of several results is only supported for translated functions f and g")
	}
	if !m.flow && !m.tail {
		t.fail(s, "return inside a loop or a conditional that is not in tail position")
	}
	if len(list) > 1 {
		t.fail(list[1], "statement after return")
	}
	for _, sg := range []*fnSig{osig, isig} {
		if len(sg.outIdx) != 0 || len(sg.fieldsOut) != 0 || sg.abstract || sg.recursive || sg.sliceRecv {
			t.fail(s, "`return f(g(…))`: %s writes into a parameter or a field, is abstract or recursive: not supported here", sg.lean)
		}
		if sg.flow && !m.flow {
			t.fail(s, "internal error: call of a function that may panic outside a flow block")
		}
	}
	if inner.Ellipsis.IsValid() || len(inner.Args) != len(isig.params) || len(isig.rets) != len(osig.params) || len(osig.rets) != len(t.rets) {
		t.fail(s, "`return f(g(…))`: the results of g must be exactly the parameters of f, and the results of f those of the function")
	}
	for i, k := range isig.rets {
		if k != osig.params[i] || k.isSlice() {
			t.fail(s, "`return f(g(…))`: result %d of %s has type %s, the parameter of %s has type %s (slices are not supported here)", i+1, isig.lean, k.lean(), osig.lean, osig.params[i].lean())
		}
	}
	for i, k := range osig.rets {
		if k != t.rets[i] || isErrKind(k) || k.isSlice() {
			t.fail(s, "`return f(g(…))`: result %d of %s has type %s (errors and slices are not supported here)", i+1, osig.lean, k.lean())
		}
	}
	var argNodes []ast.Node
	for _, a := range inner.Args {
		argNodes = append(argNodes, a)
	}
	hpre, hpost := t.hoistCalls(ind, m, inner, argNodes...)
	t.checkCapArgs(inner, isig)
	iparts := append(t.calleeHead(inner, isig), t.readOnlyRecvArgs(inner, isig)...)
	for i, a := range inner.Args {
		v, k := t.argValue(a)
		if k != isig.params[i] && !(isig.params[i] == kBytes && k == kString) {
			t.fail(a, "argument of type %s for a parameter of type %s", k.lean(), isig.params[i].lean())
		}
		iparts = append(iparts, v)
	}
	pre := t.guards(s, ind, m)
	tys := func(ks []lkind) string {
		var out []string
		for _, k := range ks {
			out = append(out, k.lean())
		}
		return strings.Join(out, " × ")
	}
	st1, st2 := t.freshName(), t.freshName()
	oparts := append(t.calleeHead(outer, osig), t.readOnlyRecvArgs(outer, osig)...)
	for i := range isig.rets {
		oparts = append(oparts, proj(st1, i, len(isig.rets)))
	}
	var vals []string
	for i := range t.rets {
		vals = append(vals, proj(st2, i, len(osig.rets)))
	}
	val := t.retValue(s, vals)
	var b strings.Builder
	b.WriteString(hpre + pre)
	closing := ""
	bindOrLet := func(sig *fnSig, name, ty, call string) {
		if sig.flow {
			fmt.Fprintf(&b, "%sGo.Flow.bind (Go.call %s) (fun (%s : %s) =>\n", ind, call, name, ty)
			closing += ")"
		} else {
			fmt.Fprintf(&b, "%slet %s : %s := %s\n", ind, name, ty, call)
		}
	}
	bindOrLet(isig, st1, tys(isig.rets), "("+strings.Join(iparts, " ")+")")
	bindOrLet(osig, st2, tys(osig.rets), "("+strings.Join(oparts, " ")+")")
	if m.flow {
		b.WriteString(ind + "Go.Flow.done " + atom(val))
	} else {
		b.WriteString(ind + val)
	}
	return b.String() + closing + hpost, true
}

// bigDoc is the addition to the doc comment of a function that uses *big.Int.
func (t *loopTr) bigDoc() string {
	if t.big == nil {
		return ""
	}
	doc := t.keyDoc() + "; *big.Int ↦ Int under the ownership discipline of the header, stage 10 (checked for this function); ASSUMPTION (not checked here): its *big.Int parameters"
	if t.big.valueRecv {
		doc += ", the *elliptic.CurveParams embedded in the receiver and the *big.Int fields read through it"
	}
	doc += " are not nil"
	for _, o := range t.namedRes {
		if isBigIntPtr(o.Type()) {
			doc += "; EXCEPTION to the above: the named *big.Int results have no initial value here (nil is not representable) — each is assigned a fresh value before its first use and before any bare return (checked)"
			break
		}
	}
	return doc
}
