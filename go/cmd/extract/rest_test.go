package main

import (
	"go/ast"
	"go/parser"
	"go/token"
	"testing"
)

// restIgnorable: only NEW plain functions may be left out of a rest pin.
func TestRestIgnorable(t *testing.T) {
	src := `package p
func Known() {}
func New() {}
func init() {}
func len(x []byte) int { return 0 }
func min(a, b int) int { return a }
func (T) Method() {}
func Generic[X any](x X) {}
func _() {}
type T struct{}
`
	f, err := parser.ParseFile(token.NewFileSet(), "p.go", src, 0)
	if err != nil {
		t.Fatal(err)
	}
	saved := restNames
	defer func() { restNames = saved }()
	want := map[string]bool{"Known": false, "New": true, "init": false, "len": false, "min": false, "Method": false, "Generic": false, "_": false}
	restNames = map[string][]string{"p": {"Known"}, "q": nil}
	for _, d := range f.Decls {
		fd, ok := d.(*ast.FuncDecl)
		if !ok {
			continue
		}
		if got := restIgnorable("p", fd); got != want[fd.Name.Name] {
			t.Errorf("restIgnorable(p, %s) = %v, want %v", fd.Name.Name, got, want[fd.Name.Name])
		}
		// a label without snapshot list: everything stays pinned
		if restIgnorable("unknown", fd) {
			t.Errorf("restIgnorable(unknown, %s) = true", fd.Name.Name)
		}
	}
	// no list at all (file missing): everything stays pinned
	restNames = nil
	for _, d := range f.Decls {
		if fd, ok := d.(*ast.FuncDecl); ok && restIgnorable("p", fd) {
			t.Errorf("without rest_names.json %s must stay pinned", fd.Name.Name)
		}
	}
	if !onlyImports([]string{`import "fmt"`, `import ( "a" "b" )`}) || onlyImports([]string{`import "fmt"`, `var x = 1`}) {
		t.Error("onlyImports")
	}
}
