package main

// Stage 5 of the loop translator (see loops.go): calls of translated functions that may panic or write into an
// argument (also functions of other packages translated earlier, e.g. of the pinned iota.go), slice expressions as
// read-only arguments, two-dimensional constant tables, byte / int8 indices, panic(…), strings.Builder.

import (
	"fmt"
	"go/ast"
	"go/constant"
	"go/token"
	"go/types"
	"os"
	"path/filepath"
	"regexp"
	"sort"
	"strings"
)

// callHeaderText is appended to the header of generated files whose translated code uses stage 5.
const callHeaderText = `/-
Additional semantics, stage 5:
* A call f(a1, …, an) of a function translated earlier (of the same package, or of another package: then its Lean name
  is qualified by the namespace it was generated in) that may panic or writes into a parameter is only accepted as a
  statement of its own: "f(…)", "x := f(…)", "x, y = f(…)".  It is Go.Flow.bind (Go.call (f a1 … an)) (fun st => …):
  a panic of the callee is a panic of the caller; the components of st are the declared results followed by the
  content on return of the arrays the callee writes into.  An argument for such a parameter must be a variable x the
  caller may write into (an output buffer, a local array or make-slice, a field of the receiver) or a window x[lo:] of
  one; after the call x is that content, resp. x.take lo ++ that content (checked: lo ≤ len(x)).
* x[lo:], x[:hi], x[lo:hi] as an argument that is only read (a parameter the callee does not write into; an operand
  of fmt.Errorf) is the list ((x.drop lo).take (hi - lo)) with the check lo ≤ hi ≤ len(x) (Go.sliceOK); as before,
  capacity is not modelled (hi ≤ cap(x) in Go).
* T[i][j] on a package-level two-dimensional array of constants that nothing in its package modifies is
  ((T.getD i []).getD j 0) with both indices checked.  An index of type byte / int8 is checked like one of type
  uint / int.
* panic(v) is Go.Flow.panic (the value is not modelled).  make with a non-constant int length checks, in a function that
  can panic anyway, that the length is not negative (Go.nonneg).
* c.m(…) inside a method on the same receiver, m translated earlier: the fields m uses are passed, the fields it assigns
  are written back (after the declared results, before the output buffers).  A method declared abstract
  ("T.m!abstract=f+g": no parameters, no results, reads and assigns the fields f, g, may panic) is not translated: it is a
  parameter T_m of every translated function that calls it.
* [][]int8 (a slice of trit slices) is List (List (BitVec 8)); a row may only be passed as an argument x[j][lo:] (read, or
  written by the callee: then x := x.set j (row.take lo ++ content)) or be assigned a fresh make.  ASSUMPTION: rows a
  function writes into share no memory (true when it assigns every row a fresh make first).
* pkg.ErrX of an imported package (errors.New or github.com/pkg/errors.New; never assigned in its package or in the
  repository) is some "pkg.ErrX".
* With the flag !nowrap a loop "for i := a; i < b; i += k" with a variable bound is Go.forUp under the ASSUMPTION that
  i += k does not wrap around before the condition fails; the tie has to prove it (from guards of the function).
* "var b strings.Builder" is the list of the bytes written so far: b.WriteByte(c) appends c, b.Grow(n) only evaluates n
  (a negative n panics: checked), b.String() is the list; any other use of b is rejected.
-/
`

// fnSig describes a translated function for its callers.
type fnSig struct {
	lean   string  // Lean name, qualified by the namespace it was generated in ("" = none)
	params []lkind // parameters, in order (methods are not callable)
	outIdx []int   // the parameters the function writes into, in result order
	rets   []lkind
	flow   bool // Option-valued
	method bool
	errAt  bool
	pkg    *types.Package
	// methods: the fields of the receiver the method uses / assigns (names, struct order); callable as c.m(…) from
	// another method on the same receiver
	fieldsIn, fieldsOut []string
	fieldKinds          map[string]lkind
	// an abstract method (`T.m!abstract=f+g`): not translated; it is a parameter (named `lean`, of type absType) of every
	// translated function that calls it
	abstract bool
	absType  string
	// parameters that the function slices with an upper bound, x[:hi] / x[lo:hi] (directly or by passing them on to such a
	// function): Go checks hi against the CAPACITY, the translation against the length (capacity is not modelled), so
	// callers inside the translated code must pass slices without spare capacity
	capIdx []int
	// errAtType: for a function that builds &T{err, off} errors, the type T ("path.Name"): errors.As(err, &e) with e *T is
	// then known to succeed on every error the function returns
	errAtType string
	errPtr    bool // the errors are *T (built as &T{…})
	// parameters that stand for things the translation does not define — abstract methods, library functions
	// (externFns), fields of package-level structs: name and Lean type, in the order of the generated definition; every
	// caller passes them on (and so has them as parameters itself)
	deps [][2]string
	// the function calls itself: its definition has the additional parameter `fuel : Nat` (after deps); only the function
	// itself may call it (loops_rec.go)
	recursive bool
	// a method with a value receiver of a named slice type: the receiver is the first parameter of the definition; not
	// callable from translated code for now (loops_strs.go)
	sliceRecv bool
}

// (externFns, the library functions that are passed in as PARAMETERS, are in loops_strs.go)

// depArgs returns the dependency arguments for a call of sig and records them as dependencies of the caller.
func (t *loopTr) depArgs(sig *fnSig) []string {
	var out []string
	for _, d := range sig.deps {
		t.absDeps[d[0]] = d[1]
		out = append(out, d[0])
	}
	return out
}

// loopSigs: the translated functions by "import path.name".
var loopSigs = map[string]*fnSig{}

func sigKey(path, name string) string { return path + "." + name }

// sigOf returns the signature of the translated function that c calls (nil if c is not such a call).
func (t *loopTr) sigOf(c *ast.CallExpr) (*fnSig, *types.Func) {
	var id *ast.Ident
	switch f := unparen(c.Fun).(type) {
	case *ast.Ident:
		id = f
	case *ast.SelectorExpr:
		if x, ok := unparen(f.X).(*ast.Ident); ok {
			if _, isPkg := t.info.Uses[x].(*types.PkgName); isPkg {
				id = f.Sel
			}
		}
	}
	if id == nil {
		if sig, fn := t.ifaceMethodSig(c); sig != nil { // stage 11 (loops_iface.go): x.m() on a value of a named type of the package
			return sig, fn
		}
		// v.m(…) on a package-level variable v of type *T (T a struct of the package): the fields of v that m reads are
		// parameters v_f of the translation (read-only: m must not assign fields, nothing may assign v)
		if f, ok := unparen(c.Fun).(*ast.SelectorExpr); ok {
			if x, ok := unparen(f.X).(*ast.Ident); ok {
				if v, ok := t.info.Uses[x].(*types.Var); ok && !v.IsField() && v.Parent() == t.set.tp.tpkg.Scope() {
					if fn, ok := t.info.Uses[f.Sel].(*types.Func); ok && fn.Pkg() != nil {
						if sig := loopSigs[sigKey(fn.Pkg().Path(), recvTypeName(fn)+"."+fn.Name())]; sig != nil {
							if sig.sliceRecv {
								t.fail(c, "call of the method %s, which has a value receiver of a slice type: not supported", sig.lean)
							}
							return sig, fn
						}
					}
				}
			}
		}
		// c.m(…) on the receiver of the method being translated
		if f, ok := unparen(c.Fun).(*ast.SelectorExpr); ok && t.recv != nil && !t.ctor {
			if x, ok := unparen(f.X).(*ast.Ident); ok && t.info.Uses[x] == t.recv {
				if fn, ok := t.info.Uses[f.Sel].(*types.Func); ok && fn.Pkg() != nil {
					return loopSigs[sigKey(fn.Pkg().Path(), recvTypeName(fn)+"."+fn.Name())], fn
				}
			}
		}
		return nil, nil
	}
	fn, ok := t.info.Uses[id].(*types.Func)
	if !ok || fn.Pkg() == nil {
		return nil, nil
	}
	if sig := fn.Type().(*types.Signature); sig.Recv() != nil {
		return nil, nil
	}
	return loopSigs[sigKey(fn.Pkg().Path(), fn.Name())], fn
}

// recvTypeName is the name of the receiver's base type of a method.
func recvTypeName(fn *types.Func) string {
	r := fn.Type().(*types.Signature).Recv()
	if r == nil {
		return ""
	}
	ty := r.Type()
	if p, ok := ty.(*types.Pointer); ok {
		ty = p.Elem()
	}
	if n, ok := ty.(*types.Named); ok {
		return n.Obj().Name()
	}
	return ""
}

// needsBind: the call has to be translated as a statement of its own.
func (s *fnSig) needsBind() bool { return s.flow || len(s.outIdx) > 0 || s.method }

// flowCallOf recognises the statements `f(…)`, `x := f(…)`, `x, y = f(…)` with f a translated function that may panic
// or writes into a parameter.
func (t *loopTr) flowCallOf(st ast.Stmt) (*ast.CallExpr, *fnSig, []ast.Expr, token.Token) {
	switch s := st.(type) {
	case *ast.ExprStmt:
		if c, ok := unparen(s.X).(*ast.CallExpr); ok {
			if sig, _ := t.sigOf(c); sig != nil && sig.needsBind() {
				return c, sig, nil, token.ASSIGN
			}
		}
	case *ast.AssignStmt:
		if len(s.Rhs) == 1 && (s.Tok == token.ASSIGN || s.Tok == token.DEFINE) {
			if c, ok := unparen(s.Rhs[0]).(*ast.CallExpr); ok {
				if sig, _ := t.sigOf(c); sig != nil && sig.needsBind() {
					return c, sig, s.Lhs, s.Tok
				}
			}
		}
	}
	return nil, nil, nil, 0
}

// outArgBase returns the variable behind an argument for a parameter the callee writes into: x or x[lo:].
func (t *loopTr) outArgBase(a ast.Expr) (types.Object, ast.Expr) {
	a = unparen(a)
	if se, ok := a.(*ast.SliceExpr); ok {
		if se.High != nil || se.Slice3 {
			return nil, nil
		}
		return t.varOf(se.X), se.Low
	}
	return t.varOf(a), nil
}

// callOuts returns the variables the call writes into through its arguments.
func (t *loopTr) callOuts(c *ast.CallExpr) []types.Object {
	sig, _ := t.sigOf(c)
	if sig == nil {
		return nil
	}
	var objs []types.Object
	for _, i := range sig.outIdx {
		if i < len(c.Args) {
			if ro, _, _ := t.rowArg(c.Args[i]); ro != nil {
				objs = append(objs, ro)
			} else if o, _ := t.outArgBase(c.Args[i]); o != nil {
				objs = append(objs, o)
			}
		}
	}
	if sig.method {
		for _, f := range t.fields {
			for _, n := range sig.fieldsOut {
				if f.Name() == n {
					objs = append(objs, f)
				}
			}
		}
	}
	return objs
}

// flowCall translates a call statement (see callHeaderText); rest renders what follows it.
func (t *loopTr) flowCall(st ast.Stmt, c *ast.CallExpr, sig *fnSig, lhs []ast.Expr, tok token.Token, ind string, m blockMode, rest func(string) string) string {

	// a method on the same receiver: its fields are passed, the ones it assigns are written back
	var fieldArgs []string
	fieldObj := map[string]types.Object{}
	if pv := t.pkgRecv(c); pv != nil {
		if len(sig.fieldsOut) != 0 {
			t.fail(c, "call of %s on the package variable %s: the method assigns fields of its receiver", sig.lean, pv.Name())
		}
		t.set.checkOnlyMethodCalls(t, pv, c)
		for _, n := range sig.fieldsIn {
			dep := pv.Name() + "_" + n
			t.absDeps[dep] = sig.fieldKinds[n].lean()
			fieldArgs = append(fieldArgs, dep)
		}
	} else if sig.method {
		for _, f := range t.fields {
			fieldObj[f.Name()] = f
		}
		for _, n := range sig.fieldsIn {
			f := fieldObj[n]
			if f == nil {
				t.fail(c, "internal error: field %s of the receiver is not registered", n)
			}
			fieldArgs = append(fieldArgs, t.vars[f])
		}
		if sig.abstract {
			t.absDeps[sig.lean] = sig.absType
		}
	}
	fieldArgs = append(fieldArgs, t.ifaceRecvArgs(c)...) // stage 11 (loops_iface.go): the value receiver of x.m()
	if sig.flow && !m.flow {
		t.fail(c, "internal error: call of a function that may panic outside a flow block")
	}
	if c.Ellipsis.IsValid() || len(c.Args) != len(sig.params) {
		t.fail(c, "call arity")
	}
	t.checkCapArgs(c, sig)
	if lhs != nil && len(lhs) != len(sig.rets) {
		t.fail(st, "assignment arity")
	}
	isOut := map[int]bool{}
	for _, i := range sig.outIdx {
		isOut[i] = true
	}
	type wb struct {
		o   types.Object
		lo  string // "" = the whole variable
		row string // x[row][lo:]: the index of the row (a Nat text)
	}
	wbs := map[int]wb{}
	var args []string
	seen := map[types.Object]bool{}
	for i, a := range c.Args {
		if !isOut[i] {
			v, k := t.argValue(a)
			if k != sig.params[i] && !(sig.params[i] == kBytes && k == kString) {
				t.fail(a, "argument of type %s for a parameter of type %s", k.lean(), sig.params[i].lean())
			}
			args = append(args, v)
			continue
		}
		o, lo := t.outArgBase(a)
		if ro, rowIx, rlo := t.rowArg(a); ro != nil {
			// x[j][lo:] with x a slice of slices the caller may write into
			name := t.vars[ro]
			if !t.isOutBuf(ro) || t.pairBuf[ro] || t.restBuf[ro] || seen[ro] {
				t.fail(a, "argument %s for a parameter that %s writes into: `%s` is not an output buffer of the caller", t.p.src(a), sig.lean, name)
			}
			seen[ro] = true
			rk := t.kindOf(ro.Type(), a)
			if rk.elem() != sig.params[i] {
				t.fail(a, "argument of type %s for a parameter of type %s", rk.elem().lean(), sig.params[i].lean())
			}
			j := t.rowIndex(rowIx, name)
			row := fmt.Sprintf("(%s.getD %s [])", name, j)
			if rlo == nil {
				args = append(args, row)
				wbs[i] = wb{o: ro, row: j}
			} else {
				n := t.sliceBound(rlo, row)
				args = append(args, fmt.Sprintf("(%s.drop %s)", row, n))
				wbs[i] = wb{o: ro, row: j, lo: n}
			}
			continue
		}
		name, local := t.vars[o]
		f := t.facts
		switch {
		case o == nil || !local:
			t.fail(a, "argument %s for a parameter that %s writes into: only a variable x or a window x[lo:] is supported", t.p.src(a), sig.lean)
		case t.pairBuf[o] || t.isTagged(o) || t.restBuf[o] || seen[o]:
			t.fail(a, "argument %s for a parameter that %s writes into: not supported for this variable", t.p.src(a), sig.lean)
		case t.isOutBuf(o), t.isField(o):
		case !t.params[o] && isPlainArray(o.Type()):
		case t.params[o] || len(f.defs[o]) != 1 || f.plain[o] != 0 || !t.isMake(f.defs[o][0]):
			t.fail(a, "%s writes into `%s`, which is not an output buffer, a field, a local array or a local slice created once by make (aliasing-sensitive)", sig.lean, name)
		}
		seen[o] = true
		if k := t.kindOf(o.Type(), a); k != sig.params[i] {
			t.fail(a, "argument of type %s for a parameter of type %s", k.lean(), sig.params[i].lean())
		}
		if lo == nil {
			args = append(args, name)
			wbs[i] = wb{o: o}
			continue
		}
		n := t.sliceBound(lo, name)
		args = append(args, fmt.Sprintf("(%s.drop %s)", name, n))
		wbs[i] = wb{o: o, lo: n}
	}
	// a variable written by the callee must not be read through another argument (the callee would see its own writes);
	// that includes the fields of the receiver a called method assigns
	for _, fn := range sig.fieldsOut {
		if f := fieldObj[fn]; f != nil {
			seen[f] = true
		}
	}
	for i, a := range c.Args {
		if isOut[i] {
			continue
		}
		ast.Inspect(a, func(n ast.Node) bool {
			if e, ok := n.(ast.Expr); ok {
				if o := t.varOf(e); o != nil && seen[o] {
					t.fail(a, "the argument %s reads `%s`, which %s writes into (aliasing-sensitive)", t.p.src(a), o.Name(), sig.lean)
				}
			}
			return true
		})
	}
	pre := t.guards(st, ind, m)
	var tys []string
	for _, k := range sig.rets {
		tys = append(tys, k.lean())
	}
	for _, n := range sig.fieldsOut {
		tys = append(tys, sig.fieldKinds[n].lean())
	}
	for _, i := range sig.outIdx {
		tys = append(tys, sig.params[i].lean())
	}
	n := len(tys)
	stn := t.freshName()
	var b, resB strings.Builder
	for i := range sig.rets {
		if lhs == nil {
			break
		}
		if id, ok := unparen(lhs[i]).(*ast.Ident); ok && id.Name == "_" {
			continue
		}
		o, name, k := t.scalarTarget(lhs[i])
		conv := ""
		switch {
		case k == sig.rets[i]:
		case k == kErrOpt && sig.rets[i] == kErr:
			conv = "Go.errOfPlain "
		case k == kErrOpt && sig.rets[i] == kErrAt:
			conv = "Go.errOfAt "
		default:
			t.fail(st, "assignment of %s to %s", sig.rets[i].lean(), k.lean())
		}
		if isErrKind(k) {
			t.errFrom[o] = sig
		}
		if k.isSlice() && t.params[o] {
			t.fail(st, "assignment to the slice parameter %s", name)
		}
		// the results are assigned AFTER the call has returned, i.e. after the callee's writes: bound last
		val := proj(stn, i, n)
		if isErrKind(k) && sig.pkg != nil && sig.pkg != t.set.tp.tpkg {
			// an error of another package: its variable names are qualified by that package's name
			q := map[lkind]string{kErr: "Go.errQual", kErrAt: "Go.errQualAt", kErrOpt: "Go.errQualOpt"}[sig.rets[i]]
			val = fmt.Sprintf("(%s %s %s)", q, leanString(sig.pkg.Name()), val)
		}
		if conv != "" {
			fmt.Fprintf(&resB, "%slet %s : %s := (%s%s)\n", ind, name, k.lean(), conv, val)
		} else {
			fmt.Fprintf(&resB, "%slet %s : %s := %s\n", ind, name, k.lean(), val)
		}
	}
	for j, fn := range sig.fieldsOut {
		f := fieldObj[fn]
		fmt.Fprintf(&b, "%slet %s : %s := %s\n", ind, t.vars[f], t.objType(f), proj(stn, len(sig.rets)+j, n))
	}
	for j, i := range sig.outIdx {
		w := wbs[i]
		name := t.vars[w.o]
		val := proj(stn, len(sig.rets)+len(sig.fieldsOut)+j, n)
		switch {
		case w.row != "":
			// a window of a row of a slice of slices
			row := fmt.Sprintf("(%s.getD %s [])", name, w.row)
			if w.lo != "" {
				val = fmt.Sprintf("(%s.take %s ++ %s)", row, w.lo, val)
			}
			val = fmt.Sprintf("(%s.set %s %s)", name, w.row, val)
		case w.lo != "":
			val = fmt.Sprintf("(%s.take %s ++ %s)", name, w.lo, val)
		}
		fmt.Fprintf(&b, "%slet %s : %s := %s\n", ind, name, t.objType(w.o), val)
	}
	b.WriteString(resB.String())
	call := "(" + strings.Join(append(append(t.calleeHead(c, sig), fieldArgs...), args...), " ") + ")"
	if len(tys) == 0 {
		t.fail(c, "call of %s, which has neither result nor effect", sig.lean)
	}
	ty := strings.Join(tys, " × ")
	if !sig.flow {
		return fmt.Sprintf("%s%slet %s : %s := %s\n%s%s", pre, ind, stn, ty, call, b.String(), rest(ind))
	}
	return fmt.Sprintf("%s%sGo.Flow.bind (Go.call %s) (fun (%s : %s) =>\n%s%s)", pre, ind, call, stn, ty, b.String(), rest(ind))
}

func hasErr(ks []lkind) bool {
	for _, k := range ks {
		if isErrKind(k) {
			return true
		}
	}
	return false
}

// sliceBound renders the lower bound of x[lo:] as a Nat and registers the check lo ≤ len(x).
func (t *loopTr) sliceBound(lo ast.Expr, list string) string {
	return t.sliceBoundLen(lo, list+".length")
}

// sliceBoundLen is sliceBound with the length (a Nat text) the bound is checked against.
func (t *loopTr) sliceBoundLen(lo ast.Expr, length string) string {
	if tv := t.typeOf(lo); tv.Value != nil {
		c := constant.ToInt(tv.Value)
		if c.Kind() != constant.Int || constant.Sign(c) < 0 {
			t.fail(lo, "bad constant slice bound")
		}
		t.addCheck(fmt.Sprintf("(decide (%s ≤ %s))", c.ExactString(), length))
		return c.ExactString()
	}
	e, ek := t.expr(lo)
	switch ek {
	case kInt:
		t.addCheck(fmt.Sprintf("(Go.sliceFromS %s %s)", e, length))
	case kUint:
		t.addCheck(fmt.Sprintf("(Go.sliceFromU %s %s)", e, length))
	default:
		t.fail(lo, "slice bound of type %s", t.typeOf(lo).Type)
	}
	return e + ".toNat"
}

// argValue translates an argument that is only read: an expression, or a slice expression of a variable.
func (t *loopTr) argValue(a ast.Expr) (string, lkind) {
	se, ok := unparen(a).(*ast.SliceExpr)
	if !ok {
		// a bare slice variable is fine here: the callee does not write into this parameter and cannot return it
		return t.expr(a)
	}
	if se.Slice3 {
		t.fail(a, "three-index slice expression")
	}
	if s, k, ok := t.ifaceFieldSlice(se); ok { // stage 11 (loops_iface.go): x.f[:] of a struct value
		return s, k
	}
	var list string
	var k lkind
	if ro, ix, _ := t.rowArg(se.X); ro != nil {
		// a row x[j] of a slice of slices, read only
		name, rk := t.listIdent(unparen(ix.X).(*ast.Ident))
		list, k = fmt.Sprintf("(%s.getD %s [])", name, t.rowIndex(ix, name)), rk.elem()
	} else if o := t.fieldOf(se.X); o != nil {
		list, k = t.vars[o], t.kindOf(o.Type(), a)
	} else if id, ok := unparen(se.X).(*ast.Ident); ok {
		list, k = t.listIdent(id)
	} else {
		t.fail(a, "slice expression %s: only variable[lo:hi] is supported", t.p.src(a))
	}
	if !k.isSlice() && k != kString && k != kMarshs {
		t.fail(a, "slice expression on %s", k.lean())
	}
	// the length the bounds are checked against: that of the list, or N for an array variable [N]T (loops_arr.go)
	length := list + ".length"
	if n, isArr := t.arrayVarLen(se.X); isArr {
		length = n
	}
	if se.High != nil && k != kString {
		t.noteCapSensitive(se.X)
		if o := t.varOf(se.X); o != nil && t.spareCap[o] {
			t.fail(a, "`%s` has spare capacity (it was cut by x = x[:k]): slicing it with an upper bound is checked against the capacity, which is not modelled", o.Name())
		}
	}
	bound := func(e ast.Expr) (nat, bv string) {
		if tv := t.typeOf(e); tv.Value != nil {
			c := constant.ToInt(tv.Value)
			if c.Kind() != constant.Int || constant.Sign(c) < 0 {
				t.fail(e, "bad constant slice bound")
			}
			return c.ExactString(), c.ExactString() + "#64"
		}
		s, ek := t.expr(e)
		if ek != kInt {
			t.fail(e, "slice bound of type %s (only int and constants are supported here)", t.typeOf(e).Type)
		}
		return s + ".toNat", s
	}
	switch {
	case se.Low == nil && se.High == nil:
		return list, k
	case se.High == nil:
		n := t.sliceBoundLen(se.Low, length)
		return fmt.Sprintf("(%s.drop %s)", list, n), k
	case se.Low == nil:
		if tv := t.typeOf(se.High); tv.Value == nil && t.kindOf(tv.Type, se.High) == kUint {
			// x[:hi] with a uint bound: hi ≤ len(x), compared unsigned
			h, _ := t.expr(se.High)
			t.addCheck(fmt.Sprintf("(Go.sliceFromU %s %s)", h, length))
			return fmt.Sprintf("(%s.take %s.toNat)", list, h), k
		}
		hn, hb := bound(se.High)
		t.addCheck(fmt.Sprintf("(Go.sliceOK 0#64 %s %s)", hb, length))
		return fmt.Sprintf("(%s.take %s)", list, hn), k
	}
	ln, lb := bound(se.Low)
	hn, hb := bound(se.High)
	t.addCheck(fmt.Sprintf("(Go.sliceOK %s %s %s)", lb, hb, length))
	return fmt.Sprintf("((%s.drop %s).take (%s - %s))", list, ln, hn, ln), k
}

// ---------------------------------------------------------------- two-dimensional tables

// index2D translates T[i][j] for a package-level two-dimensional array T of constants.
func (t *loopTr) index2D(x, inner *ast.IndexExpr) (string, lkind) {
	id, ok := unparen(inner.X).(*ast.Ident)
	if !ok {
		t.fail(x, "index expression %s: only variable[index] is supported", t.p.src(x))
	}
	v, ok := t.info.Uses[id].(*types.Var)
	if !ok || v.Parent() != t.set.tp.tpkg.Scope() {
		t.fail(x, "index expression %s: only T[i][j] on a package-level array of arrays is supported", t.p.src(x))
	}
	outer, ok1 := v.Type().Underlying().(*types.Array)
	if !ok1 {
		t.fail(x, "index expression %s: only T[i][j] on a package-level array of arrays is supported", t.p.src(x))
	}
	in, ok2 := outer.Elem().Underlying().(*types.Array)
	if !ok2 {
		t.fail(x, "index expression %s: only T[i][j] on a package-level array of arrays is supported", t.p.src(x))
	}
	ek, ok3 := sliceKind(in.Elem())
	if !ok3 {
		t.fail(x, "element type of %s", v.Name())
	}
	name := t.set.pkgVar2D(t, v, x, outer.Len(), in.Len(), ek)
	i := t.checkedIndex(inner.Index, fmt.Sprint(outer.Len()))
	j := t.checkedIndex(x.Index, fmt.Sprint(in.Len()))
	return fmt.Sprintf("((%s.getD %s []).getD %s 0#%d)", name, i, j, ek.elem().width()), ek.elem()
}

// checkedIndex renders an index as a Nat and registers its bounds check against `length` (a Nat text).
func (t *loopTr) checkedIndex(ix ast.Expr, length string) string {
	if c, isConst := t.constInt(ix); isConst {
		if c.Sign() < 0 {
			t.fail(ix, "negative constant index")
		}
		t.addCheck(fmt.Sprintf("(decide (%s < %s))", c, length))
		return c.String()
	}
	i, ik := t.expr(ix)
	switch ik {
	case kInt:
		t.addCheck(fmt.Sprintf("(Go.inRangeS %s %s)", i, length))
	case kUint:
		t.addCheck(fmt.Sprintf("(Go.inRangeU %s %s)", i, length))
	case kInt8:
		t.addCheck(fmt.Sprintf("(Go.inRangeS8 %s %s)", i, length))
	case kByte:
		t.addCheck(fmt.Sprintf("(Go.inRangeU8 %s %s)", i, length))
	default:
		t.fail(ix, "index of type %s", t.typeOf(ix).Type)
	}
	return i + ".toNat"
}

// pkgVar2D returns the Lean name of the package-level array of arrays v (constants, never modified).
func (s *loopSet) pkgVar2D(t *loopTr, v *types.Var, at ast.Node, n, m int64, ek lkind) string {
	name := "var_" + v.Name()
	if _, ok := s.varText[v]; ok {
		return name
	}
	init, _, ok := s.p.valueSpec(v.Name())
	cl, isLit := init.(*ast.CompositeLit)
	if !ok || init == nil || !isLit || int64(len(cl.Elts)) != n {
		t.fail(at, "package variable %s is not initialised by a complete array literal", v.Name())
	}
	var rows []string
	for _, r := range cl.Elts {
		rl, ok := r.(*ast.CompositeLit)
		if !ok || int64(len(rl.Elts)) != m {
			t.fail(at, "package variable %s: a row is not a complete array literal", v.Name())
		}
		var parts []string
		for _, el := range rl.Elts {
			tv, ok := s.tp.info.Types[el]
			if _, keyed := el.(*ast.KeyValueExpr); keyed || !ok || tv.Value == nil {
				t.fail(at, "package variable %s: non-constant or keyed element", v.Name())
			}
			parts = append(parts, t.constLit(el, tv.Value, ek.elem()))
		}
		rows = append(rows, "["+strings.Join(parts, ", ")+"]")
	}
	s.checkReadOnly(t, v, at)
	s.varText[v] = fmt.Sprintf("/-- package variable `%s` of %s (an array of arrays of constants; never modified in its package: every use there is `%s[i][j]` read or `len(%s)`) -/\ndef %s : List (%s) := [%s]\n",
		v.Name(), rel(s.p.dir), v.Name(), v.Name(), name, ek.lean(), strings.Join(rows, ", "))
	s.pkgVars = append(s.pkgVars, v)
	return name
}

// ---------------------------------------------------------------- strings.Builder

// isBuilder: o is a local variable of type strings.Builder.
func (t *loopTr) isBuilder(o types.Object) bool {
	if o == nil {
		return false
	}
	n, ok := o.Type().(*types.Named)
	return ok && n.Obj().Pkg() != nil && n.Obj().Pkg().Path() == "strings" && n.Obj().Name() == "Builder"
}

// builderCall recognises b.Method(…) on a local strings.Builder.
func (t *loopTr) builderCall(c *ast.CallExpr) (types.Object, string) {
	sel, ok := unparen(c.Fun).(*ast.SelectorExpr)
	if !ok {
		return nil, ""
	}
	id, ok := unparen(sel.X).(*ast.Ident)
	if !ok {
		return nil, ""
	}
	o := t.objOf(id)
	if !t.isBuilder(o) {
		return nil, ""
	}
	return o, sel.Sel.Name
}

// builderStmt translates b.WriteByte(c) and b.Grow(n) as statements.
func (t *loopTr) builderStmt(s *ast.ExprStmt, o types.Object, method string) []binding {
	c := unparen(s.X).(*ast.CallExpr)
	name := t.vars[o]
	switch method {
	case "WriteByte":
		if len(c.Args) != 1 {
			t.fail(s, "arity")
		}
		v, k := t.expr(c.Args[0])
		if k != kByte {
			t.fail(s, "WriteByte of %s", k.lean())
		}
		return []binding{{name: name, kind: kBytes, val: fmt.Sprintf("(%s ++ [%s])", name, v), checks: t.takeChecks()}}
	case "WriteString":
		if len(c.Args) != 1 {
			t.fail(s, "arity")
		}
		v, k := t.expr(c.Args[0])
		if k != kString {
			t.fail(s, "WriteString of %s", k.lean())
		}
		return []binding{{name: name, kind: kBytes, val: fmt.Sprintf("(%s ++ %s)", name, v), checks: t.takeChecks()}}
	case "Grow":
		if len(c.Args) != 1 {
			t.fail(s, "arity")
		}
		v, k := t.expr(c.Args[0])
		if k != kInt {
			t.fail(s, "Grow of %s", k.lean())
		}
		if t.flowFn {
			t.addCheck("(Go.nonneg " + v + ")")
		}
		return []binding{{name: "", checks: t.takeChecks()}}
	}
	t.fail(s, "strings.Builder.%s is not supported (only WriteByte, WriteString, Grow and String)", method)
	return nil
}

// isPanicCall: e is a call of the builtin panic.
func (t *loopTr) isPanicCall(e ast.Expr) bool {
	c, ok := unparen(e).(*ast.CallExpr)
	if !ok {
		return false
	}
	id, ok := unparen(c.Fun).(*ast.Ident)
	if !ok {
		return false
	}
	b, ok := t.info.Uses[id].(*types.Builtin)
	return ok && b.Name() == "panic"
}

// isBuilderString: e is b.String() on a local strings.Builder.
func (t *loopTr) isBuilderString(e ast.Expr) bool {
	c, ok := unparen(e).(*ast.CallExpr)
	if !ok {
		return false
	}
	o, m := t.builderCall(c)
	return o != nil && m == "String"
}

func sigName(s *fnSig) string {
	if i := strings.LastIndex(s.lean, "."); i >= 0 {
		return s.lean[i+1:]
	}
	return s.lean
}

// sigCall translates, in an expression, the call of a translated function of another package (or namespace) that can
// neither panic nor write into a parameter and has one result.
func (t *loopTr) sigCall(x *ast.CallExpr, sig *fnSig) (string, lkind) {
	if sig.needsBind() {
		t.fail(x, "call of %s, which may panic or writes into a parameter: only supported as a statement of its own (`f(…)`, `x := f(…)`)", sig.lean)
	}
	if sig.method || len(sig.rets) != 1 || x.Ellipsis.IsValid() || len(x.Args) != len(sig.params) {
		t.fail(x, "unsupported call %s", t.p.src(x))
	}
	t.checkCapArgs(x, sig)
	parts := t.calleeHead(x, sig)
	for i, a := range x.Args {
		v, k := t.argValue(a)
		if k != sig.params[i] && !(sig.params[i] == kBytes && k == kString) {
			t.fail(a, "argument of type %s for a parameter of type %s", k.lean(), sig.params[i].lean())
		}
		parts = append(parts, v)
	}
	return "(" + strings.Join(parts, " ") + ")", sig.rets[0]
}

// register records the signature of the function just translated for later callers.
func (t *loopTr) register(leanName string) {
	sig := &fnSig{lean: leanName, rets: t.rets, flow: t.flowFn, method: t.fd.Recv != nil, errAt: t.errAt, pkg: t.set.tp.tpkg, recursive: t.recursive,
		sliceRecv: t.recvParam != nil}
	if t.set.ns != "" {
		sig.lean = t.set.ns + "." + leanName
	}
	idx := 0
	for _, f := range t.fd.Type.Params.List {
		for _, id := range f.Names {
			o := t.info.Defs[id]
			sig.params = append(sig.params, t.kindOf(o.Type(), id))
			if t.isOutBuf(o) {
				sig.outIdx = append(sig.outIdx, idx)
			}
			if t.capSens[o] {
				sig.capIdx = append(sig.capIdx, idx)
			}
			idx++
		}
	}
	sig.errAtType, sig.errPtr = t.builtErrType()
	var dn []string
	for n := range t.absDeps {
		dn = append(dn, n)
	}
	sort.Strings(dn)
	for _, n := range dn {
		sig.deps = append(sig.deps, [2]string{n, t.absDeps[n]})
	}
	key := t.fd.Name.Name
	if t.fd.Recv != nil {
		key = strings.ReplaceAll(t.name, "!", "") // "T.m"
		sig.fieldKinds = map[string]lkind{}
		for _, f := range t.fields {
			sig.fieldsIn = append(sig.fieldsIn, f.Name())
			sig.fieldKinds[f.Name()] = t.kindOf(f.Type(), t.fd)
		}
		for _, f := range t.fieldOuts {
			sig.fieldsOut = append(sig.fieldsOut, f.Name())
		}
	}
	loopSigs[sigKey(t.set.tp.tpkg.Path(), key)] = sig
}

// registerAbstract records `T.m!abstract=f+g`: a method without parameters and results that reads and assigns the fields
// f, g of its receiver and may panic; it is not translated but becomes a parameter of its callers.
func (s *loopSet) registerAbstract(name string, fields []string) {
	fd := s.p.method(name)
	if fd.Recv == nil || fd.Type.Params.NumFields() != 0 || fd.Type.Results.NumFields() != 0 {
		die("translate %s: an abstract function must be a method without parameters and results", name)
	}
	t := &loopTr{name: name, set: s, p: s.p, info: s.tp.info, fd: fd, vars: map[types.Object]string{}}
	ro := s.tp.info.Defs[fd.Recv.List[0].Names[0]]
	st := ro.Type().(*types.Pointer).Elem().(*types.Named).Underlying().(*types.Struct)
	sig := &fnSig{lean: strings.ReplaceAll(name, ".", "_"), flow: true, method: true, abstract: true, pkg: s.tp.tpkg, fieldKinds: map[string]lkind{}}
	var tys []string
	for i := 0; i < st.NumFields(); i++ {
		for _, f := range fields {
			if st.Field(i).Name() == f {
				k := t.kindOf(st.Field(i).Type(), fd)
				sig.fieldsIn = append(sig.fieldsIn, f)
				sig.fieldsOut = append(sig.fieldsOut, f)
				sig.fieldKinds[f] = k
				tys = append(tys, k.lean())
			}
		}
	}
	if len(sig.fieldsIn) != len(fields) {
		die("translate %s: unknown field in %v", name, fields)
	}
	sig.absType = strings.Join(tys, " → ") + " → Option (" + strings.Join(tys, " × ") + ")"
	loopSigs[sigKey(s.tp.tpkg.Path(), name)] = sig
}

// ---------------------------------------------------------------- calls that may panic, nested in expressions

type hoistedVal struct {
	name string
	kind lkind
}

// hoistCalls finds, in the expressions of the nodes ns, the calls of translated functions that may panic (one result,
// no output parameter), innermost first, and binds each to a fresh name in front of the statement:
// Go.Flow.bind (Go.call (f …)) (fun st_k => …).  While the statement is translated the call is that name.  Whether the
// callee runs before or after another panicking part of the statement does not matter (any panic is a panic); a call
// in the right operand of && / || (evaluated conditionally) is rejected.
func (t *loopTr) hoistCalls(ind string, m blockMode, skip *ast.CallExpr, ns ...ast.Node) (pre, post string) {
	var calls []*ast.CallExpr
	for _, n := range ns {
		if n == nil {
			continue
		}
		var stack []ast.Node
		ast.Inspect(n, func(x ast.Node) bool {
			if x == nil {
				top := stack[len(stack)-1]
				stack = stack[:len(stack)-1]
				if c, ok := top.(*ast.CallExpr); ok && c != skip {
					if _, done := t.hoisted[c]; !done {
						if sig, _ := t.sigOf(c); sig != nil && sig.needsBind() {
							calls = append(calls, c)
						}
					}
				}
				return true
			}
			if b, ok := x.(*ast.BinaryExpr); ok && (b.Op == token.LAND || b.Op == token.LOR) {
				ast.Inspect(b.Y, func(y ast.Node) bool {
					if c, ok := y.(*ast.CallExpr); ok {
						if sig, _ := t.sigOf(c); sig != nil && sig.needsBind() {
							t.fail(c, "call of %s, which may panic, in the right operand of %s (evaluated conditionally) is not supported", sig.lean, b.Op)
						}
					}
					return true
				})
			}
			stack = append(stack, x)
			return true
		})
	}
	if len(calls) == 0 {
		return "", ""
	}
	for _, c := range calls {
		if sig, _ := t.sigOf(c); sig.flow && !m.flow {
			t.fail(c, "internal error: call of a function that may panic outside a flow block")
		}
	}
	if t.hoisted == nil {
		t.hoisted = map[*ast.CallExpr]hoistedVal{}
	}
	var b strings.Builder
	for _, c := range calls {
		sig, _ := t.sigOf(c)
		if len(sig.outIdx) != 0 || len(sig.rets) != 1 || len(sig.fieldsOut) != 0 || c.Ellipsis.IsValid() || len(c.Args) != len(sig.params) {
			t.fail(c, "call of %s inside an expression: only functions with one result that do not write into a parameter or a field are supported there (otherwise as a statement of its own)", sig.lean)
		}
		t.checkCapArgs(c, sig)
		parts := append(t.calleeHead(c, sig), t.readOnlyRecvArgs(c, sig)...)
		for i, a := range c.Args {
			v, k := t.argValue(a)
			if k != sig.params[i] && !(sig.params[i] == kBytes && k == kString) {
				t.fail(a, "argument of type %s for a parameter of type %s", k.lean(), sig.params[i].lean())
			}
			parts = append(parts, v)
		}
		b.WriteString(t.guards(c, ind, m))
		name := t.freshName()
		t.hoisted[c] = hoistedVal{name, sig.rets[0]}
		if !sig.flow {
			// a method that cannot panic: its value, bound in front of the statement
			fmt.Fprintf(&b, "%slet %s : %s := (%s)\n", ind, name, sig.rets[0].lean(), strings.Join(parts, " "))
			continue
		}
		fmt.Fprintf(&b, "%sGo.Flow.bind (Go.call (%s)) (fun (%s : %s) =>\n", ind, strings.Join(parts, " "), name, sig.rets[0].lean())
		post += ")"
	}
	return b.String(), post
}

// ---------------------------------------------------------------- error variables of imported packages

var importedErrOK = map[string]bool{}

// importedErrVar: pkg.ErrX, an exported package-level variable of an imported package of the module or of iota.go that
// is initialised by errors.New (standard library or github.com/pkg/errors), is never assigned or address-taken in its
// own package and is not assigned or address-taken anywhere in the repository.  Its value is some "pkg.ErrX".
func (t *loopTr) importedErrVar(sel *ast.SelectorExpr, v *types.Var) string {
	path := v.Pkg().Path()
	name := v.Pkg().Name() + "." + v.Name()
	key := path + "." + v.Name()
	if importedErrOK[key] {
		return name
	}
	var dir string
	switch {
	case strings.HasPrefix(path, modulePrefix):
		dir = filepath.Join(*repo, strings.TrimPrefix(path, modulePrefix))
	case strings.HasPrefix(path, iotaGoPrefix):
		dir = filepath.Join(iotaGoDir(), strings.TrimPrefix(path, iotaGoPrefix))
	default:
		t.fail(sel, "error variable %s of package %s: only packages of the module and of iota.go are supported", v.Name(), path)
	}
	q := load(dir)
	init, _, ok := q.valueSpec(v.Name())
	c, isCall := init.(*ast.CallExpr)
	if !ok || !isCall {
		t.fail(sel, "%s is not initialised by errors.New", name)
	}
	fs, isSel := unparen(c.Fun).(*ast.SelectorExpr)
	fx, isId := (ast.Expr)(nil), false
	if isSel {
		fx = fs.X
		_, isId = fx.(*ast.Ident)
	}
	if !isSel || !isId || fs.Sel.Name != "New" {
		t.fail(sel, "%s is not initialised by errors.New", name)
	}
	okImport := false
	for _, fn := range q.sortedFiles() {
		f := q.files[fn]
		for _, im := range f.Imports {
			p := strings.Trim(im.Path.Value, "\"")
			local := p[strings.LastIndex(p, "/")+1:]
			if im.Name != nil {
				local = im.Name.Name
			}
			if local == fx.(*ast.Ident).Name && (p == "errors" || p == "github.com/pkg/errors") {
				okImport = true
			}
		}
		ast.Inspect(f, func(n ast.Node) bool {
			var written []ast.Expr
			switch x := n.(type) {
			case *ast.AssignStmt:
				written = x.Lhs
			case *ast.IncDecStmt:
				written = []ast.Expr{x.X}
			case *ast.UnaryExpr:
				if x.Op == token.AND {
					written = []ast.Expr{x.X}
				}
			}
			for _, w := range written {
				if id, ok := unparen(w).(*ast.Ident); ok && id.Name == v.Name() {
					t.fail(sel, "%s may be modified in its package; it cannot be treated as a constant", name)
				}
			}
			return true
		})
	}
	if !okImport {
		t.fail(sel, "%s is not initialised by errors.New", name)
	}
	re := regexp.MustCompile(`(&\s*|\b)` + regexp.QuoteMeta(v.Pkg().Name()) + `\.` + regexp.QuoteMeta(v.Name()) + `\s*(=[^=]|\+\+|--)`)
	reAddr := regexp.MustCompile(`&\s*` + regexp.QuoteMeta(v.Pkg().Name()) + `\.` + regexp.QuoteMeta(v.Name()) + `\b`)
	filepath.Walk(*repo, func(p string, info os.FileInfo, err error) error {
		if err != nil || info.IsDir() || !strings.HasSuffix(p, ".go") || strings.HasSuffix(p, "_test.go") {
			return nil
		}
		b, err := os.ReadFile(p)
		if err != nil {
			die("%v", err)
		}
		if re.Match(b) || reAddr.Match(b) {
			t.fail(sel, "%s may be modified in %s; it cannot be treated as a constant", name, p)
		}
		return nil
	})
	importedErrOK[key] = true
	return name
}

// ---------------------------------------------------------------- slices of slices ([]trinary.Trits)

// rowArg recognises x[j] and x[j][lo:] with x a variable that is a slice of slices.
func (t *loopTr) rowArg(a ast.Expr) (types.Object, *ast.IndexExpr, ast.Expr) {
	a = unparen(a)
	var lo ast.Expr
	if se, ok := a.(*ast.SliceExpr); ok {
		if se.High != nil || se.Slice3 {
			return nil, nil, nil
		}
		a, lo = unparen(se.X), se.Low
	}
	ix, ok := a.(*ast.IndexExpr)
	if !ok {
		return nil, nil, nil
	}
	o := t.varOf(ix.X)
	if o == nil {
		return nil, nil, nil
	}
	if _, isVar := t.vars[o]; !isVar {
		return nil, nil, nil
	}
	if k, ok := nestedKind(o.Type()); !ok || k != kInt8ss {
		return nil, nil, nil
	}
	return o, ix, lo
}

// rowIndex renders the index of x[j] as a Nat, with its bounds check unless it is in range by construction.
func (t *loopTr) rowIndex(ix *ast.IndexExpr, list string) string {
	if t.safe[ix] {
		i, _ := t.ident(unparen(ix.Index).(*ast.Ident))
		return i + ".toNat"
	}
	return t.checkedIndex(ix.Index, list+".length")
}

// nestedKind: ty is [][]int8.
func nestedKind(ty types.Type) (lkind, bool) {
	s, ok := ty.Underlying().(*types.Slice)
	if !ok {
		return 0, false
	}
	in, ok := s.Elem().Underlying().(*types.Slice)
	if !ok {
		return 0, false
	}
	if b, ok := in.Elem().Underlying().(*types.Basic); ok && b.Kind() == types.Int8 {
		return kInt8ss, true
	}
	return 0, false
}

// ---------------------------------------------------------------- capacity

// noteCapSensitive records that the slice x is sliced with an upper bound: if x is a parameter, its callers inside the
// translated code must not pass a slice with spare capacity (checkCapArgs).
func (t *loopTr) noteCapSensitive(x ast.Expr) {
	if o := t.varOf(x); o != nil && t.params[o] {
		if _, isSlice := o.Type().Underlying().(*types.Slice); isSlice {
			t.capSens[o] = true
		}
	}
}

// checkCapArgs: an argument for a parameter the callee slices with an upper bound must have no spare capacity the
// translation could not see: it must not itself be a slice expression with an upper bound; a parameter of the caller
// (or a window p[lo:] of one) is passed on under the same condition.
func (t *loopTr) checkCapArgs(c *ast.CallExpr, sig *fnSig) {
	if sig == t.selfSig && sig != nil {
		// the parameters the function slices with an upper bound are only known when its body has been translated: the
		// arguments are recorded and judged then (closeSelfCap)
		t.noteSelfArgs(c)
		return
	}
	for _, i := range sig.capIdx {
		if i >= len(c.Args) {
			continue
		}
		a := unparen(c.Args[i])
		base := a
		if se, ok := a.(*ast.SliceExpr); ok {
			if se.High != nil || se.Slice3 {
				t.fail(a, "%s slices this parameter with an upper bound, which Go checks against the capacity: passing %s, which has spare capacity, is not supported (capacity is not modelled)", sig.lean, t.p.src(a))
			}
			base = unparen(se.X)
		}
		if ix, ok := base.(*ast.IndexExpr); ok {
			base = unparen(ix.X) // a row of a slice of slices: the rows are the caller's
		}
		if o := t.varOf(base); o != nil && t.spareCap[o] {
			t.fail(a, "%s slices this parameter with an upper bound, which Go checks against the capacity: `%s` has spare capacity (it was cut by x = x[:k]), which is not modelled", sig.lean, o.Name())
		}
		if o := t.varOf(base); o != nil && t.params[o] {
			if _, isSlice := o.Type().Underlying().(*types.Slice); isSlice {
				t.capSens[o] = true
			}
		}
	}
}

// pkgRecv returns v when c is v.m(…) with v a package-level variable.
func (t *loopTr) pkgRecv(c *ast.CallExpr) *types.Var {
	f, ok := unparen(c.Fun).(*ast.SelectorExpr)
	if !ok {
		return nil
	}
	x, ok := unparen(f.X).(*ast.Ident)
	if !ok {
		return nil
	}
	v, ok := t.info.Uses[x].(*types.Var)
	if !ok || v.IsField() || v.Parent() != t.set.tp.tpkg.Scope() {
		return nil
	}
	return v
}

// checkOnlyMethodCalls: every use of the package variable v in the package is the receiver of a method call (so nothing
// reassigns it, takes its address or reaches its fields directly); its value is the one its initialiser gave it.
func (s *loopSet) checkOnlyMethodCalls(t *loopTr, v *types.Var, at ast.Node) {
	ok := map[*ast.Ident]bool{}
	for _, fn := range s.p.sortedFiles() {
		ast.Inspect(s.p.files[fn], func(n ast.Node) bool {
			if c, isCall := n.(*ast.CallExpr); isCall {
				if f, isSel := unparen(c.Fun).(*ast.SelectorExpr); isSel {
					if x, isId := unparen(f.X).(*ast.Ident); isId && s.tp.info.Uses[x] == v {
						if _, isFn := s.tp.info.Uses[f.Sel].(*types.Func); isFn {
							ok[x] = true
						}
					}
				}
			}
			return true
		})
	}
	for id, o := range s.tp.info.Uses {
		if o == v && !ok[id] {
			pos := s.p.fset.Position(id.Pos())
			t.fail(at, "package variable %s is used other than as the receiver of a method call at %s:%d", v.Name(), pos.Filename, pos.Line)
		}
	}
}

// ---------------------------------------------------------------- error carriers

// mixesErrors decides whether the function needs the error carrier with an OPTIONAL position: it does when its error
// values come from more than one of: &T{err, off} literals, plain errors (package error variables, fmt.Errorf with %w,
// outside such a literal), callees whose error carrier is plain / positioned / optional.
func (t *loopTr) mixesErrors() (at, opt bool) {
	kinds := map[lkind]bool{}
	var walk func(n ast.Node, inLit bool)
	walk = func(n ast.Node, inLit bool) {
		ast.Inspect(n, func(m ast.Node) bool {
			switch x := m.(type) {
			case *ast.UnaryExpr:
				if x.Op == token.AND {
					if cl, ok := unparen(x.X).(*ast.CompositeLit); ok {
						if tv, ok := t.info.Types[cl]; ok {
							if _, _, ok := t.errAtType(tv.Type); ok {
								kinds[kErrAt] = true
								for _, el := range cl.Elts {
									walk(el, true)
								}
								return false
							}
						}
					}
				}
			case *ast.CallExpr:
				if sig, _ := t.sigOf(x); sig != nil {
					for _, k := range sig.rets {
						if isErrKind(k) {
							kinds[k] = true
						}
					}
				}
				if t.isMarshalCall(x) {
					kinds[kErr] = true // the error of MarshalBinary(): an opaque name
				}
				for _, k := range t.externErrKinds(x) {
					kinds[k] = true // the error of a library function that is a parameter: an opaque name
				}
				if sel, ok := unparen(x.Fun).(*ast.SelectorExpr); ok && !inLit {
					if f, ok := t.info.Uses[sel.Sel].(*types.Func); ok && f.Pkg() != nil && f.Pkg().Path() == "fmt" && f.Name() == "Errorf" {
						kinds[kErr] = true
						return false
					}
				}
			case *ast.Ident:
				if v, ok := t.info.Uses[x].(*types.Var); ok && !inLit && !v.IsField() && v.Pkg() != nil && v.Parent() == v.Pkg().Scope() &&
					types.Identical(v.Type(), types.Universe.Lookup("error").Type()) {
					kinds[kErr] = true
				}
			}
			return true
		})
	}
	walk(t.fd.Body, false)
	switch {
	case len(kinds) == 0, len(kinds) == 1 && kinds[kErr]:
		return false, false
	case len(kinds) == 1 && kinds[kErrAt]:
		return true, false
	}
	return true, true
}

// errorsAs recognises `errors.As(err, &e)` and returns the objects of err and e.
func (t *loopTr) errorsAs(e ast.Expr) (types.Object, types.Object) {
	c, ok := unparen(e).(*ast.CallExpr)
	if !ok || len(c.Args) != 2 {
		return nil, nil
	}
	sel, ok := unparen(c.Fun).(*ast.SelectorExpr)
	if !ok {
		return nil, nil
	}
	f, ok := t.info.Uses[sel.Sel].(*types.Func)
	if !ok || f.Pkg() == nil || f.Pkg().Path() != "errors" || f.Name() != "As" {
		return nil, nil
	}
	src, ok1 := unparen(c.Args[0]).(*ast.Ident)
	u, ok2 := unparen(c.Args[1]).(*ast.UnaryExpr)
	if !ok1 || !ok2 || u.Op != token.AND {
		return nil, nil
	}
	dst, ok := unparen(u.X).(*ast.Ident)
	if !ok {
		return nil, nil
	}
	return t.objOf(src), t.objOf(dst)
}

// asCondition translates the condition `errors.As(err, &e)`: err holds the error result of a translated callee all of
// whose errors are *T values (it builds them as &T{…}) and e is a *T: then As succeeds exactly when err != nil, and e is
// that error (its wrapped error's name: Go.errName, its offset: Go.errOff).
func (t *loopTr) asCondition(cond ast.Expr) (string, bool) {
	so, do := t.errorsAs(cond)
	if so == nil || do == nil {
		return "", false
	}
	sig := t.errFrom[so]
	if sig == nil || sig.errAtType == "" || t.facts.plain[so] != 0 || len(t.facts.defs[so]) != 1 {
		t.fail(cond, "errors.As: the first operand must be a variable that holds the error result of a translated function which builds all its errors as &T{…}")
	}
	ptr, ok := do.Type().(*types.Pointer)
	if !ok {
		t.fail(cond, "errors.As: the target must be a pointer to the callee's error struct")
	}
	named, ok := ptr.Elem().(*types.Named)
	if !ok || named.Obj().Pkg() == nil || named.Obj().Pkg().Path()+"."+named.Obj().Name() != sig.errAtType {
		t.fail(cond, "errors.As: the target type %s is not the error type %s of the callee", do.Type(), sig.errAtType)
	}
	if !sig.errPtr {
		t.fail(cond, "errors.As: the callee returns its error struct by value, the target is a pointer to it")
	}
	t.asBound[do] = so
	return "(" + t.vars[so] + ").isSome", true
}

// builtErrType returns "path.T" when every &T{…} error literal of the function has the same struct type T.
func (t *loopTr) builtErrType() (string, bool) {
	name := ""
	ok := true
	ast.Inspect(t.fd.Body, func(n ast.Node) bool {
		if u, isU := n.(*ast.UnaryExpr); isU && u.Op == token.AND {
			if cl, isCl := unparen(u.X).(*ast.CompositeLit); isCl {
				if tv, has := t.info.Types[cl]; has {
					if _, _, isErr := t.errAtType(tv.Type); isErr {
						nm := tv.Type.(*types.Named)
						full := nm.Obj().Pkg().Path() + "." + nm.Obj().Name()
						if name != "" && name != full {
							ok = false
						}
						name = full
					}
				}
			}
		}
		return true
	})
	if !ok || t.errOpt {
		return "", false
	}
	return name, name != ""
}

// isAsTarget: o is declared `var e *T` and is only used as `&e` in errors.As, as e.Unwrap() and as e.Offset.
func (t *loopTr) isAsTarget(o types.Object) bool {
	if o == nil {
		return false
	}
	found := false
	ast.Inspect(t.fd.Body, func(n ast.Node) bool {
		if c, ok := n.(*ast.CallExpr); ok {
			if _, d := t.errorsAs(c); d == o {
				found = true
			}
		}
		return true
	})
	return found
}

// readOnlyRecvArgs returns the field arguments for a call of a method that assigns no field: the fields of the caller's
// own receiver, or the parameters v_f standing for the fields of a package-level struct variable v.
func (t *loopTr) readOnlyRecvArgs(c *ast.CallExpr, sig *fnSig) []string {
	if !sig.method {
		return nil
	}
	if a := t.ifaceRecvArgs(c); a != nil { // stage 11 (loops_iface.go): the value receiver of x.m()
		return a
	}
	var out []string
	if pv := t.pkgRecv(c); pv != nil {
		t.set.checkOnlyMethodCalls(t, pv, c)
		for _, n := range sig.fieldsIn {
			dep := pv.Name() + "_" + n
			t.absDeps[dep] = sig.fieldKinds[n].lean()
			out = append(out, dep)
		}
		return out
	}
	byName := map[string]types.Object{}
	for _, f := range t.fields {
		byName[f.Name()] = f
	}
	for _, n := range sig.fieldsIn {
		f := byName[n]
		if f == nil {
			t.fail(c, "internal error: field %s of the receiver is not registered", n)
		}
		out = append(out, t.vars[f])
	}
	return out
}
