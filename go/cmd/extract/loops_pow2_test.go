package main

import (
	"os"
	"os/exec"
	"path/filepath"
	"strings"
	"testing"
)

// Stage 14 (loops_pow2.go).  As in loops_test.go each case is a one-file package; want is a substring of the Lean text
// (ok) or of the error message (rejected).
const pow2Hex = bigPre + "func hexToInt(s string) *big.Int { b, _ := new(big.Int).SetString(s, 16); return b }\n"

var pow2Cases = []struct {
	name, src, fns string
	ok             bool
	want           string
}{
	// ---- division by a non-constant
	{"uint64 division by a variable", `func f(a, b uint64) uint64 { return a / b }`, "f", true,
		"def f (a : BitVec 64) (b : BitVec 64) : Option (BitVec 64) :=\n  Go.Flow.result (\n  if !(b != 0#64) then Go.Flow.panic else\n  Go.Flow.done (a / b))"},
	{"uint remainder by an expression", `func f(a, b uint) uint { return a % (b + 1) }`, "f", true,
		"if !((b + 1#64) != 0#64) then Go.Flow.panic else\n  Go.Flow.done (a % (b + 1#64))"},
	{"math.MaxUint64 / uint64(len(x)+c)", "import \"math\"\n" + `func f(x []byte, t uint64) bool { return math.MaxUint64/uint64(len(x)+8) < t }`, "f", true,
		"if !(((BitVec.ofNat 64 x.length) + 8#64) != 0#64) then Go.Flow.panic else\n  Go.Flow.done (BitVec.ult (18446744073709551615#64 / ((BitVec.ofNat 64 x.length) + 8#64)) t)"},
	{"the operands are checked before the divisor", `func f(xs []uint64, b uint64) uint64 { return xs[0] / b }`, "f", true,
		"if !(decide (0 < xs.length)) then Go.Flow.panic else\n  if !(b != 0#64) then Go.Flow.panic else"},
	{"x /= y on a uint64 variable", `func f(a, b uint64) uint64 { a /= b; return a }`, "f", false, "unsupported assignment operator /="},
	{"division by a non-zero constant needs no check", `func f(a uint64) uint64 { return a / 3 }`, "f", true, "def f (a : BitVec 64) : BitVec 64 :=\n  (a / 3#64)"},
	{"signed division by a variable", `func f(a, b int) int { return a / b }`, "f", false, "non-constant or zero divisor"},
	{"signed remainder by a variable", `func f(a, b int64) int64 { return a % b }`, "f", false, "non-constant or zero divisor"},
	{"signed x /= y", `func f(a, b int) int { a /= b; return a }`, "f", false, "unsupported assignment operator /="},
	{"uint32 division by a variable", `func f(a, b uint32) uint32 { return a / b }`, "f", false, "translate f"},
	{"uint8 division by a variable", `func f(a, b byte) byte { return a / b }`, "f", false, "non-constant or zero divisor"},
	{"indexed x[i] /= y by a variable", `func f(xs []uint64, b uint64) { xs[0] /= b }`, "f", false, "unsupported assignment operator /="},

	// ---- a three-clause loop with additional init variables
	{"two init variables, early return", `func f(lx uint64) int { for s, v := 0, uint64(1); s <= 40; s++ { if v >= lx { return s }; v *= 3 }; return 41 }`, "f", true,
		"let v : BitVec 64 := 1#64\n  Go.Flow.bind (Go.forIn (Go.forUp true true 0#64 40#64 1) v (fun (v : BitVec 64) (s : BitVec 64) =>\n      if (BitVec.ule lx v) then\n        Go.Flow.done s\n      else\n      let v : BitVec 64 := (v * 3#64)\n      Go.Flow.run v))"},
	{"two init variables, plain fold", `func f(n int) int { r := 0; for i, v := 0, 1; i < n; i++ { r += v; v *= 2 }; return r }`, "f", true,
		"let v : BitVec 64 := 1#64\n"},
	{"additional init variable with a non-constant value", `func f(n int) int { r := 0; for i, v := 0, n; i < n; i++ { r += v; v *= 2 }; return r }`, "f", false,
		"the initialiser of the additional variable v must be a constant"},
	{"additional init variable in the condition", `func f(n int) int { r := 0; for i, v := 0, 5; i < v; i++ { r += i }; return r }`, "f", false, "translate f"},
	{"additional init variable in the post statement", `func f(n int) int { r := 0; for v, i := 1, 0; i < n; i++ { r += v }; return r }`, "f", false, "three-clause loop"},
	{"the loop variable second", `func f(n int) int { r := 0; for v, i := 2, 0; i < n; i++ { r += v }; return r }`, "f", false, "three-clause loop"},
	{"init by a tuple-valued call", `func g() (int, int) { return 0, 1 }
func f(n int) int { r := 0; for i, v := g(); i < n; i++ { r += v }; return r }`, "g,f", false, "three-clause loop"},

	// ---- math/big: SetUint64, Quo
	{"SetUint64 of an expression", bigPre + `func f(t uint64) *big.Int { z := new(big.Int).SetUint64(t + 1); return z }`, "f", true,
		"((BitVec.toNat (t + 1#64) : Nat) : Int)"},
	{"SetUint64 of a constant on a local", bigPre + `func f(x *big.Int) *big.Int { z := new(big.Int); z.SetUint64(7); z.Add(z, x); return z }`, "f", true,
		"let z : Int := (7 : Int)\n  (z + x)"},
	{"Quo, returned from the modified local", bigPre + `func f(x, y *big.Int) *big.Int { z := new(big.Int).Set(y); return z.Quo(x, z) }`, "f", true,
		"def f (x : Int) (y : Int) : Option (Int) :=\n  Go.Flow.result (\n  let z : Int := y\n  if !(decide (z ≠ 0)) then Go.Flow.panic else\n  let z : Int := (Int.tdiv x z)\n  Go.Flow.done z)"},
	{"Quo on a fresh receiver", bigPre + `func f(x, y *big.Int) *big.Int { return new(big.Int).Quo(x, y) }`, "f", true,
		"if !(decide (y ≠ 0)) then Go.Flow.panic else\n  Go.Flow.done (Int.tdiv x y)"},
	{"Quo on a parameter (a non-local receiver)", bigPre + `func f(x, y *big.Int) *big.Int { x.Quo(x, y); return new(big.Int).Set(x) }`, "f", false, "parameters and fields are read-only"},
	{"Quo on a package-level constant", bigPre + `var one = big.NewInt(1)
func f(x *big.Int) *big.Int { one.Quo(x, one); return new(big.Int).Set(x) }`, "f", false, "one is used in another way at"},
	{"SetUint64 on a parameter", bigPre + `func f(x *big.Int) *big.Int { x.SetUint64(1); return new(big.Int).Set(x) }`, "f", false, "parameters and fields are read-only"},
	{"SetUint64 of a converted expression", bigPre + `func f(n int) *big.Int { return new(big.Int).SetUint64(uint64(uint32(n))) }`, "f", true, "((BitVec.toNat (BitVec.setWidth 64 (BitVec.setWidth 32 n)) : Nat) : Int)"},
	{"QuoRem stays rejected", bigPre + `func f(x, y *big.Int) *big.Int { q, _ := new(big.Int).QuoRem(x, y, new(big.Int)); return q }`, "f", false, "translate f"},
	{"Div stays rejected", bigPre + `func f(x, y *big.Int) *big.Int { return new(big.Int).Div(x, y) }`, "f", false, "the method Div of *big.Int is not supported"},
	{"Rem stays rejected", bigPre + `func f(x, y *big.Int) *big.Int { return new(big.Int).Rem(x, y) }`, "f", false, "the method Rem of *big.Int is not supported"},
	{"Uint64 stays rejected", bigPre + `func f(x *big.Int) uint64 { return x.Uint64() }`, "f", false, "the method Uint64 of *big.Int is not supported"},

	// ---- package-level *big.Int constants
	{"constant by SetUint64", bigPre + `var radix = new(big.Int).SetUint64(12157665459056928801)
func f(x *big.Int) *big.Int { return new(big.Int).Mul(x, radix) }`, "f", true, "(x * (12157665459056928801 : Int))"},
	{"constant by the hex helper", pow2Hex + `var maxH = hexToInt("ff00FF")
func f(x *big.Int) *big.Int { return new(big.Int).Quo(maxH, x) }`, "f", true, "(Int.tdiv (16711935 : Int) x)"},
	{"SetUint64 constant with a non-constant argument", bigPre + `var n uint64 = 3
var c = new(big.Int).SetUint64(n)
func f(x *big.Int) *big.Int { return new(big.Int).Add(x, c) }`, "f", false, "is not initialised that way"},
	{"SetUint64 constant on a receiver that is not new(big.Int)", bigPre + `var c = big.NewInt(5).SetUint64(3)
func f(x *big.Int) *big.Int { return new(big.Int).Add(x, c) }`, "f", false, "is not initialised that way"},
	{"exported SetUint64 constant", bigPre + `var Radix = new(big.Int).SetUint64(3)
func f(x *big.Int) *big.Int { return new(big.Int).Mul(x, Radix) }`, "f", false, "Radix is exported"},
	{"SetUint64 constant that a function modifies", bigPre + `var acc = new(big.Int).SetUint64(3)
func g(x *big.Int) { acc.Add(acc, x) }
func f(x *big.Int) *big.Int { return new(big.Int).Add(x, acc) }`, "f", false, "acc is used in another way at"},
	{"helper with base 10", bigPre + `func decToInt(s string) *big.Int { b, _ := new(big.Int).SetString(s, 10); return b }
var c = decToInt("123")
func f(x *big.Int) *big.Int { return new(big.Int).Add(x, c) }`, "f", false, "is not initialised that way"},
	{"helper with base 0", bigPre + `func toInt(s string) *big.Int { b, _ := new(big.Int).SetString(s, 0); return b }
var c = toInt("0x12")
func f(x *big.Int) *big.Int { return new(big.Int).Add(x, c) }`, "f", false, "is not initialised that way"},
	{"helper that checks ok", bigPre + `func hexToInt(s string) *big.Int { b, ok := new(big.Int).SetString(s, 16); if !ok { panic("x") }; return b }
var c = hexToInt("12")
func f(x *big.Int) *big.Int { return new(big.Int).Add(x, c) }`, "f", false, "is not initialised that way"},
	{"helper that ignores its parameter", bigPre + `const k = "12"
func hexToInt(s string) *big.Int { b, _ := new(big.Int).SetString(k, 16); return b }
var c = hexToInt("12")
func f(x *big.Int) *big.Int { return new(big.Int).Add(x, c) }`, "f", false, "is not initialised that way"},
	{"hex helper on a string that is not hex (nil result)", pow2Hex + `var c = hexToInt("12g")
func f(x *big.Int) *big.Int { return new(big.Int).Add(x, c) }`, "f", false, "is not initialised that way"},
	{"hex helper on a signed string", pow2Hex + `var c = hexToInt("-12")
func f(x *big.Int) *big.Int { return new(big.Int).Add(x, c) }`, "f", false, "is not initialised that way"},
	{"hex helper on a string with an underscore", pow2Hex + `var c = hexToInt("1_2")
func f(x *big.Int) *big.Int { return new(big.Int).Add(x, c) }`, "f", false, "is not initialised that way"},
	{"hex helper on the empty string", pow2Hex + `var c = hexToInt("")
func f(x *big.Int) *big.Int { return new(big.Int).Add(x, c) }`, "f", false, "is not initialised that way"},
	{"hex helper on a non-constant string", pow2Hex + `var s = "12"
var c = hexToInt(s)
func f(x *big.Int) *big.Int { return new(big.Int).Add(x, c) }`, "f", false, "is not initialised that way"},
	{"SetString directly in the initialiser", bigPre + `var p, _ = new(big.Int).SetString("ff", 16)
func f(x *big.Int) *big.Int { return new(big.Int).Add(x, p) }`, "f", false, "is not initialised that way"},
	{"the hex helper called in a function body", pow2Hex + `func f(x *big.Int) *big.Int { return new(big.Int).Add(x, hexToInt("12")) }`, "f", false, "translate f"},

	// ---- nested modifying calls
	{"nested calls are hoisted left to right", bigPre + `var radix = new(big.Int).SetUint64(3)
func f(x *big.Int, v uint64) *big.Int { b := new(big.Int).Set(x); tmp := new(big.Int); b.Add(b.Mul(b, radix), tmp.SetUint64(v)); return b }`, "f", true,
		"let b : Int := (b * (3 : Int))\n  let tmp : Int := ((BitVec.toNat v : Nat) : Int)\n  (b + tmp)"},
	{"nested call on the receiver itself as the second operand", bigPre + `func f(x *big.Int) *big.Int { b := new(big.Int).Set(x); b.Add(x, b.Mul(b, x)); return b }`, "f", true,
		"let b : Int := (b * x)\n  (x + b)"},
	{"a nested Quo keeps its check in front of its own step", bigPre + `func f(x, y *big.Int) *big.Int { b := new(big.Int).Set(x); c := new(big.Int).Set(y); b.Add(b.Mul(b, x), c.Quo(x, c)); return b }`, "f", true,
		"let b : Int := (b * x)\n  if !(decide (c ≠ 0)) then Go.Flow.panic else\n  let c : Int := (Int.tdiv x c)\n  let b : Int := (b + c)"},
	{"nested call on a parameter", bigPre + `func f(x *big.Int) *big.Int { b := new(big.Int).Set(x); b.Add(x.Mul(x, x), b); return b }`, "f", false, "parameters and fields are read-only"},
	{"nested call in a returned call", bigPre + `func f(x *big.Int) *big.Int { b := new(big.Int).Set(x); return b.Add(b.Mul(b, x), x) }`, "f", false, "would alias b"},
	{"nested call in an assignment", bigPre + `func f(x *big.Int) int { b := new(big.Int).Set(x); s := b.Add(b.Mul(b, x), x).Sign(); return s }`, "f", false, "would alias b"},
	{"two levels of nesting", bigPre + `func f(x *big.Int) *big.Int { b := new(big.Int).Set(x); b.Add(b.Mul(b.Sub(b, x), x), x); return b }`, "f", false, "would alias b"},
	{"nested call as the operand of a reader", bigPre + `func f(x *big.Int) int { b := new(big.Int).Set(x); c := b.Cmp(b.Mul(b, x)); return c }`, "f", false, "would alias b"},
	{"nested call as an argument of a translated function", bigPre + `func g(x *big.Int) *big.Int { return new(big.Int).Set(x) }
func f(x *big.Int) *big.Int { b := new(big.Int).Set(x); c := g(b.Mul(b, x)); return c }`, "g,f", false, "would alias b"},

	// ---- a read-only window of a read-only slice parameter
	{"window of a parameter, read by index and measured", `func f(x []int8, i int) int { w := x[i*2 : i*2+2]; s := 0; for j := len(w) - 1; j >= 0; j-- { s += int(w[j]) }; return s }`, "f", true,
		"if !(Go.sliceOK (i * 2#64) ((i * 2#64) + 2#64) x.length) then Go.Flow.panic else\n  let w : List (BitVec 8) := ((x.drop (i * 2#64).toNat).take (((i * 2#64) + 2#64).toNat - (i * 2#64).toNat))"},
	{"window with a lower bound only", `func f(x []byte) byte { w := x[2:]; return w[0] }`, "f", true, "let w : List (BitVec 8) := (x.drop 2)"},
	{"window of a local slice", `func f(n int) byte { y := make([]byte, 4); y[0] = 1; w := y[1:3]; return w[0] }`, "f", false, "y is not such a parameter"},
	{"window of a parameter the function writes", `func f(x []byte) byte { x[0] = 1; w := x[1:3]; return w[0] }`, "f", false, "x is not such a parameter"},
	{"window of a parameter the function reslices", `func f(x []byte) byte { x = x[1:]; w := x[1:3]; return w[0] }`, "f", false, "x is not such a parameter"},
	{"window that is written", `func f(x []byte) byte { w := x[1:3]; w[0] = 1; return w[1] }`, "f", false, "translate f"},
	{"window that is returned", `func f(x []byte) []byte { w := x[1:3]; return w }`, "f", false, "used in another way"},
	{"window that is resliced", `func f(x []byte) byte { w := x[1:3]; u := w[0:1]; return u[0] }`, "f", false, "used in another way"},
	{"window that is passed on", `func g(x []byte) byte { return x[0] }
func f(x []byte) byte { w := x[1:3]; return g(w) }`, "g,f", false, "used in another way"},
	{"window that is ranged over", `func f(x []byte) int { w := x[1:3]; s := 0; for _, b := range w { s += int(b) }; return s }`, "f", false, "used in another way"},
	{"window that is appended to", `func f(x []byte) int { w := x[1:3]; w = append(w, 1); return len(w) }`, "f", false, "translate f"},
	{"window assigned to an existing variable", `func f(x []byte) byte { var w []byte; w = x[1:3]; return w[0] }`, "f", false, "translate f"},
	{"window assigned twice", `func f(x []byte, c bool) byte { w := x[1:3]; if c { w = x[0:2] }; return w[0] }`, "f", false, "translate f"},
	{"three-index window", `func f(x []byte) byte { w := x[1:3:4]; return w[0] }`, "f", false, "translate f"},

	// ---- the two functions of pkg/pow/v2 in miniature
	{"targetHash", pow2Hex + `const nonceBytes = 8
var one = new(big.Int).SetUint64(1)
var maxHash = hexToInt("ff")
func f(data []byte, targetScore uint64) *big.Int {
	z := new(big.Int).SetUint64(targetScore)
	z.Mul(z, big.NewInt(int64(len(data)+nonceBytes)))
	z.Add(z, one)
	return z.Quo(maxHash, z)
}`, "f", true,
		"let z : Int := ((BitVec.toNat targetScore : Nat) : Int)\n  let z : Int := (z * (BitVec.toInt ((BitVec.ofNat 64 data.length) + 8#64)))\n  let z : Int := (z + (1 : Int))\n  if !(decide (z ≠ 0)) then Go.Flow.panic else\n  let z : Int := (Int.tdiv (255 : Int) z)\n  Go.Flow.done z)"},
}

func TestPow2Translator(t *testing.T) {
	tmp := t.TempDir()
	bin := filepath.Join(tmp, "extract")
	if out, err := exec.Command("go", "build", "-o", bin, ".").CombinedOutput(); err != nil {
		t.Fatalf("build: %v\n%s", err, out)
	}
	for i, c := range pow2Cases {
		dir := filepath.Join(tmp, "case", string(rune('a'+i/26))+string(rune('a'+i%26)))
		if err := os.MkdirAll(dir, 0o755); err != nil {
			t.Fatal(err)
		}
		if err := os.WriteFile(filepath.Join(dir, "x.go"), []byte("package x\n\n"+c.src+"\n"), 0o644); err != nil {
			t.Fatal(err)
		}
		out, err := exec.Command(bin, "-translate", dir+":"+c.fns).CombinedOutput()
		switch {
		case c.ok && err != nil:
			t.Errorf("%s: rejected: %s", c.name, out)
		case !c.ok && err == nil:
			t.Errorf("%s: accepted:\n%s", c.name, out)
		case !strings.Contains(string(out), c.want):
			t.Errorf("%s: output does not contain %q:\n%s", c.name, c.want, out)
		}
	}
}
