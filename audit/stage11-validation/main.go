// Differential test of the generated Lean code of pkg/bech32/address (translator stage 11) against the Go code:
// `go run . gen` prints the inputs (inputs.txt), `go run . run < inputs.txt` prints what Go computes, in the format that
// T.lean prints for the generated definitions (Iota/Gen/AddressCode.lean) on the same inputs.
//
// Line formats (all byte strings in hex, "-" for the empty string):
//   prefix <s>                -> ok <p> | err <name>
//   parse <s>                 -> ok <p> <kind 0|1|2> <hash> | err <name>[@<offset>] | panic
//   bech32 <p> <kind> <hash>  -> ok <s> | err <name>[@<offset>] | panic
//   bech32nil <p>             -> panic            (a nil Address)
//   bytes <kind> <hash>       -> <version byte><hash>
//   version <kind>            -> <version byte>
package main

import (
	"bufio"
	"encoding/hex"
	"errors"
	"fmt"
	"os"
	"strconv"
	"strings"
	"unsafe"

	"github.com/wollac/iota-crypto-demo/pkg/bech32"
	"github.com/wollac/iota-crypto-demo/pkg/bech32/address"
)

func hx(b []byte) string {
	if len(b) == 0 {
		return "-"
	}
	return hex.EncodeToString(b)
}

func unhx(s string) []byte {
	if s == "-" {
		return nil
	}
	b, err := hex.DecodeString(s)
	if err != nil {
		panic(err)
	}
	return b
}

// mkAddr builds an address value of the given kind with the given hash (the field is unexported: it is written through
// an unsafe pointer; the three struct types consist of exactly that array).
func mkAddr(kind int, hash []byte) address.Address {
	switch kind {
	case 0:
		var a address.Ed25519Address
		copy((*[32]byte)(unsafe.Pointer(&a))[:], hash)
		return a
	case 1:
		var a address.AliasAddress
		copy((*[20]byte)(unsafe.Pointer(&a))[:], hash)
		return a
	case 2:
		var a address.NFTAddress
		copy((*[20]byte)(unsafe.Pointer(&a))[:], hash)
		return a
	}
	panic("kind")
}

func kindOf(a address.Address) int {
	switch a.(type) {
	case address.Ed25519Address:
		return 0
	case address.AliasAddress:
		return 1
	case address.NFTAddress:
		return 2
	}
	panic("foreign address type")
}

// errName is the canonical name of an error: the package variable it wraps (errors.Is), qualified as the generated code
// qualifies it, with the offset of a *bech32.SyntaxError.
func errName(err error) string {
	name := "other(" + err.Error() + ")"
	switch {
	case errors.Is(err, address.ErrInvalidPrefix):
		name = "ErrInvalidPrefix"
	case errors.Is(err, address.ErrInvalidVersion):
		name = "ErrInvalidVersion"
	case errors.Is(err, address.ErrInvalidLength):
		name = "ErrInvalidLength"
	case errors.Is(err, bech32.ErrInvalidLength):
		name = "bech32.ErrInvalidLength"
	case errors.Is(err, bech32.ErrMissingSeparator):
		name = "bech32.ErrMissingSeparator"
	case errors.Is(err, bech32.ErrInvalidSeparator):
		name = "bech32.ErrInvalidSeparator"
	case errors.Is(err, bech32.ErrMixedCase):
		name = "bech32.ErrMixedCase"
	case errors.Is(err, bech32.ErrInvalidCharacter):
		name = "bech32.ErrInvalidCharacter"
	case errors.Is(err, bech32.ErrInvalidChecksum):
		name = "bech32.ErrInvalidChecksum"
	default:
		// the two errors of the internal package base32 cannot be named from here: by their text
		var se *bech32.SyntaxError
		if errors.As(err, &se) {
			switch se.Unwrap().Error() {
			case "invalid length":
				name = "bech32.base32.ErrInvalidLength"
			case "non-zero padding":
				name = "bech32.base32.ErrNonZeroPadding"
			}
		}
	}
	var se *bech32.SyntaxError
	if errors.As(err, &se) {
		name += "@" + strconv.Itoa(se.Offset)
	}
	return name
}

func protect(f func() string) (res string) {
	defer func() {
		if r := recover(); r != nil {
			res = "panic"
		}
	}()
	return f()
}

func run() {
	sc := bufio.NewScanner(os.Stdin)
	sc.Buffer(make([]byte, 1<<20), 1<<20)
	for sc.Scan() {
		line := sc.Text()
		f := strings.Fields(line)
		if len(f) == 0 {
			continue
		}
		var res string
		switch f[0] {
		case "prefix":
			p, err := address.ParsePrefix(string(unhx(f[1])))
			if err != nil {
				res = "err " + errName(err)
			} else {
				res = fmt.Sprintf("ok %d", int(p))
			}
		case "parse":
			res = protect(func() string {
				p, a, err := address.ParseBech32(string(unhx(f[1])))
				if err != nil {
					if p != 0 || a != nil {
						return "nonzero results with an error"
					}
					return "err " + errName(err)
				}
				b := a.Bytes()
				return fmt.Sprintf("ok %d %d %s", int(p), kindOf(a), hx(b[1:]))
			})
		case "bech32":
			p, _ := strconv.ParseInt(f[1], 10, 64)
			k, _ := strconv.Atoi(f[2])
			res = protect(func() string {
				s, err := address.Bech32(address.Prefix(p), mkAddr(k, unhx(f[3])))
				if err != nil {
					return "err " + errName(err)
				}
				return "ok " + hx([]byte(s))
			})
		case "bech32nil":
			p, _ := strconv.ParseInt(f[1], 10, 64)
			res = protect(func() string {
				s, err := address.Bech32(address.Prefix(p), nil)
				if err != nil {
					return "err " + errName(err)
				}
				return "ok " + hx([]byte(s))
			})
		case "bytes":
			k, _ := strconv.Atoi(f[1])
			res = hx(mkAddr(k, unhx(f[2])).Bytes())
		case "version":
			k, _ := strconv.Atoi(f[1])
			res = hx([]byte{byte(mkAddr(k, nil).Version())})
		default:
			panic("unknown op " + f[0])
		}
		fmt.Printf("%s -> %s\n", line, res)
	}
}

func gen() {
	hrps := []string{"iota", "atoi", "smr", "rms"}
	versions := []byte{0x00, 0x08, 0x10}
	lens := []int{32, 20, 20}
	hash := func(seed, n int) []byte {
		b := make([]byte, n)
		for i := range b {
			b[i] = byte(i*73 + 41*seed + seed*seed)
		}
		return b
	}
	enc := func(hrp string, data []byte) string {
		s, err := bech32.Encode(hrp, data)
		if err != nil {
			panic(err)
		}
		return s
	}
	parse := func(s string) { fmt.Printf("parse %s\n", hx([]byte(s))) }
	// ParsePrefix
	for _, s := range []string{"iota", "atoi", "smr", "rms", "", "IOTA", "iot", "iotaa", "sm", "rmsx", "iöta", "\xff", "Smr"} {
		fmt.Printf("prefix %s\n", hx([]byte(s)))
	}
	// the 12 combinations: Bech32, ParseBech32 of the result, Bytes, Version
	var valid []string
	for p, hrp := range hrps {
		for k, v := range versions {
			h := hash(3*p+k+1, lens[k])
			fmt.Printf("bech32 %d %d %s\n", p, k, hx(h))
			s := enc(hrp, append([]byte{v}, h...))
			valid = append(valid, s)
			parse(s)
			fmt.Printf("bytes %d %s\n", k, hx(h))
		}
	}
	for k := range versions {
		fmt.Printf("version %d\n", k)
	}
	fmt.Printf("bech32 0 0 %s\n", hx(make([]byte, 32)))
	fmt.Printf("bech32 3 2 %s\n", hx([]byte(strings.Repeat("\xff", 20))))
	// Prefix values outside 0..3, a nil Address
	for _, p := range []int64{-1, 4, 5, 1 << 62, -1 << 63, 1<<63 - 1} {
		fmt.Printf("bech32 %d 1 %s\n", p, hx(hash(7, 20)))
	}
	fmt.Printf("bech32nil 0\nbech32nil 7\n")
	// wrong payload lengths 0..48 with "iota" and 49 with "smr" (32 is the right one; a Bech32 string has at most 90
	// characters, so 49 bytes after the version byte are the most a 3-letter prefix can carry, 50 cannot be encoded)
	for n := 0; n <= 48; n++ {
		parse(enc("iota", append([]byte{0x00}, hash(n, n)...)))
	}
	parse(enc("smr", append([]byte{0x00}, hash(49, 49)...)))
	parse(enc("rms", append([]byte{0x10}, hash(49, 49)...)))
	for _, n := range []int{0, 1, 19, 20, 21, 31, 32, 33} {
		parse(enc("smr", append([]byte{0x08}, hash(n, n)...)))
		parse(enc("rms", append([]byte{0x10}, hash(n, n)...)))
	}
	// unknown version bytes
	for _, v := range []byte{0x01, 0x07, 0x09, 0x0f, 0x11, 0x18, 0x80, 0xff} {
		parse(enc("iota", append([]byte{v}, hash(int(v), 32)...)))
		parse(enc("atoi", append([]byte{v}, hash(int(v), 20)...)))
	}
	// unknown prefixes (valid Bech32)
	for _, hrp := range []string{"iot", "iotaa", "io", "a", "smrr", "bc", "tb", "atoj", "rm"} {
		parse(enc(hrp, append([]byte{0x00}, hash(5, 32)...)))
	}
	// empty data part, only a version byte
	for _, hrp := range hrps {
		parse(enc(hrp, nil))
		parse(enc(hrp, []byte{0x00}))
	}
	// case: all upper case is accepted (and lower-cased), mixed case is not
	for i, s := range valid {
		parse(strings.ToUpper(s))
		b := []byte(s)
		j := (7*i + 3) % len(b)
		for !(b[j] >= 'a' && b[j] <= 'z') {
			j = (j + 1) % len(b)
		}
		b[j] -= 32
		parse(string(b))
	}
	// bad checksums / changed characters
	for i, s := range valid {
		b := []byte(s)
		const cs = "qpzry9x8gf2tvdw0s3jn54khce6mua7l"
		j := len(b) - 1 - (5*i)%20
		b[j] = cs[(strings.IndexByte(cs, b[j])+1+i)%32]
		parse(string(b))
	}
	// non-ASCII, separators, lengths
	v := valid[0]
	for _, s := range []string{"", "1", "iota", "iota1", "iota1qqqqq", "iota1qqqqqq", "1qqqqqq", v[:len(v)-1], v + "q", "iöta1" + v[5:], "iota1\x80" + v[6:],
		v[:10] + "\xff" + v[11:], v[:10] + "b" + v[11:], v[:10] + "1" + v[11:], " " + v, v + " ", "iota1" + strings.Repeat("q", 86), strings.Repeat("a", 91), "\xc3\xa9\xc3\xa91qqqqqq"} {
		parse(s)
	}
	// base32 errors behind a valid checksum: data symbols that do not regroup into bytes
	parse("a1pv7wwwr")
	parse("a1llttal5m")
}

func main() {
	if len(os.Args) < 2 {
		fmt.Fprintln(os.Stderr, "usage: gen | run")
		os.Exit(2)
	}
	switch os.Args[1] {
	case "gen":
		gen()
	case "run":
		run()
	}
}
