module stage11validation

go 1.17

require github.com/wollac/iota-crypto-demo v0.0.0

require (
	filippo.io/edwards25519 v1.0.0 // indirect
	golang.org/x/crypto v0.2.0 // indirect
	golang.org/x/sys v0.2.0 // indirect
	golang.org/x/text v0.4.0 // indirect
)

replace github.com/wollac/iota-crypto-demo => /repo
