-- Validation by execution of the generated Iota/Gen/AddressCode.lean (translator stage 11): the generated ParsePrefix,
-- ParseBech32, Bech32, the Bytes and Version methods and their dispatch functions are evaluated on the inputs of
-- inputs.txt (written by `go run . gen`); the output has the format of `go run . run` (go.out) and is compared with it.
-- run: cd <verif>/lean && lake env lean ../audit/stage11-validation/T.lean > ../audit/stage11-validation/lean.out
--
-- The PARAMETERS of the generated code are instantiated here WITHOUT the tie files:
--   charset_enc / charset_decMap  the two tables the generated chars.newEncoding returns for the charset literal;
--   strings.ToLower / ToUpper     the ASCII case mappings; on a string with a byte ≥ 0x80 they TRAP (return "TRAP"), so
--                                 a call on non-ASCII input — which the generated code must never make — would show up;
--   strings.LastIndex(s, "1")     the last index of the byte, -1 if there is none.
import Iota.Gen.AddressCode

open Iota Iota.Gen.AddressCode Iota.Gen.Bech32

abbrev Bytes := List (BitVec 8)

def hexDigit (n : Nat) : Char := if n < 10 then Char.ofNat (48 + n) else Char.ofNat (87 + n)
def hexOf (bs : Bytes) : String :=
  if bs.isEmpty then "-" else String.ofList (bs.flatMap fun b => [hexDigit (b.toNat / 16), hexDigit (b.toNat % 16)])
def hexVal (c : Char) : Nat := if c.toNat ≥ 97 then c.toNat - 87 else c.toNat - 48
def ofHex (s : String) : Bytes :=
  let rec go : List Char → Bytes
    | a :: b :: r => BitVec.ofNat 8 (hexVal a * 16 + hexVal b) :: go r
    | _ => []
  if s == "-" then [] else go s.toList

def trap : Bytes := [84#8, 82#8, 65#8, 80#8]
def isAscii (s : Bytes) : Bool := s.all fun c => c.toNat < 128
def toLower (s : Bytes) : Bytes :=
  if isAscii s then s.map fun c => if 65 ≤ c.toNat ∧ c.toNat ≤ 90 then c + 32#8 else c else trap
def toUpper (s : Bytes) : Bytes :=
  if isAscii s then s.map fun c => if 97 ≤ c.toNat ∧ c.toNat ≤ 122 then c - 32#8 else c else trap
def lastIndex (s sep : Bytes) : BitVec 64 :=
  match sep with
  | [b] =>
    match (List.range s.length).reverse.find? (fun i => s.getD i 0#8 == b) with
    | some i => BitVec.ofNat 64 i
    | none => BitVec.ofInt 64 (-1)
  | _ => BitVec.ofInt 64 (-2) -- not called with any other separator

/-- the fields of the package variable `charset`: what the generated newEncoding returns for the charset literal -/
def tables : Bytes × Bytes := (chars.newEncoding (Gen.Bech32.charset.map (BitVec.ofNat 8))).getD ([], [])

def parseBech32 (s : Bytes) := address.ParseBech32 tables.2 lastIndex toLower toUpper s
def bech32 (p : BitVec 64) (a : Go.Iface) := address.Bech32 tables.1 toLower toUpper p a

def errText : Option (String × Option (BitVec 64)) → String
  | none => "nil"
  | some (n, none) => n
  | some (n, some off) => n ++ "@" ++ toString off.toInt

def intOf (s : String) : BitVec 64 := BitVec.ofInt 64 s.toInt!

def runLine (line : String) : String :=
  let f := (line.splitOn " ").filter (· ≠ "")
  let res : String :=
    match f with
    | ["prefix", s] =>
      match address.ParsePrefix (ofHex s) with
      | none => "panic"
      | some (p, none) => s!"ok {p.toInt}"
      | some (_, some e) => "err " ++ e
    | ["parse", s] =>
      match parseBech32 (ofHex s) with
      | none => "panic"
      | some (p, some (k, h), none) => s!"ok {p.toInt} {k} {hexOf h}"
      | some (_, none, none) => "nil address without error"
      | some (p, a, some e) =>
        if p != 0#64 || a.isSome then "nonzero results with an error" else "err " ++ errText (some e)
    | ["bech32", p, k, h] =>
      match bech32 (intOf p) (some (k.toNat!, ofHex h)) with
      | none => "panic"
      | some (s, none) => "ok " ++ hexOf s
      | some (_, some e) => "err " ++ errText (some e)
    | ["bech32nil", p] =>
      match bech32 (intOf p) none with
      | none => "panic"
      | some (s, none) => "ok " ++ hexOf s
      | some (_, some e) => "err " ++ errText (some e)
    | ["bytes", k, h] =>
      match address.Address_Bytes (some (k.toNat!, ofHex h)) with
      | none => "panic"
      | some b =>
        -- the method of the struct type itself must agree with the dispatch
        let direct := match k with
          | "0" => address.Ed25519Address_Bytes (ofHex h)
          | "1" => address.AliasAddress_Bytes (ofHex h)
          | _ => address.NFTAddress_Bytes (ofHex h)
        if direct == b then hexOf b else "dispatch differs"
    | ["version", k] =>
      match address.Address_Version (some (k.toNat!, [])) with
      | none => "panic"
      | some v => hexOf [v]
    | _ => "unknown op"
  line ++ " -> " ++ res

def main : IO Unit := do
  let lines ← IO.FS.lines "../audit/stage11-validation/inputs.txt"
  for l in lines do
    if l.trimAscii.toString ≠ "" then IO.println (runLine l)

#eval main
