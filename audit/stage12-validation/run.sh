#!/bin/sh
# Validation by execution, translator stage 12: Go (pkg/bip39: EntropyToMnemonic, MnemonicToEntropy) against the
# generated Lean code (Iota/Gen/Bip39Code.lean).  Writes inputs.txt, go.out, lean.out next to this script and diffs the
# two outputs.  The repository is the one named in go/go.mod (replace … => /repo) and in go/main.go
# (repoTestdata): change both when the tree lives elsewhere.
set -e
export GOFLAGS=-mod=mod GOPROXY=off GOSUMDB=off GOTOOLCHAIN=local
HERE=$(cd "$(dirname "$0")" && pwd)
VERIF=$(cd "$HERE/../.." && pwd)
REPO=${REPO:-/repo}

cd "$HERE/go"
cp "$REPO/go.sum" .
go run . gen > "$HERE/inputs.txt"
go run . run < "$HERE/inputs.txt" > "$HERE/go.out"

cd "$VERIF/lean"
# only the modules Validate.lean imports (never the whole project)
lake build Iota.Gen.Bip39Code Iota.Model.Hash.SHA2 Iota.Spec.Bip39Words
STAGE12_INPUTS="$HERE/inputs.txt" lake env lean "$HERE/Validate.lean" > "$HERE/lean.out"

cd "$HERE"
classes() {
  sed 's/.* -> //' "$1" | awk '{ if ($1 == "err") k = $2; else if ($1 == "panic") k = "panic"; else k = "ok"; c[k]++ }
    END { printf "ok %d, ErrInvalidEntropySize %d, ErrInvalidMnemonic %d, ErrInvalidChecksum %d, panic %d, other %d\n",
          c["ok"], c["ErrInvalidEntropySize"], c["ErrInvalidMnemonic"], c["ErrInvalidChecksum"], c["panic"], c["other"] }'
}
echo "cases:           $(wc -l < inputs.txt)"
echo "go.out lines:    $(wc -l < go.out)   $(classes go.out)"
echo "lean.out lines:  $(wc -l < lean.out)   $(classes lean.out)"
if grep -q -e 'PARSE ERROR' -e 'unknown-op' go.out lean.out; then echo "FORMAT ERROR in an output"; exit 2; fi
if diff go.out lean.out > diff.out; then
  echo "IDENTICAL"; rm -f diff.out
else
  echo "DIFFERENT: $(grep -c '^<' diff.out) lines, see diff.out"; exit 1
fi
