-- Validation by execution of the generated Iota/Gen/Bip39Code.lean (translator stage 12): the generated
-- big.EntropyToMnemonic / big.MnemonicToEntropy with the parameters instantiated here, WITHOUT the tie files:
--   sha256_Sum256     := Iota.Hash.sha256 (Iota/Model/Hash/SHA2.lean, core Lean only), bytes converted UInt8 ↔ BitVec 8;
--   wordList_Word / wordList_Contains / wordList_Index := look-ups in the committed official lists
--                        Iota.Spec.Bip39Words.english / japanese (NOT the lists extracted from the repository).
-- Evaluated on the lines of inputs.txt (written by `go run . gen` in go/); the output is compared with that of
-- `go run . run` (run.sh).
-- run: cd <verif>/lean && lake env lean ../audit/stage12-validation/Validate.lean
--      (inputs.txt is looked up in $STAGE12_INPUTS, default ../audit/stage12-validation/inputs.txt)
-- Line format and the three misbehaving lists english+lax / english+idx / english+short: see go/main.go.
import Iota.Model.Hash.SHA2
import Iota.Spec.Bip39Words
import Iota.Gen.Bip39Code

open Iota Iota.Gen.Bip39Code

abbrev Bytes := List (BitVec 8)

def hexDigit? (c : Char) : Option Nat :=
  if '0' ≤ c ∧ c ≤ '9' then some (c.toNat - 48) else if 'a' ≤ c ∧ c ≤ 'f' then some (c.toNat - 87) else none

/-- bytes in hex, "-" = none; `none` = not of that form -/
def ofHex? (s : String) : Option Bytes :=
  let rec go : List Char → Option Bytes
    | [] => some []
    | a :: b :: r => do
      let x ← hexDigit? a
      let y ← hexDigit? b
      let t ← go r
      pure (BitVec.ofNat 8 (x * 16 + y) :: t)
    | _ => none
  if s == "-" then some [] else if s.isEmpty then none else go s.toList

def toHex (b : Bytes) : String :=
  let d (n : Nat) : Char := "0123456789abcdef".toList.getD n '?'
  if b.isEmpty then "-" else String.ofList (b.flatMap fun x => [d (x.toNat / 16), d (x.toNat % 16)])

/-- a sentence: the words in hex joined by ",", "." = the empty word, "-" = no words -/
def ofSentence? (s : String) : Option (List Bytes) :=
  if s == "-" then some [] else
    (s.splitOn ",").mapM fun w => if w == "." then some [] else if w == "-" then none else ofHex? w

def toSentence (m : List Bytes) : String :=
  if m.isEmpty then "-" else ",".intercalate (m.map fun w => if w.isEmpty then "." else toHex w)

-- ------------------------------------------------------------------------------------------------ parameters

def sha (b : Bytes) : Bytes := (Hash.sha256 (b.map UInt8.ofBitVec)).map UInt8.toBitVec

/-- the three methods of a word list -/
structure WL where
  word : BitVec 64 → Option Bytes
  contains : Bytes → Bool
  index : Bytes → Option (BitVec 64)

def position (W : Array Bytes) (w : Bytes) : Option Nat := W.findIdx? (· == w)

/-- an honest list: Word indexes an array of 2048 words (out of range: the Go method panics), Contains is membership,
Index is the position (an unknown word: the Go method panics) -/
def honest (W : Array Bytes) : WL where
  word i := if i.msb then none else W[i.toNat]?
  contains w := (position W w).isSome
  index w := (position W w).map (BitVec.ofNat 64)

def enWords : Array Bytes := (Spec.Bip39Words.english.map (·.map UInt8.toBitVec)).toArray
def jaWords : Array Bytes := (Spec.Bip39Words.japanese.map (·.map UInt8.toBitVec)).toArray

def ascii (s : String) : Bytes := s.toUTF8.toList.map UInt8.toBitVec

def wordList? : String → Option WL
  | "english" => some (honest enWords)
  | "japanese" => some (honest jaWords)
  -- the misbehaving lists of go/main.go (badList)
  | "english+lax" => some { honest enWords with contains := fun _ => true }
  | "english+idx" => some { honest enWords with
      index := fun w =>
        if w == ascii "abandon" then some (BitVec.ofInt 64 (-1))
        else if w == ascii "zoo" then some 2048#64
        else if w == ascii "zone" then some (BitVec.ofNat 64 (2 ^ 62))
        else (honest enWords).index w }
  | "english+short" => some { honest enWords with
      word := fun i => if i.msb then none else if i.toNat < 2040 then enWords[i.toNat]? else none }
  | _ => none

-- ------------------------------------------------------------------------------------------------ evaluation

def errName : String → String
  | "ErrInvalidEntropySize" => "ErrInvalidEntropySize"
  | "ErrInvalidMnemonic" => "ErrInvalidMnemonic"
  | "ErrInvalidChecksum" => "ErrInvalidChecksum"
  | _ => "other"

def showResult (isEmpty : Bool) (ok : String) : Option String → String
  | none => ok
  | some e => "err " ++ errName e ++ (if isEmpty then "" else " +result")

/-- what the generated code computes for one input line (the text after "->") -/
def eval : List String → String
  | ["e2m", lang, e] =>
    match wordList? lang, ofHex? e with
    | some l, some e =>
      match big.EntropyToMnemonic sha l.word e with
      | none => "panic"
      | some (m, err) => showResult m.isEmpty (toSentence m) err
    | none, _ => "unknown-op"
    | _, none => "PARSE ERROR"
  | ["m2e", lang, m] =>
    match wordList? lang, ofSentence? m with
    | some l, some m =>
      match big.MnemonicToEntropy sha l.contains l.index m with
      | none => "panic"
      | some (e, err) => showResult e.isEmpty (toHex e) err
    | none, _ => "unknown-op"
    | _, none => "PARSE ERROR"
  | _ => "unknown-op"

#eval show IO Unit from do
  -- sanity of the instantiation, independent of the comparison
  unless enWords.size == 2048 && jaWords.size == 2048 do throw (IO.userError "word lists: not 2048 words")
  unless toHex (sha (ascii "abc")) == "ba7816bf8f01cfea414140de5dae2223b00361a396177a9cb410ff61f20015ad" do
    throw (IO.userError "sha256(abc)")
  let path := (← IO.getEnv "STAGE12_INPUTS").getD "../audit/stage12-validation/inputs.txt"
  for line in ← IO.FS.lines path do
    let f := (line.splitOn " ").filter (· ≠ "")
    if f.isEmpty then continue
    IO.println s!"{" ".intercalate f} -> {eval f}"
