module gotest12

go 1.17

require (
	github.com/wollac/iota-crypto-demo v0.0.0
	golang.org/x/text v0.4.0
)

require golang.org/x/crypto v0.2.0 // indirect

replace github.com/wollac/iota-crypto-demo => /repo
