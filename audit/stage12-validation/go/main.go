// Differential test of the generated Lean code of pkg/bip39 (Iota/Gen/Bip39Code.lean, translator stage 12:
// EntropyToMnemonic, MnemonicToEntropy) against the Go code.
//
//	go run . gen      prints the inputs (inputs.txt)
//	go run . run      reads them from standard input and prints what Go computes, in the format of ../Validate.lean
//
// Line format.  Bytes are lower-case hex, "-" = no bytes; a sentence is its words, each the hex of its UTF-8 bytes,
// joined by "," ("." = the empty word, "-" = a sentence of no words):
//
//	e2m <lang> <entropy>  -> <sentence> | err <Name> | panic      bip39.EntropyToMnemonic
//	m2e <lang> <sentence> -> <entropy>  | err <Name> | panic      bip39.MnemonicToEntropy
//
// <Name> is the first of ErrInvalidEntropySize, ErrInvalidMnemonic, ErrInvalidChecksum for which errors.Is holds,
// "other" when none does; "err <Name> +result" would be printed if a non-empty result came with an error.
//
// <lang> is the argument of bip39.SetWordList: english, japanese (the two lists of the package), or one of three
// lists registered here with bip39.RegisterWordList.  They are the English list behind a wordlist.List whose methods
// misbehave; the generated code takes the methods of the list as parameters, so these lines exercise its panic
// branches, which the two real lists never reach:
//
//	english+lax    Contains is always true (Index still panics for an unknown word)
//	english+idx    Index returns -1 for "abandon", 2048 for "zoo", 1<<62 for "zone" ("invalid word index")
//	english+short  Word(i) panics for i >= 2040 (an array that is too short)
package main

import (
	"bufio"
	"encoding/hex"
	"encoding/json"
	"errors"
	"fmt"
	"math/big"
	"math/rand"
	"os"
	"strings"

	"github.com/wollac/iota-crypto-demo/pkg/bip39"
	"github.com/wollac/iota-crypto-demo/pkg/bip39/wordlist"
	"golang.org/x/text/unicode/norm"
)

const repoTestdata = "/tmp/s10/repo/pkg/bip39/testdata/TestBIP39.json"

// ---------------------------------------------------------------------------------------------- format

func bhex(b []byte) string {
	if len(b) == 0 {
		return "-"
	}
	return hex.EncodeToString(b)
}

func bparse(s string) []byte {
	if s == "-" {
		return []byte{}
	}
	b, err := hex.DecodeString(s)
	if err != nil {
		panic(err)
	}
	return b
}

func shex(m []string) string {
	if len(m) == 0 {
		return "-"
	}
	ws := make([]string, len(m))
	for i, w := range m {
		if w == "" {
			ws[i] = "."
		} else {
			ws[i] = hex.EncodeToString([]byte(w))
		}
	}
	return strings.Join(ws, ",")
}

func sparse(s string) bip39.Mnemonic {
	if s == "-" {
		return bip39.Mnemonic{}
	}
	var m bip39.Mnemonic
	for _, w := range strings.Split(s, ",") {
		if w == "." {
			m = append(m, "")
		} else {
			m = append(m, string(bparse(w)))
		}
	}
	return m
}

// ---------------------------------------------------------------------------------------------- word lists

// listOf returns the 2048 words of the list that is set, through the public API only: a 16-byte entropy is 11 words
// of entropy bits and one that contains the checksum, so 187 calls with chosen bits enumerate every index.
func listOf() []string {
	words := make([]string, 0, wordlist.Count+11)
	for k := 0; k < wordlist.Count; k += 11 {
		v := new(big.Int)
		for j := 0; j < 11; j++ {
			v.Lsh(v, 11)
			v.Or(v, big.NewInt(int64((k+j)%wordlist.Count)))
		}
		v.Lsh(v, 7)
		m, err := bip39.EntropyToMnemonic(v.FillBytes(make([]byte, 16)))
		if err != nil {
			panic(err)
		}
		words = append(words, m[:11]...)
	}
	return words[:wordlist.Count]
}

// badList is the English list with methods that misbehave.
type badList struct {
	kind    string
	words   []string
	indexes map[string]int
}

func (l *badList) Contains(word string) bool {
	if l.kind == "lax" {
		return true
	}
	_, ok := l.indexes[word]
	return ok
}

func (l *badList) Word(i int) string {
	if l.kind == "short" {
		return l.words[:2040][i]
	}
	return l.words[i]
}

func (l *badList) Index(word string) int {
	if l.kind == "idx" {
		switch word {
		case "abandon":
			return -1
		case "zoo":
			return 2048
		case "zone":
			return 1 << 62
		}
	}
	i, ok := l.indexes[word]
	if !ok {
		panic("unknown word")
	}
	return i
}

var lists = map[string][]string{}

func setup() {
	for _, lang := range []string{"english", "japanese"} {
		setLang(lang)
		lists[lang] = listOf()
	}
	en := lists["english"]
	if en[0] != "abandon" || en[3] != "about" || en[2046] != "zone" || en[2047] != "zoo" {
		panic("unexpected English list")
	}
	idx := map[string]int{}
	for i, w := range en {
		idx[w] = i
	}
	for _, kind := range []string{"lax", "idx", "short"} {
		l := &badList{kind: kind, words: en, indexes: idx}
		bip39.RegisterWordList("english+"+kind, func() wordlist.List { return l })
		lists["english+"+kind] = en
	}
}

func setLang(lang string) {
	if err := bip39.SetWordList(lang); err != nil {
		panic(err)
	}
}

// ---------------------------------------------------------------------------------------------- gen

type vectors []struct {
	Language string `json:"language"`
	Tests    []struct {
		Entropy  string `json:"entropy"`
		Mnemonic string `json:"mnemonic"`
	} `json:"tests"`
}

// emit prints an input line once (the lists below overlap: the all-zero entropies are also test vectors, …).
var seen = map[string]bool{}

func emit(format string, a ...interface{}) {
	line := fmt.Sprintf(format, a...)
	if !seen[line] {
		seen[line] = true
		fmt.Print(line)
	}
}

func gen() {
	rng := rand.New(rand.NewSource(12))
	random := func(n int) []byte {
		b := make([]byte, n)
		rng.Read(b)
		return b
	}
	fill := func(n int, c byte) []byte { return []byte(strings.Repeat(string([]byte{c}), n)) }
	// the official test vectors (testdata of the package)
	var tv vectors
	raw, err := os.ReadFile(repoTestdata)
	if err != nil {
		panic(err)
	}
	if err := json.Unmarshal(raw, &tv); err != nil {
		panic(err)
	}

	for _, lang := range []string{"english", "japanese"} {
		setLang(lang)
		W := lists[lang]
		other := lists["japanese"]
		if lang == "japanese" {
			other = lists["english"]
		}
		e2m := func(e []byte) { emit("e2m %s %s\n", lang, bhex(e)) }
		m2e := func(m []string) { emit("m2e %s %s\n", lang, shex(m)) }
		// only used to make input values
		mn := func(e []byte) []string {
			m, err := bip39.EntropyToMnemonic(e)
			if err != nil {
				panic(err)
			}
			return append([]string{}, m...)
		}
		with := func(m []string, i int, w string) []string {
			c := append([]string{}, m...)
			c[i] = w
			return c
		}
		indexOf := func(w string) int {
			for i, x := range W {
				if x == w {
					return i
				}
			}
			panic("not a word: " + w)
		}

		// ---- EntropyToMnemonic, valid sizes
		var valid [][]byte
		for n := 16; n <= 64; n += 4 {
			lead := random(n) // leading zero bytes followed by non-zero ones: padBytes on the way back
			for i := 0; i < 1+(n/4)%7; i++ {
				lead[i] = 0
			}
			lead[1+(n/4)%7] |= 1
			valid = append(valid, fill(n, 0), fill(n, 0xff), lead, random(n))
		}
		zeroButLast := fill(32, 0) // 31 zero bytes
		zeroButLast[31] = 1
		valid = append(valid, zeroButLast, append(fill(15, 0), 0x80), append([]byte{0x80}, fill(63, 0)...))
		for _, l := range tv {
			if l.Language == lang {
				for _, t := range l.Tests {
					valid = append(valid, bparse(t.Entropy))
				}
			}
		}
		for _, e := range valid {
			e2m(e)
		}
		// ---- EntropyToMnemonic, wrong sizes
		for _, n := range []int{0, 1, 15, 17, 18, 31, 33, 65, 68, 128} {
			e2m(random(n))
		}
		e2m(fill(12, 0))
		e2m(fill(66, 0xff))

		// ---- MnemonicToEntropy, round trip
		for _, e := range valid {
			m2e(mn(e))
		}
		// the sentences of the official test vectors: as they are in the file (split at white space, NOT normalised:
		// the Japanese ones are in NFC there, the list is in NFKD) and NFKD-normalised
		for _, l := range tv {
			if l.Language == lang {
				for i, t := range l.Tests {
					m2e(strings.Fields(t.Mnemonic))
					if lang == "japanese" && i%4 == 1 {
						m2e(strings.Fields(norm.NFKD.String(t.Mnemonic)))
					}
				}
			}
		}

		// ---- MnemonicToEntropy, mutations
		b12, b24, b48 := mn(random(16)), mn(random(32)), mn(random(64))
		next := func(w string, d int) string { return W[(indexOf(w)+d)%wordlist.Count] }
		for _, b := range [][]string{b12, b24, b48} {
			last := len(b) - 1
			m2e(with(b, last, next(b[last], 1))) // the last word replaced: the checksum bits change
			m2e(with(b, last, next(b[last], 1024)))
			m2e(with(b, 0, next(b[0], 1))) // the first word replaced
			m2e(with(b, last/2, next(b[last/2], 7)))
			sw := with(with(b, 0, b[1]), 1, b[0]) // two words swapped
			m2e(sw)
			sw = with(with(b, 3, b[last]), last, b[3])
			m2e(sw)
		}
		for _, b := range [][]string{mn(random(20)), mn(random(40))} {
			m2e(with(b, len(b)-1, next(b[len(b)-1], 1)))
		}
		// a word that is not in the list
		unknown := []string{"zzzz", "", other[0], other[1000], strings.ToUpper(W[5]), W[5] + " ", " " + W[5],
			W[5] + "\x00", W[5] + W[6], W[5][:len(W[5])-1], "\xff\xfe", "　", norm.NFC.String(W[12]), "Abandon", "ａｂａｎｄｏｎ"}
		for i, u := range unknown {
			m2e(with(b12, i%12, u))
		}
		m2e(with(b24, 23, "zzzz"))
		m2e(with(b24, 0, other[2047]))
		m2e(with(b48, 47, ""))
		m2e(with(b48, 20, strings.ToUpper(b48[20])))
		m2e(with(with(b12, 2, "zzzz"), 9, "")) // two unknown words
		m2e(strings.Split(strings.Repeat("zzzz ", 11)+"zzzz", " "))
		m2e(strings.Split(strings.Repeat(" ", 11), " ")) // twelve empty words
		// wrong number of words; the words themselves are in the list
		long := append(append([]string{}, b48...), b48...)
		for _, n := range []int{0, 1, 2, 3, 6, 9, 10, 11, 13, 14, 16, 47, 49, 50, 51, 52, 54, 96} {
			m2e(long[:n])
		}
		m2e(b48[1:]) // 47
		m2e(b24[:9])
		m2e(with(long[:11], 4, "zzzz")) // wrong count and an unknown word
		m2e(with(long[:51], 50, ""))
		m2e([]string{"zzzz"})
		m2e([]string{""})
		// a valid number of words, all the same
		for _, n := range []int{12, 15, 18, 24, 33, 48} {
			m2e(strings.Split(strings.TrimSuffix(strings.Repeat(W[0]+"|", n), "|"), "|"))
		}
		for _, n := range []int{12, 24, 48} {
			m2e(strings.Split(strings.TrimSuffix(strings.Repeat(W[2047]+"|", n), "|"), "|"))
		}
		m2e(strings.Split(strings.TrimSuffix(strings.Repeat(W[1]+"|", 12), "|"), "|"))
		z12 := mn(fill(16, 0)) // W[0] × 11 and the one last word that is valid ("about" in English)
		m2e(z12)
		m2e(with(z12, 11, W[0]))
		m2e(with(z12, 11, W[4]))
		m2e(with(z12, 0, z12[11])) // the same words in another order
	}

	// ---- the English list behind misbehaving methods: the panic branches
	en := lists["english"]
	setLang("english")
	mnEn := func(e []byte) []string {
		m, err := bip39.EntropyToMnemonic(e)
		if err != nil {
			panic(err)
		}
		return append([]string{}, m...)
	}
	plain := mnEn(bparse("7f7f7f7f7f7f7f7f7f7f7f7f7f7f7f7f")) // legal winner thank year … yellow: none of abandon, zoo, zone
	zeros, ffs := mnEn(fill(16, 0)), mnEn(fill(16, 0xff))
	put := func(m []string, i int, w string) []string {
		c := append([]string{}, m...)
		c[i] = w
		return c
	}
	L := "english+lax"
	emit("e2m %s %s\n", L, bhex(fill(16, 0)))
	emit("m2e %s %s\n", L, shex(plain))
	emit("m2e %s %s\n", L, shex(put(plain, 0, "zzzz"))) // Contains says yes, Index panics
	emit("m2e %s %s\n", L, shex(put(plain, 11, "zzzz")))
	emit("m2e %s %s\n", L, shex(put(plain, 5, "")))
	emit("m2e %s %s\n", L, shex(put(plain, 5, lists["japanese"][7])))
	emit("m2e %s %s\n", L, shex(put(plain, 11, "yellow ")))
	emit("m2e %s %s\n", L, shex(put(plain, 11, "year")))        // only the checksum is wrong
	emit("m2e %s %s\n", L, shex(put(plain, 0, "zzzz")[:11]))    // the number of words is checked first
	emit("m2e %s %s\n", L, shex(append(plain[:12:12], "zzzz"))) // 13
	emit("m2e %s %s\n", L, shex([]string{"zzzz", "", "\xff"}))  // 3
	emit("m2e %s %s\n", L, shex(strings.Fields(strings.Repeat("zzzz ", 12))))
	L = "english+idx"
	emit("e2m %s %s\n", L, bhex(fill(16, 0))) // Word is the real one
	emit("m2e %s %s\n", L, shex(plain))
	emit("m2e %s %s\n", L, shex(zeros))                     // abandon: index -1
	emit("m2e %s %s\n", L, shex(ffs))                       // zoo: index 2048
	emit("m2e %s %s\n", L, shex(put(plain, 11, "abandon"))) // the last word
	emit("m2e %s %s\n", L, shex(put(plain, 0, "zoo")))
	emit("m2e %s %s\n", L, shex(put(plain, 6, "zone"))) // index 2^62
	emit("m2e %s %s\n", L, shex(put(plain, 6, "zero"))) // 2045: fine, wrong checksum or not
	emit("m2e %s %s\n", L, shex(put(plain, 6, "ability")))
	emit("m2e %s %s\n", L, shex(put(zeros, 3, "zzzz"))) // an unknown word is found first
	emit("m2e %s %s\n", L, shex(zeros[:11]))            // and the number of words
	emit("m2e %s %s\n", L, shex(mnEn(fill(32, 0))))     // 24 words
	emit("m2e %s %s\n", L, shex(put(mnEn(fill(64, 0x7f)), 47, "zoo")))
	L = "english+short"
	for _, i := range []int{0, 3, 2040, 2047} {
		emit("m2e %s %s\n", L, shex(mnEn(fill(16, 0))[:11:11])+","+hex.EncodeToString([]byte(en[i]))) // Index is the real one
	}
	emit("e2m %s %s\n", L, bhex(fill(16, 0)))
	emit("e2m %s %s\n", L, bhex(fill(16, 0xff))) // zoo × 11: index 2047
	emit("e2m %s %s\n", L, bhex(fill(16, 0x7f)))
	emit("e2m %s %s\n", L, bhex(fill(64, 0xff)))
	emit("e2m %s %s\n", L, bhex(append([]byte{0xff, 0xe0}, fill(14, 0)...))) // only the first word: 2047
	emit("e2m %s %s\n", L, bhex(append([]byte{0xff, 0x00}, fill(14, 0)...))) // the first word 2040
	emit("e2m %s %s\n", L, bhex(append([]byte{0xfe, 0xe0}, fill(14, 0)...))) // the first word 2039
	// only the last word: its upper 7 bits are the last 7 bits of the entropy, 2032 + the 4 checksum bits — 2040 or
	// more (panic in the first round of the loop) for a checksum of 8 or more
	for k := 0; k < 6; k++ {
		emit("e2m %s %s\n", L, bhex(append(fill(14, 0), byte(k), 0x7f)))
	}
	emit("e2m %s %s\n", L, bhex(append(fill(8, 0), append([]byte{0x3f, 0xf8}, fill(6, 0)...)...))) // a word in the middle
	emit("e2m %s %s\n", L, bhex(fill(15, 0xff)))                                                   // wrong size: no call of Word
	emit("e2m %s %s\n", L, bhex(fill(0, 0)))
}

// ---------------------------------------------------------------------------------------------- run

func errName(err error) string {
	switch {
	case errors.Is(err, bip39.ErrInvalidEntropySize):
		return "ErrInvalidEntropySize"
	case errors.Is(err, bip39.ErrInvalidMnemonic):
		return "ErrInvalidMnemonic"
	case errors.Is(err, bip39.ErrInvalidChecksum):
		return "ErrInvalidChecksum"
	}
	return "other"
}

// eval returns what Go computes for one input line (without the "->").
func eval(f []string) (res string) {
	defer func() {
		if r := recover(); r != nil {
			res = "panic"
		}
	}()
	if len(f) != 3 {
		return "unknown-op"
	}
	if _, ok := lists[f[1]]; !ok {
		return "unknown-op"
	}
	setLang(f[1])
	switch f[0] {
	case "e2m":
		m, err := bip39.EntropyToMnemonic(bparse(f[2]))
		if err != nil {
			if len(m) != 0 {
				return "err " + errName(err) + " +result"
			}
			return "err " + errName(err)
		}
		return shex(m)
	case "m2e":
		e, err := bip39.MnemonicToEntropy(sparse(f[2]))
		if err != nil {
			if len(e) != 0 {
				return "err " + errName(err) + " +result"
			}
			return "err " + errName(err)
		}
		return bhex(e)
	}
	return "unknown-op"
}

func run() {
	sc := bufio.NewScanner(os.Stdin)
	sc.Buffer(make([]byte, 1<<20), 1<<20)
	for sc.Scan() {
		line := strings.TrimSpace(sc.Text())
		if line == "" {
			continue
		}
		f := strings.Fields(line)
		fmt.Printf("%s -> %s\n", strings.Join(f, " "), eval(f))
	}
}

func main() {
	setup()
	if len(os.Args) > 1 && os.Args[1] == "gen" {
		gen()
	} else {
		run()
	}
}
