package main

import "math/bits"

func largestPowerOfTwo(x int) uint {
	if x <= 1 {
		panic("invalid value")
	}
	// bitsLen(n) := ⌊log₂(n) + 1⌋ ⇒ ⌊log₂(n-1)⌋ = bitsLen(n-1) - 1 for n > 1
	log := bits.Len(uint(x-1)) - 1
	return 1 << (log & (bits.UintSize - 1)) // hint to the compiler that 0 ≤ log < 2^64
}
