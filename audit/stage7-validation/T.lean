import Iota.Gen.Merkle
import Iota.Model.Hash.SHA2
open Iota Iota.Gen.Merkle

abbrev B := List (BitVec 8)
abbrev Leaf := B × Option String

def hexByte (b : BitVec 8) : String :=
  let d := Nat.toDigits 16 b.toNat
  String.ofList (if d.length == 1 then '0' :: d else d)
def hex (l : B) : String := String.join (l.map hexByte)

-- the three instantiations of the parameter hash_sum
def sha (l : B) : B := (Iota.Hash.sha256 (l.map fun b => UInt8.ofNat b.toNat)).map fun u => BitVec.ofNat 8 u.toNat
def ident (l : B) : B := l
def toy (l : B) : B := [BitVec.ofNat 8 l.length] ++ l.take 3

def mkLeaf (i : Nat) : Leaf := ((List.range (i + 1)).map fun j => BitVec.ofNat 8 (16 * i + j), none)
def leaves (n : Nat) (bad : Option Nat) : List Leaf :=
  (List.range n).map fun i => if bad == some i then (([] : B), some "boom") else mkLeaf i

def show2 (name : String) (r : Option (B × Option String)) : String :=
  match r with
  | none => s!"{name} panic"
  | some (b, some e) => s!"{name} err {e} [{hex b}]"
  | some (b, none) => s!"{name} ok {hex b}"

def run (hname : String) (h : B → B) : IO Unit := do
  IO.println s!"{hname} empty ok {hex (code.Hasher_EmptyRoot h)}"
  for n in [0, 1, 2, 3, 4, 5, 6, 7, 8, 9, 13] do
    IO.println (show2 s!"{hname} n{n}" (code.Hasher_Hash h (n + 1) (leaves n none)))
  for bad in [0, 1, 2, 3, 4] do
    IO.println (show2 s!"{hname} e5_{bad}" (code.Hasher_Hash h 6 (leaves 5 (some bad))))
  IO.println (show2 s!"{hname} e1_0" (code.Hasher_Hash h 2 (leaves 1 (some 0))))
  IO.println (show2 s!"{hname} w3of9" (code.Hasher_Hash h 4 ((leaves 9 none).take 3)))

def main : IO Unit := do
  run "sha256" sha
  run "ident" ident
  run "toy" toy
  for x in ([-5, 0, 1, 2, 3, 4, 5, 7, 8, 9, 15, 16, 17, 31, 32, 33, 1000, 2^20, 2^20 + 1, 2^62, 2^62 + 1, 2^63 - 1] : List Int) do
    match code.largestPowerOfTwo (BitVec.ofInt 64 x) with
    | none => IO.println s!"lpo2 {x} panic"
    | some r => IO.println s!"lpo2 {x} ok {r.toNat}"

#eval main

-- fuel: too little fuel is `none`, more fuel than needed changes nothing
#eval (code.Hasher_Hash ident 2 (leaves 5 none)).isNone          -- true: depth 4 needed
#eval (code.Hasher_Hash ident 3 (leaves 5 none)).isNone          -- true
#eval (code.Hasher_Hash ident 4 (leaves 5 none)).isSome          -- true
#eval code.Hasher_Hash ident 4 (leaves 5 none) == code.Hasher_Hash ident 50 (leaves 5 none)  -- true
#check @code.Hasher_Hash
#check @code.Hasher_hashLeaf
#check @code.Hasher_hashNode
#check @code.Hasher_EmptyRoot
#check @code.largestPowerOfTwo
