package main

import (
	"crypto"
	_ "crypto/sha256"
	"encoding"
	"encoding/hex"
	"errors"
	"fmt"
	"hash"

	"github.com/wollac/iota-crypto-demo/pkg/merkle"
)

// identity "hash": Sum(nil) is everything written
type idHash struct{ data []byte }

func (h *idHash) Write(p []byte) (int, error) { h.data = append(h.data, p...); return len(p), nil }
func (h *idHash) Sum(b []byte) []byte         { return append(b, h.data...) }
func (h *idHash) Reset()                      { h.data = nil }
func (h *idHash) Size() int                   { return 0 }
func (h *idHash) BlockSize() int              { return 1 }

// toy hash: the length (mod 256) followed by the first three bytes written
type toyHash struct{ idHash }

func (h *toyHash) Sum(b []byte) []byte {
	out := append(b, byte(len(h.data)))
	n := len(h.data)
	if n > 3 {
		n = 3
	}
	return append(out, h.data[:n]...)
}

type leaf struct {
	b   []byte
	err error
}

func (l leaf) MarshalBinary() ([]byte, error) { return l.b, l.err }

func mkLeaf(i int) leaf {
	var b []byte
	for j := 0; j <= i; j++ {
		b = append(b, byte(16*i+j))
	}
	return leaf{b: b}
}

func leaves(n int, bad int) []encoding.BinaryMarshaler {
	var ls []encoding.BinaryMarshaler
	for i := 0; i < n; i++ {
		if i == bad {
			ls = append(ls, leaf{err: errors.New("boom")})
		} else {
			ls = append(ls, mkLeaf(i))
		}
	}
	return ls
}

func show(name string, f func() ([]byte, error)) {
	defer func() {
		if r := recover(); r != nil {
			fmt.Printf("%s panic\n", name)
		}
	}()
	b, err := f()
	if err != nil {
		fmt.Printf("%s err %s [%s]\n", name, err.Error(), hex.EncodeToString(b))
		return
	}
	fmt.Printf("%s ok %s\n", name, hex.EncodeToString(b))
}

func main() {
	crypto.RegisterHash(crypto.MD4, func() hash.Hash { return &idHash{} })
	crypto.RegisterHash(crypto.RIPEMD160, func() hash.Hash { return &toyHash{} })
	hs := []struct {
		name string
		h    crypto.Hash
	}{{"sha256", crypto.SHA256}, {"ident", crypto.MD4}, {"toy", crypto.RIPEMD160}}
	for _, h := range hs {
		t := merkle.NewHasher(h.h)
		show(h.name+" empty", func() ([]byte, error) { return t.EmptyRoot(), nil })
		for _, n := range []int{0, 1, 2, 3, 4, 5, 6, 7, 8, 9, 13} {
			ls := leaves(n, -1)
			show(fmt.Sprintf("%s n%d", h.name, n), func() ([]byte, error) { return t.Hash(ls) })
		}
		for bad := 0; bad < 5; bad++ {
			ls := leaves(5, bad)
			show(fmt.Sprintf("%s e5_%d", h.name, bad), func() ([]byte, error) { return t.Hash(ls) })
		}
		ls := leaves(1, 0)
		show(h.name+" e1_0", func() ([]byte, error) { return t.Hash(ls) })
		// a window with spare capacity: the first 3 of 9 leaves
		ls9 := leaves(9, -1)
		show(h.name+" w3of9", func() ([]byte, error) { return t.Hash(ls9[:3]) })
	}
	// largestPowerOfTwo (verbatim copy of the unexported function, see lpo2_copy.go)
	xs := []int{-5, 0, 1, 2, 3, 4, 5, 7, 8, 9, 15, 16, 17, 31, 32, 33, 1000, 1 << 20, 1<<20 + 1, 1 << 62, 1<<62 + 1, 1<<63 - 1}
	for _, x := range xs {
		func() {
			defer func() {
				if r := recover(); r != nil {
					fmt.Printf("lpo2 %d panic\n", x)
				}
			}()
			fmt.Printf("lpo2 %d ok %d\n", x, largestPowerOfTwo(x))
		}()
	}
}
