-- Validation by execution of the generated Iota/Gen/Secp256k1Code.lean (translator stage 10): the generated
-- koblitzCurve_IsOnCurve / Add / Double / ScalarMult / ScalarBaseMult, with the receiver fields curve_P, curve_B,
-- curve_Gx, curve_Gy instantiated by Iota.Secp256k1.P / B / Gx / Gy and the parameter big_ModInverse by
-- Iota.Secp256k1.modInverse (Iota/Model/Secp256k1.lean), evaluated on the lines of inputs.txt (written by
-- `go run . gen` in go/); the output is compared with that of `go run . run` (run.sh).
-- run: cd <verif>/lean && lake env lean ../audit/stage10-validation/Validate.lean
--      (inputs.txt is looked up in $STAGE10_INPUTS, default ../audit/stage10-validation/inputs.txt)
-- Line format: see go/main.go.  The lines "op@ P …" pass another number for curve_P (ioc@ P B …: and curve_B).
import Iota.Model.Secp256k1
import Iota.Gen.Secp256k1Code

open Iota Iota.Gen.Secp256k1Code

def hexVal (c : Char) : Nat := if c.toNat ≥ 97 then c.toNat - 87 else c.toNat - 48
/-- a scalar: hex, "-" = the empty slice -/
def ofHex (s : String) : List (BitVec 8) :=
  let rec go : List Char → List (BitVec 8)
    | a :: b :: r => BitVec.ofNat 8 (hexVal a * 16 + hexVal b) :: go r
    | _ => []
  if s == "-" then [] else go s.toList

def int (s : String) : Int := s.toInt?.getD 0

def showPoint : Option (Int × Int) → String
  | some (x, y) => s!"{x} {y}"
  | none => "panic"
def showBool : Option Bool → String
  | some b => s!"{b}"
  | none => "panic"

def inv := Secp256k1.modInverse

/-- what the generated code computes for one input line (the text after "->") -/
def eval : List String → String
  | ["ioc", x, y] => showBool (btccurve.koblitzCurve_IsOnCurve Secp256k1.P Secp256k1.B (int x) (int y))
  | ["add", x1, y1, x2, y2] => showPoint (btccurve.koblitzCurve_Add inv Secp256k1.P (int x1) (int y1) (int x2) (int y2))
  | ["dbl", x, y] => showPoint (btccurve.koblitzCurve_Double inv Secp256k1.P (int x) (int y))
  | ["smul", x, y, k] => showPoint (btccurve.koblitzCurve_ScalarMult inv Secp256k1.P (int x) (int y) (ofHex k))
  | ["sbase", k] =>
    showPoint (btccurve.koblitzCurve_ScalarBaseMult inv Secp256k1.P Secp256k1.Gx Secp256k1.Gy (ofHex k))
  | ["ioc@", p, b, x, y] => showBool (btccurve.koblitzCurve_IsOnCurve (int p) (int b) (int x) (int y))
  | ["add@", p, x1, y1, x2, y2] => showPoint (btccurve.koblitzCurve_Add inv (int p) (int x1) (int y1) (int x2) (int y2))
  | ["dbl@", p, x, y] => showPoint (btccurve.koblitzCurve_Double inv (int p) (int x) (int y))
  | ["smul@", p, x, y, k] => showPoint (btccurve.koblitzCurve_ScalarMult inv (int p) (int x) (int y) (ofHex k))
  | ["sbase@", p, k] =>
    showPoint (btccurve.koblitzCurve_ScalarBaseMult inv (int p) Secp256k1.Gx Secp256k1.Gy (ofHex k))
  | _ => "unknown-op"

#eval show IO Unit from do
  let path := (← IO.getEnv "STAGE10_INPUTS").getD "../audit/stage10-validation/inputs.txt"
  for line in ← IO.FS.lines path do
    let f := (line.splitOn " ").filter (· ≠ "")
    if f.isEmpty then continue
    -- every integer of the line must parse (a silent 0 would hide a format error)
    let ints := if f.head! == "sbase" then [] else if f.head! == "sbase@" then [f[1]!]
      else if f.head!.startsWith "smul" then f.tail.dropLast else f.tail
    if ints.any (fun s => s.toInt?.isNone) then
      IO.println s!"{line} -> PARSE ERROR"
    else
      IO.println s!"{" ".intercalate f} -> {eval f}"
