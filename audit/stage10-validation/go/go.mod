module gotest10

go 1.17

require github.com/wollac/iota-crypto-demo v0.0.0

replace github.com/wollac/iota-crypto-demo => /repo
