// Differential test of the generated Lean code of pkg/slip10/elliptic/internal/btccurve (Iota/Gen/Secp256k1Code.lean,
// translator stage 10) against the Go code.  The internal package cannot be imported; its exported twin
// pkg/slip10/btccurve is byte-identical (run.sh checks that with cmp) and is what is called here.
//
//	go run . gen      prints the inputs (inputs.txt)
//	go run . run      reads them from standard input and prints what Go computes, in the format of ../Validate.lean
//	go run . explore  searches for inputs that make the Go code panic with the real curve parameters (finds none)
//
// Line format, integers in decimal (may be negative), scalars k in hex ("-" = the empty slice):
//
//	ioc x y               -> true|false         IsOnCurve
//	add x1 y1 x2 y2       -> x y | panic        Add
//	dbl x y               -> x y | panic        Double
//	smul x y k            -> x y | panic        ScalarMult
//	sbase k               -> x y | panic        ScalarBaseMult
//	ioc@ P B x y, add@ P x1 y1 x2 y2, dbl@ P x y, smul@ P x y k, sbase@ P k
//	    the same calls while Secp256k1().Params().P (and .B) point to other numbers: the generated code takes the
//	    fields of the receiver as parameters curve_P, curve_B, so these lines exercise its panic branches
//	    (Mod by 0; nil result of ModInverse for a composite modulus), which the real P (a prime) never reaches.
package main

import (
	"bufio"
	"crypto/elliptic"
	"encoding/hex"
	"fmt"
	"math/big"
	"os"
	"strings"

	"github.com/wollac/iota-crypto-demo/pkg/slip10/btccurve"
)

var (
	curve  = btccurve.Secp256k1()
	params = curve.Params()
	P      = new(big.Int).Set(params.P)
	N      = new(big.Int).Set(params.N)
	Gx     = new(big.Int).Set(params.Gx)
	Gy     = new(big.Int).Set(params.Gy)
)

func bi(s string) *big.Int {
	v, ok := new(big.Int).SetString(s, 10)
	if !ok {
		panic("bad integer " + s)
	}
	return v
}
func n(i int64) *big.Int               { return big.NewInt(i) }
func add(a, b *big.Int) *big.Int       { return new(big.Int).Add(a, b) }
func sub(a, b *big.Int) *big.Int       { return new(big.Int).Sub(a, b) }
func mul(a *big.Int, c int64) *big.Int { return new(big.Int).Mul(a, n(c)) }

func khex(k []byte) string {
	if len(k) == 0 {
		return "-"
	}
	return hex.EncodeToString(k)
}
func kparse(s string) []byte {
	if s == "-" {
		return []byte{}
	}
	b, err := hex.DecodeString(s)
	if err != nil {
		panic(err)
	}
	return b
}

// be32 is v as exactly 32 big-endian bytes.
func be32(v *big.Int) []byte { return v.FillBytes(make([]byte, 32)) }

func gen() {
	ioc := func(x, y *big.Int) { fmt.Printf("ioc %s %s\n", x, y) }
	addp := func(x1, y1, x2, y2 *big.Int) { fmt.Printf("add %s %s %s %s\n", x1, y1, x2, y2) }
	dbl := func(x, y *big.Int) { fmt.Printf("dbl %s %s\n", x, y) }
	smul := func(x, y *big.Int, k []byte) { fmt.Printf("smul %s %s %s\n", x, y, khex(k)) }
	sbase := func(k []byte) { fmt.Printf("sbase %s\n", khex(k)) }

	negGy := sub(P, Gy)
	g2x, g2y := curve.Double(Gx, Gy)            // only used as input values
	g3x, g3y := curve.Add(Gx, Gy, g2x, g2y)     // only used as input values
	g7x, g7y := curve.ScalarBaseMult([]byte{7}) // only used as input values
	zero := n(0)

	// ---- IsOnCurve
	ioc(Gx, Gy)
	ioc(zero, zero)
	ioc(g2x, g2y)
	ioc(Gx, negGy)
	ioc(n(1), n(1))
	ioc(n(5), n(7))
	ioc(Gy, Gx)
	ioc(add(Gx, P), Gy)         // unreduced x
	ioc(Gx, sub(Gy, P))         // negative y, congruent to Gy
	ioc(add(Gx, P), sub(Gy, P)) // both
	ioc(sub(Gx, mul(P, 3)), add(Gy, mul(P, 2)))
	ioc(n(-3), n(2))
	ioc(n(-3), n(-3))
	ioc(sub(zero, Gx), Gy) // -Gx is not on the curve
	ioc(P, zero)
	ioc(zero, P)
	ioc(P, P)
	ioc(add(Gx, n(1)), Gy)

	// ---- Add
	addp(zero, zero, zero, zero) // both operands the identity
	addp(zero, zero, Gx, Gy)     // identity + G
	addp(Gx, Gy, zero, zero)     // G + identity
	addp(Gx, Gy, Gx, Gy)         // G + G: the doubling branch of addJacobian
	addp(Gx, Gy, Gx, negGy)      // G + (-G) = (0,0)
	addp(Gx, negGy, Gx, Gy)
	addp(Gx, Gy, g2x, g2y) // G + 2G
	addp(g2x, g2y, Gx, Gy)
	addp(g2x, g2y, g3x, g3y)
	addp(g7x, g7y, g3x, g3y)
	addp(add(Gx, P), Gy, Gx, Gy)    // the same point, one x unreduced: h = 0, r = 0 after the Mod
	addp(Gx, sub(Gy, P), g2x, g2y)  // negative y
	addp(Gx, Gy, Gx, sub(zero, Gy)) // G + (Gx, -Gy) with -Gy negative
	addp(add(Gx, mul(P, 2)), add(Gy, P), add(g2x, P), sub(g2y, mul(P, 2)))
	addp(n(1), n(1), n(5), n(7)) // off-curve operands
	addp(n(1), n(1), n(1), n(1))
	addp(n(1), n(1), n(1), n(-1))
	addp(n(-3), n(-3), n(2), n(-5))
	addp(zero, zero, n(1), n(1))             // identity + off-curve point: returned as it is
	addp(zero, zero, add(Gx, P), sub(Gy, P)) // identity + unreduced point: reduced by affineFromJacobian
	addp(n(-3), n(4), zero, zero)
	addp(P, zero, Gx, Gy) // (P, 0): z = 1 although the point is ≡ (0, 0)
	addp(zero, P, Gx, Gy)
	addp(P, P, Gx, Gy)
	addp(P, n(1), Gx, Gy)
	addp(P, n(1), P, n(1))
	addp(P, zero, zero, P) // h = 0, r = 0 → doubleJacobian(P, 0, 1) → z3 = 0
	addp(P, zero, P, zero)
	addp(zero, zero, P, zero) // identity + (P, 0) → (P, 0, 1) → (0, 0) after the Mod
	addp(P, P, zero, zero)
	addp(mul(P, 2), mul(P, -1), mul(P, 3), P)
	addp(zero, n(1), zero, n(-1)) // x = 0: r ≠ 0, h = 0 → z3 = 0
	addp(zero, n(1), zero, n(1))

	// ---- Double
	dbl(zero, zero)
	dbl(Gx, Gy)
	dbl(g2x, g2y)
	dbl(Gx, negGy)
	dbl(n(1), zero) // y = 0 (no such point on the curve): z3 = 0 → (0, 0)
	dbl(Gx, zero)
	dbl(n(-7), zero)
	dbl(zero, n(1)) // x = 0
	dbl(n(1), n(1))
	dbl(n(5), n(7))
	dbl(n(-3), n(-3))
	dbl(add(Gx, P), sub(Gy, P))
	dbl(P, zero)
	dbl(zero, P) // y ≡ 0 but not 0: z3 = 2·P·1 mod P = 0
	dbl(P, P)
	dbl(P, n(1))
	dbl(n(1), P)
	dbl(Gx, mul(P, 2))

	// ---- ScalarMult
	nBytes := be32(N)
	n33lead0 := append([]byte{0}, nBytes...)
	n33lead1 := append([]byte{1}, be32(n(5))...) // 2^256 + 5
	k64 := make([]byte, 64)
	for i := range k64 {
		k64[i] = byte(i*37 + 11)
	}
	scalars := [][]byte{
		{}, {0}, {1}, {2}, {3}, {0xff}, {0x80}, {0, 0, 5}, {1, 0},
		nBytes,             // n → (0, 0)
		be32(add(N, n(2))), // n + 2 < 2^256
		be32(sub(N, n(1))), // n - 1 → -G
		be32(add(N, n(1))), // n + 1 → G
		n33lead0, n33lead1, k64,
		bytesOf("ffffffffffffffffffffffffffffffffffffffffffffffffffffffffffffffff"),
		bytesOf("4c0883a69102937d6231471b5dbb6204fe5129617082792ae468d01a3f362318"),
	}
	for _, k := range scalars {
		smul(Gx, Gy, k)
	}
	for _, k := range [][]byte{{}, {0}, {1}, {2}, {3}, {0xff}, nBytes, k64} {
		smul(g2x, g2y, k)
	}
	off := [][2]*big.Int{
		{n(1), n(1)}, {n(5), n(7)}, {n(-3), n(-3)}, {n(-3), n(2)}, {zero, zero}, {n(1), zero}, {zero, n(1)},
		{add(Gx, P), Gy}, {Gx, sub(Gy, P)}, {add(Gx, mul(P, 2)), sub(Gy, mul(P, 3))}, {sub(zero, Gx), sub(zero, Gy)},
		{P, zero}, {zero, P}, {P, P}, {P, n(1)}, {n(1), P}, {mul(P, -1), mul(P, 2)},
	}
	for _, b := range off {
		for _, k := range [][]byte{{}, {1}, {2}, {3}, {0xff}, be32(add(N, n(2)))} {
			smul(b[0], b[1], k)
		}
	}
	smul(n(1), n(1), nBytes)
	smul(n(5), n(7), n33lead1)
	smul(n(-3), n(2), k64)

	// ---- ScalarBaseMult
	for _, k := range scalars {
		sbase(k)
	}
	sbase([]byte{7})
	sbase(be32(n(1)))
	sbase(bytesOf("e8f32e723decf4051aefac8e2c93c9c5b214313817cdb01a1494b917c8436b35"))

	// ---- other values of the receiver's fields: the panic branches
	fmt.Printf("ioc@ 0 7 %s %s\n", Gx, Gy) // Mod by zero
	fmt.Printf("ioc@ 0 7 0 0\n")
	fmt.Printf("ioc@ 1 7 5 3\n")
	fmt.Printf("ioc@ 15 7 2 0\n") // 8 + 7 = 15 ≡ 0
	fmt.Printf("ioc@ 15 7 2 1\n")
	fmt.Printf("ioc@ 13 -4 2 2\n") // negative B
	fmt.Printf("ioc@ -13 7 2 2\n") // negative modulus: Mod is Euclidean, 15 mod -13 = 2, 4 mod -13 = 4
	fmt.Printf("ioc@ -13 7 -2 -5\n")
	fmt.Printf("ioc@ %s 0 %s %s\n", P, Gx, Gy) // B = 0
	for _, p := range []string{"0", "1", "15", "21", "16", "115792089237316195423570985008687907853269984665640564039457584007913129639936"} {
		fmt.Printf("add@ %s 0 0 0 0\n", p) // no Mod, no ModInverse: (0, 0) for every P
		fmt.Printf("add@ %s 0 0 1 3\n", p) // identity + point: only affineFromJacobian with z = 1
		fmt.Printf("add@ %s 1 3 2 5\n", p)
		fmt.Printf("add@ %s 1 3 4 5\n", p) // h = 3: z3 = 2·h
		fmt.Printf("add@ %s 1 3 1 3\n", p) // doubling branch: z3 = 2·y
		fmt.Printf("add@ %s %s %s %s %s\n", p, Gx, Gy, g2x, g2y)
		fmt.Printf("dbl@ %s 0 0\n", p)
		fmt.Printf("dbl@ %s 1 3\n", p) // z3 = 6
		fmt.Printf("dbl@ %s 1 5\n", p) // z3 = 10
		fmt.Printf("dbl@ %s 2 7\n", p) // z3 = 14
		fmt.Printf("dbl@ %s %s %s\n", p, Gx, Gy)
		fmt.Printf("smul@ %s 1 3 -\n", p)  // empty scalar: no Mod at all
		fmt.Printf("smul@ %s 1 3 00\n", p) // only doublings of the identity
		fmt.Printf("smul@ %s 1 3 01\n", p)
		fmt.Printf("smul@ %s 1 3 02\n", p)
		fmt.Printf("smul@ %s 1 3 03\n", p)
		fmt.Printf("smul@ %s 2 7 ff\n", p)
		fmt.Printf("smul@ %s 0 0 01\n", p)
		fmt.Printf("sbase@ %s -\n", p)
		fmt.Printf("sbase@ %s 01\n", p)
		fmt.Printf("sbase@ %s 02\n", p)
		fmt.Printf("sbase@ %s 0100\n", p)
	}
	// a negative modulus: Mod is Euclidean (result in [0, |P|)), "h.Add(h, P)" adds a negative number, and
	// ModInverse(z, P) works modulo |P|; the instance Iota.Secp256k1.modInverse is only documented for n > 0
	for _, p := range []string{"-13", "-15", "-" + P.String()} {
		fmt.Printf("add@ %s 0 0 1 3\n", p)
		fmt.Printf("add@ %s 1 3 2 5\n", p)
		fmt.Printf("add@ %s 2 5 1 3\n", p)
		fmt.Printf("add@ %s 1 3 1 3\n", p)
		fmt.Printf("dbl@ %s 1 3\n", p)
		fmt.Printf("dbl@ %s 2 7\n", p)
		fmt.Printf("smul@ %s 1 3 03\n", p)
		fmt.Printf("smul@ %s 2 7 ff\n", p)
		fmt.Printf("sbase@ %s 05\n", p)
	}
}

func bytesOf(h string) []byte { b, _ := hex.DecodeString(h); return b }

// withP runs f while the curve's P (and B) point to other numbers.
func withP(p, b *big.Int, f func()) {
	oldP, oldB := params.P, params.B
	params.P = p
	if b != nil {
		params.B = b
	}
	defer func() { params.P, params.B = oldP, oldB }()
	f()
}

func point(x, y *big.Int) string { return x.String() + " " + y.String() }

// eval returns what Go computes for one input line (without the "->").
func eval(c elliptic.Curve, f []string) (res string) {
	defer func() {
		if r := recover(); r != nil {
			res = "panic"
		}
	}()
	op, a := f[0], f[1:]
	if strings.HasSuffix(op, "@") {
		p := bi(a[0])
		a = a[1:]
		var b *big.Int
		if op == "ioc@" {
			b = bi(a[0])
			a = a[1:]
		}
		withP(p, b, func() { res = eval(c, append([]string{strings.TrimSuffix(op, "@")}, a...)) })
		return res
	}
	switch op {
	case "ioc":
		return fmt.Sprint(c.IsOnCurve(bi(a[0]), bi(a[1])))
	case "add":
		return point(c.Add(bi(a[0]), bi(a[1]), bi(a[2]), bi(a[3])))
	case "dbl":
		return point(c.Double(bi(a[0]), bi(a[1])))
	case "smul":
		return point(c.ScalarMult(bi(a[0]), bi(a[1]), kparse(a[2])))
	case "sbase":
		return point(c.ScalarBaseMult(kparse(a[0])))
	}
	return "unknown-op"
}

func run() {
	sc := bufio.NewScanner(os.Stdin)
	sc.Buffer(make([]byte, 1<<20), 1<<20)
	for sc.Scan() {
		line := strings.TrimSpace(sc.Text())
		if line == "" {
			continue
		}
		fmt.Printf("%s -> %s\n", line, eval(curve, strings.Fields(line)))
		if params.P.Cmp(P) != 0 {
			panic("P not restored")
		}
	}
}

// explore: a search for inputs on which the Go code panics with the real P.  Coordinates are taken from a set of
// special integers (0, small, negative, multiples of P, P ± small, the generator's coordinates shifted by multiples
// of P); every pair is a base point for Double and for ScalarMult with a set of scalars, every two pairs are the
// operands of Add.  Prints the number of calls and the inputs that panicked.
func explore() {
	vals := []*big.Int{n(0), n(1), n(-1), n(2), n(-3), n(7), P, mul(P, -1), mul(P, 2), add(P, n(1)), sub(P, n(1)),
		sub(n(1), P), Gx, Gy, sub(P, Gy), add(Gx, P), sub(Gy, P), sub(n(0), Gy), new(big.Int).Lsh(n(1), 256),
		new(big.Int).Rsh(add(P, n(1)), 1)}
	scalars := [][]byte{{}, {0}, {1}, {2}, {3}, {0xff}, be32(N), be32(add(N, n(2))), be32(sub(N, n(1)))}
	calls, panics := 0, 0
	try := func(f ...string) {
		calls++
		if eval(curve, f) == "panic" {
			panics++
			fmt.Println("PANIC:", strings.Join(f, " "))
		}
	}
	for _, x := range vals {
		for _, y := range vals {
			try("dbl", x.String(), y.String())
			try("ioc", x.String(), y.String())
			for _, k := range scalars {
				try("smul", x.String(), y.String(), khex(k))
			}
			for _, x2 := range vals {
				for _, y2 := range vals {
					try("add", x.String(), y.String(), x2.String(), y2.String())
				}
			}
		}
	}
	fmt.Printf("%d calls, %d panics\n", calls, panics)
}

func main() {
	switch {
	case len(os.Args) > 1 && os.Args[1] == "gen":
		gen()
	case len(os.Args) > 1 && os.Args[1] == "explore":
		explore()
	default:
		run()
	}
}
