#!/bin/sh
# Validation by execution, translator stage 10: Go (pkg/slip10/btccurve) against the generated Lean code
# (Iota/Gen/Secp256k1Code.lean).  Writes inputs.txt, go.out, lean.out next to this script and diffs the two outputs.
# The repository is the one named in go/go.mod (replace … => /repo); override REPO for the cmp below.
set -e
export GOFLAGS=-mod=mod GOPROXY=off GOSUMDB=off GOTOOLCHAIN=local
HERE=$(cd "$(dirname "$0")" && pwd)
VERIF=$(cd "$HERE/../.." && pwd)
REPO=${REPO:-/repo}

# the internal package (the source of the generated code) cannot be imported: its exported twin must be the same file
cmp "$REPO/pkg/slip10/elliptic/internal/btccurve/secp256k1.go" "$REPO/pkg/slip10/btccurve/secp256k1.go"

cd "$HERE/go"
cp "$REPO/go.sum" .
go run . gen > "$HERE/inputs.txt"
go run . run < "$HERE/inputs.txt" > "$HERE/go.out"

cd "$VERIF/lean"
lake build Iota.Gen.Secp256k1Code Iota.Model.Secp256k1
STAGE10_INPUTS="$HERE/inputs.txt" lake env lean "$HERE/Validate.lean" > "$HERE/lean.out"

cd "$HERE"
echo "cases:           $(wc -l < inputs.txt)"
echo "go.out lines:    $(wc -l < go.out)   panics: $(grep -c -- '-> panic$' go.out || true)"
echo "lean.out lines:  $(wc -l < lean.out)   panics: $(grep -c -- '-> panic$' lean.out || true)"
if grep -q -e 'PARSE ERROR' -e 'unknown-op' go.out lean.out; then echo "FORMAT ERROR in an output"; exit 2; fi
if diff go.out lean.out > diff.out; then
  echo "IDENTICAL"; rm -f diff.out
else
  echo "DIFFERENT: $(grep -c '^<' diff.out) lines, see diff.out"; exit 1
fi
