import Iota.Gen.Bip32Path
open Iota.Gen.Bip32Path

/-! Execution test of the generated ParsePath / Path_String (stage 8) against the Go library. -/

def isDig (b : BitVec 8) : Bool := decide (48 ≤ b.toNat) && decide (b.toNat ≤ 57)

/-- `regexp.MustCompile("(\\d+)([H']?)").FindStringSubmatch`: leftmost-first -/
def findSub (s : List (BitVec 8)) : List (List (BitVec 8)) :=
  match s.dropWhile (fun b => !isDig b) with
  | [] => []
  | rest =>
    let digits := rest.takeWhile isDig
    let marker : List (BitVec 8) := match rest.dropWhile isDig with
      | c :: _ => if c == 72#8 || c == 39#8 then [c] else []
      | [] => []
    [digits ++ marker, digits, marker]

/-- `strconv.ParseUint(s, 10, bits)` (base 10 only), errors as the names of strconv.ErrSyntax / strconv.ErrRange -/
def parseUint (s : List (BitVec 8)) (_base bits : BitVec 64) : BitVec 64 × Option String :=
  let maxVal := 2 ^ bits.toNat - 1
  let rec go : List (BitVec 8) → Nat → BitVec 64 × Option String
    | [], n => (BitVec.ofNat 64 n, none)
    | c :: cs, n =>
      if !isDig c then (0#64, some "ErrSyntax") else
      let n1 := n * 10 + (c.toNat - 48)
      if n1 > maxVal then (BitVec.ofNat 64 maxVal, some "ErrRange") else go cs n1
  if s.isEmpty then (0#64, some "ErrSyntax") else go s 0

def toBytes (s : String) : List (BitVec 8) := s.toUTF8.toList.map fun b => BitVec.ofNat 8 b.toNat
def ofBytes (l : List (BitVec 8)) : String := String.ofList (l.map fun b => Char.ofNat b.toNat)
def nums (p : List (BitVec 32)) : String := ",".intercalate (p.map fun v => toString v.toNat)

def linesOf (file : String) : IO (List String) := do
  let txt ← IO.FS.readFile file
  return (txt.splitOn "\n").dropLast

def main : IO Unit := do
  for inp in ← linesOf "/tmp/agents/stage8/inputs.txt" do
    match code.ParsePath findSub parseUint (toBytes inp) with
    | none => IO.println s!"P {inp}|PANIC"
    | some (p, some e) => IO.println s!"P {inp}|{e}|{nums p}|"
    | some (p, none) => IO.println s!"P {inp}|nil|{nums p}|{ofBytes (code.Path_String p)}"
  for l in ← linesOf "/tmp/agents/stage8/paths.txt" do
    let p : List (BitVec 32) := if l == "" then [] else (l.splitOn ",").map fun f => BitVec.ofNat 32 f.toNat!
    IO.println s!"S {l}|{ofBytes (code.Path_String p)}"

#eval main
