module stage8test

go 1.21

require github.com/wollac/iota-crypto-demo v0.0.0

replace github.com/wollac/iota-crypto-demo => /repo
