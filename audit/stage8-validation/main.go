package main

import (
	"errors"
	"fmt"
	"os"
	"strconv"
	"strings"

	"github.com/wollac/iota-crypto-demo/pkg/bip32path"
)

func lines(file string) []string {
	b, err := os.ReadFile(file)
	if err != nil {
		panic(err)
	}
	ls := strings.Split(string(b), "\n")
	return ls[:len(ls)-1]
}

func errName(err error) string {
	switch {
	case err == nil:
		return "nil"
	case errors.Is(err, bip32path.ErrInvalidPathFormat):
		return "ErrInvalidPathFormat"
	case errors.Is(err, strconv.ErrSyntax):
		return "ErrSyntax"
	case errors.Is(err, strconv.ErrRange):
		return "ErrRange"
	}
	return "OTHER:" + err.Error()
}

func nums(p bip32path.Path) string {
	var s []string
	for _, v := range p {
		s = append(s, strconv.FormatUint(uint64(v), 10))
	}
	return strings.Join(s, ",")
}

func main() {
	for _, in := range lines(os.Args[1]) {
		func() {
			defer func() {
				if r := recover(); r != nil {
					fmt.Printf("P %s|PANIC\n", in)
				}
			}()
			p, err := bip32path.ParsePath(in)
			if err != nil {
				fmt.Printf("P %s|%s|%s|\n", in, errName(err), nums(p))
				return
			}
			fmt.Printf("P %s|%s|%s|%s\n", in, errName(err), nums(p), p.String())
		}()
	}
	for _, l := range lines(os.Args[2]) {
		var p bip32path.Path
		if l != "" {
			for _, f := range strings.Split(l, ",") {
				v, err := strconv.ParseUint(f, 10, 32)
				if err != nil {
					panic(err)
				}
				p = append(p, uint32(v))
			}
		}
		fmt.Printf("S %s|%s\n", l, p.String())
	}
}
