// Differential test of the generated Lean code of pkg/migration against the Go code: `gotest gen` prints the inputs,
// `gotest run` reads them from standard input and prints what Go computes, in the format of /tmp/agents/stage9/T.lean.
package main

import (
	"bufio"
	"encoding/hex"
	"errors"
	"fmt"
	"os"
	"strings"

	"github.com/iotaledger/iota.go/consts"
	"github.com/iotaledger/iota.go/encoding/b1t6"
	"github.com/wollac/iota-crypto-demo/pkg/migration"
)

func addrs() [][32]byte {
	var as [][32]byte
	var a [32]byte
	as = append(as, a) // zeros
	for i := range a {
		a[i] = 0xff
	}
	as = append(as, a)
	for i := range a {
		a[i] = byte(i)
	}
	as = append(as, a)
	for i := range a {
		a[i] = byte(i*73 + 41)
	}
	as = append(as, a)
	for i := range a {
		a[i] = 0x80
	}
	as = append(as, a)
	b, _ := hex.DecodeString("6f1581709bb7b1ef030d210db18e3b0ba1c776fba65d8cdaad05415142d189f8")
	copy(a[:], b)
	as = append(as, a)
	return as
}

func gen() {
	out := func(kind string, b []byte) { fmt.Printf("%s %s\n", kind, hex.EncodeToString(b)) }
	as := addrs()
	for _, a := range as {
		out("enc", a[:])
	}
	var ts []string
	for _, a := range as {
		ts = append(ts, migration.Encode(a))
	}
	for _, t := range ts { // round trips
		out("dec", []byte(t))
	}
	set := func(t string, i int, c string) string { return t[:i] + c + t[i+len(c):] }
	next := func(c byte) string { // another valid tryte
		const al = "9ABCDEFGHIJKLMNOPQRSTUVWXYZ"
		return string(al[(strings.IndexByte(al, c)+1)%27])
	}
	t := ts[3]
	// one tryte replaced by another valid tryte, at several positions of the address part and of the checksum part
	for _, i := range []int{8, 9, 20, 41, 70, 71, 72, 73, 78, 79} {
		out("dec", []byte(set(t, i, next(t[i]))))
	}
	// groups that are not the encoding of a byte (value outside int8), in the address part and in the checksum part
	out("dec", []byte(set(t, 8, "MM")))
	out("dec", []byte(set(t, 70, "ZN")))
	out("dec", []byte(set(t, 72, "MM")))
	out("dec", []byte(set(t, 78, "NN")))
	out("dec", []byte(set(ts[0], 10, "MM")+""))
	// checksum of another address
	out("dec", []byte(ts[2][:72]+ts[5][72:]))
	out("dec", []byte(ts[5][:72]+ts[2][72:]))
	// wrong prefix / suffix
	out("dec", []byte(set(t, 7, "S")))
	out("dec", []byte(set(t, 0, "9")))
	out("dec", []byte("RANSFER"+t[8:]+"9"))
	out("dec", []byte(set(t, 80, "A")))
	out("dec", []byte(set(ts[1], 80, "Z")))
	out("dec", []byte(strings.Repeat("9", 81)))
	out("dec", []byte("TRANSFER"+strings.Repeat("9", 73)))
	out("dec", []byte("TRANSFER"+strings.Repeat("9", 72)+"A"))
	// wrong length
	out("dec", []byte(t[:80]))
	out("dec", []byte(t+"9"))
	out("dec", []byte(t[:72]+"9"))
	out("dec", []byte(""))
	out("dec", []byte("TRANSFER9"))
	// lower case, characters that are not trytes, non-ASCII, invalid UTF-8
	out("dec", []byte(strings.ToLower(t)))
	out("dec", []byte(set(t, 0, "t")))
	out("dec", []byte(set(t, 30, strings.ToLower(t[30:31]))))
	out("dec", []byte(set(t, 10, "0")))
	out("dec", []byte(set(t, 79, "@")))
	out("dec", []byte(set(t, 50, "[")))
	out("dec", []byte(set(t, 40, "é")))
	out("dec", []byte(set(t, 40, "\xff")))
	out("dec", []byte(set(t, 80, "\x80")))
}

func errName(err error) string {
	wrapped := func() string {
		switch {
		case errors.Is(err, b1t6.ErrInvalidTrits):
			return "b1t6.ErrInvalidTrits"
		case errors.Is(err, b1t6.ErrInvalidLength):
			return "b1t6.ErrInvalidLength"
		}
		return "?"
	}
	switch {
	case err == nil:
		return "nil"
	case errors.Is(err, consts.ErrInvalidTrytesLength):
		return "consts.ErrInvalidTrytesLength"
	case errors.Is(err, consts.ErrInvalidChecksum):
		return "consts.ErrInvalidChecksum"
	case strings.HasPrefix(err.Error(), "expected prefix"):
		return "prefix"
	case strings.HasPrefix(err.Error(), "expected suffix"):
		return "suffix"
	case strings.HasPrefix(err.Error(), "invalid address encoding"):
		return "address-encoding(" + wrapped() + ")"
	case strings.HasPrefix(err.Error(), "invalid checksum encoding"):
		return "checksum-encoding(" + wrapped() + ")"
	}
	return "other(" + err.Error() + ")"
}

func run() {
	sc := bufio.NewScanner(os.Stdin)
	for sc.Scan() {
		f := strings.Fields(sc.Text())
		in := []byte{}
		if len(f) == 2 {
			in, _ = hex.DecodeString(f[1])
		}
		func() {
			defer func() {
				if r := recover(); r != nil {
					fmt.Printf("%s %x -> panic\n", f[0], in)
				}
			}()
			switch f[0] {
			case "enc":
				var a [32]byte
				copy(a[:], in)
				fmt.Printf("enc %x -> %x\n", in, []byte(migration.Encode(a)))
			case "dec":
				a, err := migration.Decode(string(in))
				fmt.Printf("dec %x -> addr=%x err=%s\n", in, a[:], errName(err))
			}
		}()
	}
}

func main() {
	if len(os.Args) > 1 && os.Args[1] == "gen" {
		gen()
		return
	}
	run()
}
