#!/usr/bin/env python3
"""Rewrites the table between the SEEDED markers of DESIGN.md from seeded/*/meta.json."""
import json, os, re, glob
V = os.path.dirname(os.path.abspath(__file__))
rows = ["| change | property | what it does / what it needs | quick stream | search result (`./check` with the patch applied) |",
        "|---|---|---|---|---|"]
for mp in sorted(glob.glob(os.path.join(V, "seeded", "*", "meta.json"))):
    m = json.load(open(mp))
    name = m.get("name", os.path.basename(os.path.dirname(mp)))
    ver = m.get("verified", {})
    summ = " ".join(str(m.get("summary", "")).split())
    need = " ".join(str(m.get("needs_to_manifest", "")).split())
    txt = (summ[:260] + ("…" if len(summ) > 260 else "")) + " **Needs:** " + (need[:200] + ("…" if len(need) > 200 else ""))
    txt = txt.replace("|", "\\|")
    for key, c in sorted(m.get("checks", {}).items()):
        pid, tier = key.split("/")
        if m.get("expected") == "no violation":
            res = "no alarm, exit 0 (correct: the property holds)" if c.get("rc") == 0 else "**false alarm** (rc=%s)" % c.get("rc")
        elif c.get("detected") and c.get("with_failing_input"):
            res = "VIOLATION with failing input"
        elif c.get("detected"):
            res = "VIOLATION, no-failing-input-found (tie theorem only)"
        else:
            res = "**missed** (rc=%s)" % c.get("rc")
        sm = (c.get("summary") or [""])[0]
        mm = re.search(r"correspondence (\d+) ops, (\d+) disagreement", sm)
        if mm:
            res += "; %s ops, %s disagreements, %ss" % (mm.group(1), mm.group(2), c.get("seconds"))
        q = m.get("quick_stream", {}).get(pid, "")
        rows.append("| %s%s | %s | %s | %s | %s |" % (name, "" if ver.get("ok") else " (unverified)", pid, txt, q, res))
        txt = "″"
p = os.path.join(V, "DESIGN.md")
s = open(p).read()
s = re.sub(r"<!-- SEEDED:BEGIN -->.*?<!-- SEEDED:END -->", lambda _m: "<!-- SEEDED:BEGIN -->\n" + "\n".join(rows) + "\n<!-- SEEDED:END -->", s, flags=re.S)
open(p, "w").write(s)
print(len(rows) - 2, "rows")
